package main

import (
	"fmt"
	"go/token"
	"go/types"
	"os"
	"regexp"
	"sort"
	"strings"

	"golang.org/x/tools/go/ssa"
)

// ---- C17.R6: whom the end of a race may cancel ---------------------------------------------------
//
// A log belongs to several groups (its operator group and the base group), and only one race ever
// asks it (C17.R1).  So a request that the race of group A started is still needed after A's race
// has returned — the base group may await exactly that SCT, and nobody will ask the log again.
// The clause of the property ("when enough compatible logs eventually answer and the caller does
// not cancel, it does report success") therefore needs two facts about the contexts of a race:
//
//   request-not-aborted   a request in flight is cancelled only by the caller's context, by the
//                         shared submission state (which cancels a log no group awaits any more),
//                         or by the very activation that made the request, after it was answered;
//   turn-not-abandoned    a log that waits for its turn is given up without being asked only when
//                         the caller cancelled, the race is over, or its group is complete.
//
// Both are facts about *which cancel function can run when*, so they are decided on the values:
// starting from the caller's context (the context.Context parameter of the race) every context
// derived from it inside the race is followed forwards — through locals, variables captured by
// function literals, parameters of module functions called with it, results returned to their
// call sites — to the calls that derive further contexts from it, to the requests made under it
// and to the waits on it; the cancel function that comes with a derivation is followed the same
// way to every place where it is called, deferred, handed to the shared state, or leaves sight.
// No name of a local, no count of WithCancel calls, no position of a defer takes part.
//
// The former form of the rule ("every WithCancel in groupRace has the caller's context as parent;
// groupRace defers no cancellation") was a frozen shape of the first fact: it forbade a per-race
// context that only the *waiting* goroutines listen to, which aborts nothing.

// c17Use: one thing done with a followed value where it leaves the flow.
type c17Use struct {
	in     ssa.Instruction
	kind   string // call | defer | go: the value itself is run; invoke: a method of it; arg: passed to a function that is not followed; state: handed to the shared submission state; store | send | return | addr | other
	callee string // invoke: the method; arg / state: the function
}

func (u c17Use) fn() *ssa.Function { return u.in.Parent() }

// c17Flow: everything that may hold one value.
type c17Flow struct {
	vals    map[ssa.Value]bool
	cells   map[ssa.Value]bool
	uses    []c17Use
	derives []ssa.CallInstruction // context.With…(v, …)
}

// c17CtxNode: a context of the race — the caller's, or one derived inside the race.
type c17CtxNode struct {
	make    ssa.CallInstruction // nil: the caller's context
	kind    string              // "caller" | WithCancel | WithTimeout | …
	parents []*c17CtxNode
	kids    []*c17CtxNode
	ctx     *c17Flow
	cancel  *c17Flow
}

type c17Ctx struct {
	r      *Run
	race   *ssa.Function
	stateT types.Type // type of the race's shared-state parameter (nil: unknown)
	mod    map[*ssa.Function]bool
	sites  map[*ssa.Function][]ssa.CallInstruction // static call / go / defer sites of module functions
	root   *c17CtxNode
	nodes  []*c17CtxNode // derived contexts, in discovery order
	byMake map[ssa.CallInstruction]*c17CtxNode
}

func newC17Ctx(r *Run, race *ssa.Function, stateT types.Type) *c17Ctx {
	e := &c17Ctx{r: r, race: race, stateT: stateT, mod: map[*ssa.Function]bool{}, sites: map[*ssa.Function][]ssa.CallInstruction{}, byMake: map[ssa.CallInstruction]*c17CtxNode{}}
	for _, fn := range r.P.ModFuncs {
		e.mod[fn] = true
	}
	for _, fn := range r.P.ModFuncs {
		eachInstr(fn, func(in ssa.Instruction) {
			if ci, ok := in.(ssa.CallInstruction); ok {
				if cal := c17Callee(ci.Common()); cal != nil && e.mod[cal] {
					e.sites[cal] = append(e.sites[cal], ci)
				}
			}
		})
	}
	return e
}

// c17Callee: the function a call runs — its static callee, or the one function literal that is
// ever stored in the local variable the call reads its function value from.
func c17Callee(c *ssa.CallCommon) *ssa.Function {
	if cal := c.StaticCallee(); cal != nil || c.IsInvoke() {
		return cal
	}
	ld, ok := c.Value.(*ssa.UnOp)
	if !ok || ld.Op != token.MUL {
		return nil
	}
	a, ok := ld.X.(*ssa.Alloc)
	if !ok || a.Referrers() == nil {
		return nil
	}
	var fn *ssa.Function
	for _, ref := range *a.Referrers() {
		switch x := ref.(type) {
		case *ssa.DebugRef:
		case *ssa.UnOp:
			if x.Op != token.MUL {
				return nil
			}
		case *ssa.Store:
			mc, isLit := x.Val.(*ssa.MakeClosure)
			if x.Addr != ssa.Value(a) || !isLit || fn != nil {
				return nil
			}
			fn, _ = mc.Fn.(*ssa.Function)
		default:
			return nil // captured or passed on: other writers are possible
		}
	}
	return fn
}

func c17IsContextDerivation(cal *ssa.Function) bool {
	return cal != nil && cal.Pkg != nil && cal.Pkg.Pkg.Path() == "context" && strings.HasPrefix(cal.Name(), "With")
}

// flow follows seed forwards.
func (e *c17Ctx) flow(seed ssa.Value) *c17Flow {
	f := &c17Flow{vals: map[ssa.Value]bool{}, cells: map[ssa.Value]bool{}}
	if seed == nil {
		return f
	}
	var visit, visitCell func(v ssa.Value)
	visit = func(v ssa.Value) {
		if v == nil || f.vals[v] {
			return
		}
		f.vals[v] = true
		refs := v.Referrers()
		if refs == nil {
			return
		}
		for _, in := range *refs {
			e.use(f, v, in, visit, visitCell)
		}
	}
	// a local variable (its address: the allocation, or the free variable a literal captured it by)
	visitCell = func(addr ssa.Value) {
		if f.cells[addr] {
			return
		}
		f.cells[addr] = true
		refs := addr.Referrers()
		if refs == nil {
			return
		}
		for _, in := range *refs {
			switch x := in.(type) {
			case *ssa.DebugRef:
			case *ssa.UnOp:
				if x.Op == token.MUL && x.X == addr {
					visit(x)
				}
			case *ssa.Store:
				if x.Val == addr {
					f.uses = append(f.uses, c17Use{in: in, kind: "addr"})
				}
			case *ssa.MakeClosure:
				if cf, ok := x.Fn.(*ssa.Function); ok {
					for i, b := range x.Bindings {
						if b == addr && i < len(cf.FreeVars) {
							visitCell(cf.FreeVars[i])
						}
					}
				}
			default:
				f.uses = append(f.uses, c17Use{in: in, kind: "addr"})
			}
		}
	}
	visit(seed)
	return f
}

func (e *c17Ctx) use(f *c17Flow, v ssa.Value, in ssa.Instruction, visit, visitCell func(ssa.Value)) {
	switch x := in.(type) {
	case *ssa.DebugRef, *ssa.BinOp:
	case *ssa.Store:
		if x.Val != v {
			return
		}
		switch x.Addr.(type) {
		case *ssa.Alloc, *ssa.FreeVar:
			visitCell(x.Addr)
		default:
			f.uses = append(f.uses, c17Use{in: in, kind: "store", callee: e.r.D.D(x.Addr)})
		}
	case *ssa.Phi:
		visit(x)
	case *ssa.ChangeType:
		visit(x)
	case *ssa.ChangeInterface:
		visit(x)
	case *ssa.MakeInterface:
		visit(x)
	case *ssa.Convert:
		visit(x)
	case *ssa.TypeAssert:
		if x.CommaOk {
			f.uses = append(f.uses, c17Use{in: in, kind: "other"})
		} else {
			visit(x)
		}
	case *ssa.MakeClosure:
		if cf, ok := x.Fn.(*ssa.Function); ok {
			for i, b := range x.Bindings {
				if b == v && i < len(cf.FreeVars) {
					visit(cf.FreeVars[i])
				}
			}
		}
	case *ssa.Return:
		fn := x.Parent()
		sites := e.sites[fn]
		if fn == e.race || len(sites) == 0 {
			f.uses = append(f.uses, c17Use{in: in, kind: "return"})
			return
		}
		for i, res := range x.Results {
			if res != v {
				continue
			}
			for _, s := range sites {
				call, ok := s.(*ssa.Call)
				if !ok {
					continue
				}
				if len(x.Results) == 1 {
					visit(call)
					continue
				}
				if refs := call.Referrers(); refs != nil {
					for _, ref := range *refs {
						if ex, ok := ref.(*ssa.Extract); ok && ex.Index == i {
							visit(ex)
						}
					}
				}
			}
		}
	case *ssa.Send:
		if x.X == v {
			f.uses = append(f.uses, c17Use{in: in, kind: "send"})
		}
	case *ssa.Select:
		for _, st := range x.States {
			if st.Send == v {
				f.uses = append(f.uses, c17Use{in: in, kind: "send"})
			}
		}
	case *ssa.MapUpdate:
		f.uses = append(f.uses, c17Use{in: in, kind: "store", callee: e.r.D.D(x.Map)})
	case ssa.CallInstruction:
		c := x.Common()
		how := "call"
		switch in.(type) {
		case *ssa.Go:
			how = "go"
		case *ssa.Defer:
			how = "defer"
		}
		if c.Value == v {
			if c.IsInvoke() {
				f.uses = append(f.uses, c17Use{in: in, kind: "invoke", callee: c.Method.Name()})
			} else {
				f.uses = append(f.uses, c17Use{in: in, kind: how})
			}
		}
		for i, a := range c.Args {
			if a != v {
				continue
			}
			cal := c17Callee(c)
			switch {
			case c17IsContextDerivation(cal) && i == 0:
				f.derives = append(f.derives, x)
			case cal != nil && e.mod[cal] && e.isStateMethod(cal):
				f.uses = append(f.uses, c17Use{in: in, kind: "state", callee: FuncName(cal)})
			case cal != nil && e.mod[cal] && len(cal.Blocks) > 0 && i < len(cal.Params):
				visit(cal.Params[i])
			default:
				f.uses = append(f.uses, c17Use{in: in, kind: "arg", callee: CalleeOf(x)})
			}
		}
	default:
		f.uses = append(f.uses, c17Use{in: in, kind: "other"})
	}
}

// isStateMethod: a method of the type of the race's shared submission state.
func (e *c17Ctx) isStateMethod(cal *ssa.Function) bool {
	if e.stateT == nil || cal.Signature == nil || cal.Signature.Recv() == nil {
		return false
	}
	return types.Identical(cal.Signature.Recv().Type(), e.stateT)
}

// build: the contexts derived, directly or indirectly, from the caller's context.
func (e *c17Ctx) build(caller ssa.Value) {
	e.root = &c17CtxNode{kind: "caller", ctx: e.flow(caller), cancel: e.flow(nil)}
	work := []*c17CtxNode{e.root}
	for len(work) > 0 {
		n := work[0]
		work = work[1:]
		for _, mk := range n.ctx.derives {
			k := e.byMake[mk]
			if k == nil {
				k = &c17CtxNode{make: mk, kind: mk.Common().StaticCallee().Name()}
				var ctxSeed, cancelSeed ssa.Value
				if res := mk.Value(); res != nil {
					if _, isTuple := res.Type().(*types.Tuple); isTuple {
						ctxSeed, cancelSeed = CallResult(mk, 0), CallResult(mk, 1)
					} else {
						ctxSeed = res
					}
				}
				k.ctx, k.cancel = e.flow(ctxSeed), e.flow(cancelSeed)
				e.byMake[mk] = k
				e.nodes = append(e.nodes, k)
				work = append(work, k)
			}
			known := false
			for _, p := range k.parents {
				known = known || p == n
			}
			if !known {
				k.parents = append(k.parents, n)
				n.kids = append(n.kids, k)
			}
		}
	}
}

// descr names a context by how it is derived — no local name, no numbering.
func (e *c17Ctx) descr(n *c17CtxNode) string { return e.descrSeen(n, map[*c17CtxNode]bool{}) }

func (e *c17Ctx) descrSeen(n *c17CtxNode, seen map[*c17CtxNode]bool) string {
	if n == e.root {
		return "caller"
	}
	if seen[n] {
		return "…"
	}
	seen[n] = true
	var ps []string
	for _, p := range n.parents {
		ps = append(ps, e.descrSeen(p, seen))
	}
	sort.Strings(ps)
	return n.kind + "(" + strings.Join(ps, "|") + ")"
}

// ancestors: the derived contexts n descends from (n included, the caller's context excluded).
func (e *c17Ctx) ancestors(ns []*c17CtxNode) map[*c17CtxNode]bool {
	out := map[*c17CtxNode]bool{}
	var up func(n *c17CtxNode)
	up = func(n *c17CtxNode) {
		if n == e.root || out[n] {
			return
		}
		out[n] = true
		for _, p := range n.parents {
			up(p)
		}
	}
	for _, n := range ns {
		up(n)
	}
	return out
}

// subtree: n and every context derived from it (cancelling n cancels them all).
func (e *c17Ctx) subtree(n *c17CtxNode) []*c17CtxNode {
	seen := map[*c17CtxNode]bool{}
	var out []*c17CtxNode
	var down func(n *c17CtxNode)
	down = func(n *c17CtxNode) {
		if seen[n] {
			return
		}
		seen[n] = true
		out = append(out, n)
		for _, k := range n.kids {
			down(k)
		}
	}
	down(n)
	return out
}

func c17IsRequest(u c17Use) bool {
	return u.kind == "arg" && strings.HasPrefix(u.callee, "iface(submission.Submitter).")
}

func c17IsWait(u c17Use) bool { return u.kind == "invoke" && u.callee == "Done" }

// usesBelow: the uses, selected by pick, of the contexts cancelled together with n.
func (e *c17Ctx) usesBelow(n *c17CtxNode, pick func(c17Use) bool) []c17Use {
	var out []c17Use
	for _, k := range e.subtree(n) {
		for _, u := range k.ctx.uses {
			if pick(u) {
				out = append(out, u)
			}
		}
	}
	return out
}

// syncWithin: every activation of fu runs inside an activation of f and has returned when that
// one goes on (fu is f, or is only ever *called* — not started with go, not deferred — from such
// functions).
func (e *c17Ctx) syncWithin(fu, f *ssa.Function, depth int) bool {
	if fu == f {
		return true
	}
	sites := e.sites[fu]
	if len(sites) == 0 || depth > 8 {
		return false
	}
	for _, s := range sites {
		if _, plain := s.(*ssa.Call); !plain {
			return false
		}
		if !e.syncWithin(s.Parent(), f, depth+1) {
			return false
		}
	}
	return true
}

// c17Recurs: control can come back to block b after leaving it without executing instruction
// fresh (nil: at all).
func c17Recurs(b *ssa.BasicBlock, fresh ssa.Instruction) bool {
	seen := map[*ssa.BasicBlock]bool{}
	work := append([]*ssa.BasicBlock{}, b.Succs...)
	for len(work) > 0 {
		c := work[len(work)-1]
		work = work[:len(work)-1]
		if seen[c] {
			continue
		}
		seen[c] = true
		if c == b {
			return true
		}
		if fresh != nil && c == fresh.Block() {
			continue
		}
		work = append(work, c.Succs...)
	}
	return false
}

func c17Before(a, b ssa.Instruction) bool {
	for _, in := range a.Block().Instrs {
		if in == a {
			return true
		}
		if in == b {
			return false
		}
	}
	return false
}

// private: every activation of f sees a context n of its own — n is made in f, or in the function
// that starts f at a single place which cannot be passed twice without n being made anew.
func (e *c17Ctx) private(n *c17CtxNode, f *ssa.Function) bool {
	g := n.make.Parent()
	cur := f
	for depth := 0; depth < 8; depth++ {
		if cur == g {
			return true
		}
		sites := e.sites[cur]
		if len(sites) != 1 {
			return false
		}
		s := sites[0]
		if s.Parent() == g {
			if s.Block() == n.make.Block() {
				return c17Before(n.make, s)
			}
			return !c17Recurs(s.Block(), n.make)
		}
		if c17Recurs(s.Block(), nil) {
			return false
		}
		cur = s.Parent()
	}
	return false
}

// reachesAfter: an instruction of targets can execute after instruction from, in the same
// activation, before the context is made anew by fresh.
func c17ReachesAfter(from ssa.Instruction, targets map[ssa.Instruction]bool, fresh ssa.Instruction) ssa.Instruction {
	scan := func(ins []ssa.Instruction) (hit ssa.Instruction, stop bool) {
		for _, in := range ins {
			if in == fresh {
				return nil, true
			}
			if targets[in] {
				return in, false
			}
		}
		return nil, false
	}
	b := from.Block()
	for i, in := range b.Instrs {
		if in == from {
			hit, stop := scan(b.Instrs[i+1:])
			if hit != nil {
				return hit
			}
			if stop {
				return nil
			}
		}
	}
	seen := map[*ssa.BasicBlock]bool{}
	work := append([]*ssa.BasicBlock{}, b.Succs...)
	for len(work) > 0 {
		c := work[len(work)-1]
		work = work[:len(work)-1]
		if seen[c] {
			continue
		}
		seen[c] = true
		hit, stop := scan(c.Instrs)
		if hit != nil {
			return hit
		}
		if !stop {
			work = append(work, c.Succs...)
		}
	}
	return nil
}

// requestSites: the instructions that make a request under one of uses' contexts — the requests
// themselves and the calls of module functions that lead to them.
func (e *c17Ctx) requestSites(uses []c17Use) map[ssa.Instruction]bool {
	out := map[ssa.Instruction]bool{}
	fns := map[*ssa.Function]bool{}
	var work []*ssa.Function
	for _, u := range uses {
		out[u.in] = true
		if !fns[u.fn()] {
			fns[u.fn()] = true
			work = append(work, u.fn())
		}
	}
	for len(work) > 0 {
		fn := work[len(work)-1]
		work = work[:len(work)-1]
		for _, s := range e.sites[fn] {
			out[s] = true
			if p := s.Parent(); !fns[p] {
				fns[p] = true
				work = append(work, p)
			}
		}
	}
	return out
}

// guardedByComplete: instruction in executes only after groupComplete() of the shared state
// returned true (the race's group needs nothing more).
func (e *c17Ctx) guardedByComplete(in ssa.Instruction) bool {
	fn := in.Parent()
	for _, b := range fn.Blocks {
		ifi, ok := b.Instrs[len(b.Instrs)-1].(*ssa.If)
		if !ok {
			continue
		}
		cond, edge := ifi.Cond, 0
		if u, ok := cond.(*ssa.UnOp); ok && u.Op == token.NOT {
			cond, edge = u.X, 1
		}
		call, ok := cond.(*ssa.Call)
		if !ok || !glob("(*submission.safeSubmissionState).groupComplete", CalleeOf(call)) {
			continue
		}
		if edgeDominates(b, edge, in.Block()) {
			return true
		}
	}
	return false
}

var c17Counter = regexp.MustCompile(`it@\d+`)

// c17ContextsOfARace is C17.R6.
func c17ContextsOfARace(r *Run) {
	race := r.Fn("submission.groupRace")
	if race == nil {
		return
	}
	ci := paramOfType(race, func(t types.Type) bool { return types.TypeString(t, nil) == "context.Context" })
	if ci < 0 {
		r.Fail("groupRace:request-context.origin", r.FnPos(race), "undecided: groupRace has no single context.Context parameter (the caller's context)")
		return
	}
	var stateT types.Type
	if si, _ := c17RaceParams(r); si >= 0 {
		stateT = race.Params[si].Type()
	}
	e := newC17Ctx(r, race, stateT)
	e.build(race.Params[ci])
	r.Assume("a cancel function handed to the shared submission state is run by it only for a log that no group awaits any more (the sweep of setResult; its condition is not decided)")
	r.Assume("a context is cancelled only through the cancel function of the derivation that made it or of a context it descends from (package context)")

	// 1. every request of the module runs under a context of the race that was followed from the caller's
	holders := func(v ssa.Value) []*c17CtxNode {
		var out []*c17CtxNode
		for _, n := range append([]*c17CtxNode{e.root}, e.nodes...) {
			if n.ctx.vals[v] {
				out = append(out, n)
			}
		}
		return out
	}
	var reqNodes []*c17CtxNode
	nReq := 0
	callers := r.CallersOf("iface(submission.Submitter).SubmitToLog")
	for _, k := range keysOf(callers) {
		for _, sc := range callers[k] {
			for _, a := range CallArgs(sc) {
				if types.TypeString(a.Type(), nil) != "context.Context" {
					continue
				}
				hs := holders(a)
				var names []string
				for _, h := range hs {
					names = append(names, e.descr(h))
					reqNodes = append(reqNodes, h)
				}
				if len(hs) > 0 {
					nReq++
				}
				r.Check("groupRace:request-context.origin@"+k, len(hs) > 0, r.Where(sc), fmt.Sprintf("the request runs under a context derived inside the race from the caller's context: %s (%s)", strings.Join(names, ", "), r.D.D(a)))
			}
		}
	}
	r.Floor("requests whose context was followed back to the caller's context", nReq, 1)

	reqAnc := e.ancestors(reqNodes)
	var waitNodes []*c17CtxNode
	for _, n := range e.nodes {
		for _, u := range n.ctx.uses {
			if c17IsWait(u) {
				waitNodes = append(waitNodes, n)
				break
			}
		}
	}
	waitAnc := e.ancestors(waitNodes)

	for _, n := range e.nodes {
		role, clause := "", ""
		switch {
		case reqAnc[n]:
			role, clause = "request", "request-not-aborted"
		case waitAnc[n]:
			role, clause = "wait", "turn-not-abandoned"
		default:
			continue
		}
		d := e.descr(n)
		where := r.Where(n.make)
		// how the context is derived
		switch n.kind {
		case "WithCancel", "WithCancelCause", "WithValue":
			r.Pass("groupRace:"+clause+":"+d+".derivation", where, "derived by context."+n.kind+": ends with its parent or by its own cancel function only")
		case "WithTimeout", "WithDeadline", "WithTimeoutCause", "WithDeadlineCause":
			if role == "request" {
				r.Fail("groupRace:"+clause+":"+d+".derivation", where, "the request context carries a deadline of the race's own (context."+n.kind+"): a log that answers after it is booked as failed although the caller did not cancel and the log would have answered")
			} else {
				r.Fail("groupRace:"+clause+":"+d+".derivation", where, "the context a log waits for its turn on carries a deadline of the race's own (context."+n.kind+"): a log whose turn comes later is never asked")
			}
		default:
			r.Fail("groupRace:"+clause+":"+d+".derivation", where, "undecided: context."+n.kind+" is not a derivation whose cancellation behaviour the rule knows")
		}
		// every place the cancel function gets to
		for _, u := range n.cancel.uses {
			e.judgeCancel(n, u, role, clause, d)
		}
	}

	// 2. when a race returns
	c17RaceEnds(e)

	if os.Getenv("CTVERIF_C17CTX") != "" {
		for _, o := range r.Obls {
			if o.Rule == r.curRule {
				fmt.Fprintf(os.Stderr, "C17CTX %v %s @%s: %s\n", o.OK, o.Key, o.Where, o.Detail)
			}
		}
	}
}

func (e *c17Ctx) judgeCancel(n *c17CtxNode, u c17Use, role, clause, d string) {
	r := e.r
	f := u.fn()
	key := "groupRace:" + clause + ":" + d + "." + u.kind + "@" + FuncName(f)
	where := r.Where(u.in)
	what := "the cancel function of " + d
	var below []c17Use
	var doing string
	if role == "request" {
		below, doing = e.usesBelow(n, c17IsRequest), "request"
	} else {
		below, doing = e.usesBelow(n, c17IsWait), "wait"
	}
	elsewhere := func() (string, bool) {
		for _, b := range below {
			if !e.syncWithin(b.fn(), f, 0) {
				how := "is not only called from there"
				for _, s := range e.sites[b.fn()] {
					if _, isGo := s.(*ssa.Go); isGo {
						how = "is started with go at " + r.Where(s)
					}
				}
				return fmt.Sprintf("the %s at %s is made by %s, which %s", doing, r.Where(b.in), FuncName(b.fn()), how), true
			}
		}
		return "", false
	}
	switch u.kind {
	case "state":
		r.Pass(key, where, what+" is handed to the shared submission state ("+u.callee+"), which cancels a log that no group awaits")
	case "call", "defer":
		when := "is called"
		if u.kind == "defer" {
			when = "is deferred (it runs when the function returns)"
		}
		if role == "request" {
			if other, yes := elsewhere(); yes {
				r.Fail(key, where, fmt.Sprintf("%s %s in %s, but %s — the request may be in flight then, and its log may be awaited by another group that nobody will ask again (the log stays marked as requested)", what, when, FuncName(f), other))
				return
			}
			if !e.private(n, f) {
				r.Fail(key, where, fmt.Sprintf("%s %s in %s, but that context is shared by several activations of %s: the requests of the other logs may be in flight", what, when, FuncName(f), FuncName(f)))
				return
			}
			if u.kind == "call" {
				if hit := c17ReachesAfter(u.in, e.requestSites(below), n.make); hit != nil {
					r.Fail(key, where, fmt.Sprintf("%s is called in %s on a way to the request at %s: the request is cancelled before it is answered", what, FuncName(f), r.Where(hit)))
					return
				}
				r.Pass(key, where, what+" is called where the activation's own request can no longer follow")
				return
			}
			r.Pass(key, where, what+" runs when the activation that made the request returns, i.e. after the request was answered")
			return
		}
		// a context that logs only wait on
		if _, yes := elsewhere(); !yes && e.private(n, f) {
			r.Pass(key, where, what+" is run by the only activation that waits on it")
			return
		}
		if u.kind == "defer" && f == e.race {
			r.Pass(key, where, what+" runs when the race returns: logs still waiting for their turn are released (when a race may return: race-ends)")
			return
		}
		if u.kind == "call" && e.guardedByComplete(u.in) {
			r.Pass(key, where, what+" is called only after groupComplete() returned true")
			return
		}
		other, _ := elsewhere()
		if other == "" {
			other = "the context is shared by several activations"
		}
		r.Fail(key, where, fmt.Sprintf("%s %s in %s while logs may still wait for their turn on it (%s): they return without being asked although the caller did not cancel, the race is not over and its group is not known to be complete", what, when, FuncName(f), other))
	default:
		how := u.kind
		if u.callee != "" {
			how += " " + u.callee
		}
		r.Fail(key, where, fmt.Sprintf("undecided: %s leaves sight in %s (%s): who runs it, and when, is not known — a %s under it may be cut short", what, FuncName(f), how, doing))
	}
}

// c17RaceEnds: a race returns only when the caller cancelled, its group is complete, or the loop
// that receives one event per started log has run to its end.  (Contexts cancelled "when the race
// returns" release the logs still waiting for their turn: before that point they must be asked.)
func c17RaceEnds(e *c17Ctx) {
	r, fn := e.r, e.race
	r.Assume("every per-log goroutine of a race sends exactly one event to the race's counting loop (termination of the race is not decided)")
	// the loops that start goroutines, by what they range over
	started := map[string]bool{}
	eachInstr(fn, func(in ssa.Instruction) {
		if _, ok := in.(*ssa.Go); ok {
			if h := LoopHeadOf(in.Block()); h != nil {
				if ifi, ok := h.Instrs[len(h.Instrs)-1].(*ssa.If); ok {
					started[c17Counter.ReplaceAllString(r.D.D(ifi.Cond), "it")] = true
				}
			}
		}
	})
	isCallerDone := func(ch ssa.Value) bool {
		c, ok := ch.(*ssa.Call)
		return ok && c.Common().IsInvoke() && c.Common().Method.Name() == "Done" && e.root.ctx.vals[c.Common().Value]
	}
	reason := func(ret *ssa.Return) string {
		b := ret.Block()
		// group complete
		if e.guardedByComplete(ret) {
			return "group-complete"
		}
		for _, d := range fn.Blocks {
			ifi, ok := d.Instrs[len(d.Instrs)-1].(*ssa.If)
			if !ok {
				continue
			}
			// the caller cancelled: the select case that received from its Done(), or Err() != nil
			if bo, ok := ifi.Cond.(*ssa.BinOp); ok {
				for _, pair := range [][2]ssa.Value{{bo.X, bo.Y}, {bo.Y, bo.X}} {
					k, isConst := pair[0].(*ssa.Const)
					if ex, isEx := pair[1].(*ssa.Extract); isConst && isEx && ex.Index == 0 && bo.Op == token.EQL {
						if sel, ok := ex.Tuple.(*ssa.Select); ok {
							if idx := c17ConstInt(k); idx >= 0 && idx < len(sel.States) && sel.States[idx].Dir == types.RecvOnly && isCallerDone(sel.States[idx].Chan) && edgeDominates(d, 0, b) {
								return "caller-cancelled"
							}
						}
					}
					if c, isCall := pair[1].(*ssa.Call); isConst && isCall && k.IsNil() && bo.Op == token.NEQ && c.Common().IsInvoke() && c.Common().Method.Name() == "Err" && e.root.ctx.vals[c.Common().Value] && edgeDominates(d, 0, b) {
						return "caller-cancelled"
					}
				}
			}
			// all counted: the exit of a loop over what the starting loop ranges over, each round of which receives an event
			if IsLoopHeader(d) && LoopHeadOf(b) == nil && started[c17Counter.ReplaceAllString(r.D.D(ifi.Cond), "it")] {
				loop := loopBlocksOf(d)
				for k, s := range d.Succs {
					if loop[s] || !edgeDominates(d, k, b) {
						continue
					}
					if c17EveryRoundReceives(d, loop, isCallerDone) {
						return "all-counted"
					}
				}
			}
		}
		return ""
	}
	n := 0
	for _, ret := range Returns(fn) {
		if ret.Block() == fn.Recover || ret.Block().Comment == "recover" {
			continue
		}
		n++
		why := reason(ret)
		if why == "" {
			r.Fail("groupRace:race-ends[premature]", r.Where(ret), "the race can return here while the caller has not cancelled, its group is not known to be complete and logs of its session have not reported: requests it started are no longer awaited by GetSCTs, and logs waiting for their turn on a context of the race are never asked")
			continue
		}
		r.Pass("groupRace:race-ends["+why+"]", r.Where(ret), "the race returns: "+why)
	}
	r.Check("groupRace:race-ends", n > 0, r.FnPos(fn), fmt.Sprintf("%d returns of the race examined", n))
}

// c17ConstInt: the value of a small non-negative integer constant, -1 otherwise.
func c17ConstInt(k *ssa.Const) int {
	if k == nil || k.Value == nil || !isNumeric(k.Type()) {
		return -1
	}
	if b, ok := k.Type().Underlying().(*types.Basic); !ok || b.Info()&types.IsInteger == 0 {
		return -1
	}
	v := k.Int64()
	if v < 0 || v > 1<<20 {
		return -1
	}
	return int(v)
}

// c17EveryRoundReceives: every way round the loop with header h passes a receive from a channel
// other than the caller's Done() — a plain receive, or the case of a blocking select that received.
func c17EveryRoundReceives(h *ssa.BasicBlock, loop map[*ssa.BasicBlock]bool, isCallerDone func(ssa.Value) bool) bool {
	received := map[*ssa.BasicBlock]bool{}
	for b := range loop {
		for _, in := range b.Instrs {
			if x, ok := in.(*ssa.UnOp); ok && x.Op == token.ARROW && !isCallerDone(x.X) {
				received[b] = true
			}
		}
		ifi, ok := b.Instrs[len(b.Instrs)-1].(*ssa.If)
		if !ok {
			continue
		}
		bo, ok := ifi.Cond.(*ssa.BinOp)
		if !ok || bo.Op != token.EQL {
			continue
		}
		for _, pair := range [][2]ssa.Value{{bo.X, bo.Y}, {bo.Y, bo.X}} {
			k, isConst := pair[0].(*ssa.Const)
			ex, isEx := pair[1].(*ssa.Extract)
			if !isConst || !isEx || ex.Index != 0 {
				continue
			}
			sel, ok := ex.Tuple.(*ssa.Select)
			if !ok || !sel.Blocking {
				continue
			}
			if idx := c17ConstInt(k); idx >= 0 && idx < len(sel.States) && sel.States[idx].Dir == types.RecvOnly && !isCallerDone(sel.States[idx].Chan) && len(b.Succs[0].Preds) == 1 {
				received[b.Succs[0]] = true
			}
		}
	}
	// a cycle through h that avoids every block entered with an event received?
	if received[h] {
		return true
	}
	seen := map[*ssa.BasicBlock]bool{}
	var work []*ssa.BasicBlock
	for _, s := range h.Succs {
		work = append(work, s)
	}
	for len(work) > 0 {
		b := work[len(work)-1]
		work = work[:len(work)-1]
		if !loop[b] {
			continue
		}
		if b == h {
			return false
		}
		if seen[b] || received[b] {
			continue
		}
		seen[b] = true
		work = append(work, b.Succs...)
	}
	return true
}
