package main

import (
	"fmt"
	"os"

	"golang.org/x/tools/go/ssa"
)

func init() {
	register("C01", "Decides structural necessary conditions of 'an issued SCT binds the submitted entry, the stored leaf and the log key': "+
		"(R1) add-chain builds the SCT from the MerkleTreeLeaf decoded from the leaf the backend returned (duplicate ⇒ stored timestamp), hands the backend the leaf built from the validated chain, and add-chain/add-pre-chain bind entry types X509/Precert; "+
		"(R2) IssueSCT and the response writer are unreachable on every fault edge (must-pass-through of each success test); "+
		"(R3) buildV1SCT signs SHA-256 of SerializeSCTSignatureInput over the leaf's timestamp/extensions/entry, and the returned SCT carries those same fields, the log ID of the signer's public key and the algorithm pair (SHA256, key's algorithm); "+
		"(R4) GetCTLogID = SHA-256 of the PKIX public key; the JSON response copies the fields of the SCT buildV1SCT returned (handed over untouched) and carries that ID — recomputed from the log's signer, or read from the LogID of that very SCT, which buildV1SCT set from GetCTLogID(signer.Public()) on every success return; "+
		"(R5) the backend leaf is {LeafValue = tls.Marshal(merkle leaf), LeafIdentityHash = SHA-256 of the leaf certificate DER, ExtraData = chain structure for the entry type}; which structure, as a table over (chain nil?, chain hash nil?) for every combination the callers of buildLogLeaf can produce, however the selection is spelled: no chain hash ⇒ the chain structure over the chain given, nil or not (a certificate without issuers is stored as the empty chain), a chain hash and no chain ⇒ the hash structure, both ⇒ either; "+
		"(R6) the chain service hands the whole validated path (root included) to the leaf builder: cert = ASN1Cert{Data: chain[0].Raw} and a list of len(chain) − 1 issuers whose element k is ASN1Cert{Data: chain[k+1].Raw} — decided on list images (make + one indexed store per round of a counting loop, or exactly one append per round to a list that starts empty, or a module helper returning such an image of its parameter, or s[c:] of one; loop start, bound, index read and index written as affine forms of the loop's own counter; no early exit, no round without its element, the list not stored to or handed elsewhere before it is used), so a conversion of the whole chain resliced afterwards and a loop over chain[1:] are the same fact; "+
		"(R7) MerkleTreeLeafFromChain: X509 ⇒ chain[0].Raw; precert ⇒ BuildPrecertTBS(chain[0].RawTBSCertificate, preIssuer) and SHA-256 of the final issuer's SPKI (chain[2] when chain[1] is a pre-issuer), unknown type ⇒ error; timestamps are ns/1e6; "+
		"(R8) QueueLeaf / IssueSCT / buildV1SCT / Signer.Sign have no other callers; "+
		"(R12) the entry is derived from the data that was validated: from verifyAddChain's return (for the submitted bytes: from ParseBodyAsJSONChain's) until the last call from which the LogLeaf handed to QueueLeaf is computed, nothing writes the validated chain, the certificates it points to or their byte strings — no store, no append to a shortened view (s[:0], s[i:j]), no copy/clear/delete, no library function that writes its argument (sort.Slice, slices.Reverse/DeleteFunc, …), no module function reached directly, through an interface (all module implementations), a function value or a function literal that does so to its parameter at any depth (parameter-mutation summaries, fixed point over the calls below addChainInternal) — and the reading calls themselves only read it; likewise (R1) the leaf decoded from the backend's reply between its decode and buildV1SCT, and (R5) the inputs of buildLogLeaf. Writes after the last read (and deferred ones) are allowed. "+
		"NOT covered: that signatures verify (crypto), for R5 which structure wins when both a chain and a chain hash are handed in and what an empty non-nil hash selects, for R6 elements built by a helper per element or copied byte-wise (undecided, fails),  the derived entry for all PKI shapes (structural part in C03/C04), backend de-duplication; for R12: writes through reflect/unsafe, through references retained in memory that outlives a call (a field of a parameter, a global, a channel) and by library functions not known to write their arguments; data races with goroutines started elsewhere.",
		runC01)
}

func runC01(r *Run) {
	r.Assume("the backend's QueueLeaf reply echoes the stored leaf for duplicates (Trillian contract)")
	r.Assume("crypto.Signer.Sign and crypto/sha256 behave per their documentation")
	qerr := "nil?iface(trillian.TrillianLogClient).QueueLeaf(*)#1"

	r.Rule("C01.R1")
	if fn := r.Fn("trillian/ctfe.addChainInternal"); fn != nil {
		c01ReturnedLeaf(r, fn)
		if c := r.OneCall(fn, "addChainInternal:QueueLeaf", "iface(trillian.TrillianLogClient).QueueLeaf"); c != nil {
			r.ExpectArg(c, "addChainInternal:QueueLeaf.client", 0, "p1.rpcClient")
			r.ExpectFields(fn, "addChainInternal:QueueLeafRequest", CallArgs(c)[2], map[string]string{
				"LogId": "p1.logID",
				"Leaf":  "(*trillian/ctfe.logInfo).buildLeaf(*)#0",
			})
		}
		if c := r.OneCall(fn, "addChainInternal:buildLeaf", "(*trillian/ctfe.logInfo).buildLeaf"); c != nil {
			r.ExpectArg(c, "addChainInternal:buildLeaf.chain", 2, "trillian/ctfe.verifyAddChain(*)#0")
			r.ExpectArg(c, "addChainInternal:buildLeaf.merkleLeaf", 3, "ct.MerkleTreeLeafFromChain(*)#0")
			r.ExpectArg(c, "addChainInternal:buildLeaf.isPrecert", 4, "p4")
		}
		if c := r.OneCall(fn, "addChainInternal:MerkleTreeLeafFromChain", "ct.MerkleTreeLeafFromChain"); c != nil {
			r.ExpectArg(c, "addChainInternal:leaf.chain", 0, "trillian/ctfe.verifyAddChain(*)#0")
			r.ExpectArg(c, "addChainInternal:leaf.time-ms", 2, "((time.Time).UnixNano(iface(trillian/util.TimeSource).Now(*)) / 1000000)")
			r.Check("addChainInternal:etype[precert]", r.ArgUnder(fn, c, 1, Sigma{"p4": "T"}) == "1", r.Where(c), "isPrecert ⇒ entry type "+r.ArgUnder(fn, c, 1, Sigma{"p4": "T"})+" (PrecertLogEntryType=1)")
			r.Check("addChainInternal:etype[x509]", r.ArgUnder(fn, c, 1, Sigma{"p4": "F"}) == "0", r.Where(c), "!isPrecert ⇒ entry type "+r.ArgUnder(fn, c, 1, Sigma{"p4": "F"})+" (X509LogEntryType=0)")
		}
		if c := r.OneCall(fn, "addChainInternal:verifyAddChain", "trillian/ctfe.verifyAddChain"); c != nil {
			r.ExpectArg(c, "addChainInternal:verify.expectingPrecert", 2, "p4")
		}
		if c := r.OneCall(fn, "addChainInternal:response", c01WriterName); c != nil {
			// the SCT handed to the writer is buildV1SCT's, untouched; the key it names is the log's
			// (parameters found by what they are, see rules_t5c01.go)
			c01ResponseCall(r, fn, c)
		}
		if c := r.OneCall(fn, "addChainInternal:IssueSCT", "iface(trillian/ctfe.RequestLog).IssueSCT"); c != nil {
			r.ExpectArg(c, "addChainInternal:IssueSCT.bytes", 2, "tls.Marshal(*trillian/ctfe.buildV1SCT(*)#0)#0")
		}

		r.Rule("C01.R2")
		markers := asInstrs(CallsTo(fn, "iface(trillian/ctfe.RequestLog).IssueSCT"))
		markers = append(markers, asInstrs(CallsTo(fn, "trillian/ctfe.marshalAndWriteAddChainResponse"))...)
		for _, g := range [][3]string{
			{"body", "nil?trillian/ctfe.ParseBodyAsJSONChain(p3)#1", "non"},
			{"chain", "nil?trillian/ctfe.verifyAddChain(*)#1", "non"},
			{"leaf", "nil?ct.MerkleTreeLeafFromChain(*)#1", "non"},
			{"logleaf", "nil?(*trillian/ctfe.logInfo).buildLeaf(*)#1", "non"},
			{"backend-error", qerr, "non"},
			{"reply-nil", "nil?iface(trillian.TrillianLogClient).QueueLeaf(*)#0", "nil"},
			{"queued-leaf-nil", "nil?iface(trillian.TrillianLogClient).QueueLeaf(*)#0.QueuedLeaf", "nil"},
			{"decode-error", "nil?tls.Unmarshal(*QueuedLeaf*)#1", "non"},
			{"trailing-bytes", "ord(0, len(tls.Unmarshal(*)#0))", "<"},
			{"sct-error", "nil?trillian/ctfe.buildV1SCT(*)#1", "non"},
			{"sct-marshal-error", "nil?tls.Marshal(*buildV1SCT*)#1", "non"},
		} {
			r.MustGuard(fn, "addChainInternal:gate["+g[0]+"]", g[1], g[2], markers, "IssueSCT / response write")
		}
	}
	r.Rule("C01.R1")
	if fn := r.Fn("trillian/ctfe.addChain"); fn != nil {
		if c := r.OneCall(fn, "addChain", "trillian/ctfe.addChainInternal"); c != nil {
			r.ExpectArg(c, "addChain:isPrecert", 4, "false")
		}
	}
	if fn := r.Fn("trillian/ctfe.addPreChain"); fn != nil {
		if c := r.OneCall(fn, "addPreChain", "trillian/ctfe.addChainInternal"); c != nil {
			r.ExpectArg(c, "addPreChain:isPrecert", 4, "true")
		}
	}
	if fn := r.Fn("(*trillian/ctfe.logInfo).buildLeaf"); fn != nil {
		if c := r.OneCall(fn, "buildLeaf", "iface(trillian/ctfe.leafChainBuilder).BuildLogLeaf"); c != nil {
			r.ExpectArg(c, "buildLeaf:chain", 2, "p2")
			r.ExpectArg(c, "buildLeaf:merkleLeaf", 4, "p3")
			r.ExpectArg(c, "buildLeaf:isPrecert", 5, "p4")
		}
	}
	if c := r.P.LookupConst("trillian/ctfe.millisPerNano"); c == nil || c.Val().ExactString() != "1000000" {
		r.Fail("millisPerNano", "-", "constant millisPerNano is not 1000000")
	} else {
		r.Pass("millisPerNano", r.P.Pos(c.Pos()), "millisPerNano = 1000000 (ns → ms)")
	}

	r.Rule("C01.R3")
	if fn := r.Fn("trillian/ctfe.buildV1SCT"); fn != nil {
		ser := r.OneCall(fn, "buildV1SCT:serialize", "ct.SerializeSCTSignatureInput")
		if ser != nil {
			r.ExpectFields(fn, "buildV1SCT:sctInput", CallArgs(ser)[0], map[string]string{
				"SCTVersion": "0",
				"Timestamp":  "p1.TimestampedEntry.Timestamp",
				"Extensions": "p1.TimestampedEntry.Extensions",
			})
			r.ExpectFields(fn, "buildV1SCT:entry", CallArgs(ser)[1], map[string]string{"Leaf": "*p1"})
		}
		if c := r.OneCall(fn, "buildV1SCT:sign", "iface(crypto.Signer).Sign"); c != nil {
			r.ExpectArg(c, "buildV1SCT:sign.signer", 0, "p0")
			r.ExpectArg(c, "buildV1SCT:sign.digest", 2, "sha256.Sum256(ct.SerializeSCTSignatureInput(*)#0)[:]")
			r.ExpectArg(c, "buildV1SCT:sign.opts", 3, "5") // crypto.SHA256
		}
		r.ErrorsGate(fn, "buildV1SCT:errors", "*", 3)
		for _, ret := range Returns(fn) {
			if errKind(ret.Results[len(ret.Results)-1]) != "nil" {
				continue
			}
			r.ExpectFields(fn, "buildV1SCT:sct", ret.Results[0], map[string]string{
				"SCTVersion":  "0",
				"LogID.KeyID": "trillian/ctfe.GetCTLogID(iface(crypto.Signer).Public(*))#0",
				"Timestamp":   "new:ct.SignedCertificateTimestamp#*.Timestamp || p1.TimestampedEntry.Timestamp",
				"Extensions":  "new:ct.SignedCertificateTimestamp#*.Extensions || p1.TimestampedEntry.Extensions",
				"Signature":   "*new:ct.DigitallySigned#*",
			})
			// the timestamp/extensions copied are those of the signed input
			if ser != nil {
				in := baseAlloc(CallArgs(ser)[0])
				for _, f := range []string{"Timestamp", "Extensions"} {
					for _, st := range r.StoresTo(fn, "&("+r.D.allocName(baseAlloc(ret.Results[0]))+"."+f+")") {
						got := r.D.D(st.Val)
						ok := got == "p1.TimestampedEntry."+f || (in != nil && got == r.D.allocName(in)+"."+f)
						r.Check("buildV1SCT:sct."+f+"=signed", ok, r.Where(st), "returned SCT "+f+" ← "+got+" (the signed input's)")
					}
				}
			}
		}
		for _, st := range r.StoresTo(fn, "&(new:ct.SignedCertificateTimestamp#*.Signature)") {
			r.ExpectFields(fn, "buildV1SCT:sig", st.Val, map[string]string{
				"Algorithm.Hash":      "4", // tls.SHA256
				"Algorithm.Signature": "tls.SignatureAlgorithmFromPubKey(iface(crypto.Signer).Public(*))",
				"Signature":           "iface(crypto.Signer).Sign(*)#0",
			})
		}
		for _, pc := range CallsTo(fn, "iface(crypto.Signer).Public") {
			r.ExpectArg(pc, "buildV1SCT:public-of-signer", 0, "p0")
		}
		// every SCT is signed in this call with this log's signer: the success return cannot be
		// reached around signer.Sign (a signature taken from anywhere else — e.g. a cache keyed by
		// the signed bytes, which do not name the log — may belong to another key)
		if sg := CallsTo(fn, "iface(crypto.Signer).Sign"); len(sg) == 1 {
			reach := r.D.Walk(fn, Sigma{}, nil, map[*ssa.BasicBlock]bool{sg[0].Block(): true})
			r.Valuations++
			ok := true
			for _, ret := range successReturns(fn) {
				if reach.Has(ret) {
					ok = false
				}
			}
			r.Check("buildV1SCT:always-signs", ok, r.Where(sg[0]), "no success return is reachable without passing signer.Sign")
		}
		r.Check("buildV1SCT:no-signature-cache", len(CallsTo(fn, "(*trillian/ctfe.SignatureCache).*")) == 0, r.FnPos(fn), "buildV1SCT does not consult a signature cache")
	}
	for name, want := range map[string]string{"tls.SHA256": "4", "ct.V1": "0", "ct.X509LogEntryType": "0", "ct.PrecertLogEntryType": "1"} {
		c := r.P.LookupConst(name)
		r.Check("const:"+name, c != nil && c.Val().ExactString() == want, "-", name+" = "+want)
	}

	r.Rule("C01.R4")
	if fn := r.Fn("trillian/ctfe.GetCTLogID"); fn != nil {
		for _, ret := range Returns(fn) {
			if errKind(ret.Results[1]) == "nil" {
				r.Check("GetCTLogID:value", glob("sha256.Sum256(x509.MarshalPKIXPublicKey(p0)#0)", r.D.D(ret.Results[0])), r.Where(ret), "log ID = "+r.D.D(ret.Results[0]))
			}
		}
		if c := r.OneCall(fn, "GetCTLogID:marshal", "x509.MarshalPKIXPublicKey"); c != nil {
			r.ExpectArg(c, "GetCTLogID:key", 0, "p0")
		}
		r.ErrorsGate(fn, "GetCTLogID:errors", "x509.MarshalPKIXPublicKey", 1)
	}
	if fn := r.Fn(c01WriterName); fn != nil {
		// the response repeats the fields of the SCT handed in; its ID is the hash of the log key,
		// recomputed from the signer or read from that SCT (rules_t5c01.go)
		c01ResponseWriter(r, fn)
	}

	r.Rule("C01.R5")
	c01LogLeaf(r)

	r.Rule("C01.R6")
	c01ChainHandedOn(r)

	if os.Getenv("CTVERIF_C01_DEBUG") != "" { // dev aid: the obligations of R5 / R6
		for _, o := range r.Obls {
			if o.Rule == "C01.R5" || o.Rule == "C01.R6" {
				fmt.Fprintf(os.Stderr, "%v %s @%s: %s\n", o.OK, o.Key, o.Where, o.Detail)
			}
		}
	}

	r.Rule("C01.R7")
	c01Leaf(r)

	r.Rule("C01.R8")
	c01Who(r)

	// the validated values stay unwritten until the entry has been derived from them (rules_t7c01chain.go)
	c01ValidatedUnwritten(r)

	// "carries the validated chain (root included)": the chain handed on is the verified path that
	// was compared, certificate by certificate, with the submission (rule sets of C02)
	r.Shared("C01.R11", func() {
		if vc := r.Fn("trillian/ctfe.ValidateChain"); vc != nil {
			c02ValidateChain(r, vc)
		}
		r.Rule("C02.R3")
		if fn := r.Fn("trillian/ctfe.chainsEquivalent"); fn != nil {
			c02ChainsEquivalent(r, fn)
		}
	})

	// the de-poisoned TBSCertificate for the dedicated-pre-issuer case (rules of C03)
	r.Shared("C01.R9", func() {
		r.Rule("C03.R3")
		if fn := r.Fn("x509.BuildPrecertTBS"); fn != nil {
			c03RawCleared(r, fn)
			r.Rule("C03.R4")
			c03Build(r, fn)
		}
	})
}

// c01ChainHandedOn (C01.R6, also run as part of C06.R11): the chain service hands the whole validated path to the leaf builder.
func c01ChainHandedOn(r *Run) {
	if fn := r.Fn("(*trillian/ctfe.directIssuanceChainService).BuildLogLeaf"); fn != nil {
		if c := r.OneCall(fn, "direct.BuildLogLeaf", "trillian/util.BuildLogLeaf"); c != nil {
			r.ExpectArg(c, "direct.BuildLogLeaf:merkleLeaf", 1, "*p4")
			// cert = {Data: chain[0].Raw}, issuers = {Data: chain[k+1].Raw} for every k — however they are put together (rules_t8c01.go)
			c01WholePath(r, fn, c, "direct.BuildLogLeaf", 3, 4)
			r.ExpectArg(c, "direct.BuildLogLeaf:isPrecert", 5, "p5")
		}
		r.ErrorsGate(fn, "direct.BuildLogLeaf:errors", "trillian/util.BuildLogLeaf", 1)
	}
	// the helper that converts a whole chain (where the chain services use one; C14 relies on it too)
	if fn := r.P.Func("trillian/ctfe.extractRawCerts"); fn != nil && len(fn.Blocks) > 0 {
		c01ConvertsWhole(r, fn, "extractRawCerts:every-certificate")
	}
}

func c01Leaf(r *Run) {
	fn := r.Fn("ct.MerkleTreeLeafFromChain")
	if fn == nil {
		return
	}
	// entry type decision
	x509 := Sigma{"ord(0, p1)": "="}
	pre := Sigma{"ord(0, p1)": "<", "ord(1, p1)": "="}
	other := Sigma{"ord(0, p1)": "<", "ord(1, p1)": "<"}
	for name, s := range map[string]Sigma{"x509": x509, "precert": pre, "unknown": other} {
		reach := r.D.Walk(fn, s, nil, nil)
		r.Valuations++
		okRet := 0
		for _, ret := range reachableReturns(fn, reach) {
			if errKind(ret.Results[1]) == "nil" {
				okRet++
			}
		}
		switch name {
		case "unknown":
			r.Check("MerkleTreeLeafFromChain:unknown-type-rejected", okRet == 0, r.FnPos(fn), fmt.Sprintf("entry type ∉ {0,1}: %d success returns reachable", okRet))
		default:
			r.Check("MerkleTreeLeafFromChain:"+name+"-accepted", okRet == 1, r.FnPos(fn), fmt.Sprintf("entry type %s: %d success returns reachable", name, okRet))
		}
	}
	// what the leaf handed back holds, per requested entry type — read off the object that the
	// success return yields on the walk for that type, however it is put together (field
	// assignments on a leaf prepared up front, one composite literal, a constructor of the module
	// called for it).  The entry type stored is the requested one: the parameter itself or the
	// constant it equals on that walk.
	for _, c := range []struct {
		name, etype string
		s           Sigma
	}{{"x509", "0", x509}, {"precert", "1", pre}} {
		reach := r.D.Walk(fn, c.s, nil, nil)
		r.Valuations++
		var ret *ssa.Return
		for _, rt := range reachableReturns(fn, reach) {
			if errKind(rt.Results[1]) == "nil" {
				ret = rt
			}
		}
		if ret == nil {
			r.Fail("MerkleTreeLeafFromChain:"+c.name+".leaf", r.FnPos(fn), "undecided: no success return for entry type "+c.name)
			continue
		}
		k := "MerkleTreeLeafFromChain:"
		sfx := "[" + c.name + "]"
		leaf := ret.Results[0]
		r.ExpectBuilt(fn, k+"version"+sfx, reach, ret, leaf, "Version", "0")
		r.ExpectBuilt(fn, k+"leaftype"+sfx, reach, ret, leaf, "LeafType", "0")
		r.ExpectBuilt(fn, k+"ts"+sfx, reach, ret, leaf, "TimestampedEntry.Timestamp", "p2")
		r.ExpectBuilt(fn, k+"etype"+sfx, reach, ret, leaf, "TimestampedEntry.EntryType", "p1 || "+c.etype)
		if c.name == "x509" {
			r.ExpectBuilt(fn, k+"x509.data", reach, ret, leaf, "TimestampedEntry.X509Entry.Data", "p0[0].Raw")
		} else {
			r.ExpectBuilt(fn, k+"precert.tbs", reach, ret, leaf, "TimestampedEntry.PrecertEntry.TBSCertificate", "x509.BuildPrecertTBS(*)#0")
			r.ExpectBuilt(fn, k+"precert.ikh", reach, ret, leaf, "TimestampedEntry.PrecertEntry.IssuerKeyHash", "sha256.Sum256(*)")
		}
	}
	// pre-issuer correlation
	tbs := r.OneCall(fn, "MerkleTreeLeafFromChain:BuildPrecertTBS", "x509.BuildPrecertTBS")
	sum := r.OneCall(fn, "MerkleTreeLeafFromChain:Sum256", "sha256.Sum256")
	if tbs != nil && sum != nil {
		r.ExpectArg(tbs, "MerkleTreeLeafFromChain:tbs.input", 0, "p0[0].RawTBSCertificate")
		for _, c := range []struct{ pi, preIssuer, issuer string }{{"T", "p0[1]", "p0[2].RawSubjectPublicKeyInfo"}, {"F", "nil", "p0[1].RawSubjectPublicKeyInfo"}} {
			s := Sigma{"ct.IsPreIssuer(p0[1])": c.pi}
			gotPI := r.ArgUnder(fn, tbs, 1, s)
			gotIss := r.ArgUnder(fn, sum, 0, s)
			r.Check("MerkleTreeLeafFromChain:preIssuer[IsPreIssuer="+c.pi+"]", gotPI == c.preIssuer, r.Where(tbs), "preIssuer argument = "+gotPI+", want "+c.preIssuer)
			r.Check("MerkleTreeLeafFromChain:issuerKeyHash[IsPreIssuer="+c.pi+"]", gotIss == c.issuer, r.Where(sum), "issuer key hash over "+gotIss+", want "+c.issuer)
		}
		r.ErrorsGate(fn, "MerkleTreeLeafFromChain:errors", "x509.BuildPrecertTBS", 1)
	}
	// chain too short ⇒ error
	r.FailEdge(fn, "MerkleTreeLeafFromChain", EdgeSpec{Name: "no-issuer", Atom: ordAtomR("len(p0)", "2"), Bad: "<", Want: wantErr(true)})
	r.FailEdge(fn, "MerkleTreeLeafFromChain", EdgeSpec{Name: "no-final-issuer", Atom: ordAtomR("len(p0)", "3"), Bad: "<", Want: wantErr(true)})
	if f2 := r.Fn("ct.IsPreIssuer"); f2 != nil {
		r.FailEdge(f2, "IsPreIssuer", EdgeSpec{Name: "ct-eku-found", Atom: ordAtomR("p0.ExtKeyUsage[*]", "*"), Bad: "=",
			Want: func(r *Run, ret *ssa.Return) (bool, string) {
				d := r.D.D(ret.Results[0])
				return d == "true", "returns " + d
			}})
		c := r.P.LookupConst("x509.ExtKeyUsageCertificateTransparency")
		if c != nil {
			r.Pass("IsPreIssuer:const", r.P.Pos(c.Pos()), "ExtKeyUsageCertificateTransparency = "+c.Val().ExactString())
		} else {
			r.Fail("IsPreIssuer:const", "-", "x509.ExtKeyUsageCertificateTransparency not found")
		}
	}
}

func c01Who(r *Run) {
	inCtfe := func(m map[string][]ssa.CallInstruction) map[string][]ssa.CallInstruction {
		out := map[string][]ssa.CallInstruction{}
		for k, v := range m {
			if glob("trillian/ctfe.*", k) || glob("(*trillian/ctfe.*", k) || glob("(trillian/ctfe.*", k) {
				out[k] = v
			}
		}
		return out
	}
	expect := func(key, callee string, owners ...string) {
		got := inCtfe(r.CallersOf(callee))
		want := map[string]bool{}
		for _, o := range owners {
			want[o] = true
			r.Check(key+"@"+o, len(got[o]) > 0, "-", fmt.Sprintf("%s calls %s (positive control)", o, callee))
		}
		for _, g := range keysOf(got) {
			if !want[g] {
				r.Fail(key+"@"+g, r.Where(got[g][0]), fmt.Sprintf("%s calls %s; within package ctfe only %v may", g, callee, owners))
			}
		}
	}
	expect("who:QueueLeaf", "iface(trillian.TrillianLogClient).QueueLeaf", "trillian/ctfe.addChainInternal")
	expect("who:IssueSCT", "iface(trillian/ctfe.RequestLog).IssueSCT", "trillian/ctfe.addChainInternal")
	expect("who:buildV1SCT", "trillian/ctfe.buildV1SCT", "trillian/ctfe.addChainInternal")
	expect("who:Sign", "iface(crypto.Signer).Sign", "trillian/ctfe.buildV1SCT", "trillian/ctfe.signV1TreeHead")
	expect("who:addChainInternal", "trillian/ctfe.addChainInternal", "trillian/ctfe.addChain", "trillian/ctfe.addPreChain")
}

// c01ReturnedLeaf: the SCT is built from the MerkleTreeLeaf decoded from the leaf the backend returned.
func c01ReturnedLeaf(r *Run, fn *ssa.Function) {
	build := r.OneCall(fn, "addChainInternal:buildV1SCT", "trillian/ctfe.buildV1SCT")
	unm := CallsTo(fn, "tls.Unmarshal")
	if build != nil {
		a := baseAlloc(CallArgs(build)[1])
		ok := false
		var src string
		var unmCall ssa.CallInstruction
		for _, u := range unm {
			if a != nil && baseAlloc(CallArgs(u)[1]) == a {
				ok = true
				unmCall = u
				src = r.D.D(CallArgs(u)[0])
			}
		}
		r.Check("addChainInternal:sct-from-returned-leaf", ok && glob("iface(trillian.TrillianLogClient).QueueLeaf(*)#0.QueuedLeaf.Leaf.LeafValue", src), r.Where(build),
			fmt.Sprintf("buildV1SCT's leaf is the MerkleTreeLeaf decoded by tls.Unmarshal from %q (must be the backend's QueuedLeaf.Leaf.LeafValue)", src))
		// nothing writes that leaf between decode and use, and buildV1SCT only reads it (rules_t7c01chain.go)
		if a != nil {
			var decodes []ssa.CallInstruction
			for _, u := range unm {
				if baseAlloc(CallArgs(u)[1]) == a {
					decodes = append(decodes, u)
				}
			}
			c01ReturnedLeafUnwritten(r, fn, a, build, decodes)
		}
		r.ExpectArg(build, "addChainInternal:signer", 0, "p1.signer")
		_ = unmCall
	}
}

// c01LogLeaf: construction of the backend leaf (LeafValue, identity hash, extra data).
//
// The rule is stated on what the two exported constructors hand to buildLogLeaf, not on the way
// its parameter list packages it: "chain" is the input of buildLogLeaf that receives
// BuildLogLeaf's chain, "chainHash" the one that receives BuildLogLeafWithChainHash's hash
// (a parameter of its own, or a field of a struct built at the call).
func c01LogLeaf(r *Run) {
	fn := r.Fn("trillian/util.buildLogLeaf")
	full := r.Fn("trillian/util.BuildLogLeaf")
	byHash := r.Fn("trillian/util.BuildLogLeafWithChainHash")
	var in, inH map[string]string
	if fn != nil && full != nil && byHash != nil {
		cf := r.OneCall(full, "BuildLogLeaf", "trillian/util.buildLogLeaf")
		ch := r.OneCall(byHash, "BuildLogLeafWithChainHash", "trillian/util.buildLogLeaf")
		if cf != nil && ch != nil {
			common := []string{"logPrefix", "merkleLeaf", "leafIndex", "cert", "isPrecert"}
			bf, bh := r.bindCall(cf), r.bindCall(ch)
			var ok1, ok2 bool
			in, ok1 = r.roles(bf, "BuildLogLeaf:passes", append([]string{"chain"}, common...),
				map[string]string{"logPrefix": "p0", "merkleLeaf": "p1", "leafIndex": "p2", "cert": "p3", "chain": "p4", "isPrecert": "p5"})
			inH, ok2 = r.roles(bh, "BuildLogLeafWithChainHash:passes", append([]string{"chainHash"}, common...),
				map[string]string{"logPrefix": "p0", "merkleLeaf": "p1", "leafIndex": "p2", "cert": "p3", "chainHash": "p4", "isPrecert": "p5"})
			if ok1 && ok2 {
				for _, role := range common {
					r.Check("buildLogLeaf:input["+role+"]", in[role] == inH[role], r.Where(ch), fmt.Sprintf("both constructors hand their %s to the same input of buildLogLeaf (%s / %s)", role, in[role], inH[role]))
				}
				// with the full chain there is no chain hash: that input is nil, so the full layout is chosen
				r.Check("BuildLogLeaf:passes[no chainHash]", inH["chainHash"] != in["chain"] && bf.slots[inH["chainHash"]] == "nil", r.Where(cf),
					fmt.Sprintf("BuildLogLeaf hands %s to buildLogLeaf's chain-hash input %s (expected nil)", bf.slots[inH["chainHash"]], inH["chainHash"]))
			} else {
				in, inH = nil, nil
			}
		}
	}
	if fn != nil && in != nil && inH != nil && r.inputsReadOnly(fn, "buildLogLeaf:inputs-read-only") {
		cert, pre, hash := in["cert"], in["isPrecert"], inH["chainHash"]
		forChain := "trillian/util.ExtraDataForChain(" + cert + ", " + in["chain"] + ", " + pre + ")#0"
		forHash := "trillian/util.ExtraDataForChainHash(" + cert + ", " + hash + ", " + pre + ")#0"
		for _, ret := range Returns(fn) {
			if errKind(ret.Results[len(ret.Results)-1]) != "nil" {
				continue
			}
			r.ExpectFields(fn, "buildLogLeaf", ret.Results[0], map[string]string{
				"LeafValue":        "tls.Marshal(" + in["merkleLeaf"] + ")#0",
				"LeafIdentityHash": "sha256.Sum256(" + cert + ".Data)[:]",
				"LeafIndex":        in["leafIndex"],
				"ExtraData":        "phi(" + forChain + "|" + forHash + ")",
			})
			// which of the two it is, for every combination of chain / chain hash the callers can produce (rules_t8c01.go)
			for _, st := range r.StoresTo(fn, "&("+r.D.allocName(baseAlloc(ret.Results[0]))+".ExtraData)") {
				c01ExtraForm(r, fn, st, in["chain"], hash, forChain, forHash)
			}
		}
	}
	if fn != nil {
		r.ErrorsGate(fn, "buildLogLeaf:errors", "*", 2)
		// … and neither buildLogLeaf nor a function it calls writes through one of them (rules_t7c01chain.go)
		c01InputsUnwritten(r, fn, "buildLogLeaf:inputs-unwritten")
	}
	if fn := r.Fn("trillian/util.ExtraDataForChain"); fn != nil {
		// what is established: with isPrecert the function returns tls.Marshal of a PrecertChainEntry, without it
		// tls.Marshal of a CertificateChain — whether one call serves both kinds or each branch has its own
		calls := CallsTo(fn, "tls.Marshal")
		r.Check("ExtraDataForChain:marshal", len(calls) >= 1 && len(calls) <= 2, r.FnPos(fn), fmt.Sprintf("%d tls.Marshal calls (one for both kinds, or one per kind)", len(calls)))
		for _, kind := range []struct{ key, sigma, want string }{
			{"ExtraDataForChain[precert]", "T", "*new:ct.PrecertChainEntry#0"},
			{"ExtraDataForChain[x509]", "F", "*new:ct.CertificateChain#0"},
		} {
			reach := r.D.Walk(fn, Sigma{"p2": kind.sigma}, nil, nil)
			r.Valuations++
			n := 0
			for _, ret := range Returns(fn) {
				if !reach.Has(ret) {
					continue
				}
				n++
				got0, got1 := r.D.DUnder(ret.Results[0], reach), r.D.DUnder(ret.Results[1], reach)
				r.Check(kind.key, got0 == "tls.Marshal("+kind.want+")#0", r.Where(ret), "isPrecert="+kind.sigma+" ⇒ returns "+got0)
				r.Check("ExtraDataForChain:returns-marshal", got1 == "tls.Marshal("+kind.want+")#1", r.Where(ret), "isPrecert="+kind.sigma+" ⇒ error returned is "+got1)
			}
			r.Check(kind.key+":returns", n >= 1, r.FnPos(fn), fmt.Sprintf("%d returns reachable with isPrecert=%s", n, kind.sigma))
		}
		r.ExpectStores(fn, "ExtraDataForChain:precert.cert", "&(new:ct.PrecertChainEntry#0.PreCertificate)", "p0", 1)
		r.ExpectStores(fn, "ExtraDataForChain:precert.chain", "&(new:ct.PrecertChainEntry#0.CertificateChain)", "p1", 1)
		r.ExpectStores(fn, "ExtraDataForChain:x509.chain", "&(new:ct.CertificateChain#0.Entries)", "p1", 1)
	}

}
