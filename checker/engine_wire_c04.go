package main

import (
	"fmt"
	"go/types"
	"reflect"
	"sort"
	"strconv"
	"strings"
)

// E4 WIRE — the TLS presentation-language layout a Go type declares.
//
// The layout is computed from go/types and the `tls:"…"` struct tags alone (no
// repository code runs).  The tag grammar is re-implemented here from the
// documentation of tls.Unmarshal: `maxval:N` / `size:S` give the width of an
// enum, `maxlen:N` gives the width of a vector's length prefix (the number of
// bytes needed for N) and its upper bound, `minlen:N` its lower bound,
// `selector:F,val:V` marks a variant of select(F).
//
// The result is a canonical string in which Go names do not occur and nested
// structs are flattened (a struct is the concatenation of its fields on the
// wire), so renaming fields/types or (un)wrapping a field in a struct does not
// change it, while width, order, bounds, selector and case values do:
//
//	u8 u16 u24 u32 u64      fixed-width integers
//	enumW:T                 enum of W bytes declared with Go type T (tells version / signature_type / hash apart)
//	opaqueN                 opaque[N]
//	vecW<min..max>(items)   variable-length vector, W-byte length prefix, byte bounds
//	enumW:T=S1 … select(S1){0:[items] 1:[items]}
//	!reason                 a construct the codec refuses (never equal to an RFC schema)

type wireTag struct {
	width    int
	widthSet bool
	min, max uint64
	selector string
	val      uint64
	any      bool
	bad      string
}

func wireBytesFor(x uint64) int {
	n := 1
	for x >= 0x100 && n < 8 {
		x >>= 8
		n++
	}
	return n
}

func parseWireTag(structTag string) wireTag {
	var t wireTag
	s := reflect.StructTag(structTag).Get("tls")
	for _, part := range strings.Split(s, ",") {
		k, v, ok := strings.Cut(part, ":")
		if !ok {
			continue
		}
		n, err := strconv.ParseUint(v, 10, 64)
		switch k {
		case "maxval":
			if err == nil {
				t = wireTag{width: wireBytesFor(n), widthSet: true, any: true}
			}
		case "size":
			if err == nil && n < 1<<31 {
				t = wireTag{width: int(n), widthSet: true, any: true}
			}
		case "maxlen":
			if err == nil {
				t.width, t.widthSet, t.max, t.any = wireBytesFor(n), true, n, true
			}
		case "minlen":
			if err == nil {
				t.min, t.any = n, true
			}
		case "selector":
			t.selector, t.any = v, true
		case "val":
			if err == nil {
				t.val, t.any = n, true
			}
		}
	}
	if t.any && t.selector == "" {
		switch {
		case t.width < 1:
			t.bad = "!tag-without-size"
		case t.width > 8:
			t.bad = "!tag-size>8"
		case t.min > t.max:
			t.bad = "!tag-range-inverted"
		case t.val > 0:
			t.bad = "!tag-val-without-selector"
		}
	}
	return t
}

type wireSel struct {
	label string
	cases map[uint64]string
}

type wireItem struct {
	s   string
	sel *wireSel
}

// WireSkip names a struct field left out of the layout (a named exception).
type wireBuilder struct {
	p      *Prog
	skip   map[string]bool // "pkg.Type.Field"
	used   map[string]bool
	labels int
}

func renderWire(items []*wireItem) string {
	var out []string
	for _, it := range items {
		if it.sel == nil {
			out = append(out, it.s)
			continue
		}
		var vals []uint64
		for v := range it.sel.cases {
			vals = append(vals, v)
		}
		sort.Slice(vals, func(i, j int) bool { return vals[i] < vals[j] })
		var cs []string
		for _, v := range vals {
			cs = append(cs, fmt.Sprintf("%d:[%s]", v, it.sel.cases[v]))
		}
		out = append(out, "select("+it.sel.label+"){"+strings.Join(cs, " ")+"}")
	}
	return strings.Join(out, " ")
}

func basicKind(t types.Type) types.BasicKind {
	if b, ok := t.Underlying().(*types.Basic); ok {
		return b.Kind()
	}
	return types.Invalid
}

func (w *wireBuilder) items(t types.Type, tag wireTag, depth int) []*wireItem {
	one := func(s string) []*wireItem { return []*wireItem{{s: s}} }
	if depth > 12 {
		return one("!too-deep")
	}
	// exact fixed-width types first (a defined type over uint8/16/32 is not one of them)
	t = types.Unalias(t)
	if b, ok := t.(*types.Basic); ok {
		switch b.Kind() {
		case types.Uint8:
			return one("u8")
		case types.Uint16:
			return one("u16")
		case types.Uint32:
			return one("u32")
		case types.Uint64:
			return one("u64")
		}
	}
	if n, ok := t.(*types.Named); ok && n.Obj().Pkg() != nil && n.Obj().Pkg().Path() == ModPath+"/tls" && n.Obj().Name() == "Uint24" {
		return one("u24")
	}
	switch u := t.Underlying().(type) {
	case *types.Basic:
		if u.Kind() != types.Uint64 {
			return one("!unsupported-kind:" + u.Name())
		}
		if tag.bad != "" {
			return one(tag.bad)
		}
		if !tag.widthSet {
			return one("!enum-without-size")
		}
		return one(fmt.Sprintf("enum%d:%s", tag.width, TypeName(t)))
	case *types.Array:
		if basicKind(u.Elem()) != types.Uint8 {
			return one("!array-of-non-bytes")
		}
		return one(fmt.Sprintf("opaque%d", u.Len()))
	case *types.Slice:
		if tag.bad != "" {
			return one(tag.bad)
		}
		if !tag.widthSet {
			return one("!vector-without-length-size")
		}
		bounds := fmt.Sprintf("<%d..%d>", tag.min, tag.max)
		if tag.max == 0 {
			bounds = "<unbounded>"
		}
		inner := "u8"
		if basicKind(u.Elem()) != types.Uint8 {
			inner = renderWire(w.items(u.Elem(), wireTag{}, depth+1))
		}
		return one(fmt.Sprintf("vec%d%s(%s)", tag.width, bounds, inner))
	case *types.Struct:
		owner := ""
		if n, ok := t.(*types.Named); ok && n.Obj().Pkg() != nil {
			owner = ShortPkg(n.Obj().Pkg().Path()) + "." + n.Obj().Name()
		}
		var out []*wireItem
		enumAt := map[string]*wireItem{} // field name -> its item, for fields of enum kind
		open := map[string]*wireItem{}   // selector -> select item being filled
		for i := 0; i < u.NumFields(); i++ {
			f := u.Field(i)
			if owner != "" && w.skip[owner+"."+f.Name()] {
				w.used[owner+"."+f.Name()] = true
				continue
			}
			ft := parseWireTag(u.Tag(i))
			if ft.selector != "" {
				selItem, ok := enumAt[ft.selector]
				if !ok {
					out = append(out, &wireItem{s: "!selector-not-seen:" + ft.selector})
					continue
				}
				pt, isPtr := f.Type().Underlying().(*types.Pointer)
				if !isPtr {
					out = append(out, &wireItem{s: "!choice-not-pointer"})
					continue
				}
				si := open[ft.selector]
				if si == nil || out[len(out)-1] != si {
					if !strings.Contains(selItem.s, "=") {
						w.labels++
						selItem.s += fmt.Sprintf("=S%d", w.labels)
					}
					si = &wireItem{sel: &wireSel{label: selItem.s[strings.Index(selItem.s, "=")+1:], cases: map[uint64]string{}}}
					open[ft.selector] = si
					out = append(out, si)
				}
				if _, dup := si.sel.cases[ft.val]; dup {
					out = append(out, &wireItem{s: "!duplicate-selector-value"})
					continue
				}
				si.sel.cases[ft.val] = renderWire(w.items(pt.Elem(), wireTag{}, depth+1))
				continue
			}
			sub := w.items(f.Type(), ft, depth+1)
			out = append(out, sub...)
			if basicKind(f.Type()) == types.Uint64 && len(sub) == 1 {
				enumAt[f.Name()] = sub[0]
			}
		}
		return out
	case *types.Pointer:
		return one("!pointer-without-selector")
	}
	return one("!unsupported:" + TypeName(t))
}

// WireSchema returns the canonical layout of the named type "pkg.Name" when
// it is the top-level value of tls.Marshal / tls.Unmarshal.
func (w *wireBuilder) WireSchema(q string) (string, *types.Named) {
	n := w.p.LookupType(q)
	if n == nil {
		return "", nil
	}
	w.labels = 0
	return renderWire(w.items(n, wireTag{}, 0)), n
}

// ---- JSON shape ---------------------------------------------------------------

// jsonShape lists "jsonname:GoType" for every exported field of a struct type,
// in declaration order; the name is the `json` tag name (or the field name).
func jsonShape(n *types.Named) []string {
	st, ok := n.Underlying().(*types.Struct)
	if !ok {
		return nil
	}
	var out []string
	for i := 0; i < st.NumFields(); i++ {
		f := st.Field(i)
		if !f.Exported() {
			continue
		}
		name := f.Name()
		tag := reflect.StructTag(st.Tag(i)).Get("json")
		opts := ""
		if tag != "" {
			nm, rest, _ := strings.Cut(tag, ",")
			if nm == "-" && rest == "" {
				continue
			}
			if nm != "" {
				name = nm
			}
			opts = rest
		}
		s := name + ":" + TypeName(f.Type())
		if opts != "" {
			s += "," + opts
		}
		out = append(out, s)
	}
	sort.Strings(out)
	return out
}

// c14SameWireTag: the `tls` tag got declares the same wire layout as want — the clauses of the six
// documented keys, parsed the way the codec parses them, give the same width, bounds, selector and
// case value, whatever their order or spelling.  A clause with another key is judged by what the
// codec does with it (rules_t8c09.go): one the codec does not test at all is ignored by it; one it
// tests counts as absent exactly when it is an allocation hint (nothing accepted or emitted depends on
// it); otherwise it is a bound the expected layout does not have.
func c14SameWireTag(r *Run, got, want string) (bool, string) {
	g, w := parseWireTag(got), parseWireTag(want)
	if g != w {
		return false, ""
	}
	verdicts := c09KeyVerdicts(r)
	var hints []string
	for _, part := range strings.Split(reflect.StructTag(got).Get("tls"), ",") {
		k, _, ok := strings.Cut(part, ":")
		if !ok {
			continue
		}
		switch k {
		case "maxval", "size", "maxlen", "minlen", "selector", "val":
			continue
		}
		// the codec tells clauses apart by prefix
		for key, v := range verdicts {
			if !strings.HasPrefix(part, key) {
				continue
			}
			if !v.hint {
				return false, fmt.Sprintf(": the clause %q is read by the codec and is not a mere allocation hint (%s)", part, v.why)
			}
			hints = append(hints, part)
		}
	}
	if len(hints) > 0 {
		return true, fmt.Sprintf(" — same width and bounds; %v only sizes an allocation (C09.R3)", hints)
	}
	return true, ""
}
