package main

// Rules added after the third round of seeded changes (defects that arrive
// inside a refactor, value-relationship defects).  Each states a clause of its
// property that no earlier rule covered; see DESIGN.md §8.11.

import (
	"fmt"
	"go/types"
	"strings"

	"golang.org/x/tools/go/ssa"
)

// c11SANLists (C11.R7): every name list that parseSANExtension fills takes part in the "nothing
// was parsed" test that decides whether a critical subjectAltName counts as unhandled
// (crypto/x509 tests all of them; leaving one out makes a conforming URI-only SAN unhandled).
func c11SANLists(r *Run) {
	fn := r.Fn("x509.parseCertificate")
	if fn == nil {
		return
	}
	call := r.OneCall(fn, "SAN:parse", "x509.parseSANExtension")
	if call == nil {
		return
	}
	var fields []string
	eachInstr(fn, func(in ssa.Instruction) {
		st, ok := in.(*ssa.Store)
		if !ok {
			return
		}
		ex, ok := st.Val.(*ssa.Extract)
		if !ok || ex.Tuple != ssa.Value(call.(*ssa.Call)) {
			return
		}
		if fa, ok := st.Addr.(*ssa.FieldAddr); ok {
			if f := fieldOf(fa); f != nil {
				fields = append(fields, f.Name())
			}
		}
	})
	r.Floor("name lists filled from parseSANExtension", len(fields), 4)
	atoms := r.D.AtomsOf(fn)
	for _, f := range fields {
		found := false
		for k := range atoms {
			if strings.Contains(k, "."+f+")") && strings.Contains(k, "len(") {
				found = true
			}
		}
		r.Check("SAN:emptiness-test-covers:"+f, found, r.Where(call), "the 'parsed nothing' test of a subjectAltName looks at len(out."+f+")")
	}
}

// c12GoSharedWrites (C12.R10, shared into C17): a goroutine started in a loop does not assign a
// variable of the enclosing function that lives outside the loop — every iteration's goroutine
// would write the same variable, and the value read after the join is whichever came last
// (an error of one shard overwritten by the nil of another).
func c12GoSharedWrites(r *Run, pkgs ...string) {
	n := 0
	for _, fn := range r.P.ModFuncs {
		pk := fnPkg(fn)
		if pk == nil || fn.Parent() != nil {
			continue
		}
		okPkg := false
		for _, p := range pkgs {
			if ShortPkg(pk.Path()) == p {
				okPkg = true
			}
		}
		if !okPkg {
			continue
		}
		inLoop := cycleBlocks(fn)
		eachInstr(fn, func(in ssa.Instruction) {
			g, ok := in.(*ssa.Go)
			if !ok || !inLoop[g.Block()] {
				return
			}
			mc, ok := g.Call.Value.(*ssa.MakeClosure)
			if !ok {
				return
			}
			cl, ok := mc.Fn.(*ssa.Function)
			if !ok {
				return
			}
			n++
			for i, fv := range cl.FreeVars {
				bind, ok := mc.Bindings[i].(*ssa.Alloc)
				if !ok || inLoop[bind.Block()] {
					continue // a per-iteration variable, or not a plain local
				}
				written := false
				eachInstr(cl, func(ci ssa.Instruction) {
					if st, ok := ci.(*ssa.Store); ok && st.Addr == ssa.Value(fv) {
						written = true
					}
				})
				r.Check(fmt.Sprintf("go-in-loop:%s:%s", short(FuncName(fn)), fv.Name()), !written, r.Where(g),
					"the goroutine started per iteration does not assign "+fv.Name()+", a variable shared by all iterations")
			}
		})
	}
	r.Floor("goroutines started in loops", n, 1)
}

// cycleBlocks: blocks that lie on a cycle of the CFG.
func cycleBlocks(fn *ssa.Function) map[*ssa.BasicBlock]bool {
	out := map[*ssa.BasicBlock]bool{}
	for _, b := range fn.Blocks {
		seen := map[*ssa.BasicBlock]bool{}
		work := append([]*ssa.BasicBlock{}, b.Succs...)
		for len(work) > 0 {
			x := work[len(work)-1]
			work = work[:len(work)-1]
			if seen[x] {
				continue
			}
			seen[x] = true
			if x == b {
				out[b] = true
				break
			}
			work = append(work, x.Succs...)
		}
	}
	return out
}

// c17RootsUnknownOnFailure (C17.R7): the accepted roots of a log are recorded only where its
// get-roots request succeeded — a failed request leaves them unknown (nil), it does not
// produce an empty root set that would make the log incompatible with every chain.
func c17RootsUnknownOnFailure(r *Run) {
	n := 0
	for _, fn := range r.P.ModFuncs {
		pk := fnPkg(fn)
		if pk == nil || ShortPkg(pk.Path()) != "submission" {
			continue
		}
		calls := CallsTo(fn, "iface(client.AddLogClient).GetAcceptedRoots")
		if len(calls) != 1 {
			continue
		}
		errv := CallResult(calls[0], 1)
		if errv == nil {
			r.Fail("roots:error-ignored:"+short(FuncName(fn)), r.Where(calls[0]), "the error of GetAcceptedRoots is dropped")
			continue
		}
		var stores []ssa.Instruction
		eachInstr(fn, func(in ssa.Instruction) {
			st, ok := in.(*ssa.Store)
			if !ok {
				return
			}
			fa, ok := st.Addr.(*ssa.FieldAddr)
			if !ok || isNilConst(st.Val) {
				return
			}
			if f := fieldOf(fa); f != nil && strings.HasSuffix(f.Type().String(), "x509util.PEMCertPool") {
				stores = append(stores, st)
			}
		})
		if len(stores) == 0 {
			continue
		}
		n++
		r.MustGuard(fn, "roots:recorded-only-after-success:"+short(FuncName(fn)), "nil?"+r.D.D(errv), "non", stores, "a root pool is put into the result")
	}
	r.Floor("functions that fetch accepted roots", n, 1)
}

// c20UnparsableCopied (C20.R8): an entry whose certificate does not parse is still copied: the
// x509 verdict of ToLogEntry (fatal or not) never becomes buildLogLeaf's error.
func c20UnparsableCopied(r *Run) {
	fn := r.Fn(c20plc + "buildLogLeaf")
	if fn == nil {
		return
	}
	call := r.OneCall(fn, "buildLogLeaf:x509-verdict", "(*ct.RawLogEntry).ToLogEntry")
	if call == nil {
		return
	}
	errv := CallResult(call, 1)
	if errv == nil {
		r.Pass("buildLogLeaf:unparsable-still-copied", r.Where(call), "the x509 verdict is not looked at")
		return
	}
	for _, fatal := range []string{"T", "F"} {
		s := Sigma{"nil?" + r.D.D(errv): "non", "x509.IsFatal(" + r.D.D(errv) + ")": fatal}
		reach := r.D.Walk(fn, s, call.Block(), nil)
		r.Valuations++
		ok, why := true, ""
		rets := reachableReturns(fn, reach)
		for _, ret := range rets {
			if !isNilConst(ret.Results[1]) && r.D.DUnder(ret.Results[1], reach) != "nil" {
				ok, why = false, "returns error "+clipStr(r.D.DUnder(ret.Results[1], reach), 80)
			}
			if isNilConst(ret.Results[0]) {
				ok, why = false, "returns no leaf"
			}
		}
		r.Check("buildLogLeaf:unparsable-still-copied[fatal="+fatal+"]", ok && len(rets) > 0, r.Where(call),
			"with an x509 error (IsFatal="+fatal+") from ToLogEntry the leaf is still built and returned without error "+why)
	}
}

// c20Defaults (C20.R9): OptionsFromConfig replaces a zero worker count by 1, and the test that
// triggers the default of an option reads the configuration field that option is copied from.
func c20Defaults(r *Run) {
	fn := r.Fn("trillian/migrillian/core.OptionsFromConfig")
	if fn == nil {
		return
	}
	type fieldStores struct {
		src    string
		consts []*ssa.Store
	}
	by := map[string]*fieldStores{}
	eachInstr(fn, func(in ssa.Instruction) {
		st, ok := in.(*ssa.Store)
		if !ok {
			return
		}
		fa, ok := st.Addr.(*ssa.FieldAddr)
		if !ok {
			return
		}
		f := fieldOf(fa)
		if f == nil {
			return
		}
		if b, ok := f.Type().Underlying().(*types.Basic); !ok || b.Info()&types.IsInteger == 0 {
			return
		}
		fs := by[f.Name()]
		if fs == nil {
			fs = &fieldStores{}
			by[f.Name()] = fs
		}
		if _, isConst := st.Val.(*ssa.Const); isConst {
			fs.consts = append(fs.consts, st)
			return
		}
		v := st.Val
		for {
			cv, ok := v.(*ssa.Convert)
			if !ok {
				break
			}
			v = cv.X
		}
		fs.src = r.D.D(v)
	})
	n := 0
	for name, fs := range by {
		for _, st := range fs.consts {
			n++
			if fs.src == "" {
				r.Fail("defaults:"+name, r.Where(st), "undecided: option "+name+" gets a default but is not copied from the configuration")
				continue
			}
			r.Check("defaults:"+name+":value", constString(st.Val.(*ssa.Const)) == "1", r.Where(st), "default of "+name+" is "+constString(st.Val.(*ssa.Const)))
			r.GuardAtom(fn, nil, "defaults:"+name+":trigger", ordAtomR(fs.src, "0"), "<,>", []ssa.Instruction{st},
				"the default of "+name+" (copied from "+fs.src+")")
		}
	}
	r.Floor("defaulted worker counts", n, 2)
}
