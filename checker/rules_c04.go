package main

import (
	"fmt"
	"go/token"
	"go/types"
	"strings"

	"golang.org/x/tools/go/ssa"
)

func init() {
	register("C04", "Decides structural necessary conditions of 'RFC 6962 wire structures, signature inputs and leaf hashes are byte-exact': "+
		"(R1) the TLS layout declared by the Go types and their tls tags (field order, fixed widths, enum widths, vector prefix widths and bounds, selector and case values, nested structs flattened) equals the layout transcribed from RFC 6962 s3 / RFC 5246 s4.7, s7.4.1.4.1 for MerkleTreeLeaf, TimestampedEntry, ASN1Cert, PreCert, LogID, SignedCertificateTimestamp, CertificateTimestamp, TreeHeadSignature, DigitallySigned (both), SignatureAndHashAlgorithm, PrecertChainEntry, CertificateChain, SerializedSCT, SignedCertificateTimestampList; every tagged use of the RFC enum/extension types has the RFC width; the hash-carrying extra-data variants keep the ASN1Cert head and admit a 32-byte hash; "+
		"(R2) the enum code points and hash prefixes are the RFC's; "+
		"(R3) the SCT / STH signature inputs populate every field of CertificateTimestamp / TreeHeadSignature from the right source (signature_type constants 0 / 1) and return tls.Marshal of exactly that struct; the leaf hash is SHA-256(0x00 || tls.Marshal(leaf)); "+
		"(R4) unknown version / entry type ⇒ error in both serializers, RawLogEntryFromLeaf and ToLogEntry (decision tables over the compared constants); "+
		"(R5) every tls.Unmarshal in the module compares the remaining bytes with 0 and the trailing-bytes outcome executes no accept-only code and returns no success (17 sites; named exceptions: the pretty-printer and the log-only validation in get-entries); "+
		"(R6) the JSON API messages have the RFC 6962 s4 field names and Go kinds (base64 via []byte), the URL paths are the RFC's, ToSignedCertificateTimestamp / ToSignedTreeHead / DigitallySigned / SHA256Hash JSON conversions forward every field, use standard base64 and reject lengths other than 32. "+
		"(R9, rule sets R1-R4, R6, R10 of C09) the reflect-driven codec applies widths, field order, selectors and the minlen..maxlen / maxval bounds of the tags identically when writing and reading, and the bounds gate every accepting path of both directions (an out-of-range length or enum value is an error on every path, so encoder and decoder agree on the set of values). "+
		"(R10) a Merkle tree leaf that takes its timestamp from an SCT and is afterwards serialised whole (hashed) holds that SCT's extensions in TimestampedEntry.Extensions on every path — decided for every writer of the leaf timestamp in the module, the value traced to its origin through parameters to every call site and the leaf followed through callees, wrappers (LogEntry) and results to where tls.Marshal takes it; leaves of which only members are read (SCT signature input) owe nothing. "+
		"NOT covered: SCT timestamps that reach a leaf through an interface method result or through code outside the module; leaves serialised by anything but tls.Marshal; semantics of package reflect, byte equality for concrete values and the 1/2/3-byte length boundaries at run time, panics / allocation bounds / integer conversions inside the codec (C09.R5, R7-R9), JSON encoding performed by encoding/json itself.",
		runC04)
}

// ---- RFC tables (transcribed from RFC 6962 s3.1-3.5 and RFC 5246 s4.7 / s7.4.1.4.1) -----

const (
	rfcASN1Cert   = "vec3<1..16777215>(u8)" // opaque ASN.1Cert<1..2^24-1>; opaque TBSCertificate<1..2^24-1>
	rfcPreCert    = "opaque32 " + rfcASN1Cert
	rfcExtensions = "vec2<0..65535>(u8)"                                   // opaque CtExtensions<0..2^16-1>
	rfcSigAndHash = "enum1:tls.HashAlgorithm enum1:tls.SignatureAlgorithm" // hash first (RFC 5246 s7.4.1.4.1)
	rfcDigSigned  = rfcSigAndHash + " vec2<0..65535>(u8)"
	rfcVersion    = "enum1:ct.Version"
	rfcSigType    = "enum1:ct.SignatureType"
	rfcCertChain  = "vec3<0..16777215>(" + rfcASN1Cert + ")" // ASN.1Cert chain<0..2^24-1>
)

// uint64 timestamp; LogEntryType entry_type; select(entry_type){x509_entry: ASN.1Cert; precert_entry: PreCert}; CtExtensions
func rfcSignedEntry(label string) string {
	return "u64 enum2:ct.LogEntryType=" + label + " select(" + label + "){0:[" + rfcASN1Cert + "] 1:[" + rfcPreCert + "]} " + rfcExtensions
}

var c04Wire = []struct{ typ, want, src string }{
	{"ct.ASN1Cert", rfcASN1Cert, "RFC 6962 s3.1 ASN.1Cert<1..2^24-1>"},
	{"ct.PreCert", rfcPreCert, "s3.2 PreCert{opaque issuer_key_hash[32]; TBSCertificate<1..2^24-1>}"},
	{"ct.LogID", "opaque32", "s3.2 LogID{opaque key_id[32]}"},
	{"ct.SignedCertificateTimestamp", rfcVersion + " opaque32 u64 " + rfcExtensions + " " + rfcDigSigned, "s3.2 SignedCertificateTimestamp"},
	{"ct.CertificateTimestamp", rfcVersion + " " + rfcSigType + " " + rfcSignedEntry("S1"), "s3.2 digitally-signed struct of the SCT"},
	{"ct.TimestampedEntry", rfcSignedEntry("S1"), "s3.4 TimestampedEntry"},
	{"ct.MerkleTreeLeaf", rfcVersion + " enum1:ct.MerkleLeafType=S1 select(S1){0:[" + rfcSignedEntry("S2") + "]}", "s3.4 MerkleTreeLeaf"},
	{"ct.TreeHeadSignature", rfcVersion + " " + rfcSigType + " u64 u64 opaque32", "s3.5 digitally-signed struct of the STH"},
	{"tls.SignatureAndHashAlgorithm", rfcSigAndHash, "RFC 5246 s7.4.1.4.1"},
	{"tls.DigitallySigned", rfcDigSigned, "RFC 5246 s4.7 with opaque signature<0..2^16-1>"},
	{"ct.DigitallySigned", rfcDigSigned, "RFC 5246 s4.7 (ct alias type)"},
	{"ct.PrecertChainEntry", rfcASN1Cert + " " + rfcCertChain, "s3.1 PrecertChainEntry"},
	{"ct.CertificateChain", rfcCertChain, "s4.6 extra_data of an X509 entry: ASN.1Cert certificate_chain<0..2^24-1>"},
	{"x509.SerializedSCT", "vec2<1..65535>(u8)", "s3.3 opaque SerializedSCT<1..2^16-1>"},
	{"x509.SignedCertificateTimestampList", "vec2<1..65535>(vec2<1..65535>(u8))", "s3.3 SerializedSCT sct_list<1..2^16-1>"},
}

// width of every tagged use of the RFC's scalar types
var c04Uses = map[string]string{
	"ct.Version": "enum1:ct.Version", "ct.MerkleLeafType": "enum1:ct.MerkleLeafType", "ct.SignatureType": "enum1:ct.SignatureType", "ct.LogEntryType": "enum2:ct.LogEntryType",
	"tls.HashAlgorithm": "enum1:tls.HashAlgorithm", "tls.SignatureAlgorithm": "enum1:tls.SignatureAlgorithm", "ct.CTExtensions": rfcExtensions,
}

// fields outside RFC 6962 that are left out of the comparison (single named symbols)
var c04WireExceptions = map[string]string{
	"ct.TimestampedEntry.JSONEntry":     "experimental add-json entry type 32768 (not an RFC 6962 code point; RawLogEntryFromLeaf / ToLogEntry / SerializeSCTSignatureInput refuse it, see R4)",
	"ct.CertificateTimestamp.JSONEntry": "experimental add-json entry type 32768 (SerializeSCTSignatureInput never populates it, see R3/R4)",
}

var c04Consts = map[string]string{
	"ct.X509LogEntryType": "0", "ct.PrecertLogEntryType": "1", "ct.V1": "0",
	"ct.CertificateTimestampSignatureType": "0", "ct.TreeHashSignatureType": "1", "ct.TimestampedEntryLeafType": "0",
	"ct.TreeLeafPrefix": "0", "ct.TreeNodePrefix": "1",
	"tls.None": "0", "tls.MD5": "1", "tls.SHA1": "2", "tls.SHA224": "3", "tls.SHA256": "4", "tls.SHA384": "5", "tls.SHA512": "6",
	"tls.Anonymous": "0", "tls.RSA": "1", "tls.DSA": "2", "tls.ECDSA": "3",
	// RFC 6962 s4 paths
	"ct.AddChainPath": `"/ct/v1/add-chain"`, "ct.AddPreChainPath": `"/ct/v1/add-pre-chain"`, "ct.GetSTHPath": `"/ct/v1/get-sth"`,
	"ct.GetSTHConsistencyPath": `"/ct/v1/get-sth-consistency"`, "ct.GetProofByHashPath": `"/ct/v1/get-proof-by-hash"`,
	"ct.GetEntriesPath": `"/ct/v1/get-entries"`, "ct.GetRootsPath": `"/ct/v1/get-roots"`, "ct.GetEntryAndProofPath": `"/ct/v1/get-entry-and-proof"`,
}

// RFC 6962 s4.1-4.8 JSON members; []byte / [][]byte are base64 strings in encoding/json
var c04JSON = map[string]string{
	"ct.AddChainRequest":           "chain:[][]byte",
	"ct.AddChainResponse":          "extensions:string id:[]byte sct_version:ct.Version signature:[]byte timestamp:uint64",
	"ct.GetSTHResponse":            "sha256_root_hash:[]byte timestamp:uint64 tree_head_signature:[]byte tree_size:uint64",
	"ct.GetSTHConsistencyResponse": "consistency:[][]byte",
	"ct.GetProofByHashResponse":    "audit_path:[][]byte leaf_index:int64",
	"ct.LeafEntry":                 "extra_data:[]byte leaf_input:[]byte",
	"ct.GetEntriesResponse":        "entries:[]ct.LeafEntry",
	"ct.GetRootsResponse":          "certificates:[]string",
	"ct.GetEntryAndProofResponse":  "audit_path:[][]byte extra_data:[]byte leaf_input:[]byte",
}

// tls.Unmarshal callers that do not promise a complete parse
var c04RestExceptions = map[string]string{
	"x509util.showCTSCT": "pretty-printer: shows whatever decodes, result is text only",
	"tls.Unmarshal":      "the API itself: forwards to UnmarshalWithParams and hands the remaining bytes to its caller",
}

// sites where trailing bytes are recorded through a collector instead of a return
var c04RestMarkers = map[string]string{
	"x509.parseCertificate": "(*x509.NonFatalErrors).AddError",
}

func runC04(r *Run) {
	r.Assume("package reflect reports struct fields, tags and kinds as declared; how the tls codec turns the tags into bytes is decided by the shared rule sets of C09 (R9), its memory safety separately under C09")
	r.Assume("encoding/json renders []byte as standard base64 and uses the json tag names")
	c04Wires(r)
	c04Constants(r)
	c04Inputs(r)
	c04Unknown(r)
	c04Rest(r)
	c04JSONRules(r)
	c04SCTLeafExtensions(r)

	// the extra-data structure chosen for the backend leaf (rule set of C01.R5)
	r.Shared("C04.R7", func() {
		r.Rule("C01.R5")
		c01LogLeaf(r)
	})

	// the SCT list read back from a certificate: element for element, malformed lists refused (rule set of C03.R9)
	r.Shared("C04.R8", func() {
		r.Rule("C03.R9")
		c03SCTListReader(r)
	})

	// the codec the structures are written and read with: widths, order and bounds of the tags are
	// applied identically in both directions, and the bounds gate every accepting path (rule sets
	// of C09 that decide WHICH bytes are produced / accepted; the memory-safety sets stay with C09)
	r.Shared("C04.R9", func() {
		c09Run(r, map[string]bool{"C09.R1": true, "C09.R2": true, "C09.R3": true, "C09.R4": true, "C09.R6": true, "C09.R10": true})
	})
}

// ---- R1 ---------------------------------------------------------------------------

func c04Wires(r *Run) {
	r.Rule("C04.R1")
	w := &wireBuilder{p: r.P, skip: map[string]bool{}, used: map[string]bool{}}
	for k := range c04WireExceptions {
		w.skip[k] = true
	}
	for _, e := range c04Wire {
		got, n := w.WireSchema(e.typ)
		if n == nil {
			r.Fail("wire:"+e.typ, "-", "undecided: type "+e.typ+" not found")
			continue
		}
		r.Check("wire:"+e.typ, got == e.want, r.P.Pos(n.Obj().Pos()), fmt.Sprintf("declared layout  %s ; %s requires  %s", got, e.src, e.want))
	}
	for _, k := range keysOf(c04WireExceptions) {
		r.Check("wire-exception:"+k, w.used[k], "-", "named exception (left out of the layout): "+c04WireExceptions[k]+"; must still exist")
	}
	// the hash-carrying extra-data variants (not RFC): same head, hash vector admits 0 and 32 bytes
	for typ, head := range map[string]string{"ct.PrecertChainEntryHash": rfcASN1Cert + " ", "ct.CertificateChainHash": ""} {
		got, n := w.WireSchema(typ)
		if n == nil {
			r.Fail("wire:"+typ, "-", "undecided: type "+typ+" not found")
			continue
		}
		ok := strings.HasPrefix(got, head)
		var wd int
		var lo, hi uint64
		if _, err := fmt.Sscanf(strings.TrimPrefix(got, head), "vec%d<%d..%d>(u8)", &wd, &lo, &hi); err != nil || lo > 0 || hi < 32 || strings.Count(got, "vec") != strings.Count(head, "vec")+1 {
			ok = false
		}
		r.Check("wire:"+typ, ok, r.P.Pos(n.Obj().Pos()), "declared layout  "+got+" ; expected  "+head+"vecW<0..N>=32>(u8)")
	}
	// every tagged use of an RFC scalar type, anywhere in the module
	uses := 0
	for _, pk := range r.P.Pkgs {
		sc := pk.Types.Scope()
		for _, name := range sc.Names() {
			tn, ok := sc.Lookup(name).(*types.TypeName)
			if !ok || tn.IsAlias() {
				continue
			}
			st, ok := tn.Type().Underlying().(*types.Struct)
			if !ok {
				continue
			}
			tagged := false
			for i := 0; i < st.NumFields(); i++ {
				if parseWireTag(st.Tag(i)).any {
					tagged = true
				}
			}
			if !tagged {
				continue
			}
			for i := 0; i < st.NumFields(); i++ {
				want, ok := c04Uses[TypeName(st.Field(i).Type())]
				if !ok {
					continue
				}
				uses++
				got := renderWire(w.items(st.Field(i).Type(), parseWireTag(st.Tag(i)), 0))
				q := ShortPkg(pk.PkgPath) + "." + name + "." + st.Field(i).Name()
				r.Check("use:"+q, got == want, r.P.Pos(st.Field(i).Pos()), fmt.Sprintf("%s %s is declared %s, RFC width/bounds %s", q, TypeName(st.Field(i).Type()), got, want))
			}
		}
	}
	r.Floor("tagged uses of RFC scalar types", uses, 14)
}

// ---- R2 ---------------------------------------------------------------------------

func c04Constants(r *Run) {
	r.Rule("C04.R2")
	for _, name := range keysOf(c04Consts) {
		c := r.P.LookupConst(name)
		if c == nil {
			r.Fail("const:"+name, "-", "undecided: constant "+name+" not found")
			continue
		}
		r.Check("const:"+name, c.Val().ExactString() == c04Consts[name], r.P.Pos(c.Pos()), fmt.Sprintf("%s = %s, RFC value %s", name, c.Val().ExactString(), c04Consts[name]))
	}
}

// ---- R3 ---------------------------------------------------------------------------

func c04Inputs(r *Run) {
	r.Rule("C04.R3")
	marshalOf := func(fn *ssa.Function, key, argGlob string) ssa.CallInstruction {
		c := r.OneCall(fn, key+":marshal", "tls.Marshal")
		if c == nil {
			return nil
		}
		r.ExpectArg(c, key+":marshal.arg", 0, argGlob)
		n := 0
		for _, ret := range Returns(fn) {
			if errKind(ret.Results[len(ret.Results)-1]) == "non" {
				continue
			}
			n++
			r.Check(key+":returns-marshal", CallResult(c, 0) != nil && ret.Results[0] == CallResult(c, 0) && ret.Results[1] == CallResult(c, 1), r.Where(ret),
				"the only non-error return hands back tls.Marshal's bytes and error: "+r.D.D(ret.Results[0]))
		}
		r.Check(key+":one-success-return", n == 1, r.FnPos(fn), fmt.Sprintf("%d non-error returns", n))
		return c
	}
	if fn := r.Fn("ct.SerializeSCTSignatureInput"); fn != nil {
		e := "p1.Leaf.TimestampedEntry"
		if c := marshalOf(fn, "sct-input", "*new:ct.CertificateTimestamp#*"); c != nil {
			r.ExpectFields(fn, "sct-input", CallArgs(c)[0], map[string]string{
				"SCTVersion":    "p0.SCTVersion",
				"SignatureType": "0", // certificate_timestamp
				"Timestamp":     "p0.Timestamp",
				"EntryType":     e + ".EntryType",
				"Extensions":    "p0.Extensions",
				"X509Entry":     e + ".X509Entry",
				"PrecertEntry":  "new:ct.PreCert#*",
			})
			for _, st := range r.StoresTo(fn, "&(new:ct.CertificateTimestamp#*.PrecertEntry)") {
				r.ExpectFields(fn, "sct-input:precert", st.Val, map[string]string{
					"IssuerKeyHash":  e + ".PrecertEntry.IssuerKeyHash",
					"TBSCertificate": e + ".PrecertEntry.TBSCertificate",
				})
			}
			c04WireOrder(r, fn, "sct-input:wire-order", CallArgs(c)[0], []string{"p0.SCTVersion", "0", "p0.Timestamp", e + ".EntryType", e + ".X509Entry", "new:ct.PreCert#*", "p0.Extensions"})
			r.ExpectStores(fn, "sct-input:no-json-entry", "&(new:ct.CertificateTimestamp#*.JSONEntry)", "nil", 0)
			// the variant stored matches the entry type that selects it
			if cases, err := r.D.ConstTable(fn, e+".EntryType", nil); err != nil {
				r.Fail("sct-input:variant", r.FnPos(fn), "undecided: "+err.Error())
			} else {
				for _, cs := range cases {
					r.Valuations++
					for f, v := range map[string]int64{"X509Entry": 0, "PrecertEntry": 1} {
						for _, st := range r.StoresTo(fn, "&(new:ct.CertificateTimestamp#*."+f+")") {
							want := !cs.Default && cs.Value == v
							r.Check(fmt.Sprintf("sct-input:variant[%s@%s]", f, caseName(cs)), cs.Reach.Has(st) == want, r.Where(st),
								fmt.Sprintf("entry type %s: store to %s reachable=%v, want %v", caseName(cs), f, cs.Reach.Has(st), want))
						}
					}
				}
			}
		}
	}
	if fn := r.Fn("ct.SerializeSTHSignatureInput"); fn != nil {
		if c := marshalOf(fn, "sth-input", "*new:ct.TreeHeadSignature#*"); c != nil {
			r.ExpectFields(fn, "sth-input", CallArgs(c)[0], map[string]string{
				"Version":        "p0.Version",
				"SignatureType":  "1", // tree_hash
				"Timestamp":      "p0.Timestamp",
				"TreeSize":       "p0.TreeSize",
				"SHA256RootHash": "p0.SHA256RootHash",
			})
			c04WireOrder(r, fn, "sth-input:wire-order", CallArgs(c)[0], []string{"p0.Version", "1", "p0.Timestamp", "p0.TreeSize", "p0.SHA256RootHash"})
		}
	}
	if fn := r.Fn("ct.LeafHashForLeaf"); fn != nil {
		m := r.OneCall(fn, "leaf-hash:marshal", "tls.Marshal")
		h := r.OneCall(fn, "leaf-hash:sha256", "sha256.Sum256")
		if m != nil && h != nil {
			r.ExpectArg(m, "leaf-hash:marshal.arg", 0, "*p0")
			ok := false
			detail := "hash input " + r.D.D(CallArgs(h)[0])
			if ap, isCall := CallArgs(h)[0].(*ssa.Call); isCall && CalleeOf(ap) == "append" && len(ap.Call.Args) == 2 {
				pre := r.D.D(ap.Call.Args[0])
				ok = ap.Call.Args[1] == CallResult(m, 0) && glob("new:[1]byte#*[:]", pre)
				if a := baseSliceAlloc(ap.Call.Args[0]); ok && a != nil {
					sts := r.StoresTo(fn, "&("+r.D.allocName(a)+"[0])")
					ok = len(sts) == 1 && r.D.D(sts[0].Val) == "0"
					detail += fmt.Sprintf("; prefix byte stores: %d", len(sts))
				} else {
					ok = false
				}
			}
			r.Check("leaf-hash:input", ok, r.Where(h), detail+" (want SHA-256 over append([]byte{0x00}, tls.Marshal(*leaf)...))")
			for _, ret := range successReturns(fn) {
				r.Check("leaf-hash:result", ret.(*ssa.Return).Results[0] == h.Value(), r.Where(ret), "success return hands back the SHA-256 value: "+r.D.D(ret.(*ssa.Return).Results[0]))
			}
			r.Check("leaf-hash:one-success-return", len(successReturns(fn)) == 1, r.FnPos(fn), fmt.Sprintf("%d success returns", len(successReturns(fn))))
		}
		r.ErrorsGate(fn, "leaf-hash:errors", "tls.Marshal", 1)
	}
}

// c04WireOrder: the values stored into the fields of the marshalled struct,
// taken in the struct's declaration (= wire) order, are the expected sequence.
// Independent of field names: a swap of two same-typed fields in the type
// declaration moves the values on the wire and is seen here.
func c04WireOrder(r *Run, fn *ssa.Function, key string, base ssa.Value, want []string) {
	a := baseAlloc(base)
	if a == nil {
		r.Fail(key, r.FnPos(fn), "undecided: marshalled value is not built in a local allocation")
		return
	}
	byField := map[int][]string{}
	max := -1
	eachInstr(fn, func(in ssa.Instruction) {
		if st, ok := in.(*ssa.Store); ok {
			if fa, ok := st.Addr.(*ssa.FieldAddr); ok && fa.X == ssa.Value(a) {
				byField[fa.Field] = append(byField[fa.Field], r.D.D(st.Val))
				if fa.Field > max {
					max = fa.Field
				}
			}
		}
	})
	var got []string
	for i := 0; i <= max; i++ {
		got = append(got, byField[i]...)
	}
	ok := len(got) == len(want)
	for i := 0; ok && i < len(got); i++ {
		ok = glob(want[i], got[i])
	}
	r.Check(key, ok, r.FnPos(fn), fmt.Sprintf("values in wire order: %v ; required: %v", got, want))
}

// c04CopyDst decides "the bytes this copy call writes end up in the array at field path `path` of the
// struct built in the allocation `result`". Two forms establish it: the destination is that array
// itself, sliced whole (`result.path[:]`); or the destination is the whole array at sub-path q of a
// separate zero local L (`L.q[:]`), path = f.q (or path = f when q is empty), nothing but this copy
// writes L (no store into it, its address goes nowhere else), and every store to result.f (at least
// one) stores the value of L read after the copy has run.
func c04CopyDst(r *Run, fn *ssa.Function, key string, c ssa.CallInstruction, result, path string) {
	args := CallArgs(c)
	if len(args) < 1 {
		r.Fail(key, r.Where(c), "call "+CalleeOf(c)+" has no destination")
		return
	}
	got := r.D.D(args[0])
	want := result + "." + path + "[:]"
	if glob(want, got) {
		// … and no store that can run after the copy writes the array, a struct it lies in, or a part of it
		over := ""
		if sl, ok := args[0].(*ssa.Slice); ok {
			if a := addrBase(sl.X); a != nil {
				an := r.D.allocName(a)
				for _, st := range storesInto(fn, a) {
					at := strings.TrimSuffix(strings.TrimPrefix(r.D.D(st.Addr), "&("), ")")
					if at != an && !strings.HasPrefix(an+"."+path+".", at+".") && !strings.HasPrefix(at, an+"."+path+"[") && !strings.HasPrefix(at+".", an+"."+path+".") {
						continue
					}
					if mayExecuteAfter(st, c) {
						over = fmt.Sprintf(", but %s <- %s at %s can overwrite it afterwards", r.D.D(st.Addr), r.D.D(st.Val), r.Where(st))
					}
				}
			}
		}
		r.Check(key, over == "", r.Where(c), fmt.Sprintf("arg 0 of %s = %s (expected %s)%s", CalleeOf(c), got, want, over))
		return
	}
	fail := func(why string) {
		r.Fail(key, r.Where(c), fmt.Sprintf("arg 0 of %s = %s (expected %s, or a whole zero local whose value is then stored there: %s)", CalleeOf(c), got, want, why))
	}
	sl, ok := args[0].(*ssa.Slice)
	if !ok || sl.Low != nil || sl.High != nil || sl.Max != nil {
		fail("not a whole-array slice")
		return
	}
	// the chain of field selections from the local down to the array
	var sub []string
	var chain []ssa.Value
	v := sl.X
	for {
		fa, isFA := v.(*ssa.FieldAddr)
		if !isFA {
			break
		}
		f := fieldOf(fa)
		if f == nil {
			fail("unresolved field")
			return
		}
		sub = append([]string{f.Name()}, sub...)
		chain = append(chain, fa)
		v = fa.X
	}
	L, isAlloc := v.(*ssa.Alloc)
	if !isAlloc || glob(result, r.D.allocName(L)) {
		fail("destination is not inside a separate local")
		return
	}
	q := strings.Join(sub, ".")
	f := path
	if q != "" {
		if !strings.HasSuffix(path, "."+q) {
			fail("the local's array " + q + " is not the array " + path)
			return
		}
		f = strings.TrimSuffix(path, "."+q)
	}
	// L is written by this copy only: every use of L is the selection chain feeding the copy, or a load
	okUse := func(user ssa.Instruction, next ssa.Value) bool {
		if u, isV := user.(ssa.Value); isV && next != nil && u == next {
			return true
		}
		return false
	}
	links := append([]ssa.Value{ssa.Value(sl)}, chain...) // sl, innermost FieldAddr, ..., outermost FieldAddr, then L
	for i := len(links) - 1; i >= 0; i-- {
		var owner ssa.Value = L
		if i < len(links)-1 {
			owner = links[i+1]
		}
		for _, u := range *owner.Referrers() {
			if _, isDbg := u.(*ssa.DebugRef); isDbg {
				continue
			}
			if okUse(u, links[i]) {
				continue
			}
			if ld, isLd := u.(*ssa.UnOp); isLd && owner == ssa.Value(L) && ld.X == ssa.Value(L) {
				continue
			}
			fail(fmt.Sprintf("%s is also used by %s", r.D.D(owner), r.Where(u)))
			return
		}
	}
	for _, u := range *sl.Referrers() {
		if u != c.(ssa.Instruction) {
			fail(fmt.Sprintf("%s is also used at %s", got, r.Where(u)))
			return
		}
	}
	if len(storesInto(fn, L)) != 0 {
		fail("the local is also written by a store")
		return
	}
	sts := r.StoresTo(fn, "&("+result+"."+f+")")
	if len(sts) == 0 {
		fail("no store to " + result + "." + f)
		return
	}
	for _, st := range sts {
		ld, isLd := c04Unconverted(st.Val).(*ssa.UnOp) // the array type may be named on one side only ([32]byte ↔ SHA256Hash)
		if !isLd || ld.X != ssa.Value(L) {
			fail(fmt.Sprintf("%s <- %s at %s is not the local's value", r.D.D(st.Addr), r.D.D(st.Val), r.Where(st)))
			return
		}
		if !executesBefore(c, ld) {
			fail(fmt.Sprintf("the local is read at %s, not always after the copy", r.Where(ld)))
			return
		}
	}
	r.Pass(key, r.Where(c), fmt.Sprintf("arg 0 of %s = %s: fills the whole zero local %s, whose value read after the copy is what every store (%d) to %s.%s stores", CalleeOf(c), got, r.D.allocName(L), len(sts), result, f))
}

func baseSliceAlloc(v ssa.Value) *ssa.Alloc {
	if s, ok := v.(*ssa.Slice); ok {
		if a, ok := s.X.(*ssa.Alloc); ok {
			return a
		}
	}
	return nil
}

func caseName(c ConstCase) string {
	if c.Default {
		return "other"
	}
	return fmt.Sprint(c.Value)
}

// ---- R4 ---------------------------------------------------------------------------

// c04Decision: over the constants fn compares xGlob with, exactly the values in
// accepted may reach a return that is not a constructed error; every other
// value (and the default) reaches only error returns with zero results.
func c04Decision(r *Run, fn *ssa.Function, key, xGlob string, accepted ...int64) {
	cases, err := r.D.ConstTable(fn, xGlob, nil)
	if err != nil {
		r.Fail(key, r.FnPos(fn), "undecided: "+err.Error()+" (the check on "+xGlob+" is missing)")
		return
	}
	acc := map[int64]bool{}
	for _, a := range accepted {
		acc[a] = true
	}
	seen := map[int64]bool{}
	for _, cs := range cases {
		r.Valuations++
		nOK, bad := 0, ""
		for _, ret := range reachableReturns(fn, cs.Reach) {
			if errKind(ret.Results[len(ret.Results)-1]) != "non" {
				nOK++
				continue
			}
			if good, why := wantErr(true)(r, ret); !good {
				bad = why
			}
		}
		want := !cs.Default && acc[cs.Value]
		if !cs.Default {
			seen[cs.Value] = true
		}
		ok := (nOK > 0) == want && bad == ""
		r.Check(key+"["+caseName(cs)+"]", ok, r.FnPos(fn), fmt.Sprintf("%s = %s: %d non-error returns reachable (accepted values %v) %s", xGlob, caseName(cs), nOK, accepted, bad))
	}
	for _, a := range accepted {
		if !seen[a] {
			r.Fail(fmt.Sprintf("%s[%d]", key, a), r.FnPos(fn), fmt.Sprintf("value %d of %s is no longer distinguished", a, xGlob))
		}
	}
}

func c04Unknown(r *Run) {
	r.Rule("C04.R4")
	if fn := r.Fn("ct.SerializeSCTSignatureInput"); fn != nil {
		c04Decision(r, fn, "sct-input:version", "p0.SCTVersion", 0)
		c04Decision(r, fn, "sct-input:entry-type", "p1.Leaf.TimestampedEntry.EntryType", 0, 1)
	}
	if fn := r.Fn("ct.SerializeSTHSignatureInput"); fn != nil {
		c04Decision(r, fn, "sth-input:version", "p0.Version", 0)
	}
	if fn := r.Fn("ct.RawLogEntryFromLeaf"); fn != nil {
		c04Decision(r, fn, "RawLogEntryFromLeaf:entry-type", "*.Leaf.TimestampedEntry.EntryType", 0, 1)
	}
	if fn := r.Fn("(*ct.RawLogEntry).ToLogEntry"); fn != nil {
		c04Decision(r, fn, "ToLogEntry:entry-type", "p0.Leaf.TimestampedEntry.EntryType", 0, 1)
	}
}

// ---- R5 ---------------------------------------------------------------------------

func c04Rest(r *Run) {
	r.Rule("C04.R5")
	sites := r.CallersOf("tls.Unmarshal*")
	n := 0
	for _, fname := range keysOf(sites) {
		for _, c := range sites[fname] {
			if fname != "tls.Unmarshal" {
				n++
				// a site in a generic function stands for one decode per instantiation
				if c.Parent().TypeParams().Len() > 0 {
					inst := 0
					for f := range r.P.AllFuncs {
						if f.Origin() == c.Parent() {
							inst++
						}
					}
					if inst > 1 {
						n += inst - 1
					}
				}
			}
			target := "?"
			if a := CallArgs(c); len(a) > 1 {
				if mi, ok := a[1].(*ssa.MakeInterface); ok {
					if pt, ok := mi.X.Type().Underlying().(*types.Pointer); ok {
						target = TypeName(pt.Elem())
					}
				}
			}
			key := "rest:" + fname + ":" + target
			if why, ok := c04RestExceptions[fname]; ok {
				r.Pass(key, r.Where(c), "named exception: "+why)
				continue
			}
			// a decode whose result nothing reads accepts nothing: a diagnostic (the outcome is only tested,
			// to log) — wherever it stands
			if c04DiagnosticDecode(c) {
				r.Pass(key, r.Where(c), "diagnostic decode: the decoded value is never read, error and remainder are only tested")
				continue
			}
			// a pure predicate "decodes completely": true exactly for (no error, no remainder)
			if sig := c.Parent().Signature; sig.Results().Len() == 1 && types.Identical(sig.Results().At(0).Type(), types.Typ[types.Bool]) {
				if _, _, _, why := c14DecodePredicate(r, c.Parent()); why == "" {
					r.Pass(key, r.Where(c), "predicate: returns true exactly when the decode succeeded and left nothing over")
					continue
				}
			}
			c04RestSite(r, c.Parent(), c, key, fname, c04RestMarkers)
		}
	}
	r.Floor("tls.Unmarshal call sites", n, 17)
}

// ---- R6 ---------------------------------------------------------------------------

func c04JSONRules(r *Run) {
	r.Rule("C04.R6")
	for _, q := range keysOf(c04JSON) {
		n := r.P.LookupType(q)
		if n == nil {
			r.Fail("json:"+q, "-", "undecided: type "+q+" not found")
			continue
		}
		got := strings.Join(jsonShape(n), " ")
		r.Check("json:"+q, got == c04JSON[q], r.P.Pos(n.Obj().Pos()), "members  "+got+" ; RFC 6962 s4 requires  "+c04JSON[q])
	}
	// scalar message members must keep encoding/json's default (number) form
	for _, q := range []string{"ct.Version"} {
		n := r.P.LookupType(q)
		if n == nil {
			r.Fail("json-plain:"+q, "-", "undecided: type "+q+" not found")
			continue
		}
		custom := ""
		for _, m := range []string{"MarshalJSON", "UnmarshalJSON", "MarshalText", "UnmarshalText"} {
			if o, _, _ := types.LookupFieldOrMethod(types.NewPointer(n), true, n.Obj().Pkg(), m); o != nil {
				custom = m
			}
		}
		r.Check("json-plain:"+q, custom == "", r.P.Pos(n.Obj().Pos()), q+" is a JSON number (no custom marshaller "+custom+")")
	}
	std := "g:base64.StdEncoding"
	dec := "(*base64.Encoding).DecodeString(" + std + ", "
	lenGuard := func(fn *ssa.Function, key, what string) {
		r.FailEdge(fn, key, EdgeSpec{Name: "length-not-32", Atom: ordAtomR("32", "len("+what+")"), Bad: "<,>", Want: wantErr(true),
			Unreach: asInstrs(CallsTo(fn, "copy"))})
	}
	// form 2 of "the array member holds the bytes of the slice member" (rules_t5c04.go): no copy call at
	// all, the array is stored as the slice-to-array conversion of the slice
	converted := func(fn *ssa.Function, key, path, src string) ([]ssa.Instruction, int64, bool) {
		if len(CallsTo(fn, "copy")) != 0 {
			return nil, 0, false
		}
		conv, n := c04ConvertedField(r, fn, key, path, src)
		if n != 0 {
			r.Check(key, n == 32, r.FnPos(fn), fmt.Sprintf("no call to copy; %s is stored as a [%d]byte value (a SHA-256 value has 32 bytes)", path, n))
		}
		return conv, 32, true // when the stores were not decided (reported under .dst/.src) the length guard is still owed
	}
	// … whose length guard must precede the conversion itself (it panics on a short slice), and
	// must leave no success return for any other length
	lenGuardN := func(fn *ssa.Function, key, what string, n int64, conv []ssa.Instruction) {
		r.FailEdge(fn, key, EdgeSpec{Name: "length-not-32", Atom: ordAtomR(fmt.Sprint(n), "len("+what+")"), Bad: "<,>", Want: wantErr(true), Unreach: conv})
		c04ConvertedLenGuard(r, fn, key+":length-before-conversion", what, n, conv)
	}
	// the unique tls.Unmarshal of fn, reading `from`
	decoder := func(fn *ssa.Function, key, from string) ssa.CallInstruction {
		c := r.OneCall(fn, key+":unmarshal", "tls.Unmarshal")
		if c != nil {
			r.ExpectArg(c, key+":unmarshal.bytes", 0, from)
		}
		return c
	}
	decoded := func(fn *ssa.Function, key, from, typ string) string {
		// the DigitallySigned local that tls.Unmarshal fills from `from`
		c := decoder(fn, key, from)
		if c == nil {
			return "?"
		}
		r.ExpectArg(c, key+":unmarshal.into", 1, "new:"+typ+"#*")
		c04KeepsDecoded(r, fn, key+":unmarshal.kept", c, 1)
		return "*" + r.D.D(CallArgs(c)[1])
	}
	// field `field` of the returned struct is what that tls.Unmarshal decoded: through a local that is
	// then stored into the field, or in place
	decodedField := func(fn *ssa.Function, key string, ret ssa.Instruction, field, typ string, c ssa.CallInstruction) {
		if c == nil {
			r.Fail(key+"."+field, r.Where(ret), "undecided: no unique tls.Unmarshal whose result could fill "+field)
			return
		}
		c04DecodedField(r, fn, key+":unmarshal.into", key+"."+field, ret.(*ssa.Return).Results[0], field, c, 1, typ)
	}
	// "converts without loss": each listed member of the message the success return hands out is set
	// (at least once, and only ever) to the named member of the received message; a member that is
	// never set comes out as its zero value whatever was received
	carried := func(fn *ssa.Function, key string, ret ssa.Instruction, want map[string]string) {
		base := ret.(*ssa.Return).Results[0]
		a := baseAlloc(base)
		if a == nil {
			r.ExpectFields(fn, key, base, want) // reports "undecided: not built in a local allocation"
			return
		}
		for _, f := range keysOf(want) {
			addr := "&(" + r.D.allocName(a) + "." + f + ")"
			if len(r.StoresTo(fn, addr)) == 0 {
				r.Fail(key+"."+f, r.Where(ret), fmt.Sprintf("member %s of the %s that %s returns is never set (no store to %s; expected %s): whatever the received message carries there is lost, the converted message always has the zero value", f, TypeName(a.Type().(*types.Pointer).Elem()), FuncName(fn), addr, want[f]))
				continue
			}
			r.ExpectStores(fn, key+"."+f, addr, want[f], 1)
		}
	}
	if fn := r.Fn("(*ct.AddChainResponse).ToSignedCertificateTimestamp"); fn != nil {
		k := "ToSCT"
		c := decoder(fn, k, "p0.Signature")
		for _, ret := range successReturns(fn) {
			carried(fn, k, ret, map[string]string{
				"SCTVersion": "p0.SCTVersion", "Timestamp": "p0.Timestamp",
				"Extensions": dec + "p0.Extensions)#0",
			})
			decodedField(fn, k, ret, "Signature", "ct.DigitallySigned", c)
		}
		r.Check(k+":one-success-return", len(successReturns(fn)) == 1, r.FnPos(fn), fmt.Sprintf("%d success returns", len(successReturns(fn))))
		if conv, n, ok := converted(fn, k+":id", "LogID.KeyID", "p0.ID"); ok {
			lenGuardN(fn, k, "p0.ID", n, conv)
		} else {
			if c := r.OneCall(fn, k+":id", "copy"); c != nil {
				c04CopyDst(r, fn, k+":id.dst", c, "new:ct.SignedCertificateTimestamp#*", "LogID.KeyID")
				r.ExpectArg(c, k+":id.src", 1, "p0.ID")
			}
			lenGuard(fn, k, "p0.ID")
		}
		r.ErrorsGate(fn, k+":errors", "*", 2)
	}
	if fn := r.Fn("(*ct.GetSTHResponse).ToSignedTreeHead"); fn != nil {
		k := "ToSTH"
		c := decoder(fn, k, "p0.TreeHeadSignature")
		for _, ret := range successReturns(fn) {
			carried(fn, k, ret, map[string]string{
				"TreeSize": "p0.TreeSize", "Timestamp": "p0.Timestamp",
			})
			decodedField(fn, k, ret, "TreeHeadSignature", "ct.DigitallySigned", c)
		}
		r.Check(k+":one-success-return", len(successReturns(fn)) == 1, r.FnPos(fn), fmt.Sprintf("%d success returns", len(successReturns(fn))))
		if conv, n, ok := converted(fn, k+":root", "SHA256RootHash", "p0.SHA256RootHash"); ok {
			lenGuardN(fn, k, "p0.SHA256RootHash", n, conv)
		} else {
			if c := r.OneCall(fn, k+":root", "copy"); c != nil {
				c04CopyDst(r, fn, k+":root.dst", c, "new:ct.SignedTreeHead#*", "SHA256RootHash")
				r.ExpectArg(c, k+":root.src", 1, "p0.SHA256RootHash")
			}
			lenGuard(fn, k, "p0.SHA256RootHash")
		}
		r.ErrorsGate(fn, k+":errors", "*", 1)
	}
	if fn := r.Fn("(*ct.DigitallySigned).FromBase64String"); fn != nil {
		k := "DigitallySigned.FromBase64String"
		ds := decoded(fn, k, dec+"p1)#0", "tls.DigitallySigned")
		r.ExpectStores(fn, k+":result", "p0", ds, 1)
		r.ErrorsGate(fn, k+":errors", "*", 2)
	}
	if fn := r.Fn("(ct.DigitallySigned).Base64String"); fn != nil {
		k := "DigitallySigned.Base64String"
		if e := r.OneCall(fn, k+":encode", "(*base64.Encoding).EncodeToString"); e != nil {
			r.ExpectArg(e, k+":encode.enc", 0, std)
			r.ExpectArg(e, k+":encode.bytes", 1, "tls.Marshal(p0)#0")
			for _, ret := range successReturns(fn) {
				r.Check(k+":value", ret.(*ssa.Return).Results[0] == e.Value(), r.Where(ret), "returns "+r.D.D(ret.(*ssa.Return).Results[0]))
			}
			r.Check(k+":one-success-return", len(successReturns(fn)) == 1, r.FnPos(fn), fmt.Sprintf("%d success returns", len(successReturns(fn))))
		}
		if c := r.OneCall(fn, k+":marshal", "tls.Marshal"); c != nil {
			r.ExpectArg(c, k+":marshal.arg", 0, "p0")
		}
		r.ErrorsGate(fn, k+":errors", "tls.Marshal", 1)
	}
	quoted := func(name, inner string) {
		fn := r.Fn(name)
		if fn == nil {
			return
		}
		for _, ret := range successReturns(fn) {
			got := r.D.D(ret.(*ssa.Return).Results[0])
			r.Check(name+":quoted", got == `conv:[]byte((("\"" + `+inner+`) + "\""))`, r.Where(ret), "JSON form "+got+" (a JSON string holding the base64 text)")
		}
		r.Check(name+":success-returns", len(successReturns(fn)) >= 1, r.FnPos(fn), "has a success return")
	}
	quoted("(ct.DigitallySigned).MarshalJSON", "(ct.DigitallySigned).Base64String(p0)#0")
	quoted("(ct.SHA256Hash).MarshalJSON", "(ct.SHA256Hash).Base64String(p0)")
	if fn := r.Fn("(ct.DigitallySigned).MarshalJSON"); fn != nil {
		r.ErrorsGate(fn, "DigitallySigned.MarshalJSON:errors", "(ct.DigitallySigned).Base64String", 1)
	}
	for _, t := range []string{"DigitallySigned", "SHA256Hash"} {
		if fn := r.Fn("(*ct." + t + ").UnmarshalJSON"); fn != nil {
			k := t + ".UnmarshalJSON"
			if c := r.OneCall(fn, k+":json", "json.Unmarshal"); c != nil {
				r.ExpectArg(c, k+":json.bytes", 0, "p1")
				r.ExpectArg(c, k+":json.into", 1, "new:string#*")
			}
			if c := r.OneCall(fn, k+":decode", "(*ct."+t+").FromBase64String"); c != nil {
				r.ExpectArg(c, k+":decode.recv", 0, "p0")
				r.ExpectArg(c, k+":decode.text", 1, "*new:string#*")
				for _, ret := range Returns(fn) {
					if errKind(ret.Results[0]) != "non" {
						r.Check(k+":result", ret.Results[0] == c.Value(), r.Where(ret), "returns FromBase64String's verdict: "+r.D.D(ret.Results[0]))
					}
				}
			}
			r.FailEdge(fn, k, EdgeSpec{Name: "json-error", Atom: nilAtom("json.Unmarshal(*)"), Bad: "non", Want: wantErr(false),
				Unreach: asInstrs(CallsTo(fn, "(*ct."+t+").FromBase64String"))})
		}
	}
	if fn := r.Fn("(*ct.SHA256Hash).FromBase64String"); fn != nil {
		k := "SHA256Hash.FromBase64String"
		if c := r.OneCall(fn, k+":copy", "copy"); c != nil {
			r.ExpectArg(c, k+":copy.dst", 0, "p0[:]")
			r.ExpectArg(c, k+":copy.src", 1, dec+"p1)#0")
		}
		if c := r.OneCall(fn, k+":decode", "(*base64.Encoding).DecodeString"); c != nil {
			r.ExpectArg(c, k+":decode.enc", 0, std)
			r.ExpectArg(c, k+":decode.text", 1, "p1")
		}
		lenGuard(fn, k, "(*base64.Encoding).DecodeString(*)#0")
		r.ErrorsGate(fn, k+":errors", "(*base64.Encoding).DecodeString", 1)
	}
	if fn := r.Fn("(ct.SHA256Hash).Base64String"); fn != nil {
		for _, ret := range Returns(fn) {
			r.Check("SHA256Hash.Base64String:value", r.D.D(ret.Results[0]) == "(*base64.Encoding).EncodeToString("+std+", p0[:])", r.Where(ret), "returns "+r.D.D(ret.Results[0]))
		}
	}
}

// c04DiagnosticDecode: the destination of this tls.Unmarshal call is a local that nothing else touches, and the
// remainder and error results are used only in length / nil tests.
func c04DiagnosticDecode(c ssa.CallInstruction) bool {
	args := CallArgs(c)
	if len(args) < 2 {
		return false
	}
	al := baseAlloc(args[1])
	if al == nil {
		return false
	}
	for _, ref := range *al.Referrers() {
		switch x := ref.(type) {
		case *ssa.MakeInterface, *ssa.ChangeInterface:
			v := x.(ssa.Value)
			for _, r2 := range *v.Referrers() {
				if r2 != ssa.Instruction(c.(*ssa.Call)) {
					if _, dbg := r2.(*ssa.DebugRef); !dbg {
						return false
					}
				}
			}
		case *ssa.DebugRef:
		default:
			return false
		}
	}
	onlyTested := func(v ssa.Value) bool {
		if v == nil {
			return true
		}
		for _, ref := range *v.Referrers() {
			switch x := ref.(type) {
			case *ssa.BinOp:
				if x.Op != token.EQL && x.Op != token.NEQ && x.Op != token.GTR && x.Op != token.LSS && x.Op != token.GEQ && x.Op != token.LEQ {
					return false
				}
				for _, r2 := range *x.Referrers() {
					if _, isIf := r2.(*ssa.If); !isIf {
						if _, dbg := r2.(*ssa.DebugRef); !dbg {
							return false
						}
					}
				}
			case *ssa.Call:
				b, isB := x.Call.Value.(*ssa.Builtin)
				if !isB || b.Name() != "len" {
					return false
				}
				for _, r2 := range *x.Referrers() {
					bo, isBin := r2.(*ssa.BinOp)
					if !isBin {
						if _, dbg := r2.(*ssa.DebugRef); !dbg {
							return false
						}
						continue
					}
					for _, r3 := range *bo.Referrers() {
						if _, isIf := r3.(*ssa.If); !isIf {
							if _, dbg := r3.(*ssa.DebugRef); !dbg {
								return false
							}
						}
					}
				}
			case *ssa.DebugRef:
			default:
				return false
			}
		}
		return true
	}
	return onlyTested(CallResult(c, 0)) && onlyTested(CallResult(c, 1))
}
