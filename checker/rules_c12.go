package main

import (
	"fmt"
	"go/token"
	"go/types"
	"strings"

	"golang.org/x/tools/go/ssa"
)

func init() {
	register("C12", "Decides structural necessary conditions of 'a log client holding the log key never hands back unverified signed data': "+
		"(R1) a client constructed with a public key gets the verifier built from that key or fails, and nothing else writes the Verifier field; LogClient.GetSTH returns an STH only after the fetch and ToSignedTreeHead (32-byte root, DigitallySigned without trailing bytes, fields copied from the response) succeeded, and once c.VerifySTHSignature on that very STH has answered non-nil no STH-yielding return executes; an STH-yielding return that can be reached without executing the verification is accepted only as a remembered verdict: the conditions necessary for reaching it compare every input the verdict depends on (the members of the head and the client state that VerifySTHSignature and the functions it hands them to read, taken from their SSA: version, size, timestamp, root, signature algorithm pair, signature bytes by bytes.Equal, the verifier by value) with a record in the client; every store to a record member, module-wide, copies exactly that input, is dominated by the verification and does not execute once the verdict was non-nil, all members in one block; slices the verdict depends on are remembered as private copies; all record accesses hold one common mutex (remembered-verdict:key[*], fill[*], fill-complete, private[*], lock); LogClient.VerifySTHSignature/VerifySCTSignature return nil without a verdict only when no verifier is configured, otherwise the verifier's verdict; "+
		"(R2) addChainWithRetry returns an SCT only after the POST, the DigitallySigned decode (no trailing bytes), the extensions decode and c.VerifySCTSignature(returned SCT, the function's own entry type, the function's own chain) succeeded; the SCT is built from the response fields and not written after verification; the leaf verified is MerkleTreeLeafFromRawChain(chain, type, sct.Timestamp), and the extensions inside the verified bytes are the SCT's own: every value stored into the Extensions of a ct.CertificateTimestamp marshalled on the verdict's call path is traced, parameter by parameter, to the wrapper's SCT parameter (unassigned on the way) or to the leaf, in which case the wrapper has stored sct.Extensions there before copying the leaf into the entry (signed-extensions); AddChain/AddPreChain bind (X509, add-chain) / (Precert, add-pre-chain); "+
		"(R3) with a verifier configured, some test on the submission path looks at the response's log ID and can block the SCT; "+
		"(R4) in GetAndParse/PostAndParse/PostAndParseWithRetry a body-read error with a response in hand, a non-200 status and a JSON error yield RspError{StatusCode, Body of that response} with nil results, and success needs status 200 (GetAndParse, PostAndParseWithRetry); every error a LogClient method produces itself after a response was received is such an RspError with a nil result, fetch errors are passed through with a nil result; "+
		"(R5) the entry decoder touches the decoded leaf only after tls.Unmarshal succeeded without trailing bytes, decodes extra_data in the form selected by the leaf's entry type (for every type code 0..255 and the corners of the 16-bit range), rejects unknown types and trailing bytes, copies certificate and chain from the decoded parts; ToLogEntry / LogEntryFromLeaf / GetEntries return (nil, error) on fatal parse errors and never dereference a failed decode; "+
		"(R11) over-long responses: every JSON decode in client, jsonclient and loglist3 is a parse of its whole input — json.Unmarshal, or a (*json.Decoder).Decode after which no return that can report success executes unless a later Decode/Token of the same decoder answered io.EOF (dec.More() is not that answer: it is false before a stray ']' or '}'); in GetAndParse the decode that fills rsp reads the body that is handed back and bytes behind the JSON value yield RspError{status, body} (R4 trailing-data.error-shape); white space behind the value stays acceptable. "+
		"NOT covered: a public-key object modified in place between two GetSTH calls, races between a caller that replaces c.Verifier and a running GetSTH, package-level variables the verification might read (none on this tree; the inputs of the verdict are read off parameters only), a remembered verdict whose record is kept by value with partial stores or filled by a function that is not called from GetSTH (both reported as undecided), bytes through encoding/json and net/http (incl. unbounded bodies), other ways of showing a decoder's input exhausted (Buffered/InputOffset arithmetic, a bool travelling through a helper: reported as undecided), duplicate or unknown JSON members, panics inside the X.509 parser, the cryptographic check itself (C05), which fields are signed (C04), retry pacing (C13), errors of Body.Close and the redirect-converted-POST error of PostAndParse (plain errors by design, swallowed by the retry loop), that the log-ID test of R3 compares with the right hash (only its presence and blocking effect are decided).",
		runC12)
}

const (
	c12Get   = "(*jsonclient.JSONClient).GetAndParse"
	c12Post  = "(*jsonclient.JSONClient).PostAndParse"
	c12Retry = "(*jsonclient.JSONClient).PostAndParseWithRetry"
)

// returns that hand out a (non-nil) first result
func yieldingReturns(r *Run, fn *ssa.Function) []*ssa.Return {
	var out []*ssa.Return
	for _, ret := range Returns(fn) {
		if len(ret.Results) > 0 && r.D.D(ret.Results[0]) != "nil" {
			out = append(out, ret)
		}
	}
	return out
}

func runC12(r *Run) {
	r.Assume("net/http and encoding/json behave per their documentation; ctxhttp.Do returns a nil response exactly when it returns an error (GetAndParse) ")
	r.Assume("a successful tls.Unmarshal leaves the selected optional parts of a MerkleTreeLeaf non-nil (C09)")
	c12GetSTH(r)
	c12AddChain(r)
	c12LogID(r)
	c12JSONClient(r)
	c12ClientErrors(r)
	c12Decoder(r)
	c12CompleteParse(r)

	// no server-chosen header or status can make a submission misbehave: the retry
	// loop and the single-shot POST (rule sets of C13.R1, R2, R5)
	r.Shared("C12.R6", func() {
		if fn := r.Fn("(*jsonclient.JSONClient).PostAndParseWithRetry"); fn != nil {
			c13Loop(r, fn)
		}
		if fn := r.Fn(c13Post); fn != nil {
			c13PostRule(r, fn)
		}
	})

	r.NilArgsRule("C12.R7", "client", "jsonclient", "ct")

	r.Rule("C12.R9")
	c12RspErrCause(r)
	r.Rule("C12.R10")
	c12GoSharedWrites(r, "client", "jsonclient")
	// the leaf the client verifies an SCT over (rule sets of C01.R7 and C03.R8)
	r.Shared("C12.R8", func() {
		r.Rule("C01.R7")
		c01Leaf(r)
		r.Rule("C03.R8")
		c03RawChain(r)
	})
}

// ---- R1 ---------------------------------------------------------------------------

// verifierOrNil: a LogClient.Verify* wrapper returns nil without a verdict only when
// c.Verifier == nil; with a verifier every return is the verdict or a constructed error.
func c12Wrapper(r *Run, fnName, verdict string) (*ssa.Function, []ssa.CallInstruction) {
	fn := r.Fn(fnName)
	if fn == nil {
		return nil, nil
	}
	k := "LogClient." + short(fnName)
	noVerifier := nilAtom("p0.JSONClient.Verifier")
	cs := r.VerdictShape(fn, k, verdict, func(ret *ssa.Return) (bool, string) {
		s, _, err := r.bindSets(fn, nil, nil, AtomSet{noVerifier, "non"})
		if err != nil {
			return false, "the function never tests c.Verifier"
		}
		r.Valuations++
		if r.D.Walk(fn, s, nil, nil).Has(ret) {
			return false, "this return is reachable although a verifier is configured"
		}
		return true, "only when c.Verifier == nil (no key configured)"
	})
	r.Check(k+":delegates", len(cs) >= 1, r.FnPos(fn), "with a verifier, returns the verdict of "+verdict)
	for _, c := range cs {
		r.ExpectArg(c, k+":verifier", 0, "*p0.JSONClient.Verifier")
		r.ExpectArg(c, k+":object", 1, "p1")
	}
	return fn, cs
}

func c12GetSTH(r *Run) {
	r.Rule("C12.R1")
	c12Wrapper(r, "(*client.LogClient).VerifySTHSignature", "(ct.SignatureVerifier).VerifySTHSignature")
	c12Configured(r)
	fn := r.Fn("(*client.LogClient).GetSTH")
	if fn == nil {
		return
	}
	yield := yieldingReturns(r, fn)
	r.Floor("STH-yielding returns of GetSTH", len(yield), 1)
	get := r.OneCall(fn, "GetSTH:fetch", c12Get)
	conv := r.OneCall(fn, "GetSTH:convert", "(*ct.GetSTHResponse).ToSignedTreeHead")
	ver := r.OneCall(fn, "GetSTH:verify", "(*client.LogClient).VerifySTHSignature")
	if get == nil || conv == nil || ver == nil {
		return
	}
	r.Gate(fn, "GetSTH:fetch-failed", nil, nil, nilAtom(c12Get+"(*)#2"), "non", yield, []ssa.Instruction{conv, ver}, "the fetch failed")
	r.Gate(fn, "GetSTH:malformed-sth", nil, nil, nilAtom("(*ct.GetSTHResponse).ToSignedTreeHead(*)#1"), "non", yield, []ssa.Instruction{ver}, "the response is not a well-formed STH")
	// once the verification said no, no STH-yielding return executes; a return that can be reached
	// without executing the verification is a remembered verdict or a violation (rules_t8c12.go)
	c12RememberedVerdict(r, fn, ver, conv, yield)
	r.ExpectArg(get, "GetSTH:path", 2, `"/ct/v1/get-sth"`)
	r.Check("GetSTH:converts-fetched-response", baseAlloc(CallArgs(get)[4]) != nil && baseAlloc(CallArgs(get)[4]) == baseAlloc(CallArgs(conv)[0]), r.Where(conv), "ToSignedTreeHead is applied to the response object GetAndParse filled")
	r.ExpectArg(ver, "GetSTH:verify.client", 0, "p0")
	r.Check("GetSTH:verifies-converted-sth", sameResult(CallArgs(ver)[1], CallResult(conv, 0)), r.Where(ver), "the STH verified is the one ToSignedTreeHead produced: "+r.D.D(CallArgs(ver)[1]))
	for _, ret := range yield {
		// every STH this return can hand out is the verified one (merged with the nil of failure paths: that one or nothing)
		same, n := true, 0
		for _, leaf := range phiLeaves(ret.Results[0]) {
			if isNilConst(leaf) {
				continue
			}
			n++
			same = same && sameResult(leaf, CallResult(conv, 0))
		}
		r.Check("GetSTH:returns-verified-sth", same && n > 0 && errKind(ret.Results[1]) == "nil", r.Where(ret), "the STH returned is the one that was verified: "+r.D.D(ret.Results[0]))
	}
	// ToSignedTreeHead
	if tf := r.Fn("(*ct.GetSTHResponse).ToSignedTreeHead"); tf != nil {
		r.FailEdge(tf, "ToSignedTreeHead", EdgeSpec{Name: "root-hash-not-32-bytes", Atom: ordAtomR("len(p0.SHA256RootHash)", "32"), Bad: "<,>", Want: wantErr(true), Unreach: append(asInstrs(CallsTo(tf, "copy")), sliceToArrayConvs(tf)...)})
		r.FailEdge(tf, "ToSignedTreeHead", EdgeSpec{Name: "signature-undecodable", Atom: nilAtom("tls.Unmarshal(p0.TreeHeadSignature, *)#1"), Bad: "non", Want: wantErr(true)})
		r.FailEdge(tf, "ToSignedTreeHead", EdgeSpec{Name: "signature-trailing-bytes", Atom: ordAtomR("len(tls.Unmarshal(p0.TreeHeadSignature, *)#0)", "0"), Bad: ">", Want: wantErr(true)})
		for _, ret := range yieldingReturns(r, tf) {
			a := baseAlloc(ret.Results[0])
			um := CallsTo(tf, "tls.Unmarshal")
			if a == nil || len(um) != 1 || baseAlloc(CallArgs(um[0])[1]) == nil {
				r.Fail("ToSignedTreeHead:fields", r.Where(ret), "undecided: STH or DigitallySigned is not a local literal")
				continue
			}
			r.ExpectFields(tf, "ToSignedTreeHead:sth", ret.Results[0], map[string]string{
				"TreeSize": "p0.TreeSize", "Timestamp": "p0.Timestamp",
			})
			// the signature field is what tls.Unmarshal decoded (through a local, or in place)
			r.ExpectArg(um[0], "ToSignedTreeHead:signature.source", 0, "p0.TreeHeadSignature")
			c04DecodedField(r, tf, "ToSignedTreeHead:signature.target", "ToSignedTreeHead:sth.TreeHeadSignature", ret.Results[0], "TreeHeadSignature", um[0], 1, "ct.DigitallySigned")
			// the root hash of the STH holds the bytes of the response's root: copied into the array,
			// or the array is set as a whole to the response's slice converted to an array
			if len(CallsTo(tf, "copy")) == 0 && len(writesIntoField(tf, a, "SHA256RootHash")) > 0 {
				c12ArrayFromSlice(r, tf, "ToSignedTreeHead:root-copy", a, "SHA256RootHash", "p0.SHA256RootHash")
				continue
			}
			cp := r.OneCall(tf, "ToSignedTreeHead:root-copy", "copy")
			if cp != nil {
				// the bytes copied end up in the STH's root-hash array: copied into it, or into a whole zero
				// local whose value is then stored there (the fact C04.R6 ToSTH:root.dst decides)
				c04CopyDst(r, tf, "ToSignedTreeHead:root-copy.dst", cp, r.D.allocName(a), "SHA256RootHash")
				r.ExpectArg(cp, "ToSignedTreeHead:root-copy.src", 1, "p0.SHA256RootHash")
			}
		}
	}
}

// resultUnused: result i of the call is never looked at (discarded with _ or not bound at all).
func resultUnused(c ssa.CallInstruction, i int) bool {
	v := CallResult(c, i)
	if v == nil {
		return true
	}
	for _, ref := range *v.Referrers() {
		if _, dbg := ref.(*ssa.DebugRef); !dbg {
			return false
		}
	}
	return true
}

// sliceToArrayConvs: the slice-to-array conversions of fn (`[N]T(s)`, `(*[N]T)(s)`): they panic when
// the slice is shorter than the array and silently drop what is beyond it.
func sliceToArrayConvs(fn *ssa.Function) []ssa.Instruction {
	var out []ssa.Instruction
	eachInstr(fn, func(in ssa.Instruction) {
		if c, ok := in.(*ssa.SliceToArrayPointer); ok {
			out = append(out, c)
		}
	})
	return out
}

// c12ArrayFromSlice decides "the array field `field` of the struct built in the allocation a holds
// the bytes of the slice srcGlob" for the form without copy: every write into the field is a store
// of the whole field (at least one), the value stored is the slice srcGlob converted to an array (of
// the field's type, by typing), and the struct is not overwritten as a whole afterwards. That the
// conversion only runs with a slice of exactly the array's length is the length obligation's part
// (the conversion is among the instructions that must not execute once the length test failed).
func c12ArrayFromSlice(r *Run, fn *ssa.Function, key string, a *ssa.Alloc, field, srcGlob string) {
	an := r.D.allocName(a)
	for _, st := range writesIntoField(fn, a, field) {
		whole := false
		if fa, ok := st.Addr.(*ssa.FieldAddr); ok && fa.X == ssa.Value(a) {
			whole = true
		}
		src := ""
		val := st.Val
		for {
			ct, ok := val.(*ssa.ChangeType) // [N]byte ↔ a named array type
			if !ok {
				break
			}
			val = ct.X
		}
		if u, ok := val.(*ssa.UnOp); ok && u.Op == token.MUL {
			if c, ok := u.X.(*ssa.SliceToArrayPointer); ok {
				src = r.D.D(c.X)
			}
		}
		r.Check(key+".dst", whole, r.Where(st), fmt.Sprintf("%s is set as a whole (%s)", an+"."+field, r.D.D(st.Addr)))
		r.Check(key+".src", src != "" && anyGlob(srcGlob, src), r.Where(st), fmt.Sprintf("%s <- %s: expected the slice %s converted to an array (got a conversion of %q)", r.D.D(st.Addr), r.D.D(st.Val), srcGlob, src))
		for _, st2 := range storesInto(fn, a) {
			if st2.Addr == ssa.Value(a) && mayExecuteAfter(st2, st) {
				r.Fail(key+".dst", r.Where(st2), fmt.Sprintf("the whole struct is overwritten after its %s field was set", field))
			}
		}
	}
	r.Pass(key, r.FnPos(fn), fmt.Sprintf("no copy: %s is filled by a slice-to-array conversion", an+"."+field))
}

// c12Configured: a client constructed with a public key has a verifier built from that
// key (or construction fails), and nothing else ever writes the Verifier field.
func c12Configured(r *Run) {
	if fn := r.Fn("jsonclient.New"); fn != nil {
		yield := yieldingReturns(r, fn)
		r.Floor("client-yielding returns of jsonclient.New", len(yield), 1)
		key := "(*jsonclient.Options).ParsePublicKey(*)"
		r.Gate(fn, "jsonclient.New:key-unparsable", nil, nil, nilAtom(key+"#1"), "non", yield, nil, "the configured key does not parse")
		r.FailEdge(fn, "jsonclient.New", EdgeSpec{Name: "key-unusable", Atom: nilAtom("ct.NewSignatureVerifier(*)#1"), Bad: "non", Want: wantErr(true)})
		if nv := r.OneCall(fn, "jsonclient.New:verifier", "ct.NewSignatureVerifier"); nv != nil {
			r.ExpectArg(nv, "jsonclient.New:verifier.key", 0, key+"#0")
			for _, ret := range yield {
				a := baseAlloc(ret.Results[0])
				if a == nil {
					r.Fail("jsonclient.New:client", r.Where(ret), "undecided: the client is not a local literal")
					continue
				}
				sts := r.StoresTo(fn, "&("+r.D.allocName(a)+".Verifier)")
				if len(sts) != 1 {
					r.Fail("jsonclient.New:Verifier", r.Where(ret), fmt.Sprintf("expected one store to Verifier, found %d", len(sts)))
					continue
				}
				s, _, err := r.bindSets(fn, nil, nil, AtomSet{nilAtom(key + "#0"), "non"})
				if err != nil {
					r.Fail("jsonclient.New:Verifier[key]", r.Where(sts[0]), "undecided: "+err.Error())
					continue
				}
				got := r.ValueUnder(fn, sts[0].Val, s)
				r.Check("jsonclient.New:Verifier[key]", glob("ct.NewSignatureVerifier("+key+"#0)#0", got), r.Where(sts[0]), "with a key configured, Verifier ← "+got)
			}
		}
	}
	if fn := r.Fn("client.New"); fn != nil {
		if c := r.OneCall(fn, "client.New:json", "jsonclient.New"); c != nil {
			r.ExpectArg(c, "client.New:opts", 2, "p2")
			for _, ret := range yieldingReturns(r, fn) {
				r.ExpectFields(fn, "client.New:client", ret.Results[0], map[string]string{"JSONClient": "*jsonclient.New(p0, p1, p2)#0"})
			}
			r.FailEdge(fn, "client.New", EdgeSpec{Name: "json-client-failed", Atom: nilAtom("jsonclient.New(*)#1"), Bad: "non", Want: wantErr(true)})
		}
	}
	w := r.FieldWriters("jsonclient.JSONClient.Verifier")
	if w == nil {
		r.Fail("who-writes:JSONClient.Verifier", "-", "undecided: field jsonclient.JSONClient.Verifier not found")
		return
	}
	r.Check("who-writes:JSONClient.Verifier@jsonclient.New", len(w["jsonclient.New"]) > 0, "-", "positive control: jsonclient.New sets the verifier")
	for _, f := range keysOf(w) {
		if f != "jsonclient.New" {
			r.Fail("who-writes:JSONClient.Verifier@"+f, r.Where(w[f][0]), f+" overwrites the client's verifier; only jsonclient.New may set it")
		}
	}
}

// ---- R2 ---------------------------------------------------------------------------

func c12AddChain(r *Run) {
	r.Rule("C12.R2")
	if wf, cs := c12Wrapper(r, "(*client.LogClient).VerifySCTSignature", "(ct.SignatureVerifier).VerifySCTSignature"); wf != nil {
		if lc := r.OneCall(wf, "LogClient.VerifySCTSignature:leaf", "ct.MerkleTreeLeafFromRawChain"); lc != nil {
			r.ExpectArg(lc, "LogClient.VerifySCTSignature:leaf.chain", 0, "p3")
			r.ExpectArg(lc, "LogClient.VerifySCTSignature:leaf.type", 1, "p2")
			r.ExpectArg(lc, "LogClient.VerifySCTSignature:leaf.timestamp", 2, "p1.Timestamp")
			r.FailEdge(wf, "LogClient.VerifySCTSignature", EdgeSpec{Name: "leaf-build-failed", Atom: nilAtom("ct.MerkleTreeLeafFromRawChain(*)#1"), Bad: "non", Want: wantErr(false), Unreach: asInstrs(cs)})
			// the extensions inside the verified bytes are the SCT's: taken from the SCT by the signed
			// structure itself, or put into the leaf here (rules_t8c12.go)
			c12SignedExtensions(r, wf, cs, lc)
			for _, c := range cs {
				r.ExpectFields(wf, "LogClient.VerifySCTSignature:entry", CallArgs(c)[2], map[string]string{"Leaf": "*ct.MerkleTreeLeafFromRawChain(p3, p2, p1.Timestamp)#0"})
				// the extensions are set before the leaf is copied into the entry that is verified
				for _, st := range r.StoresTo(wf, "&(ct.MerkleTreeLeafFromRawChain(*)#0.TimestampedEntry.Extensions)") {
					for _, st2 := range storesInto(wf, baseAlloc(CallArgs(c)[2])) {
						r.Check("LogClient.VerifySCTSignature:extensions-before-copy", executesBefore(st, st2), r.Where(st), "leaf.Extensions is set before the leaf is copied into the verified entry")
					}
				}
			}
		}
	}
	if lf := r.Fn("ct.MerkleTreeLeafFromRawChain"); lf != nil {
		if c := r.OneCall(lf, "MerkleTreeLeafFromRawChain:build", "ct.MerkleTreeLeafFromChain"); c != nil {
			r.ExpectArg(c, "MerkleTreeLeafFromRawChain:type", 1, "p1")
			r.ExpectArg(c, "MerkleTreeLeafFromRawChain:timestamp", 2, "p2")
			chain := r.D.D(CallArgs(c)[0])
			r.ExpectStores(lf, "MerkleTreeLeafFromRawChain:chain[i]", "&("+chain+"[*])", "x509.ParseCertificate(p0[it@*].Data)#0", 1)
			for _, st := range r.StoresTo(lf, "&("+chain+"[*])") {
				r.Check("MerkleTreeLeafFromRawChain:same-index", strings.Contains(r.D.D(st.Addr), "[it@") && strings.Count(r.D.D(st.Addr)+r.D.D(st.Val), "it@") == 2, r.Where(st), "chain[i] ← parse(rawChain[i]): "+r.D.D(st.Addr)+" ← "+r.D.D(st.Val))
			}
		}
		r.FailEdge(lf, "MerkleTreeLeafFromRawChain", EdgeSpec{Name: "cert-unparsable", Atom: boolAtom("x509.IsFatal(x509.ParseCertificate(*)#1)"), Bad: "T", Want: wantErr(true), Unreach: asInstrs(CallsTo(lf, "ct.MerkleTreeLeafFromChain"))})
	}
	for _, w := range []struct{ fn, etype, path, cname string }{
		{"(*client.LogClient).AddChain", "0", `"/ct/v1/add-chain"`, "ct.AddChainPath"},
		{"(*client.LogClient).AddPreChain", "1", `"/ct/v1/add-pre-chain"`, "ct.AddPreChainPath"},
	} {
		if fn := r.Fn(w.fn); fn != nil {
			k := short(w.fn)
			if c := r.OneCall(fn, k, "(*client.LogClient).addChainWithRetry"); c != nil {
				r.ExpectArg(c, k+":client", 0, "p0")
				r.ExpectArg(c, k+":entry-type", 2, w.etype)
				r.ExpectArg(c, k+":path", 3, w.path)
				r.ExpectArg(c, k+":chain", 4, "p2")
				for _, ret := range Returns(fn) {
					r.Check(k+":returns-callee-result", sameResult(ret.Results[0], CallResult(c, 0)) && sameResult(ret.Results[1], CallResult(c, 1)), r.Where(ret), "returns addChainWithRetry's (sct, err)")
				}
			}
		}
	}
	for name, want := range map[string]string{"ct.X509LogEntryType": "0", "ct.PrecertLogEntryType": "1"} {
		c := r.P.LookupConst(name)
		r.Check("const:"+name, c != nil && c.Val().ExactString() == want, "-", name+" = "+want)
	}

	fn := r.Fn("(*client.LogClient).addChainWithRetry")
	if fn == nil {
		return
	}
	yield := yieldingReturns(r, fn)
	r.Floor("SCT-yielding returns of addChainWithRetry", len(yield), 1)
	post := r.OneCall(fn, "addChainWithRetry:post", c12Retry)
	ver := r.OneCall(fn, "addChainWithRetry:verify", "(*client.LogClient).VerifySCTSignature")
	if post == nil || ver == nil {
		return
	}
	resp := baseAlloc(CallArgs(post)[4])
	req := baseAlloc(CallArgs(post)[3])
	if resp == nil || req == nil {
		r.Fail("addChainWithRetry:post.objects", r.Where(post), "undecided: request/response objects are not locals")
		return
	}
	rn := r.D.allocName(resp)
	r.Gate(fn, "addChainWithRetry:post-failed", nil, nil, nilAtom(c12Retry+"(*)#2"), "non", yield, []ssa.Instruction{ver}, "the POST failed")
	r.Gate(fn, "addChainWithRetry:signature-undecodable", nil, nil, nilAtom("tls.Unmarshal("+rn+".Signature, *)#1"), "non", yield, []ssa.Instruction{ver}, "DigitallySigned does not decode")
	if um := CallsTo(fn, "tls.Unmarshal"); len(um) == 1 && glob(rn+".Signature", r.D.D(CallArgs(um[0])[0])) && resultUnused(um[0], 0) {
		// the remainder is not even looked at: say so instead of "no branch condition tests …"
		r.Fail("addChainWithRetry:signature-trailing-bytes", r.Where(um[0]), "bytes trail the DigitallySigned: the remainder returned by tls.Unmarshal("+rn+".Signature, …) is discarded, so a signature field holding a valid DigitallySigned followed by extra bytes is accepted and an SCT is returned for a response that is not what the server sent (no RspError)")
	} else {
		r.Gate(fn, "addChainWithRetry:signature-trailing-bytes", nil, nil, ordAtomR("len(tls.Unmarshal("+rn+".Signature, *)#0)", "0"), ">", yield, []ssa.Instruction{ver}, "bytes trail the DigitallySigned")
	}
	r.Gate(fn, "addChainWithRetry:extensions-not-base64", nil, nil, nilAtom("(*base64.Encoding).DecodeString(*"+rn+".Extensions)#1"), "non", yield, []ssa.Instruction{ver}, "extensions are not base64")
	r.Gate(fn, "addChainWithRetry:signature-rejected", nil, nil, nilAtom("(*client.LogClient).VerifySCTSignature(*)"), "non", yield, nil, "the SCT signature does not verify")
	// what is verified
	r.ExpectArg(ver, "addChainWithRetry:verify.client", 0, "p0")
	r.ExpectArg(ver, "addChainWithRetry:verify.entry-type", 2, "p2")
	r.ExpectArg(ver, "addChainWithRetry:verify.chain", 3, "p4")
	r.ExpectArg(post, "addChainWithRetry:post.client", 0, "&(p0.JSONClient)")
	r.ExpectArg(post, "addChainWithRetry:post.path", 2, "p3")
	sct := baseAlloc(CallArgs(ver)[1])
	if sct == nil {
		r.Fail("addChainWithRetry:verify.sct", r.Where(ver), "undecided: the verified SCT is not a local object")
		return
	}
	for _, ret := range yield {
		// every SCT this return can hand out is the verified object (a result merged with the nil
		// of the failure paths of a conversion step hands out that object or nothing)
		same, n := true, 0
		for _, leaf := range phiLeaves(ret.Results[0]) {
			if isNilConst(leaf) {
				continue
			}
			n++
			same = same && baseAlloc(leaf) == sct
		}
		r.Check("addChainWithRetry:returns-verified-sct", same && n > 0 && errKind(ret.Results[1]) == "nil", r.Where(ret), "the SCT returned is the object that was verified: "+r.D.D(ret.Results[0]))
	}
	for _, st := range storesInto(fn, sct) {
		f := strings.TrimSuffix(strings.TrimPrefix(r.D.D(st.Addr), "&("+r.D.allocName(sct)), ")")
		r.Check("addChainWithRetry:sct-frozen-after-verify"+f, !mayExecuteAfter(st, ver), r.Where(st), r.D.D(st.Addr)+" is never written once verification has run")
	}
	r.ExpectFields(fn, "addChainWithRetry:sct", CallArgs(ver)[1], map[string]string{
		"SCTVersion": rn + ".SCTVersion",
		"Timestamp":  rn + ".Timestamp",
		"Extensions": "(*base64.Encoding).DecodeString(*" + rn + ".Extensions)#0",
	})
	// the signature is what the (gated) tls.Unmarshal of the response's signature decoded: through a
	// local that is then stored into the SCT, or in place
	if um := CallsTo(fn, "tls.Unmarshal"); len(um) == 1 {
		r.ExpectDecodedField(fn, "addChainWithRetry:signature.target", "addChainWithRetry:sct.Signature", CallArgs(ver)[1], "Signature", um[0], 1, "ct.DigitallySigned")
	} else {
		r.Fail("addChainWithRetry:sct.Signature", r.Where(ver), fmt.Sprintf("undecided: expected exactly one tls.Unmarshal in addChainWithRetry, found %d", len(um)))
	}
	// LogID.KeyID of the verified SCT holds the response's ID: copied into the field itself, or into a
	// zero ct.LogID local whose value (read after the copy) is what the LogID field is set to
	var idCopies []ssa.CallInstruction
	for _, cp := range CallsTo(fn, "copy") {
		if a := CallArgs(cp); len(a) == 2 && glob("*.KeyID[:]", r.D.D(a[0])) {
			idCopies = append(idCopies, cp)
		}
	}
	if len(idCopies) != 1 {
		r.Fail("addChainWithRetry:sct.LogID.filled", r.Where(ver), fmt.Sprintf("LogID.KeyID is filled by copy from the response ID: expected exactly one copy into a KeyID, found %d", len(idCopies)))
	} else {
		cp := idCopies[0]
		c04CopyDst(r, fn, "addChainWithRetry:sct.LogID.filled", cp, r.D.allocName(sct), "LogID.KeyID")
		r.ExpectArg(cp, "addChainWithRetry:sct.LogID.source", 1, rn+".ID")
		r.Check("addChainWithRetry:sct.LogID.filled-before-use", executesBefore(cp, ver), r.Where(cp), "the ID is copied before the SCT is verified (and returned)")
	}
	// what is submitted is the chain that is verified
	r.ExpectStores(fn, "addChainWithRetry:request.chain", "&("+r.D.allocName(req)+".Chain)", "append("+r.D.allocName(req)+".Chain, *)", 1)
	// … and every element appended is chain[i].Data for the loop's own i, whether the link is read
	// through the range copy or by indexing the chain
	nl := 0
	for _, st := range r.StoresTo(fn, "&("+r.D.allocName(req)+".Chain)") {
		ap, ok := st.Val.(*ssa.Call)
		if !ok || len(ap.Call.Args) != 2 {
			continue // not an append: reported by request.chain
		}
		sl, ok := ap.Call.Args[1].(*ssa.Slice)
		var arr *ssa.Alloc
		if ok {
			arr, _ = sl.X.(*ssa.Alloc)
		}
		if arr == nil || sl.Low != nil || sl.High != nil {
			r.Fail("addChainWithRetry:request.link", r.Where(st), "undecided: the appended elements "+r.D.D(ap.Call.Args[1])+" are not listed at the append")
			continue
		}
		for _, es := range storesInto(fn, arr) {
			nl++
			got := r.loadTerm(fn, es.Val)
			linked := r.Check("addChainWithRetry:request.link", glob("p4[it@*].Data", got) && strings.Count(got, "it@") == 1 && es.Block() == st.Block(), r.Where(es),
				"request chain element ← "+got+" (expected p4[it@*].Data: the i-th certificate of the chain that is verified)")
			// the counter runs up to the length of that chain
			if linked {
				it := got[len("p4["):strings.Index(got, "]")]
				_, bounded := r.D.AtomsOf(fn)["ord("+it+", len(p4))"]
				r.Check("addChainWithRetry:request.all-links", bounded, r.Where(es), "the loop over "+it+" is bounded by len(p4), the length of the chain that is verified")
			}
		}
	}
	if nl == 0 {
		r.Fail("addChainWithRetry:request.link", r.FnPos(fn), "no element is appended to the request chain")
	}
}

// ---- R3 ---------------------------------------------------------------------------

func c12LogID(r *Run) {
	r.Rule("C12.R3")
	// Somewhere on the path every returned SCT takes (addChainWithRetry → LogClient.VerifySCTSignature
	// → SignatureVerifier.VerifySCTSignature) a branch condition must look at the SCT's / response's
	// log ID, and one of its outcomes must make success impossible.
	type site struct {
		fn     string
		accept func(fn *ssa.Function) []*ssa.Return
	}
	nonErr := func(fn *ssa.Function) []*ssa.Return {
		var out []*ssa.Return
		for _, ret := range Returns(fn) {
			if errKind(ret.Results[len(ret.Results)-1]) != "non" {
				out = append(out, ret)
			}
		}
		return out
	}
	sites := []site{
		{"(*client.LogClient).addChainWithRetry", func(fn *ssa.Function) []*ssa.Return { return yieldingReturns(r, fn) }},
		{"(*client.LogClient).VerifySCTSignature", nonErr},
		{"(ct.SignatureVerifier).VerifySCTSignature", nonErr},
	}
	found := ""
	where := "-"
	for _, s := range sites {
		fn := r.Fn(s.fn)
		if fn == nil {
			continue
		}
		if where == "-" {
			where = r.FnPos(fn)
		}
		accept := s.accept(fn)
		atoms := r.D.AtomsOf(fn)
		for _, k := range keysOf(atoms) {
			if !anyGlob("*AddChainResponse#*.ID* || *LogID* || *KeyID*", k) {
				continue
			}
			for _, v := range domains[atoms[k].Kind] {
				r.Valuations++
				// the obligation is conditional on a verifier being configured
				sv, _, _ := r.bindSets(fn, nil, nil, AtomSet{nilAtom("*Verifier"), "non"})
				sv[k] = v
				if anyReach(r.D.Walk(fn, sv, nil, nil), accept) == nil {
					found = fmt.Sprintf("%s tests %s; outcome %q blocks every accepting return", s.fn, k, v)
				}
			}
		}
	}
	r.Check("addChainWithRetry:log-id-bound-to-key", found != "", where,
		"an SCT is returned only if its log ID passed a test against the configured key: "+map[bool]string{true: found, false: "no branch condition on the submission path looks at resp.ID / sct.LogID — copy(logID.KeyID[:], resp.ID) is unchecked, so an SCT naming a foreign log (or a short, zero-padded ID) is returned by a client that holds the key; the ID is not part of the signed input, so signature verification does not cover it"}[found != ""])
}

// ---- R9 ---------------------------------------------------------------------------

// nilValuation: what the branch conditions of fn that look at the value v itself evaluate to when
// v is nil — `v == nil` / `v != nil` (atom nil?v = nil) and x509.IsFatal(v) (false for a nil
// error). The conditions are found by SSA operand identity, so the atom keys are the ones the walk
// computes whatever the rendering of v is.
func (r *Run) nilValuation(fn *ssa.Function, v ssa.Value) Sigma {
	same := func(x ssa.Value) bool {
		for i := 0; i < 4 && x != nil; i++ {
			if x == v {
				return true
			}
			switch y := x.(type) {
			case *ssa.ChangeInterface:
				x = y.X
			case *ssa.ChangeType:
				x = y.X
			default:
				return false
			}
		}
		return false
	}
	s := Sigma{}
	var visit func(c ssa.Value, depth int)
	visit = func(c ssa.Value, depth int) {
		if depth > 6 {
			return
		}
		switch x := c.(type) {
		case *ssa.Phi:
			for _, e := range x.Edges {
				visit(e, depth+1)
			}
		case *ssa.UnOp:
			if x.Op == token.NOT {
				visit(x.X, depth+1)
			}
		case *ssa.BinOp:
			if (x.Op == token.EQL || x.Op == token.NEQ) && (isNilConst(x.X) && same(x.Y) || isNilConst(x.Y) && same(x.X)) {
				if ci := r.D.Classify(x); ci.Kind == "nil" {
					s[ci.Key] = "nil"
				}
			}
		case *ssa.Call:
			if f := x.Call.StaticCallee(); f != nil && FuncName(f) == "x509.IsFatal" && len(x.Call.Args) == 1 && same(x.Call.Args[0]) {
				if ci := r.D.Classify(x); ci.Kind == "bool" {
					s[ci.Key] = "F" // nil is never fatal
				}
			}
		}
	}
	for _, b := range fn.Blocks {
		if len(b.Instrs) == 0 {
			continue
		}
		if ifi, ok := b.Instrs[len(b.Instrs)-1].(*ssa.If); ok {
			visit(ifi.Cond, 0)
		}
	}
	return s
}

// c12NonNilInto decides that a value merged through φ-nodes into `use` (a store) cannot be nil
// when it arrives there. Each incoming value is judged on its own: it is a constructed error, or —
// with every test of that very value at its nil outcome — the walk never takes one of the φ-edges
// the value travels over, or never reaches the use. via lists those edges (pred, block).
func (r *Run) c12NonNilInto(fn *ssa.Function, v ssa.Value, use ssa.Instruction, via [][2]int, depth int) (bool, string) {
	if depth > 4 {
		return false, "undecided: φ nesting too deep"
	}
	// under every test of v itself at its nil outcome: v does not get to the use
	blocked := func() (bool, string) {
		s := r.nilValuation(fn, v)
		if len(s) == 0 {
			return false, shortErr(r.D.D(v)) + " is never tested against nil"
		}
		reach := r.D.Walk(fn, s, nil, nil)
		r.Valuations++
		if !reach.Has(use) {
			return true, shortErr(r.D.D(v)) + ": literal unreachable under " + s.String()
		}
		for _, e := range via {
			if !reach.Edges[e] {
				return true, fmt.Sprintf("%s: does not flow here under %s (edge b%d→b%d not taken)", shortErr(r.D.D(v)), s, e[0], e[1])
			}
		}
		return false, shortErr(r.D.D(v)) + " may arrive nil (under " + s.String() + " the literal is still reached over its edge)"
	}
	if ph, ok := v.(*ssa.Phi); ok {
		if depth > 0 {
			// a merged value that is tested as a whole before it is merged further
			if ok, why := blocked(); ok {
				return true, why
			}
		}
		var whys []string
		for i, e := range ph.Edges {
			edge := [2]int{ph.Block().Preds[i].Index, ph.Block().Index}
			ok, why := r.c12NonNilInto(fn, e, use, append(via[:len(via):len(via)], edge), depth+1)
			if !ok {
				return false, why
			}
			whys = append(whys, why)
		}
		return len(ph.Edges) > 0, strings.Join(whys, "; ")
	}
	d := shortErr(r.D.D(v))
	switch errKind(v) {
	case "non":
		return true, d + ": constructed"
	case "nil":
		return false, "the nil constant is one of the merged values"
	}
	return blocked()
}

// c12RspErrCause: an RspError built on a failure path carries the error of that failure — the
// value stored into RspError.Err is a constructed error, or a value the literal cannot be reached
// with when it is nil.
func c12RspErrCause(r *Run) {
	n := 0
	for _, fn := range r.P.ModFuncs {
		pk := fnPkg(fn)
		if pk == nil || (ShortPkg(pk.Path()) != "client" && ShortPkg(pk.Path()) != "jsonclient") || len(fn.Blocks) == 0 {
			continue
		}
		fn := fn
		eachInstr(fn, func(in ssa.Instruction) {
			st, ok := in.(*ssa.Store)
			if !ok {
				return
			}
			fa, ok := st.Addr.(*ssa.FieldAddr)
			if !ok {
				return
			}
			f := fieldOf(fa)
			if f == nil || f.Name() != "Err" {
				return
			}
			pt, ok := fa.X.Type().Underlying().(*types.Pointer)
			if !ok || TypeName(types.Unalias(pt.Elem())) != "jsonclient.RspError" {
				return
			}
			n++
			key := "RspError.Err:" + short(FuncName(fn)) + ":" + shortErr(r.D.D(st.Val))
			switch errKind(st.Val) {
			case "non":
				r.Pass(key, r.Where(st), "Err is a constructed error")
			case "nil":
				r.Fail(key, r.Where(st), "RspError.Err is the nil constant: Error() dereferences it")
			default:
				s := r.nilValuation(fn, st.Val)
				reach := r.D.Walk(fn, s, nil, nil)
				r.Valuations++
				if _, isPhi := st.Val.(*ssa.Phi); isPhi && !(len(s) > 0 && !reach.Has(st)) {
					// the merged value itself is not tested: several failure paths share one literal
					// (an error handed over by a helper) — each incoming value is decided on its own
					ok, why := r.c12NonNilInto(fn, st.Val, st, nil, 0)
					r.Check(key, ok, r.Where(st), "RspError.Err ← "+r.D.D(st.Val)+": every value merged here is a constructed error or cannot arrive when it is nil ("+why+"); otherwise the caller gets an RspError without a cause and Error() panics")
					break
				}
				r.Check(key, len(s) > 0 && !reach.Has(st), r.Where(st), "RspError.Err ← "+r.D.D(st.Val)+": this value is provably non-nil here (the literal is unreachable when it is nil, under "+s.String()+"); otherwise the caller gets an RspError without a cause and Error() panics")
			}
			r.Funcs[FuncName(fn)] = true
		})
	}
	r.Floor("RspError literals", n, 10)
}
