package main

// Round 5 (twins) — generalisations of the C14 rules.  Each helper states the fact its rule
// establishes and decides exactly that fact on every shape.
//
//  1. captured single-assignment locals (c14CellValue / c14Norm): a local that go/ssa keeps in a
//     heap cell only because a function literal captures it ("go func() { use(hash, chain) }()"
//     instead of passing hash and chain as arguments) reads as the value assigned to it, provided
//     it is assigned exactly once, that assignment comes before every read and before every literal
//     that captures it, no literal writes it, and the assignment is not repeated by a loop around
//     the variable.  That is the fact "the goroutine sees the same values as an argument would have
//     carried".
//  2. layout probes (c14Probes): "extra data decodes exactly as a T" is the fact
//     tls.Unmarshal(data, &T-local) returned err == nil and an empty remainder.  It may be tested in
//     place or by a predicate helper whose body is verified to return exactly that conjunction.
//  3. issuers (c14Issuers): the obligations on "the rpc* wrapper" are obligations on whichever
//     function of the front end issues the backend RPC.

import (
	"fmt"
	"go/token"
	"go/types"
	"sort"
	"strings"

	"golang.org/x/tools/go/ssa"
)

// ---- 1. captured single-assignment locals --------------------------------------------------

// c14CellValue: the value a memory-resident local holds at every read, or nil when that cannot be
// said (see the file comment for the conditions).
func c14CellValue(a *ssa.Alloc) ssa.Value {
	refs := a.Referrers()
	if refs == nil || a.Parent() == nil {
		return nil
	}
	var st *ssa.Store
	var uses []ssa.Instruction
	captured := false
	for _, ref := range *refs {
		switch x := ref.(type) {
		case *ssa.Store:
			if x.Addr != ssa.Value(a) || x.Val == ssa.Value(a) || st != nil {
				return nil
			}
			st = x
		case *ssa.UnOp:
			if x.Op != token.MUL {
				return nil
			}
			uses = append(uses, x)
		case *ssa.DebugRef:
		case *ssa.MakeClosure:
			if !closureOnlyLoads(x, a) {
				return nil
			}
			captured = true
			uses = append(uses, x)
		default:
			return nil
		}
	}
	if st == nil || !captured {
		return nil
	}
	for _, u := range uses {
		if u.Block() == st.Block() {
			if instrIdx(st) > instrIdx(u) {
				return nil
			}
		} else if !st.Block().Dominates(u.Block()) {
			return nil
		}
	}
	// an assignment inside a loop around the variable is executed again while an earlier literal
	// may still be running: only a variable that is created anew together with its assignment
	if sb := st.Block(); cycleBlocks(a.Parent())[sb] && a.Block() != sb && loopHeaderOf(a.Block()) != loopHeaderOf(sb) {
		return nil
	}
	return st.Val
}

// c14Cells: allocation name → origin term of the value held, for every such local of fn.
func c14Cells(r *Run, fn *ssa.Function) map[string]string {
	out := map[string]string{}
	if fn == nil {
		return out
	}
	eachInstr(fn, func(in ssa.Instruction) {
		a, ok := in.(*ssa.Alloc)
		if !ok || paramSpill(a) != nil {
			return
		}
		if v := c14CellValue(a); v != nil {
			out[r.D.allocName(a)] = r.D.D(v)
		}
	})
	return out
}

// c14Norm restates an origin term of fn's frame with every read `*new:T#n` of such a local replaced
// by the value it holds; inside a function literal a read `*^new:T#n` of the enclosing function's
// local becomes `^<value>` (a value of the enclosing frame, like a captured parameter).
func c14Norm(r *Run, fn *ssa.Function, t string) string {
	if !strings.Contains(t, "new:") {
		return t
	}
	for pass := 0; pass < 3; pass++ {
		before := t
		for name, val := range c14Cells(r, fn) {
			t = c14ReplaceCell(t, "*"+name, val)
		}
		if par := fn.Parent(); par != nil {
			for name, val := range c14Cells(r, par) {
				if !strings.Contains(val, "^") {
					t = c14ReplaceCell(t, "*^"+name, "^"+val)
				}
			}
		}
		if t == before {
			break
		}
	}
	return t
}

// c14ReplaceCell replaces the occurrences of the token old (which ends in the digits of an allocation
// number) that are not followed by a further digit or a field / index selection.
func c14ReplaceCell(t, old, val string) string {
	var sb strings.Builder
	for {
		i := strings.Index(t, old)
		if i < 0 {
			break
		}
		j := i + len(old)
		if j < len(t) && ((t[j] >= '0' && t[j] <= '9') || t[j] == '.' || t[j] == '[') {
			sb.WriteString(t[:j])
		} else {
			sb.WriteString(t[:i])
			sb.WriteString(val)
		}
		t = t[j:]
	}
	sb.WriteString(t)
	return sb.String()
}

// c14D: the origin term of v in fn's frame, see c14Norm.
func c14D(r *Run, fn *ssa.Function, v ssa.Value) string {
	// reads of a local that is assigned more than once are read where they stand: the assignment
	// that reaches them (rules_t8c14.go)
	return c14Norm(r, fn, c14SubstLoads(r, v, r.D.D(v), 0))
}

// c14CapturedAt: v, a value inside the function literal started by the go statement g, is a read of
// a variable of the enclosing function that holds one value throughout (a parameter that is never
// reassigned, or a single-assignment local): that value, in the enclosing function's frame.
func c14CapturedAt(g *ssa.Go, v ssa.Value) ssa.Value {
	ld, ok := v.(*ssa.UnOp)
	if !ok || ld.Op != token.MUL {
		return nil
	}
	fv, ok := ld.X.(*ssa.FreeVar)
	if !ok {
		return nil
	}
	mc, ok := g.Call.Value.(*ssa.MakeClosure)
	if !ok || mc.Fn != ssa.Value(fv.Parent()) {
		return nil
	}
	for i, x := range fv.Parent().FreeVars {
		if x != fv || i >= len(mc.Bindings) {
			continue
		}
		a, ok := mc.Bindings[i].(*ssa.Alloc)
		if !ok {
			return nil
		}
		// one value throughout, or the assignment that reaches the making of the literal and is
		// followed by none (rules_t8c14.go)
		return c14CellAt(a, mc)
	}
	return nil
}

// ---- 2. layout probes ------------------------------------------------------------------------

// c14Probe: one place where FixLogLeaf asks "is the extra data exactly the TLS encoding of a T?".
type c14Probe struct {
	typ    string              // "ct.PrecertChainEntry", …
	call   ssa.CallInstruction // in FixLogLeaf: tls.Unmarshal itself, or the call of a predicate helper
	dst    string              // origin term of the decode destination (in the frame that holds tls.Unmarshal)
	src    string              // origin term, in FixLogLeaf's frame, of the bytes decoded
	match  Sigma               // the probe said "yes"
	failed Sigma               // the decoder reported an error / the probe said "no"
	via    string              // name of the predicate helper, "" for a decode in place
}

// c14Probes lists the probes of fix.  A call of a module function that contains a tls.Unmarshal and
// returns one bool is a probe only if c14DecodePredicate verifies its body; a failed verification is
// reported under key+":predicate:<helper>".
func c14Probes(r *Run, fix *ssa.Function, key string) []c14Probe {
	var out []c14Probe
	eachInstr(fix, func(in ssa.Instruction) {
		ci, ok := in.(ssa.CallInstruction)
		if !ok {
			return
		}
		if CalleeOf(ci) == "tls.Unmarshal" {
			a := CallArgs(ci)
			errv, rest := CallResult(ci, 1), CallResult(ci, 0)
			al := baseAlloc(a[1])
			if al == nil {
				return
			}
			p := c14Probe{typ: TypeName(al.Type().(*types.Pointer).Elem()), call: ci, dst: r.D.D(a[1]), src: r.D.D(a[0])}
			if errv != nil && rest != nil {
				p.match = Sigma{"nil?" + r.D.D(errv): "nil", "ord(0, len(" + r.D.D(rest) + "))": "="}
				p.failed = Sigma{"nil?" + r.D.D(errv): "non"}
			}
			out = append(out, p)
			return
		}
		callee := ci.Common().StaticCallee()
		if _, isCall := in.(*ssa.Call); !isCall || callee == nil || len(callee.Blocks) == 0 || len(CallsTo(callee, "tls.Unmarshal")) == 0 {
			return
		}
		res := callee.Signature.Results()
		if res.Len() != 1 || TypeName(res.At(0).Type()) != "bool" {
			return
		}
		typ, dst, param, why := c14DecodePredicate(r, callee)
		if !r.Check(key+":predicate:"+c14CalleeBase(callee), why == "", r.Where(ci), "the helper answers exactly \"the bytes given are the TLS encoding of a "+typ+", with nothing after it\" "+why) {
			return
		}
		args := ci.Common().Args
		if param >= len(args) {
			return
		}
		atom := r.D.D(in.(*ssa.Call))
		out = append(out, c14Probe{typ: typ, call: ci, dst: dst, src: r.D.D(args[param]), match: Sigma{atom: "T"}, failed: Sigma{atom: "F"}, via: FuncName(callee)})
	})
	return out
}

// c14CalleeBase: the name of a function without the type arguments of an instance.
func c14CalleeBase(fn *ssa.Function) string {
	if o := fn.Origin(); o != nil {
		fn = o
	}
	return FuncName(fn)
}

// c14DecodePredicate verifies that fn is a pure predicate "tls.Unmarshal(p_i, &local T) succeeded and
// left nothing over": its only call with an effect is one tls.Unmarshal of a parameter into a local,
// it writes nothing but its own locals, and under every outcome (error?, remainder empty?) every
// return that can execute yields true exactly for (no error, empty remainder).
func c14DecodePredicate(r *Run, fn *ssa.Function) (typ, dst string, param int, why string) {
	typ = "?"
	us := CallsTo(fn, "tls.Unmarshal")
	if len(us) != 1 {
		return typ, "", 0, fmt.Sprintf("undecided: %d tls.Unmarshal calls in %s", len(us), FuncName(fn))
	}
	u := us[0]
	a := CallArgs(u)
	p, isParam := a[0].(*ssa.Parameter)
	al := baseAlloc(a[1])
	if !isParam || al == nil {
		return typ, "", 0, "undecided: " + FuncName(fn) + " does not decode one of its parameters into a local"
	}
	typ = TypeName(al.Type().(*types.Pointer).Elem())
	impure := ""
	eachInstr(fn, func(in ssa.Instruction) {
		switch x := in.(type) {
		case *ssa.Store:
			if baseAlloc(x.Addr) == nil {
				impure = "it writes " + r.D.D(x.Addr)
			}
		case *ssa.Go, *ssa.Defer, *ssa.Send, *ssa.MapUpdate, *ssa.Panic:
			impure = "it does more than decode"
		case *ssa.Call:
			if ssa.Instruction(x) == ssa.Instruction(u.(*ssa.Call)) {
				return
			}
			if _, isB := x.Call.Value.(*ssa.Builtin); !isB {
				impure = "it also calls " + CalleeOf(x)
			}
		}
	})
	if len(fn.AnonFuncs) > 0 {
		impure = "it contains function literals"
	}
	if impure != "" {
		return typ, "", 0, "undecided: " + FuncName(fn) + " is not a pure predicate: " + impure
	}
	errv, rest := CallResult(u, 1), CallResult(u, 0)
	if errv == nil || rest == nil {
		return typ, "", 0, "the decoder's error or remainder is discarded in " + FuncName(fn)
	}
	ea, ra := "nil?"+r.D.D(errv), "ord(0, len("+r.D.D(rest)+"))"
	for _, e := range []string{"nil", "non"} {
		for _, t := range []string{"=", "<"} {
			s := Sigma{ea: e, ra: t}
			reach := r.D.Walk(fn, s, nil, nil)
			r.Valuations++
			want := T
			if e != "nil" || t != "=" {
				want = F
			}
			n := 0
			for _, ret := range reachableReturns(fn, reach) {
				n++
				if got := c14BoolUnder(r, ret.Results[0], ret.Block(), s, reach); got != want {
					return typ, "", 0, fmt.Sprintf("%s does not: with decoder error %s and remainder length %s 0 it returns %s (%s)", FuncName(fn), map[string]string{"nil": "nil", "non": "non-nil"}[e], t, c14TriName(got), r.D.D(ret.Results[0]))
				}
			}
			if n == 0 {
				return typ, "", 0, "undecided: no return of " + FuncName(fn) + " is reachable under " + s.String()
			}
		}
	}
	return typ, r.D.D(a[1]), paramIndex(p), ""
}

func c14TriName(t Tri) string {
	switch t {
	case T:
		return "true"
	case F:
		return "false"
	}
	return "an undecided value"
}

// c14BoolUnder evaluates a boolean used in block b under σ; a φ of b is read over the edges the walk
// takes (short-circuit && / || materialised as a value).
func c14BoolUnder(r *Run, v ssa.Value, b *ssa.BasicBlock, s Sigma, reach *Reach) Tri {
	ph, ok := v.(*ssa.Phi)
	if !ok || ph.Block() != b {
		return r.D.Eval(v, s, b, -1)
	}
	res, any := U, false
	for i, e := range ph.Edges {
		pred := b.Preds[i]
		if !reach.Edges[[2]int{pred.Index, b.Index}] {
			continue
		}
		got := c14BoolUnder(r, e, pred, s, reach)
		if got == U || (any && got != res) {
			return U
		}
		res, any = got, true
	}
	return res
}

// ---- 3. who issues the backend RPC ---------------------------------------------------------

// c14Issuers: the functions of the front end (package trillian/ctfe, literals counted with the function
// they are written in) that invoke the given RPC of the backend client, with their call sites.
func c14Issuers(r *Run, rpc string) map[*ssa.Function][]ssa.CallInstruction {
	out := map[*ssa.Function][]ssa.CallInstruction{}
	got := r.CallersOf("iface(trillian.TrillianLogClient)." + rpc)
	for _, k := range keysOf(got) {
		if !(glob("trillian/ctfe.*", k) || glob("(*trillian/ctfe.*", k)) {
			continue
		}
		for _, c := range got[k] {
			fn := c.Parent()
			out[fn] = append(out[fn], c)
		}
	}
	return out
}

func c14SortedFuncs(m map[*ssa.Function][]ssa.CallInstruction) []*ssa.Function {
	var fs []*ssa.Function
	for f := range m {
		fs = append(fs, f)
	}
	sort.Slice(fs, func(i, j int) bool { return FuncName(fs[i]) < FuncName(fs[j]) })
	return fs
}

// c14LogInfoParam: the origin term of fn's *logInfo parameter (p1 in the handlers and wrappers the
// rules were written against), "" when fn has none or several.
func c14LogInfoParam(fn *ssa.Function) string {
	out, n := "", 0
	for i, p := range fn.Params {
		if TypeName(p.Type()) == "*trillian/ctfe.logInfo" {
			out = fmt.Sprintf("p%d", i)
			n++
		}
	}
	if n != 1 {
		return ""
	}
	return out
}
