package main

import (
	"fmt"
	"go/ast"
	"go/constant"
	"go/token"
	"go/types"
	"os"
	"sort"
	"strings"
)

// E9 FORKDIFF — further normal forms (third round of behaviour-preserving refactors).
//
//   - a condition is rendered without what its context decides: in `v == K && X` (v a
//     plain local, K a constant) X reads v as K; a conjunct `N > c` / `N >= c` / `N != c`
//     is dropped when an earlier conjunct says v == K and an enclosing counting loop
//     `v < N` (v not written in its body, N invariant) makes N > K ≥ c; boolean
//     single-definition locals that are conjunctions are looked through;
//   - an error temporary: `…, L, … = f(…); if L != nil { T = L; … }` where L is used
//     nowhere else and T (a local / named result / field of a local struct of the same
//     type) is known to be nil at the assignment: L is T's storage;
//   - an unexported one-expression function that exists on one side only is read as its
//     expression at each call (see fdTransparent);
//   - a fork parameter that every caller computes as E.M() (M a pure niladic method) from
//     a value of upstream's parameter type is upstream's parameter with M applied inside
//     (see fdLiftedParams);
//   - a local that every return statement returns at position i is the named result i
//     (see fdResultLocals); a return of exactly the named results is the bare return;
//   - `for _, x := range B[k:]` is the counting loop over B from k with x read as B[i]
//     where that is exact (see rangeSliceAsFor).

// ---- conditions --------------------------------------------------------------------------

func (w *fdWalker) simplifyCond(e ast.Expr) ast.Expr {
	if e == nil {
		return e
	}
	info := w.s.pkg.TypesInfo
	inl := w.ctx().inline
	changed := false
	var split func(e ast.Expr, depth int) []ast.Expr
	split = func(e ast.Expr, depth int) []ast.Expr {
		e = fdUnparen(e)
		if b, ok := e.(*ast.BinaryExpr); ok && b.Op == token.LAND {
			return append(split(b.X, depth), split(b.Y, depth)...)
		}
		if id, ok := e.(*ast.Ident); ok && depth < 6 {
			if o := info.Uses[id]; o != nil && !w.s.laxObjs[o] && w.alias[o] == nil {
				if _, merged := w.merge[o]; !merged {
					if def, ok := inl[o]; ok {
						if b, ok := fdUnparen(def).(*ast.BinaryExpr); ok && b.Op == token.LAND {
							changed = true
							return split(def, depth+1)
						}
					}
				}
			}
		}
		return []ast.Expr{e}
	}
	parts := split(e, 0)
	if len(parts) < 2 {
		return e
	}
	type eqFact struct {
		v *types.Var
		k ast.Expr
	}
	var eqs []eqFact
	var out []ast.Expr
	for _, p := range parts {
		for _, q := range eqs {
			if n, ok := fdSubst(p, q.v, q.k, info, w.inlinable(inl)); ok && n != p {
				p, changed = n, true
			}
		}
		if w.impliedByLoop(p, func(f func(v *types.Var, k int64) bool) bool {
			for _, q := range eqs {
				if tv, ok := info.Types[q.k]; ok && tv.Value != nil && tv.Value.Kind() == constant.Int {
					if k, exact := constant.Int64Val(tv.Value); exact && f(q.v, k) {
						return true
					}
				}
			}
			return false
		}, inl) {
			changed = true
			continue
		}
		out = append(out, p)
		if v, k := w.constEq(p, inl); v != nil {
			eqs = append(eqs, eqFact{v, k})
		}
	}
	if !changed || len(out) == 0 {
		return e
	}
	r := out[0]
	for _, p := range out[1:] {
		r = &ast.BinaryExpr{X: r, OpPos: p.Pos(), Op: token.LAND, Y: p}
	}
	return r
}

// plainLocal: a parameter or local variable whose value only assignments in this
// function change (not address-taken, not captured), rendered under its own name.
func (w *fdWalker) plainLocal(e ast.Expr, inl map[types.Object]ast.Expr) *types.Var {
	id, ok := fdUnparen(e).(*ast.Ident)
	if !ok {
		return nil
	}
	v, ok := w.s.pkg.TypesInfo.Uses[id].(*types.Var)
	if !ok || v.IsField() || v.Pkg() == nil || v.Parent() == v.Pkg().Scope() || w.noFacts[v] || w.s.laxObjs[v] {
		return nil
	}
	if _, ok := inl[v]; ok {
		return nil
	}
	if _, ok := w.alias[v]; ok {
		return nil
	}
	if _, ok := w.merge[v]; ok {
		return nil
	}
	return v
}

// constEq recognises `v == K` / `K == v`.
func (w *fdWalker) constEq(e ast.Expr, inl map[types.Object]ast.Expr) (*types.Var, ast.Expr) {
	b, ok := fdUnparen(e).(*ast.BinaryExpr)
	if !ok || b.Op != token.EQL {
		return nil, nil
	}
	info := w.s.pkg.TypesInfo
	x, y := b.X, b.Y
	if tv, ok := info.Types[x]; ok && tv.Value != nil {
		x, y = y, x
	}
	if tv, ok := info.Types[y]; !ok || tv.Value == nil {
		return nil, nil
	}
	if v := w.plainLocal(x, inl); v != nil {
		return v, y
	}
	return nil, nil
}

// fdSubst returns e with every use of v replaced by k (untouched subtrees are shared, so
// they keep their type information); ok is false when e has a form that is not copied.
func fdSubst(e ast.Expr, v types.Object, k ast.Expr, info *types.Info, inl func(types.Object) ast.Expr) (ast.Expr, bool) {
	var uses func(e ast.Expr, depth int) bool
	uses = func(e ast.Expr, depth int) bool {
		found := false
		ast.Inspect(e, func(n ast.Node) bool {
			if id, ok := n.(*ast.Ident); ok && !found {
				if info.Uses[id] == v {
					found = true
				} else if def := inl(info.Uses[id]); def != nil && depth < 8 && uses(def, depth+1) {
					found = true
				}
			}
			return !found
		})
		return found
	}
	if !uses(e, 0) {
		return e, true
	}
	list := func(es []ast.Expr) ([]ast.Expr, bool) {
		out := make([]ast.Expr, len(es))
		for i, x := range es {
			n, ok := fdSubst(x, v, k, info, inl)
			if !ok {
				return nil, false
			}
			out[i] = n
		}
		return out, true
	}
	switch x := e.(type) {
	case *ast.Ident:
		if info.Uses[x] == v {
			return k, true
		}
		// a single-definition local whose definition reads v: the definition, with v replaced
		return fdSubst(inl(info.Uses[x]), v, k, info, inl)
	case *ast.ParenExpr:
		n, ok := fdSubst(x.X, v, k, info, inl)
		return &ast.ParenExpr{Lparen: x.Lparen, X: n, Rparen: x.Rparen}, ok
	case *ast.SelectorExpr:
		n, ok := fdSubst(x.X, v, k, info, inl)
		return &ast.SelectorExpr{X: n, Sel: x.Sel}, ok
	case *ast.StarExpr:
		n, ok := fdSubst(x.X, v, k, info, inl)
		return &ast.StarExpr{Star: x.Star, X: n}, ok
	case *ast.UnaryExpr:
		if x.Op == token.AND {
			return nil, false
		}
		n, ok := fdSubst(x.X, v, k, info, inl)
		return &ast.UnaryExpr{OpPos: x.OpPos, Op: x.Op, X: n}, ok
	case *ast.BinaryExpr:
		a, ok1 := fdSubst(x.X, v, k, info, inl)
		b, ok2 := fdSubst(x.Y, v, k, info, inl)
		return &ast.BinaryExpr{X: a, OpPos: x.OpPos, Op: x.Op, Y: b}, ok1 && ok2
	case *ast.CallExpr:
		f, ok1 := fdSubst(x.Fun, v, k, info, inl)
		args, ok2 := list(x.Args)
		return &ast.CallExpr{Fun: f, Lparen: x.Lparen, Args: args, Ellipsis: x.Ellipsis, Rparen: x.Rparen}, ok1 && ok2
	case *ast.IndexExpr:
		a, ok1 := fdSubst(x.X, v, k, info, inl)
		b, ok2 := fdSubst(x.Index, v, k, info, inl)
		return &ast.IndexExpr{X: a, Lbrack: x.Lbrack, Index: b, Rbrack: x.Rbrack}, ok1 && ok2
	case *ast.SliceExpr:
		n := &ast.SliceExpr{Lbrack: x.Lbrack, Slice3: x.Slice3, Rbrack: x.Rbrack}
		ok := true
		for _, p := range []struct {
			from ast.Expr
			to   *ast.Expr
		}{{x.X, &n.X}, {x.Low, &n.Low}, {x.High, &n.High}, {x.Max, &n.Max}} {
			if p.from == nil {
				continue
			}
			r, ok1 := fdSubst(p.from, v, k, info, inl)
			*p.to, ok = r, ok && ok1
		}
		return n, ok
	case *ast.TypeAssertExpr:
		n, ok := fdSubst(x.X, v, k, info, inl)
		return &ast.TypeAssertExpr{X: n, Lparen: x.Lparen, Type: x.Type, Rparen: x.Rparen}, ok
	}
	return nil, false
}

// sameExpr: the two expressions denote the same computation over the same variables
// (single-definition locals are looked through).
func (w *fdWalker) sameExpr(a, b ast.Expr, inl map[types.Object]ast.Expr, depth int) bool {
	if depth > 12 {
		return false
	}
	info := w.s.pkg.TypesInfo
	a, b = fdUnparen(a), fdUnparen(b)
	look := func(e ast.Expr) ast.Expr {
		if id, ok := e.(*ast.Ident); ok {
			if o := info.Uses[id]; o != nil && w.alias[o] == nil {
				if def, ok := inl[o]; ok {
					return fdUnparen(def)
				}
			}
		}
		return nil
	}
	if ia, ok := a.(*ast.Ident); ok {
		if ib, ok := b.(*ast.Ident); ok && info.Uses[ia] != nil && info.Uses[ia] == info.Uses[ib] {
			return true
		}
	}
	if d := look(a); d != nil {
		return w.sameExpr(d, b, inl, depth+1)
	}
	if d := look(b); d != nil {
		return w.sameExpr(a, d, inl, depth+1)
	}
	if ta, ok := info.Types[a]; ok && ta.Value != nil {
		tb, ok := info.Types[b]
		return ok && tb.Value != nil && constant.Compare(ta.Value, token.EQL, tb.Value)
	}
	switch x := a.(type) {
	case *ast.SelectorExpr:
		y, ok := b.(*ast.SelectorExpr)
		if !ok || info.Uses[x.Sel] == nil || info.Uses[x.Sel] != info.Uses[y.Sel] {
			return false
		}
		if _, isPkg := info.Uses[fdIdentOf(x.X)].(*types.PkgName); isPkg {
			return true
		}
		return w.sameExpr(x.X, y.X, inl, depth+1)
	case *ast.CallExpr:
		y, ok := b.(*ast.CallExpr)
		if !ok || len(x.Args) != len(y.Args) || x.Ellipsis.IsValid() != y.Ellipsis.IsValid() || !w.sameExpr(x.Fun, y.Fun, inl, depth+1) {
			return false
		}
		for i := range x.Args {
			if !w.sameExpr(x.Args[i], y.Args[i], inl, depth+1) {
				return false
			}
		}
		return true
	case *ast.BinaryExpr:
		y, ok := b.(*ast.BinaryExpr)
		return ok && x.Op == y.Op && w.sameExpr(x.X, y.X, inl, depth+1) && w.sameExpr(x.Y, y.Y, inl, depth+1)
	case *ast.IndexExpr:
		y, ok := b.(*ast.IndexExpr)
		return ok && w.sameExpr(x.X, y.X, inl, depth+1) && w.sameExpr(x.Index, y.Index, inl, depth+1)
	}
	return false
}

// impliedByLoop: e is `N > c` / `N >= c` / `N != c` (either orientation) and for some
// known `v == K` (K ≥ 0, enumerated by eqs) an enclosing counting loop has the condition
// `v < N` still in force here (its body does not write v, N is invariant), so N ≥ K+1.
func (w *fdWalker) impliedByLoop(e ast.Expr, eqs func(func(v *types.Var, k int64) bool) bool, inl map[types.Object]ast.Expr) bool {
	b, ok := fdUnparen(e).(*ast.BinaryExpr)
	if !ok {
		return false
	}
	info := w.s.pkg.TypesInfo
	intConst := func(x ast.Expr) (int64, bool) {
		if tv, ok := info.Types[x]; ok && tv.Value != nil && tv.Value.Kind() == constant.Int {
			return constant.Int64Val(tv.Value)
		}
		return 0, false
	}
	n, op := b.X, b.Op
	c, isC := intConst(b.Y)
	if !isC {
		if c, isC = intConst(b.X); !isC {
			return false
		}
		n = b.Y
		switch op { // c op N  ->  N op' c
		case token.LSS:
			op = token.GTR
		case token.LEQ:
			op = token.GEQ
		case token.NEQ:
		default:
			return false
		}
	}
	if _, isC := intConst(n); isC {
		return false
	}
	taken := fdWrittenIn(w.fd.Body, info).addr
	return eqs(func(v *types.Var, k int64) bool {
		if k < 0 {
			return false
		}
		switch op { // N ≥ k+1 decides it
		case token.GTR, token.NEQ:
			if c > k {
				return false
			}
		case token.GEQ:
			if c > k+1 {
				return false
			}
		default:
			return false
		}
		for i := len(w.loops) - 1; i >= 0; i-- {
			f := w.loops[i].loop
			if f == nil || f.Cond == nil {
				continue
			}
			lc, ok := fdUnparen(f.Cond).(*ast.BinaryExpr)
			if !ok {
				continue
			}
			cv, bound := lc.X, lc.Y
			switch lc.Op {
			case token.LSS:
			case token.GTR:
				cv, bound = lc.Y, lc.X
			default:
				continue
			}
			id, ok := fdUnparen(cv).(*ast.Ident)
			if !ok || w.ctx().obj(id) != types.Object(v) {
				continue
			}
			written := fdWrittenIn(f.Body, info)
			if written.any(v) {
				continue
			}
			if f.Post != nil {
				for o := range fdWrittenIn(f.Post, info).asg {
					written.asg[o] = true
				}
			}
			delete(written.asg, v) // (the bound must not depend on what the body or the post statement writes, v apart: checked next)
			if mentions(bound, v, info) || !w.invariant(bound, written, taken, 0) {
				continue
			}
			if w.sameExpr(bound, n, inl, 0) {
				return true
			}
		}
		return false
	})
}

func mentions(e ast.Expr, v types.Object, info *types.Info) bool {
	found := false
	ast.Inspect(e, func(n ast.Node) bool {
		if id, ok := n.(*ast.Ident); ok && info.Uses[id] == v {
			found = true
		}
		return !found
	})
	return found
}

// ---- error temporaries ----------------------------------------------------------------------

func (w *fdWalker) errTemp(list []ast.Stmt, i int) {
	why := w.errTemp0(list, i)
	if os.Getenv("CTVERIF_C10_DEBUG") != "" && why != "" && why != "-" {
		fmt.Println("errTemp", w.fn, w.s.fork, why)
	}
	// an error temporary that is copied to its target afterwards (rules_t5c10.go)
	why = w.errTempCopy(list, i)
	if os.Getenv("CTVERIF_C10_DEBUG") != "" && why != "" && why != "-" {
		fmt.Println("errTempCopy", w.fn, w.s.fork, why)
	}
}

func (w *fdWalker) errTemp0(list []ast.Stmt, i int) string {
	a, ok := list[i].(*ast.AssignStmt)
	if !ok || i+1 >= len(list) || (a.Tok != token.ASSIGN && a.Tok != token.DEFINE) || w.facts == nil {
		return "-"
	}
	n, ok := list[i+1].(*ast.IfStmt)
	if !ok || n.Init != nil || n.Else != nil {
		return "-"
	}
	info := w.s.pkg.TypesInfo
	b, ok := fdUnparen(n.Cond).(*ast.BinaryExpr)
	if !ok || b.Op != token.NEQ {
		return "-"
	}
	x, y := b.X, b.Y
	if tv, ok := info.Types[x]; ok && tv.IsNil() {
		x, y = y, x
	}
	if tv, ok := info.Types[y]; !ok || !tv.IsNil() {
		return "-"
	}
	cid, ok := fdUnparen(x).(*ast.Ident)
	if !ok {
		return "-"
	}
	L, ok := info.Uses[cid].(*types.Var)
	if !ok || L.IsField() || L.Pkg() == nil || L.Parent() == L.Pkg().Scope() || w.noFacts[L] || !fdIsErrorType(L.Type()) {
		return "-"
	}
	if _, merged := w.merge[L]; merged {
		return "@7"
	}
	if w.errTemps[L] { // decided anew at every visit
		delete(w.alias, L)
		delete(w.errTemps, L)
	}
	if _, aliased := w.alias[L]; aliased {
		return "@8"
	}
	sig, _ := info.Defs[w.fd.Name].Type().(*types.Signature)
	if sig != nil {
		for k := 0; k < sig.Params().Len(); k++ {
			if sig.Params().At(k) == L {
				return "@9"
			}
		}
		for k := 0; k < sig.Results().Len(); k++ {
			if sig.Results().At(k) == L {
				return "@10"
			}
		}
	}
	var lid *ast.Ident
	for _, l := range a.Lhs {
		id, ok := l.(*ast.Ident)
		if !ok {
			continue
		}
		o := info.Defs[id]
		if o == nil {
			o = info.Uses[id]
		}
		if o == types.Object(L) {
			if lid != nil {
				return "@11"
			}
			lid = id
		}
	}
	if lid == nil {
		return "@12"
	}
	// the body starts with the copy T = L (possibly written as the copy-out of an expanded helper call)
	body := n.Body.List
	for len(body) > 0 {
		blk, ok := body[0].(*ast.BlockStmt)
		if !ok {
			break
		}
		body = blk.List
	}
	if len(body) == 0 {
		return "@13"
	}
	cp, ok := body[0].(*ast.AssignStmt)
	if !ok {
		return "@14"
	}
	if rg := w.exitOf[cp]; rg != nil {
		if !rg.entered {
			return "@15"
		}
		if cp = rg.exitAssign(cp); cp == nil {
			return "@16"
		}
	}
	if cp.Tok != token.ASSIGN || len(cp.Lhs) != 1 || len(cp.Rhs) != 1 {
		return "@17"
	}
	rid, ok := fdUnparen(cp.Rhs[0]).(*ast.Ident)
	if !ok || info.Uses[rid] != types.Object(L) {
		return "@18"
	}
	T := cp.Lhs[0]
	if !w.stableTarget(T) || !types.Identical(info.TypeOf(T), L.Type()) {
		return "@19"
	}
	pT, ok := w.path(T)
	if !ok || pT.o == types.Object(L) {
		return "@20"
	}
	// the other targets of the assignment are other storage
	for _, l := range a.Lhs {
		if l == ast.Expr(lid) {
			continue
		}
		if id, ok := l.(*ast.Ident); ok && id.Name == "_" {
			continue
		}
		o, _ := w.lvalueBase(l)
		if o == nil || o == pT.o {
			return "@21"
		}
	}
	// L is used nowhere else
	allowed := map[*ast.Ident]bool{cid: true, rid: true, lid: true}
	okUses := true
	ast.Inspect(w.fd.Body, func(m ast.Node) bool {
		switch s := m.(type) {
		case *ast.AssignStmt:
			if len(s.Lhs) == 1 && len(s.Rhs) == 1 && s.Tok == token.ASSIGN {
				if l, ok := s.Lhs[0].(*ast.Ident); ok && l.Name == "_" {
					if r, ok := s.Rhs[0].(*ast.Ident); ok {
						allowed[r] = true
					}
				}
			}
		case *ast.Ident:
			if info.Uses[s] == types.Object(L) && !allowed[s] {
				okUses = false
			}
		}
		return okUses
	})
	if !okUses || w.facts.get(pT) != 'z' {
		return fmt.Sprintf("@22 uses=%v fact=%q dry=%d", okUses, w.facts.get(pT), w.dry)
	}
	if w.errTemps == nil {
		w.errTemps = map[types.Object]bool{}
	}
	w.alias[L], w.errTemps[L] = T, true
	return "ok"
}

// ---- facts after a switch --------------------------------------------------------------------

// afterSwitch: the facts that hold after a switch statement: what the clauses that reach
// their end, the breaks that leave it and (without a default clause) the state in which
// no clause is taken agree on.  A switch with a fallthrough, or one that nothing leaves,
// keeps the coarse answer (the entry state without everything the body writes).
func (w *fdWalker) afterSwitch(f0 *fdState, sw *fdLoop, outs []*fdState, hasDefault bool, body *ast.BlockStmt) *fdState {
	coarse := f0.clone()
	coarse.killWritten(w, body)
	if f0 == nil {
		return coarse
	}
	fall := false
	ast.Inspect(body, func(n ast.Node) bool {
		if b, ok := n.(*ast.BranchStmt); ok && b.Tok == token.FALLTHROUGH {
			fall = true
		}
		return !fall
	})
	if fall {
		return coarse
	}
	outs = append(outs, sw.brks...)
	if !hasDefault {
		outs = append(outs, f0.clone())
	}
	for _, o := range outs {
		if o == nil {
			return coarse
		}
	}
	if len(outs) == 0 {
		return coarse
	}
	return fdJoinAll(outs)
}

// inlinable: the defining expression of the single-definition locals that are rendered as
// their definition (nil for everything else).
func (w *fdWalker) inlinable(inl map[types.Object]ast.Expr) func(types.Object) ast.Expr {
	return func(o types.Object) ast.Expr {
		if o == nil || w.s.laxObjs[o] || w.alias[o] != nil {
			return nil
		}
		if _, merged := w.merge[o]; merged {
			return nil
		}
		if def, ok := inl[o]; ok {
			return def
		}
		return nil
	}
}

// ---- one-expression functions on one side only ---------------------------------------------
//
// An unexported function `func f(p1, …, pn) T { return e }` that only one side has, where
// e reads every parameter exactly once and in parameter order (so the arguments are
// evaluated once, unconditionally (no && / ||) and in the order of the call), contains no function literal and nothing
// that would be a site (no error construction, no call that returns an error), and f is
// only ever called directly, is the expression e at each of its calls.

type fdTransparentFn struct {
	params []types.Object
	body   ast.Expr
}

func fdTransparent(s *fdSide, fn *types.Func, fd *ast.FuncDecl) *fdTransparentFn {
	if fn == nil || fd == nil || fd.Body == nil || fn.Exported() || len(fd.Body.List) != 1 {
		return nil
	}
	info := s.pkg.TypesInfo
	sig := fn.Type().(*types.Signature)
	if sig.Recv() != nil || sig.Variadic() || sig.Results().Len() != 1 || fdIsErrorType(sig.Results().At(0).Type()) || sig.Results().At(0).Name() != "" {
		return nil
	}
	ret, ok := fd.Body.List[0].(*ast.ReturnStmt)
	if !ok || len(ret.Results) != 1 {
		return nil
	}
	t := &fdTransparentFn{body: ret.Results[0]}
	index := map[types.Object]int{}
	for i := 0; i < sig.Params().Len(); i++ {
		p := sig.Params().At(i)
		if p.Name() == "" || p.Name() == "_" {
			return nil
		}
		t.params = append(t.params, p)
		index[p] = i
	}
	// every reference is the function position of a call outside f
	calls := map[*ast.Ident]bool{}
	for _, f := range s.pkg.Syntax {
		ast.Inspect(f, func(n ast.Node) bool {
			if c, ok := n.(*ast.CallExpr); ok {
				if id, ok := fdUnparen(c.Fun).(*ast.Ident); ok && info.Uses[id] == types.Object(fn) {
					calls[id] = true
				}
			}
			return true
		})
	}
	for id, o := range info.Uses {
		if o == types.Object(fn) && (!calls[id] || (fd.Body.Pos() <= id.Pos() && id.Pos() < fd.Body.End())) {
			return nil
		}
	}
	next, good := 0, true
	w := struct{ s *fdSide }{s}
	ast.Inspect(t.body, func(n ast.Node) bool {
		switch x := n.(type) {
		case *ast.FuncLit:
			good = false
		case *ast.CompositeLit:
			if x.Type != nil && w.s.inPkgErrorType(x) {
				good = false
			}
		case *ast.UnaryExpr:
			if x.Op == token.AND || x.Op == token.ARROW {
				good = false
			}
		case *ast.BinaryExpr:
			if x.Op == token.LAND || x.Op == token.LOR {
				good = false // an argument would be evaluated conditionally
			}
		case *ast.CallExpr:
			tv, ok := info.Types[x]
			if !ok || tv.Type == nil {
				good = false
				break
			}
			if tup, ok := tv.Type.(*types.Tuple); ok {
				good = good && !(tup.Len() > 0 && fdIsErrorType(tup.At(tup.Len()-1).Type()))
			} else if fdIsErrorType(tv.Type) {
				good = false
			}
		case *ast.Ident:
			if i, isParam := index[info.Uses[x]]; isParam {
				if i != next {
					good = false
				}
				next++
			}
		}
		return good
	})
	if !good || next != len(t.params) {
		return nil
	}
	return t
}

// ---- a fork parameter that is a pure method of upstream's parameter ------------------------------
//
// The fork's unexported function g is only ever called directly and every call passes
// for parameter i the value E.M(), where M is a niladic method without effects of a
// value type whose methods are pure (time.Time, reflect.Type) and E has the type of
// upstream's parameter at the aligned position; g does not write the parameter.  Then g
// is upstream's function taking E that applies M itself: the parameter reads Pj.M() and
// the calls read g(…, E, …).

func fdPureMethodRecv(t types.Type) bool {
	n, ok := t.(*types.Named)
	if !ok || n.Obj().Pkg() == nil {
		return false
	}
	switch n.Obj().Pkg().Path() + "." + n.Obj().Name() {
	case "time.Time", "reflect.Type":
		return true
	}
	return false
}

// fdMethodCallOn: e is X.m() — returns X.
func fdMethodCallOn(e ast.Expr, m string) ast.Expr {
	call, ok := fdUnparen(e).(*ast.CallExpr)
	if !ok || len(call.Args) != 0 {
		return nil
	}
	sel, ok := fdUnparen(call.Fun).(*ast.SelectorExpr)
	if !ok || sel.Sel.Name != m {
		return nil
	}
	return sel.X
}

func fdLiftedParams(fs *fdSide, fo *types.Func, fd *ast.FuncDecl, up *types.Signature) ([]int, map[int]string) {
	info := fs.pkg.TypesInfo
	sig := fo.Type().(*types.Signature)
	if fo.Exported() || sig.Recv() != nil || sig.Variadic() || up.Variadic() {
		return nil, nil
	}
	var calls []*ast.CallExpr
	inCall := map[*ast.Ident]bool{}
	for _, f := range fs.pkg.Syntax {
		ast.Inspect(f, func(n ast.Node) bool {
			if c, ok := n.(*ast.CallExpr); ok {
				if id, ok := fdUnparen(c.Fun).(*ast.Ident); ok && info.Uses[id] == types.Object(fo) {
					calls = append(calls, c)
					inCall[id] = true
				}
			}
			return true
		})
	}
	for id, o := range info.Uses {
		if o == types.Object(fo) && !inCall[id] {
			return nil, nil
		}
	}
	if len(calls) == 0 {
		return nil, nil
	}
	written := fdWrittenIn(fd.Body, info)
	lifted := map[int]string{}
	recvType := map[int]types.Type{}
	for i := 0; i < sig.Params().Len(); i++ {
		if written.any(sig.Params().At(i)) {
			continue
		}
		meth, ok := "", true
		var rt types.Type
		for _, c := range calls {
			if len(c.Args) != sig.Params().Len() || c.Ellipsis.IsValid() {
				ok = false
				break
			}
			mc, isCall := fdUnparen(c.Args[i]).(*ast.CallExpr)
			if !isCall || len(mc.Args) != 0 {
				ok = false
				break
			}
			sel, isSel := fdUnparen(mc.Fun).(*ast.SelectorExpr)
			if !isSel {
				ok = false
				break
			}
			sl := info.Selections[sel]
			if sl == nil || sl.Kind() != types.MethodVal || sl.Indirect() {
				ok = false
				break
			}
			et := info.TypeOf(sel.X)
			if et == nil || !fdPureMethodRecv(et) || (rt != nil && !types.Identical(rt, et)) || (meth != "" && meth != sel.Sel.Name) {
				ok = false
				break
			}
			rt, meth = et, sel.Sel.Name
		}
		if ok && meth != "" {
			lifted[i], recvType[i] = meth, rt
		}
	}
	if len(lifted) == 0 {
		return nil, nil
	}
	// align: upstream's types are a subsequence of the fork's, a lifted parameter counting
	// as its receiver type where the plain type does not fit
	m := make([]int, sig.Params().Len())
	used := map[int]string{}
	j := 0
	for i := 0; i < sig.Params().Len(); i++ {
		m[i] = -1
		if j >= up.Params().Len() {
			continue
		}
		ut := fdTypeStr(up.Params().At(j).Type())
		switch {
		case fdTypeStr(sig.Params().At(i).Type()) == ut:
			m[i] = j
			j++
		case lifted[i] != "" && fdTypeStr(recvType[i]) == ut:
			m[i] = j
			used[i] = lifted[i]
			j++
		}
	}
	if j != up.Params().Len() || len(used) == 0 {
		return nil, nil
	}
	return m, used
}

// ---- a local returned by every return statement ---------------------------------------------
//
// In a function whose results are unnamed, a local variable v of the function's outermost
// block that every return statement returns at position i, that no function literal
// mentions (a deferred closure could change a named result after the return values are
// set) and that is not a single-definition temporary, is the named result i: `return v`
// is the bare return.

func fdResultLocals(fd *ast.FuncDecl, info *types.Info, sig *types.Signature, inl map[types.Object]ast.Expr, captured map[types.Object]bool) map[types.Object]int {
	n := sig.Results().Len()
	if n == 0 || fd.Body == nil {
		return nil
	}
	for i := 0; i < n; i++ {
		if sig.Results().At(i).Name() != "" {
			return nil
		}
	}
	cand := make([]types.Object, n)
	dead := make([]bool, n)
	rets := 0
	hasDefer := false
	ast.Inspect(fd.Body, func(x ast.Node) bool {
		switch s := x.(type) {
		case *ast.FuncLit:
			return false
		case *ast.DeferStmt:
			hasDefer = true
		case *ast.ReturnStmt:
			rets++
			for i := 0; i < n; i++ {
				if len(s.Results) != n {
					dead[i] = true
					continue
				}
				id, ok := fdUnparen(s.Results[i]).(*ast.Ident)
				if !ok || info.Uses[id] == nil || (cand[i] != nil && cand[i] != info.Uses[id]) {
					dead[i] = true
					continue
				}
				cand[i] = info.Uses[id]
			}
		}
		return true
	})
	if rets == 0 || hasDefer {
		return nil
	}
	out := map[types.Object]int{}
	for i, o := range cand {
		v, ok := o.(*types.Var)
		if dead[i] || !ok || v.IsField() || v.Parent() != info.Scopes[fd.Type] || captured[v] {
			continue
		}
		if _, single := inl[v]; single {
			continue
		}
		isParam := false
		for k := 0; k < sig.Params().Len(); k++ {
			isParam = isParam || sig.Params().At(k) == v
		}
		if sig.Recv() == v || isParam || !types.Identical(v.Type(), sig.Results().At(i).Type()) {
			continue
		}
		if _, dup := out[v]; dup {
			delete(out, v)
			continue
		}
		out[v] = i
	}
	return out
}

// namedResults: the expressions are exactly the named results of the function, in order.
func (c *fdCtx) namedResults(es []ast.Expr) bool {
	for i, e := range es {
		id, ok := fdUnparen(e).(*ast.Ident)
		if !ok {
			return false
		}
		o := c.obj(id)
		if o == nil || c.params[o] != fmt.Sprintf("R%d", i) {
			return false
		}
	}
	return len(es) > 0
}

// ---- range over a slice ----------------------------------------------------------------------
//
// `for _, x := range B[k:]` (or `range B`) over a slice variable B visits B[k], B[k+1], …
// with x a copy of the element taken when the iteration starts.  It is the counting loop
// `for i := k; i < len(B); i++` with x read as B[i] when
//   - B is a parameter / receiver / local that nothing in the function assigns (neither the
//     variable nor its elements) and whose address is not taken, x is not written,
//   - nothing in the body can write an element of B between the copy and a use of x: no
//     store through an index / pointer to a value of the element type, no function literal,
//     and no call receives a value through which the elements are reachable (an argument or
//     receiver whose type contains a slice of / pointer to the element type, an interface or
//     a function value) — elements written through package-level aliases are not seen
//     (assumption recorded by the rule),
//   - slicing at k cannot panic: k is 0, or a statement of the function's outermost block
//     before the loop indexes B at a constant ≥ k-1 unconditionally.

func (w *fdWalker) rangeSliceAsFor(s *ast.RangeStmt) *ast.ForStmt {
	info := w.s.pkg.TypesInfo
	if s.Tok != token.DEFINE || w.s.noRangeSlice {
		return nil
	}
	// the index variable, when the loop names one (round 4): `for i := range B` /
	// `for i, x := range B` is `for i := 0; i < len(B); i++` (x read as B[i]) under the
	// same conditions, when in addition the body does not write i (a write would move the
	// counting loop but not the range loop), i is not captured or address-taken (one
	// variable per iteration either way, indistinguishable then) and B is ranged as a whole
	var keyID *ast.Ident
	var keyVar *types.Var
	if s.Key != nil {
		id, ok := s.Key.(*ast.Ident)
		if !ok {
			return nil
		}
		if id.Name != "_" {
			keyID = id
			if keyVar, ok = info.Defs[id].(*types.Var); !ok {
				return nil
			}
			if fdWrittenIn(s.Body, info).any(keyVar) || w.noFacts[keyVar] {
				return nil
			}
		}
	}
	var vid *ast.Ident
	var xv *types.Var
	if s.Value != nil {
		id, ok := s.Value.(*ast.Ident)
		if !ok {
			return nil
		}
		if id.Name != "_" {
			vid = id
			if xv, ok = info.Defs[id].(*types.Var); !ok {
				return nil
			}
		}
	}
	if vid == nil && keyID == nil {
		return nil
	}
	x := fdUnparen(s.X)
	var low ast.Expr
	k := int64(0)
	if sl, ok := x.(*ast.SliceExpr); ok {
		if sl.High != nil || sl.Max != nil || sl.Slice3 {
			return nil
		}
		if sl.Low != nil {
			tv, ok := info.Types[sl.Low]
			if !ok || tv.Value == nil || tv.Value.Kind() != constant.Int {
				return nil
			}
			v, exact := constant.Int64Val(tv.Value)
			if !exact || v < 0 {
				return nil
			}
			k, low = v, sl.Low
		}
		x = fdUnparen(sl.X)
	}
	if keyID != nil && k != 0 {
		return nil // the index counts from the start of the sub-slice
	}
	bid, ok := x.(*ast.Ident)
	if !ok {
		return nil
	}
	B, ok := info.Uses[bid].(*types.Var)
	if !ok || B.IsField() || B.Pkg() == nil || B.Parent() == B.Pkg().Scope() {
		return nil
	}
	st, ok := B.Type().Underlying().(*types.Slice)
	if !ok || (xv != nil && !types.Identical(st.Elem(), xv.Type())) {
		return nil
	}
	all := fdWrittenIn(w.fd.Body, info)
	if all.any(B) || w.noFacts[B] {
		return nil
	}
	if xv != nil {
		if all.addr[xv] || fdWrittenIn(s.Body, info).any(xv) || w.noFacts[xv] {
			return nil
		}
		if w.mayWriteElems(s.Body, st.Elem()) {
			return nil
		}
	}
	if k > 0 && !w.indexedBefore(B, k-1, s) {
		return nil
	}
	if w.s.synth == nil {
		w.s.synth = map[*ast.Ident]types.Object{}
	}
	w.s.usedRangeSlice = true
	key := keyID
	if key == nil {
		key = ast.NewIdent("·i")
		key.NamePos = s.For
		kv := types.NewVar(s.For, w.s.pkg.Types, "·i", types.Typ[types.Int])
		w.s.synth[key] = kv
		if w.tracked[xv] {
			w.tracked[kv] = true
		}
	} else if xv != nil && w.tracked[xv] {
		w.tracked[keyVar] = true
	}
	lenID := ast.NewIdent("len")
	lenID.NamePos = s.X.Pos()
	w.s.synth[lenID] = types.Universe.Lookup("len")
	if low == nil {
		low = &ast.BasicLit{ValuePos: s.For, Kind: token.INT, Value: "0"}
	}
	if xv != nil {
		w.alias[xv] = &ast.IndexExpr{X: bid, Lbrack: s.X.Pos(), Index: key, Rbrack: s.X.End()}
	}
	return &ast.ForStmt{
		For:  s.For,
		Init: &ast.AssignStmt{Lhs: []ast.Expr{key}, TokPos: s.For, Tok: token.DEFINE, Rhs: []ast.Expr{low}},
		Cond: &ast.BinaryExpr{X: key, OpPos: s.X.Pos(), Op: token.LSS, Y: &ast.CallExpr{Fun: lenID, Lparen: s.X.Pos(), Args: []ast.Expr{bid}, Rparen: s.X.End()}},
		Post: &ast.IncDecStmt{X: key, TokPos: s.For, Tok: token.INC},
		Body: s.Body,
	}
}

// indexedBefore: a statement of the function's outermost block that precedes the one
// containing s evaluates B[c], c ≥ min constant, unconditionally.
func (w *fdWalker) indexedBefore(B *types.Var, min int64, s ast.Stmt) bool {
	info := w.s.pkg.TypesInfo
	for _, st := range w.fd.Body.List {
		if st.Pos() <= s.Pos() && s.End() <= st.End() {
			return false
		}
		switch st.(type) {
		case *ast.AssignStmt, *ast.ExprStmt, *ast.DeclStmt, *ast.IncDecStmt:
		default:
			continue
		}
		found := false
		var visit func(n ast.Node)
		visit = func(n ast.Node) {
			ast.Inspect(n, func(x ast.Node) bool {
				if found {
					return false
				}
				switch e := x.(type) {
				case *ast.FuncLit:
					return false
				case *ast.BinaryExpr:
					if e.Op == token.LAND || e.Op == token.LOR {
						visit(e.X) // the right operand is conditional
						return false
					}
				case *ast.IndexExpr:
					if id, ok := fdUnparen(e.X).(*ast.Ident); ok && info.Uses[id] == types.Object(B) {
						if tv, ok := info.Types[e.Index]; ok && tv.Value != nil && tv.Value.Kind() == constant.Int {
							if c, exact := constant.Int64Val(tv.Value); exact && c >= min {
								found = true
							}
						}
					}
				}
				return true
			})
		}
		visit(st)
		if found {
			return true
		}
	}
	return false
}

// fdMayWriteElems: the code may write a value of type elem that lives behind a slice or
// pointer (see rangeSliceAsFor).
func (w *fdWalker) mayWriteElems(body ast.Node, elem types.Type) bool {
	info := w.s.pkg.TypesInfo
	_, basic := elem.Underlying().(*types.Basic)
	var reach func(t types.Type, depth int) bool
	reach = func(t types.Type, depth int) bool {
		if t == nil || depth > 6 {
			return true
		}
		switch u := t.Underlying().(type) {
		case *types.Basic:
			return false
		case *types.Slice:
			return types.Identical(u.Elem(), elem) || !basic || reach(u.Elem(), depth+1)
		case *types.Pointer:
			return types.Identical(u.Elem(), elem) || !basic || reach(u.Elem(), depth+1)
		case *types.Array:
			return reach(u.Elem(), depth+1)
		case *types.Struct:
			for i := 0; i < u.NumFields(); i++ {
				if reach(u.Field(i).Type(), depth+1) {
					return true
				}
			}
			return false
		case *types.Map:
			return reach(u.Key(), depth+1) || reach(u.Elem(), depth+1)
		case *types.Chan:
			return reach(u.Elem(), depth+1)
		}
		return true // interfaces, functions, type parameters: unknown
	}
	indirect := func(l ast.Expr) bool { // the target is reached through a slice element or a pointer
		for e := l; ; {
			switch x := e.(type) {
			case *ast.ParenExpr:
				e = x.X
			case *ast.StarExpr:
				return true
			case *ast.IndexExpr:
				if t := info.TypeOf(x.X); t != nil {
					if _, isArr := t.Underlying().(*types.Array); isArr {
						e = x.X
						continue
					}
					if _, isMap := t.Underlying().(*types.Map); isMap {
						return false
					}
				}
				return true
			case *ast.SelectorExpr:
				if t := info.TypeOf(x.X); t != nil {
					if _, isPtr := t.Underlying().(*types.Pointer); isPtr {
						return true
					}
				}
				e = x.X
			default:
				return false
			}
		}
	}
	may := false
	store := func(l ast.Expr) {
		if indirect(l) {
			if t := info.TypeOf(l); !basic || t == nil || types.Identical(t, elem) {
				may = true
			}
		}
	}
	var visit func(n ast.Node) bool
	visit = func(n ast.Node) bool {
		if may {
			return false
		}
		switch x := n.(type) {
		case *ast.IfStmt:
			// a branch that the strict residual does not have is not part of the loop
			cv := w.ctx().expr(x.Cond)
			if cv != "true" && cv != "false" {
				return true
			}
			if x.Init != nil {
				ast.Inspect(x.Init, visit)
			}
			ast.Inspect(x.Cond, visit)
			if cv == "true" {
				ast.Inspect(x.Body, visit)
			} else if x.Else != nil {
				ast.Inspect(x.Else, visit)
			}
			return false
		case *ast.FuncLit, *ast.GoStmt, *ast.DeferStmt:
			may = true
		case *ast.AssignStmt:
			for _, l := range x.Lhs {
				store(l)
			}
		case *ast.IncDecStmt:
			store(x.X)
		case *ast.RangeStmt:
			for _, e := range []ast.Expr{x.Key, x.Value} {
				if e != nil {
					store(e)
				}
			}
		case *ast.CallExpr:
			fun := fdUnparen(x.Fun)
			if tv, ok := info.Types[fun]; ok && tv.IsType() {
				return true // a conversion
			}
			if id, ok := fun.(*ast.Ident); ok {
				if b, ok := info.Uses[id].(*types.Builtin); ok {
					switch b.Name() {
					case "len", "cap", "min", "max", "new", "make", "panic", "print", "println", "real", "imag", "complex":
						return true
					}
				}
			}
			if sel, ok := fun.(*ast.SelectorExpr); ok {
				if sl := info.Selections[sel]; sl != nil && reach(info.TypeOf(sel.X), 0) {
					may = true
				}
			}
			if ft := info.TypeOf(fun); ft == nil {
				may = true
			} else if _, isFn := ft.Underlying().(*types.Signature); isFn {
				if _, named := info.Uses[fdCalleeIdent(fun)].(*types.Func); !named {
					if _, isBuiltin := info.Uses[fdCalleeIdent(fun)].(*types.Builtin); !isBuiltin {
						may = true // a call through a function value
					}
				}
			}
			for _, a := range x.Args {
				if reach(info.TypeOf(a), 0) {
					may = true
				}
			}
		}
		return !may
	}
	ast.Inspect(body, visit)
	return may
}

func fdCalleeIdent(fun ast.Expr) *ast.Ident {
	switch f := fdUnparen(fun).(type) {
	case *ast.Ident:
		return f
	case *ast.SelectorExpr:
		return f.Sel
	}
	return nil
}

// fdUnmatched: the number of sites / items of the two sides without a partner.
func fdUnmatched(a, b []fdSite) int {
	n := map[string]int{}
	for _, s := range a {
		n[s.Text]++
	}
	for _, s := range b {
		n[s.Text]--
	}
	d := 0
	for _, c := range n {
		if c < 0 {
			c = -c
		}
		d += c
	}
	return d
}

// ---- a switch over constants ------------------------------------------------------------------
//
// `switch x { case c1: … case c2, c3: … default: … }` whose case values are all constants
// (hence distinct), without fallthrough or a break that leaves it, where x is a variable /
// field read or a niladic standard-library method on one (evaluating it again gives the same
// value and has no effect), is the chain `if x == c1 {…} else if x == c2 || x == c3 {…} else {…}`.

func (w *fdWalker) constSwitchToIf(s *ast.SwitchStmt) ast.Stmt {
	if s.Tag == nil || len(s.Body.List) == 0 {
		return nil
	}
	info := w.s.pkg.TypesInfo
	n := 0
	for _, cl := range s.Body.List {
		for _, e := range cl.(*ast.CaseClause).List {
			if tv, ok := info.Types[e]; !ok || tv.Value == nil {
				return nil
			}
			n++
		}
	}
	if n == 0 || !w.stableRead(s.Tag, 0) {
		return nil
	}
	// nothing in the clauses writes what the tag reads (a later test of the chain would see it)
	written := fdWrittenIn(s.Body, info)
	bad := false
	ast.Inspect(s.Tag, func(x ast.Node) bool {
		if id, ok := x.(*ast.Ident); ok {
			if o := info.Uses[id]; o != nil && (written.any(o) || w.noFacts[o]) {
				bad = true
			}
		}
		return !bad
	})
	if bad {
		return nil
	}
	return fdSwitchToIfTag(s, s.Tag)
}

// stableRead: a variable, a field of one, or a niladic method of the standard library on one.
func (w *fdWalker) stableRead(e ast.Expr, depth int) bool {
	info := w.s.pkg.TypesInfo
	if depth > 6 {
		return false
	}
	switch x := fdUnparen(e).(type) {
	case *ast.Ident:
		v, ok := info.Uses[x].(*types.Var)
		return ok && !v.IsField()
	case *ast.SelectorExpr:
		if f, ok := info.Uses[x.Sel].(*types.Var); ok && f.IsField() {
			return w.stableRead(x.X, depth+1)
		}
	case *ast.CallExpr:
		sel, ok := fdUnparen(x.Fun).(*ast.SelectorExpr)
		if !ok || len(x.Args) != 0 {
			return false
		}
		fn, ok := info.Uses[sel.Sel].(*types.Func)
		if !ok || fn.Pkg() == nil || strings.Contains(fn.Pkg().Path(), ".") || fn.Pkg() == w.s.pkg.Types {
			return false
		}
		if sig := fn.Type().(*types.Signature); sig.Recv() == nil {
			return false
		}
		return w.stableRead(sel.X, depth+1)
	}
	return false
}

// ---- strings.CutPrefix ------------------------------------------------------------------------
//
// `after, found := strings.CutPrefix(s, p)` with a constant p: found is
// strings.HasPrefix(s, p) and, where found holds, after is s[len(p):] (documented).  When
// both are defined here and never assigned again, s is a variable that is assigned nowhere
// but at its declaration, and every use of after lies in the body of an `if` whose
// condition has found as a conjunct, the two locals read as those expressions.

func fdModelCutPrefix(fd *ast.FuncDecl, info *types.Info, inl map[types.Object]ast.Expr) {
	if fd.Body == nil {
		return
	}
	asg := map[types.Object]int{} // assignments / declarations per variable
	addr := fdWrittenIn(fd.Body, info).addr
	objOf := func(e ast.Expr) types.Object {
		if id, ok := fdUnparen(e).(*ast.Ident); ok {
			if o := info.Defs[id]; o != nil {
				return o
			}
			return info.Uses[id]
		}
		return nil
	}
	ast.Inspect(fd.Body, func(n ast.Node) bool {
		switch x := n.(type) {
		case *ast.AssignStmt:
			for _, l := range x.Lhs {
				if o := objOf(l); o != nil {
					asg[o]++
				}
			}
		case *ast.IncDecStmt:
			if o := objOf(x.X); o != nil {
				asg[o] += 2
			}
		case *ast.RangeStmt:
			for _, e := range []ast.Expr{x.Key, x.Value} {
				if e != nil {
					if o := objOf(e); o != nil {
						asg[o]++
					}
				}
			}
		case *ast.ValueSpec:
			for _, id := range x.Names {
				if o := info.Defs[id]; o != nil {
					asg[o]++
				}
			}
		}
		return true
	})
	isParam := func(o types.Object) bool {
		sig, _ := info.Defs[fd.Name].Type().(*types.Signature)
		for i := 0; sig != nil && i < sig.Params().Len(); i++ {
			if sig.Params().At(i) == o {
				return true
			}
		}
		return false
	}
	ast.Inspect(fd.Body, func(n ast.Node) bool {
		a, ok := n.(*ast.AssignStmt)
		if !ok || a.Tok != token.DEFINE || len(a.Lhs) != 2 || len(a.Rhs) != 1 {
			return true
		}
		call, ok := fdUnparen(a.Rhs[0]).(*ast.CallExpr)
		if !ok || len(call.Args) != 2 || call.Ellipsis.IsValid() {
			return true
		}
		sel, ok := fdUnparen(call.Fun).(*ast.SelectorExpr)
		if !ok {
			return true
		}
		fn, ok := info.Uses[sel.Sel].(*types.Func)
		if !ok || fn.Pkg() == nil || fn.Pkg().Path() != "strings" || fn.Name() != "CutPrefix" {
			return true
		}
		tv, ok := info.Types[call.Args[1]]
		if !ok || tv.Value == nil || tv.Value.Kind() != constant.String {
			return true
		}
		src := objOf(call.Args[0])
		sv, ok := src.(*types.Var)
		if !ok || sv.IsField() || sv.Pkg() == nil || sv.Parent() == sv.Pkg().Scope() || addr[sv] {
			return true
		}
		if n := asg[sv]; !(n == 1 || (n == 0 && isParam(sv))) {
			return true
		}
		aid, ok1 := a.Lhs[0].(*ast.Ident)
		fid, ok2 := a.Lhs[1].(*ast.Ident)
		if !ok1 || !ok2 || fid.Name == "_" {
			return true
		}
		found, after := info.Defs[fid], info.Defs[aid]
		if found == nil || asg[found] != 1 || addr[found] {
			return true
		}
		if aid.Name != "_" {
			if after == nil || asg[after] != 1 || addr[after] {
				return true
			}
			// every use of after lies under found
			covered := map[*ast.Ident]bool{}
			ast.Inspect(fd.Body, func(m ast.Node) bool {
				is, ok := m.(*ast.IfStmt)
				if !ok {
					return true
				}
				has := false
				var conj func(e ast.Expr)
				conj = func(e ast.Expr) {
					e = fdUnparen(e)
					if b, ok := e.(*ast.BinaryExpr); ok && b.Op == token.LAND {
						conj(b.X)
						conj(b.Y)
						return
					}
					if id, ok := e.(*ast.Ident); ok && info.Uses[id] == found {
						has = true
					}
				}
				conj(is.Cond)
				if has {
					ast.Inspect(is.Body, func(k ast.Node) bool {
						if id, ok := k.(*ast.Ident); ok && info.Uses[id] == after {
							covered[id] = true
						}
						return true
					})
				}
				return true
			})
			okUses := true
			ast.Inspect(fd.Body, func(m ast.Node) bool {
				if _, isLit := m.(*ast.FuncLit); isLit {
					lit := m
					ast.Inspect(lit, func(k ast.Node) bool {
						if id, ok := k.(*ast.Ident); ok && (info.Uses[id] == after || info.Uses[id] == found) {
							okUses = false
						}
						return true
					})
					return false
				}
				if id, ok := m.(*ast.Ident); ok && info.Uses[id] == after && !covered[id] {
					okUses = false
				}
				return true
			})
			if !okUses {
				return true
			}
		}
		pos := call.Pos()
		plen := len(constant.StringVal(tv.Value))
		pkg := ast.NewIdent("strings")
		pkg.NamePos = pos
		inl[found] = &ast.CallExpr{Fun: &ast.SelectorExpr{X: pkg, Sel: &ast.Ident{NamePos: pos, Name: "HasPrefix"}}, Lparen: pos, Args: call.Args, Rparen: call.End()}
		if after != nil {
			inl[after] = &ast.SliceExpr{X: call.Args[0], Lbrack: pos, Low: &ast.BasicLit{ValuePos: pos, Kind: token.INT, Value: fmt.Sprint(plen)}, Rbrack: call.End()}
		}
		return true
	})
}

// ---- a pointer to a fresh cell -------------------------------------------------------------------
//
// `X = new(T); *X = v` (adjacent, X a local / named result or a field of a local struct, v
// not reading X's variable) and `X = &i` (i a local that is defined once, never assigned
// again, used nowhere but in this `&i`, and declared in the same innermost loop as the
// statement, so that every execution has its own variable) both make X point to a new
// variable holding v / i's value that nothing else refers to: one assignment item
// `X = ·ref(value)`.  Sites and facts are taken from the statements as they stand.

func (w *fdWalker) freshCell(list []ast.Stmt, i int, chain []fdCond) int {
	a, ok := list[i].(*ast.AssignStmt)
	if !ok || a.Tok != token.ASSIGN || len(a.Lhs) != 1 || len(a.Rhs) != 1 || w.cbOf[a] != nil || w.exitOf[a] != nil {
		return 0
	}
	info := w.s.pkg.TypesInfo
	X := a.Lhs[0]
	if !w.stableTarget(X) {
		return 0
	}
	ref := func(v ast.Expr) *ast.AssignStmt {
		f := ast.NewIdent("·ref")
		f.NamePos = a.Rhs[0].Pos()
		return &ast.AssignStmt{Lhs: []ast.Expr{X}, TokPos: a.TokPos, Tok: token.ASSIGN,
			Rhs: []ast.Expr{&ast.CallExpr{Fun: f, Lparen: a.Rhs[0].Pos(), Args: []ast.Expr{v}, Rparen: a.Rhs[0].End()}}}
	}
	switch r := fdUnparen(a.Rhs[0]).(type) {
	case *ast.CallExpr: // X = new(T); *X = v
		id, ok := fdUnparen(r.Fun).(*ast.Ident)
		if !ok || len(r.Args) != 1 || i+1 >= len(list) {
			return 0
		}
		if b, ok := info.Uses[id].(*types.Builtin); !ok || b.Name() != "new" {
			return 0
		}
		n, ok := list[i+1].(*ast.AssignStmt)
		if !ok || n.Tok != token.ASSIGN || len(n.Lhs) != 1 || len(n.Rhs) != 1 || w.cbOf[n] != nil || w.exitOf[n] != nil {
			return 0
		}
		star, ok := fdUnparen(n.Lhs[0]).(*ast.StarExpr)
		if !ok || !w.sameLvalue(star.X, X) {
			return 0
		}
		base, _ := w.lvalueBase(X)
		if base == nil || mentions(n.Rhs[0], base, info) {
			return 0
		}
		w.sitesIn(a, chain)
		w.sitesIn(n, chain)
		w.assignItem(ref(n.Rhs[0]))
		w.facts.effects(w, a)
		w.facts.effects(w, n)
		return 2
	case *ast.UnaryExpr: // X = &i
		if r.Op != token.AND {
			return 0
		}
		id, ok := fdUnparen(r.X).(*ast.Ident)
		if !ok {
			return 0
		}
		v, ok := info.Uses[id].(*types.Var)
		if !ok || v.IsField() || v.Pkg() == nil || v.Parent() == v.Pkg().Scope() {
			return 0
		}
		// defined once (with a value), never assigned again, used only here, same innermost loop
		var defLoop, useLoop ast.Node
		defs, uses, bad := 0, 0, false
		var walk func(n ast.Node, loop ast.Node)
		walk = func(n ast.Node, loop ast.Node) {
			ast.Inspect(n, func(x ast.Node) bool {
				if bad || x == nil {
					return false
				}
				switch s := x.(type) {
				case *ast.FuncLit:
					if mentionsNode(s, v, info) {
						bad = true
					}
					return false
				case *ast.ForStmt:
					if x != n {
						if s.Init != nil {
							walk(s.Init, loop)
						}
						if s.Cond != nil {
							walk(s.Cond, s)
						}
						if s.Post != nil {
							walk(s.Post, s)
						}
						walk(s.Body, s)
						return false
					}
				case *ast.RangeStmt:
					if x != n {
						walk(s.X, loop)
						for _, e := range []ast.Expr{s.Key, s.Value} {
							if e != nil {
								if id, ok := e.(*ast.Ident); ok && (info.Defs[id] == types.Object(v) || info.Uses[id] == types.Object(v)) {
									bad = true // a range variable: written by the loop
								}
							}
						}
						walk(s.Body, s)
						return false
					}
				case *ast.AssignStmt:
					for _, l := range s.Lhs {
						if id, ok := l.(*ast.Ident); ok {
							if info.Defs[id] == types.Object(v) {
								defs++
								defLoop = loop
							} else if info.Uses[id] == types.Object(v) {
								bad = true
							}
						}
					}
				case *ast.ValueSpec:
					for _, id := range s.Names {
						if info.Defs[id] == types.Object(v) {
							if len(s.Values) != len(s.Names) {
								bad = true
							}
							defs++
							defLoop = loop
						}
					}
				case *ast.IncDecStmt:
					if id, ok := fdUnparen(s.X).(*ast.Ident); ok && info.Uses[id] == types.Object(v) {
						bad = true
					}
				case *ast.Ident:
					if info.Uses[s] == types.Object(v) {
						uses++
						if s == id {
							useLoop = loop
						}
					}
				}
				return true
			})
		}
		walk(w.fd.Body, nil)
		if bad || defs != 1 || uses != 1 || defLoop != useLoop {
			return 0
		}
		w.sitesIn(a, chain)
		w.assignItem(ref(r.X))
		w.facts.effects(w, a)
		return 1
	}
	return 0
}

func mentionsNode(n ast.Node, v types.Object, info *types.Info) bool {
	found := false
	ast.Inspect(n, func(x ast.Node) bool {
		if id, ok := x.(*ast.Ident); ok && info.Uses[id] == v {
			found = true
		}
		return !found
	})
	return found
}

// sameLvalue: the two expressions are the same variable or the same field path of the same variable.
func (w *fdWalker) sameLvalue(a, b ast.Expr) bool {
	info := w.s.pkg.TypesInfo
	a, b = fdUnparen(a), fdUnparen(b)
	switch x := a.(type) {
	case *ast.Ident:
		y, ok := b.(*ast.Ident)
		return ok && info.Uses[x] != nil && info.Uses[x] == info.Uses[y]
	case *ast.SelectorExpr:
		y, ok := b.(*ast.SelectorExpr)
		return ok && info.Uses[x.Sel] != nil && info.Uses[x.Sel] == info.Uses[y.Sel] && w.sameLvalue(x.X, y.X)
	}
	return false
}

// ---- negations that a positive test of the same chain implies ----------------------------------
//
// The chain of a site is a conjunction.  Over a variable x that is assigned nowhere but at
// its declaration (so every part of the chain reads the same value), a part `!(x == c1)` is
// implied by a part `x == c2` (c1 ≠ c2) or `strings.HasPrefix(x, p)` (c1 does not start with
// p); `!(strings.HasPrefix(x, p))` is implied by `x == c` (c does not start with p) or by
// `strings.HasPrefix(x, q)` (neither of p, q is a prefix of the other).  Implied parts are
// left out, so the order of mutually exclusive arms does not show.

type fdStrTest struct {
	x      ast.Expr
	prefix bool
	c      constant.Value
}

func (w *fdWalker) strTest(e ast.Expr, inl map[types.Object]ast.Expr) (fdStrTest, bool) {
	info := w.s.pkg.TypesInfo
	e = fdUnparen(e)
	for depth := 0; depth < 6; depth++ {
		id, ok := e.(*ast.Ident)
		if !ok {
			break
		}
		def := w.inlinable(inl)(info.Uses[id])
		if def == nil {
			break
		}
		e = fdUnparen(def)
	}
	fixed := func(x ast.Expr) bool {
		id, ok := fdUnparen(x).(*ast.Ident)
		if !ok {
			return false
		}
		v, ok := info.Uses[id].(*types.Var)
		if !ok || v.IsField() || v.Pkg() == nil || v.Parent() == v.Pkg().Scope() || w.noFacts[v] || w.s.laxObjs[v] {
			return false
		}
		return true
	}
	switch x := e.(type) {
	case *ast.BinaryExpr:
		if x.Op != token.EQL {
			return fdStrTest{}, false
		}
		a, b := x.X, x.Y
		if tv, ok := info.Types[a]; ok && tv.Value != nil {
			a, b = b, a
		}
		tv, ok := info.Types[b]
		if !ok || tv.Value == nil || !fixed(a) {
			return fdStrTest{}, false
		}
		return fdStrTest{x: a, c: tv.Value}, true
	case *ast.CallExpr:
		sel, ok := fdUnparen(x.Fun).(*ast.SelectorExpr)
		if !ok || sel.Sel.Name != "HasPrefix" || len(x.Args) != 2 {
			return fdStrTest{}, false
		}
		if pk, ok := fdUnparen(sel.X).(*ast.Ident); !ok || pk.Name != "strings" {
			return fdStrTest{}, false
		} else if o := info.Uses[pk]; o != nil {
			if pn, ok := o.(*types.PkgName); !ok || pn.Imported().Path() != "strings" {
				return fdStrTest{}, false
			}
		}
		tv, ok := info.Types[x.Args[1]]
		if !ok || tv.Value == nil || tv.Value.Kind() != constant.String || !fixed(x.Args[0]) {
			return fdStrTest{}, false
		}
		return fdStrTest{x: x.Args[0], prefix: true, c: tv.Value}, true
	}
	return fdStrTest{}, false
}

func (w *fdWalker) dropImplied(flat []fdCond) []fdCond {
	if len(flat) < 2 {
		return flat
	}
	inl := w.ctx().inline
	type part struct {
		t       fdStrTest
		ok, neg bool
	}
	ps := make([]part, len(flat))
	any := false
	for i, k := range flat {
		if len(k.exprs) != 1 {
			continue
		}
		switch {
		case k.pre == "" && k.sep[0] == "":
		case k.pre == "!(" && k.sep[0] == ")":
			ps[i].neg = true
		default:
			continue
		}
		ps[i].t, ps[i].ok = w.strTest(k.exprs[0], inl)
		any = any || (ps[i].ok && !ps[i].neg)
	}
	if !any {
		return flat
	}
	str := func(v constant.Value) (string, bool) {
		if v.Kind() == constant.String {
			return constant.StringVal(v), true
		}
		return "", false
	}
	implied := func(p, n fdStrTest) bool { // p holds  =>  n does not hold
		if !w.sameExpr(p.x, n.x, inl, 0) || !w.sameValueAt(p.x, n.x) {
			return false
		}
		ps, pIsStr := str(p.c)
		ns, nIsStr := str(n.c)
		switch {
		case !p.prefix && !n.prefix:
			return p.c.Kind() == n.c.Kind() && !constant.Compare(p.c, token.EQL, n.c)
		case p.prefix && !n.prefix:
			return pIsStr && nIsStr && !strings.HasPrefix(ns, ps)
		case !p.prefix && n.prefix:
			return pIsStr && nIsStr && !strings.HasPrefix(ps, ns)
		default:
			return pIsStr && nIsStr && !strings.HasPrefix(ps, ns) && !strings.HasPrefix(ns, ps)
		}
	}
	var out []fdCond
	for i, k := range flat {
		drop := false
		if ps[i].ok && ps[i].neg {
			for j := range flat {
				if j != i && ps[j].ok && !ps[j].neg && implied(ps[j].t, ps[i].t) {
					drop = true
					break
				}
			}
		}
		if !drop {
			out = append(out, k)
		}
	}
	return out
}

// sameValueAt: the two reads of one variable (identifiers) see the same value: no write of
// the variable lies between them in the text, and no loop that contains only the later
// read writes it (a part of a chain is evaluated before the parts after it, and the parts
// inside a loop body belong to one iteration).
func (w *fdWalker) sameValueAt(a, b ast.Expr) bool {
	info := w.s.pkg.TypesInfo
	ia, ok1 := fdUnparen(a).(*ast.Ident)
	ib, ok2 := fdUnparen(b).(*ast.Ident)
	if !ok1 || !ok2 || info.Uses[ia] == nil || info.Uses[ia] != info.Uses[ib] {
		return false
	}
	v := info.Uses[ia]
	if w.writePos == nil {
		w.writePos = map[types.Object][]token.Pos{}
		note := func(e ast.Expr) {
			if e == nil {
				return
			}
			for {
				switch x := e.(type) {
				case *ast.ParenExpr:
					e = x.X
					continue
				case *ast.SelectorExpr:
					e = x.X
					continue
				case *ast.IndexExpr:
					e = x.X
					continue
				case *ast.StarExpr:
					e = x.X
					continue
				case *ast.Ident:
					o := info.Defs[x]
					if o == nil {
						o = info.Uses[x]
					}
					if o != nil {
						w.writePos[o] = append(w.writePos[o], x.Pos())
					}
				}
				return
			}
		}
		ast.Inspect(w.fd.Body, func(n ast.Node) bool {
			switch x := n.(type) {
			case *ast.AssignStmt:
				for _, l := range x.Lhs {
					note(l)
				}
			case *ast.IncDecStmt:
				note(x.X)
			case *ast.RangeStmt:
				note(x.Key)
				note(x.Value)
				w.loopSpans = append(w.loopSpans, [2]token.Pos{x.Pos(), x.End()})
			case *ast.ForStmt:
				w.loopSpans = append(w.loopSpans, [2]token.Pos{x.Pos(), x.End()})
			case *ast.ValueSpec:
				for _, id := range x.Names {
					note(id)
				}
			}
			return true
		})
	}
	pa, pb := ia.Pos(), ib.Pos()
	if pb < pa {
		pa, pb = pb, pa
	}
	for _, p := range w.writePos[v] {
		if pa < p && p < pb {
			return false
		}
	}
	for _, l := range w.loopSpans {
		if l[0] <= pb && pb < l[1] && !(l[0] <= pa && pa < l[1]) {
			for _, p := range w.writePos[v] {
				if l[0] <= p && p < l[1] {
					return false
				}
			}
		}
	}
	return true
}

// fdAssignCounts: how often each variable is assigned / declared in fd (inc/dec counts twice).
func fdAssignCounts(fd *ast.FuncDecl, info *types.Info) map[types.Object]int {
	asg := map[types.Object]int{}
	objOf := func(e ast.Expr) types.Object {
		if id, ok := fdUnparen(e).(*ast.Ident); ok {
			if o := info.Defs[id]; o != nil {
				return o
			}
			return info.Uses[id]
		}
		return nil
	}
	ast.Inspect(fd.Body, func(n ast.Node) bool {
		switch x := n.(type) {
		case *ast.AssignStmt:
			for _, l := range x.Lhs {
				if o := objOf(l); o != nil {
					asg[o]++
				}
			}
		case *ast.IncDecStmt:
			if o := objOf(x.X); o != nil {
				asg[o] += 2
			}
		case *ast.RangeStmt:
			for _, e := range []ast.Expr{x.Key, x.Value} {
				if e != nil {
					if o := objOf(e); o != nil {
						asg[o]++
					}
				}
			}
		case *ast.ValueSpec:
			for _, id := range x.Names {
				if o := info.Defs[id]; o != nil {
					asg[o]++
				}
			}
		}
		return true
	})
	return asg
}

// ---- nested conditions ---------------------------------------------------------------------------
//
// The condition item of an `if` is the conjunction of its own conjuncts and those of the
// `if` statements in whose bodies (not else branches) it lies, as long as nothing walked
// between has written a variable they read (and, for conditions that call something or
// read through a pointer, nothing between has called anything): `if a { X; if b {Y} }` and
// `if a {X}; if a && b {Y}` evaluate b under the same circumstances.  The conjuncts are
// sorted; negations implied by a positive test of the same conjunction are left out (as in
// the chains of the sites).  A condition without enclosing conditions and with a single
// conjunct is rendered as before.

func (w *fdWalker) emitIfCond(chain []fdCond, pos fdCond, at token.Pos) {
	var parts []fdCond
	for _, k := range chain {
		if k.enc {
			parts = append(parts, fdFlatten(k)...)
		}
	}
	own := fdFlatten(pos)
	if len(parts) == 0 && len(own) == 1 {
		w.emitCond(pos, at)
		return
	}
	all := w.dropImplied(append(parts, own...))
	w.emitItem("cond", func(c *fdCtx) string {
		var texts []string
		seen := map[string]bool{}
		for _, f := range all {
			t := c.cond(f)
			if t == "true" || t == "!(false)" || seen[t] {
				continue
			}
			seen[t] = true
			texts = append(texts, t)
		}
		sort.SliceStable(texts, func(i, j int) bool { return fdMask(texts[i]) < fdMask(texts[j]) })
		if len(texts) == 1 {
			return texts[0]
		}
		return "(" + strings.Join(texts, " ∧ ") + ")"
	}, at)
}

// staleAfter: the chain for what follows st — enclosing conditions that st may have
// invalidated no longer count as in force.
func (w *fdWalker) staleAfter(chain []fdCond, st ast.Node) []fdCond {
	any := false
	for _, k := range chain {
		any = any || k.enc
	}
	if !any || st == nil {
		return chain
	}
	info := w.s.pkg.TypesInfo
	written := fdWrittenIn(st, info)
	calls := false
	ast.Inspect(st, func(n ast.Node) bool {
		switch n.(type) {
		case *ast.CallExpr, *ast.GoStmt, *ast.DeferStmt, *ast.SendStmt:
			calls = true
		}
		return !calls
	})
	var out []fdCond
	for i, k := range chain {
		if k.enc && w.invalidated(k, written, calls) {
			if out == nil {
				out = append([]fdCond{}, chain...)
			}
			out[i].enc = false
		}
	}
	if out == nil {
		return chain
	}
	return out
}

func (w *fdWalker) invalidated(k fdCond, written fdWrites, calls bool) bool {
	info := w.s.pkg.TypesInfo
	inl := w.ctx().inline
	bad := false
	var visit func(e ast.Expr, depth int)
	visit = func(e ast.Expr, depth int) {
		ast.Inspect(e, func(n ast.Node) bool {
			if bad {
				return false
			}
			switch x := n.(type) {
			case *ast.CallExpr, *ast.StarExpr, *ast.FuncLit:
				bad = bad || calls
			case *ast.SelectorExpr:
				if t := info.TypeOf(x.X); t != nil {
					if _, isPtr := t.Underlying().(*types.Pointer); isPtr {
						bad = bad || calls
					}
				}
			case *ast.IndexExpr:
				bad = bad || calls // (elements of a slice / map may be written by a callee)
			case *ast.Ident:
				o := info.Uses[x]
				if o == nil {
					break
				}
				if written.any(o) || w.noFacts[o] {
					bad = true
				}
				if _, isVar := o.(*types.Var); isVar && o.Pkg() != nil && o.Parent() == o.Pkg().Scope() {
					bad = bad || calls // a package-level variable
				}
				if def := w.inlinable(inl)(o); def != nil && depth < 8 {
					visit(def, depth+1)
				}
			}
			return !bad
		})
	}
	for _, e := range k.exprs {
		visit(e, 0)
	}
	return bad
}
