package main

import (
	"fmt"
	"go/ast"
	"go/token"
	"go/types"
	"os"
	"reflect"
	"sort"
	"strings"

	"golang.org/x/tools/go/ssa"
)

// C10.R3, round 8 — part 3: the elements of a SEQUENCE OF / SET OF are type-checked, with whatever
// parameters they are decoded.
//
// encoding/asn1 checks the header of every element twice: its counting pass rejects a sequence that
// holds an element whose class / compound bit / tag does not fit the element type (string tags and
// the two time tags each stand for one another), and parseField, called for each element with the
// zero parameters, tests the same header again.  A fork that hands the elements other parameters
// than zero (so that diagnostics name the field, so that laxness is inherited), or that leaves the
// first test to the second, is as strict as upstream iff two facts hold, decided here by executing
// the scalar decisions of both sides (rules_t8c10_exec.go):
//
//   (typed)    for every element header and every type class: when the fork's element decoding —
//              the counting pass of the function that decodes the slice, then the function that decodes
//              one element, executed with the parameters the fork really passes — accepts the element
//              or starts to store into the target, upstream's counting pass lets that header through to
//              its element decoding (which the site-by-site comparison shows equal to the fork's).
//              The parameters are evaluated field by field through every call site and through
//              functions that copy and adjust a parameter structure; a field nobody fixed is an
//              unknown that the path may take either way.  This is the clause the seed C10-i breaks:
//              with `optional` inherited from the slice field, an element of the wrong type is
//              skipped instead of rejected;
//   (neutral)  a field of the parameters that is not the constant upstream passes (zero) and that
//              upstream's structure also has does not matter: every path on which a value derived from
//              it decides a branch, or leaves the executed code (a call that is not executed, other
//              than fmt / errors), ends in a rejection without any store into the target.  Such a field
//              is left out when the parameters are compared with upstream's; a field for which this
//              fails is reported and stays a difference.
//
// Derived on the way (typed needs it): the function that decodes one element has a branch for targets
// of type interface{} that comes before its header test; it is not taken for elements, because the
// type classification says "unknown type" for every interface type (executed with Kind() fixed to
// reflect.Interface and the comparisons with the package's type variables — each reflect.TypeOf of a
// value of a non-interface type, written by its declaration only — false) and the slice decoder
// rejects those classes before it decodes an element.
//
// When (typed) holds, upstream's first test is implied by what follows it: the drift table then
// allows the counting-pass check to be absent from the fork (conditional entries, see
// engine_forkdiff_drift_c10.go); it is never allowed otherwise.

type c10Elem struct {
	typed  bool   // (typed) decided
	holder string // the function that decodes the slice
	// the fork-only parameter structure of the slice decoder, field by field:
	// "=<text>" a constant, "?" unknown and neutral, "!" unknown and not neutral
	param  types.Object
	fields map[*types.Var]string
}

// c10IsNewElement: v is X.Index(i) of a slice the function has just made (reflect.MakeSlice): an
// element that is being decoded into (marshalling indexes a slice it was given).
func c10IsNewElement(r *Run, v ssa.Value) bool {
	c, ok := v.(*ssa.Call)
	return ok && CalleeOf(c) == "(reflect.Value).Index" && glob("(reflect.Value).Index(reflect.MakeSlice(*", r.D.D(c))
}

func c10StructParamWith(fn *ssa.Function, field *types.Var) int {
	for i, p := range fn.Params {
		if st, ok := p.Type().Underlying().(*types.Struct); ok {
			for k := 0; k < st.NumFields(); k++ {
				if st.Field(k) == field {
					return i
				}
			}
		}
	}
	return -1
}

// c10AbstractArg: the value of a parameter-structure argument at a call site, field by field.
func c10AbstractArg(x *xExec, a ssa.Value, t types.Type, depth int) xVal {
	unknown := func() xVal { return x.unknown(t, "P", 0) }
	if depth > 3 {
		return unknown()
	}
	switch v := a.(type) {
	case *ssa.Const:
		return xZero(t, 0)
	case *ssa.Parameter:
		return unknown()
	case *ssa.Call:
		cal := v.Common().StaticCallee()
		if cal == nil || len(cal.Blocks) == 0 || len(cal.Blocks) > 14 || cal.Pkg == nil || cal.Pkg.Pkg != x.pkg || len(cal.Params) != len(v.Common().Args) {
			return unknown()
		}
		var args []xVal
		for _, ca := range v.Common().Args {
			if types.Identical(ca.Type(), t) {
				args = append(args, c10AbstractArg(x, ca, t, depth+1))
			} else {
				args = append(args, x.unknown(ca.Type(), "", 0))
			}
		}
		outs := x.run(cal, args, &xGlobal{cons: map[string]xCons{}})
		var res *xVal
		for _, o := range outs {
			if o.pan || len(o.ret) != 1 {
				return unknown()
			}
			if res == nil {
				r := o.ret[0]
				res = &r
			} else if xShow(*res) != xShow(o.ret[0]) {
				return unknown()
			}
		}
		if res == nil || res.k != 's' {
			return unknown()
		}
		return *res
	case *ssa.UnOp:
		if v.Op != token.MUL {
			return unknown()
		}
		al, ok := v.X.(*ssa.Alloc)
		if !ok || !c14Private(al) {
			return unknown()
		}
		if p := paramSpill(al); p != nil {
			// the caller's own parameters with some fields written: the written fields, if constant
			// on every path, else unknown
			base := unknown()
			return c10ApplyFieldStores(x, al, v, base, t, nil)
		}
		// a local: zero, or a copy of another structure (one whole-value store, before the load),
		// then the fields written after that
		var whole []*ssa.Store
		for _, ref := range *al.Referrers() {
			if st, ok := ref.(*ssa.Store); ok && st.Addr == ssa.Value(al) {
				whole = append(whole, st)
			}
		}
		switch len(whole) {
		case 0:
			return c10ApplyFieldStores(x, al, v, xZero(t, 0), t, nil)
		case 1:
			if c10InstrDominates(whole[0], v) {
				return c10ApplyFieldStores(x, al, v, c10AbstractArg(x, whole[0].Val, t, depth+1), t, whole[0])
			}
		}
		return unknown()
	}
	return unknown()
}

// c10ApplyFieldStores: the value loaded by ld from the local al, which starts as base: a field
// that is stored to holds the stored constant when exactly one store to it exists, it dominates the
// load and is a constant or a scalar the executor cannot know (then unknown); whole-value stores
// other than the spill of a parameter make everything unknown.
func c10ApplyFieldStores(x *xExec, al *ssa.Alloc, ld *ssa.UnOp, base xVal, t types.Type, after *ssa.Store) xVal {
	st, ok := t.Underlying().(*types.Struct)
	if !ok || base.k != 's' {
		return x.unknown(t, "P", 0)
	}
	out := xVal{k: 's', agg: append([]xVal{}, base.agg...)}
	for _, ref := range *al.Referrers() {
		switch r := ref.(type) {
		case *ssa.Store:
			if r.Addr == ssa.Value(al) && r != after {
				if _, isParam := r.Val.(*ssa.Parameter); !isParam {
					return x.unknown(t, "P", 0)
				}
			}
		case *ssa.FieldAddr:
			var stores []*ssa.Store
			for _, r2 := range *r.Referrers() {
				if s, ok := r2.(*ssa.Store); ok && s.Addr == ssa.Value(r) {
					stores = append(stores, s)
				}
			}
			if len(stores) == 0 {
				continue
			}
			name := st.Field(r.Field).Name()
			if len(stores) == 1 && c10InstrDominates(stores[0], ld) && (after == nil || c10InstrDominates(after, stores[0])) {
				if c, isConst := stores[0].Val.(*ssa.Const); isConst {
					out.agg[r.Field] = x.val(c, nil, nil)
					continue
				}
			}
			out.agg[r.Field] = x.unknown(st.Field(r.Field).Type(), "P."+name, 0)
		}
	}
	return out
}

func xJoin(x *xExec, a, b xVal, t types.Type, prefix string) xVal {
	if xShow(a) == xShow(b) {
		return a
	}
	if st, ok := t.Underlying().(*types.Struct); ok && a.k == 's' && b.k == 's' && len(a.agg) == st.NumFields() && len(b.agg) == st.NumFields() {
		out := xVal{k: 's', agg: make([]xVal, st.NumFields())}
		for i := range out.agg {
			out.agg[i] = xJoin(x, a.agg[i], b.agg[i], st.Field(i).Type(), prefix+"."+st.Field(i).Name())
		}
		return out
	}
	return x.unknown(t, prefix, 0)
}

func xConstText(v xVal, t types.Type) (string, bool) {
	switch v.k {
	case 'n':
		return "nil", true
	case 'i':
		if b, ok := t.Underlying().(*types.Basic); ok && b.Info()&types.IsBoolean != 0 {
			if v.i != 0 {
				return "true", true
			}
			return "false", true
		}
		return fmt.Sprint(v.i), true
	}
	return "", false
}

// c10NonIfaceTypeVars: package-level variables of the fork that are reflect.TypeOf(<value of a
// non-interface static type>) and written by their declaration only.
func c10NonIfaceTypeVars(r *Run, m *c10Memo) map[*ssa.Global]bool {
	out := map[*ssa.Global]bool{}
	pk := r.P.Pkg("asn1")
	sp := r.P.SSA.Package(pk.Types)
	for _, f := range pk.Syntax {
		ast.Inspect(f, func(n ast.Node) bool {
			vs, ok := n.(*ast.ValueSpec)
			if !ok || len(vs.Names) != len(vs.Values) {
				return true
			}
			for i, id := range vs.Names {
				call, ok := vs.Values[i].(*ast.CallExpr)
				if !ok || len(call.Args) != 1 || types.ExprString(call.Fun) != "reflect.TypeOf" {
					continue
				}
				tv, ok := pk.TypesInfo.Types[call.Args[0]]
				if !ok || tv.Type == nil {
					continue
				}
				if _, isIface := tv.Type.Underlying().(*types.Interface); isIface {
					continue
				}
				if g, ok := sp.Members[id.Name].(*ssa.Global); ok && g.Object() == pk.TypesInfo.Defs[id] && m.globalConst(g) {
					out[g] = true
				}
			}
			return true
		})
	}
	return out
}

// c10ElementTyping decides (typed) and (neutral); the rule set is shared by three properties, the
// execution is done once per loaded program and its obligations are recorded again under each rule id.
func c10ElementTyping(r *Run, li *c10LaxInfo) *c10Elem {
	type logged struct {
		key, where, detail string
		ok                 bool
		floor              *[2]int
	}
	type cached struct {
		res  *c10Elem
		log  []logged
		vals int
	}
	if c, ok := c10ElemCache[r.P].(*cached); ok && r.cfg == "" {
		for _, l := range c.log {
			if l.floor != nil {
				r.Floor(strings.TrimPrefix(l.key, "floor:"), l.floor[0], l.floor[1])
			} else {
				r.Check(l.key, l.ok, l.where, l.detail)
			}
		}
		r.Valuations += c.vals
		return c.res
	}
	n0, v0 := len(r.Obls), r.Valuations
	res := c10ElementTyping0(r, li)
	if r.cfg == "" {
		c := &cached{res: res, vals: r.Valuations - v0}
		pre := r.curRule + ":"
		for _, o := range r.Obls[n0:] {
			k := strings.TrimPrefix(o.Key, pre)
			l := logged{key: k, where: o.Where, detail: o.Detail, ok: o.OK}
			if strings.HasPrefix(k, "floor:") {
				if f, ok := r.Floors[r.curRule+":"+strings.TrimPrefix(k, "floor:")]; ok {
					l.floor = &f
				}
			}
			c.log = append(c.log, l)
		}
		if c10ElemCache == nil {
			c10ElemCache = map[*Prog]any{}
		}
		c10ElemCache[r.P] = c
	}
	return res
}

var c10ElemCache map[*Prog]any

func c10ElementTyping0(r *Run, li *c10LaxInfo) *c10Elem {
	res := &c10Elem{fields: map[*types.Var]string{}}
	pk := r.P.Pkg("asn1")
	up := r.P.SSA.ImportedPackage("encoding/asn1")
	if pk == nil || up == nil {
		r.Fail("element:anchor", "-", "undecided: the fork or encoding/asn1 has no SSA form")
		return res
	}
	// the call that decodes one element of a slice: its target is X.Index(i) of a slice made by reflect.MakeSlice
	type site struct {
		call   *ssa.Call
		holder *ssa.Function
		dec    *ssa.Function
		ai     int
	}
	var sites []site
	for _, fn := range li.fns {
		eachInstr(fn, func(in ssa.Instruction) {
			c, ok := in.(*ssa.Call)
			if !ok {
				return
			}
			cal := c.Common().StaticCallee()
			if cal == nil || len(cal.Blocks) == 0 || fnPkg(cal) != pk.Types {
				return
			}
			for _, a := range c.Common().Args {
				if c10IsNewElement(r, a) {
					if ai := c10StructParamWith(cal, li.field); ai >= 0 {
						sites = append(sites, site{c, fn, cal, ai})
					}
					return
				}
			}
		})
	}
	r.Floor("calls that decode an element of a slice into X.Index(i)", len(sites), 1)
	if len(sites) != 1 {
		if len(sites) > 1 {
			r.Fail("element:anchor", r.Where(sites[1].call), "undecided: more than one call decodes slice elements; the rule follows one")
		}
		return res
	}
	s := sites[0]
	res.holder = s.holder.Name()
	gU, _ := up.Members[s.holder.Name()].(*ssa.Function)
	fU, _ := up.Members[s.dec.Name()].(*ssa.Function)
	if gU == nil || fU == nil || len(gU.Blocks) == 0 {
		r.Fail("element:anchor", r.Where(s.call), "undecided: encoding/asn1 has no "+s.holder.Name()+" / "+s.dec.Name()+" to compare the element decoding with")
		return res
	}
	r.Assume("element typing: one element stands for every element of a SEQUENCE OF (the paths are explored with one abstract header); the header the counting pass reads and the first header the element decoder reads at its own offset are the same header (the header function is a function of the bytes and the offset, and the decoding loop visits the offsets the counting loop visited); the type classification is consulted for the element type on both occasions; reflect.MakeSlice(t, n, n).Index(i) has the element type of t")
	var tuples []string
	memo := &c10Memo{r: r, fns: li.fns, pure: map[*ssa.Function]int{}, why: map[*ssa.Function]string{}, consts: map[*ssa.Global]bool{}}

	// ---- the fork: the slice decoder with the parameters it is really called with
	xf := newXExec(r, pk.Types, &tuples)
	xf.budget = 30_000_000
	pi := c10StructParamWith(s.holder, li.field)
	var args []xVal
	var pT types.Type
	for i, p := range s.holder.Params {
		if i != pi {
			args = append(args, xf.unknown(p.Type(), "", 0))
			continue
		}
		pT = p.Type()
		callers, all := c10StaticCallSites(li.fns, s.holder)
		var v *xVal
		if all {
			for _, cs := range callers {
				if i < len(cs.Common().Args) {
					a := c10AbstractArg(xf, cs.Common().Args[i], pT, 0)
					if v == nil {
						v = &a
					} else {
						j := xJoin(xf, *v, a, pT, "P")
						v = &j
					}
				}
			}
		}
		if v == nil {
			u := xf.unknown(pT, "P", 0)
			v = &u
		}
		args = append(args, *v)
		res.param = p.Object()
	}
	xf.steps = 0
	xf.force = s.dec
	// the header read at the start of an element: the slice decoder's own calls of the function
	// that yields a header structure, and the element decoder's calls of it at its own offset parameter
	isHeaderFn := func(cal *ssa.Function) bool {
		if cal == nil || cal.Signature.Results().Len() == 0 {
			return false
		}
		st, ok := cal.Signature.Results().At(0).Type().Underlying().(*types.Struct)
		if !ok {
			return false
		}
		n := 0
		for i := 0; i < st.NumFields(); i++ {
			if xIsScalar(st.Field(i).Type()) {
				n++
			}
		}
		return n >= 3
	}
	paramDerived := func(v ssa.Value) bool {
		for d := 0; d < 4; d++ {
			switch y := v.(type) {
			case *ssa.Parameter, *ssa.Const:
				return true
			case *ssa.UnOp:
				v = y.X
			case *ssa.FieldAddr:
				v = y.X
			case *ssa.Field:
				v = y.X
			case *ssa.Alloc:
				return paramSpill(y) != nil
			default:
				return false
			}
		}
		return false
	}
	xf.startFn = func(c *ssa.Call) bool {
		cal := c.Common().StaticCallee()
		if !isHeaderFn(cal) {
			return false
		}
		if c.Parent() == s.holder {
			return true
		}
		for _, a := range c.Common().Args {
			if !paramDerived(a) {
				return false
			}
		}
		return c.Parent() == s.dec
	}
	if os.Getenv("CTVERIF_C10_DEBUG") != "" {
		xf.visits = map[*ssa.BasicBlock]int{}
		xf.budget = 3_000_000
	}
	xf.leaves(s.holder, args)
	if xf.visits != nil {
		type bv struct {
			b *ssa.BasicBlock
			n int
		}
		var l []bv
		for b, n := range xf.visits {
			l = append(l, bv{b, n})
		}
		sort.Slice(l, func(i, j int) bool { return l[i].n > l[j].n })
		for i := 0; i < len(l) && i < 25; i++ {
			fmt.Printf("VISITS %s b%d %d (%s)\n", l[i].b.Parent().Name(), l[i].b.Index, l[i].n, l[i].b.Comment)
		}
		fmt.Println("steps", xf.steps, "marks", len(xf.marks))
	}
	// ---- upstream: which headers its counting pass lets through to the element decoding
	xu := newXExec(r, up.Pkg, &tuples)
	xu.budget = 10_000_000
	xu.startFn = func(c *ssa.Call) bool { return isHeaderFn(c.Common().StaticCallee()) && c.Parent() == gU }
	xu.markFn = func(c *ssa.Call) string {
		if c.Common().StaticCallee() == fU {
			return "decode"
		}
		return ""
	}
	var uargs []xVal
	for _, p := range gU.Params {
		uargs = append(uargs, xu.unknown(p.Type(), "", 0))
	}
	xu.leaves(gU, uargs)
	if xf.over || xu.over {
		r.Fail("element:typed", r.Where(s.call), fmt.Sprintf("undecided: the execution of the element decoding exceeded its budget (fork %d steps, upstream %d)", xf.steps, xu.steps))
		return res
	}
	var accept []map[string]xCons
	for _, m := range xu.marks {
		if m.name == "decode" {
			accept = append(accept, m.cons)
		}
	}
	// (paths that differ only in cells the two facts do not speak about are one case)
	ifaceKind := int64(reflect.Interface)
	isKindCell := func(k string) bool { return strings.Contains(k, ".Kind(") }
	// the cells the two sides are compared on: the header, and the type classes upstream's counting pass consults
	upTau := map[string]bool{}
	for _, m := range xu.marks {
		for k := range m.cons {
			if strings.HasPrefix(k, "τ:") {
				upTau[k] = true
			}
		}
	}
	relevant := func(k string) bool { return strings.HasPrefix(k, "h:") || upTau[k] }
	var pass []xMark
	seenPass := map[string]bool{}
	for _, m := range xf.marks {
		if m.name != "pass" {
			continue
		}
		var ks []string
		for k, c := range m.cons {
			if relevant(k) || strings.HasPrefix(k, "P.") || (isKindCell(k) && c.fixed && c.v == ifaceKind) {
				ks = append(ks, fmt.Sprintf("%s=%v:%d:%v", k, c.fixed, c.v, c.not))
			}
		}
		sort.Strings(ks)
		key := fmt.Sprintf("%x|%s", m.used, strings.Join(ks, ";"))
		if !seenPass[key] {
			seenPass[key] = true
			pass = append(pass, m)
		}
	}
	r.Floor("paths on which encoding/asn1's counting pass reaches the element decoding", len(accept), 1)
	r.Floor("paths on which the fork's element decoding accepts or stores", len(pass), 1)
	if len(accept) == 0 || len(pass) == 0 {
		return res
	}
	// ---- derived: elements are never interface{}-typed targets
	tDec := map[int64]bool{}
	for _, m := range pass {
		if c, ok := m.cons["τ:"+c10ClassifierName(m.cons)]; ok && c.fixed {
			tDec[c.v] = true
		}
	}
	uDec := map[int64]bool{}
	for _, a := range accept {
		for k, c := range a {
			if strings.HasPrefix(k, "τ:") && c.fixed {
				uDec[c.v] = true
			}
		}
	}
	// (the classes of Go types that can be elements: raw value, OID, bit string, time, enumerated, integer,
	// boolean, struct / slice, octet string, SET, string — no class may drop out of the comparison unnoticed)
	r.Floor("type classes with which the fork's element decoding is reached", len(tDec), 11)
	r.Floor("type classes with which encoding/asn1's element decoding is reached", len(uDec), 11)
	notIface, whyIface := c10ClassifierRejectsInterfaces(r, memo, s.holder, pk.Types, &tuples, tDec, ifaceKind)
	r.Check("element:not-interface", notIface, r.FnPos(s.dec), whyIface)
	// ---- (typed)
	dom := map[string]map[int64]bool{}
	addDom := func(cons map[string]xCons) {
		for k, c := range cons {
			if !relevant(k) {
				continue
			}
			if dom[k] == nil {
				dom[k] = map[int64]bool{}
			}
			if c.fixed {
				dom[k][c.v] = true
			}
			for _, n := range c.not {
				dom[k][n] = true
			}
		}
	}
	for _, a := range accept {
		addDom(a)
	}
	for _, m := range pass {
		addDom(m.cons)
	}
	var keys []string
	for k := range dom {
		keys = append(keys, k)
		if strings.HasPrefix(k, "τ:") {
			for i, t := range tuples {
				if strings.HasPrefix(t, strings.TrimPrefix(k, "τ:")+"(") {
					dom[k][int64(i)] = true
				}
			}
		} else {
			dom[k][-7777] = true // a value no constant mentions
		}
	}
	sort.Strings(keys)
	sat := func(cons map[string]xCons, sigma map[string]int64) bool {
		for k, c := range cons {
			if !relevant(k) {
				continue
			}
			v := sigma[k]
			if c.fixed && c.v != v {
				return false
			}
			for _, n := range c.not {
				if n == v {
					return false
				}
			}
		}
		return true
	}
	var witness string
	var witnessAt ssa.Instruction
	checked := 0
	for _, m := range pass {
		if notIface {
			skip := false
			for k, c := range m.cons {
				if isKindCell(k) && c.fixed && c.v == ifaceKind {
					skip = true
				}
			}
			if skip {
				continue
			}
		}
		// every completion of the path's description over the relevant cells
		sigma := map[string]int64{}
		var rec func(i int) bool
		rec = func(i int) bool {
			if i == len(keys) {
				checked++
				if !sat(m.cons, sigma) {
					return true
				}
				for _, a := range accept {
					if sat(a, sigma) {
						return true
					}
				}
				return false
			}
			k := keys[i]
			if c, ok := m.cons[k]; ok && c.fixed {
				sigma[k] = c.v
				return rec(i + 1)
			}
			var vals []int64
			for v := range dom[k] {
				vals = append(vals, v)
			}
			sort.Slice(vals, func(a, b int) bool { return vals[a] < vals[b] })
			for _, v := range vals {
				sigma[k] = v
				if !rec(i + 1) {
					return false
				}
			}
			return true
		}
		if !rec(0) {
			fixed := map[string]xCons{}
			for k, v := range sigma {
				fixed[k] = xCons{fixed: true, v: v}
			}
			other := xDescribe(m.cons, tuples, func(k string) bool { return strings.HasPrefix(k, "P.") })
			if other != "" {
				other = " with parameters " + other
			}
			witness = fmt.Sprintf("an element with header {%s}%s: encoding/asn1's counting pass rejects the sequence, the fork's element decoding accepts the element or stores into the target (path ends at %s)",
				strings.ReplaceAll(xDescribe(fixed, tuples, relevant), "-7777", "other"), other, r.Where(m.at))
			witnessAt = m.at
			break
		}
	}
	r.Valuations += checked
	if witness != "" {
		r.Fail("element:typed", r.Where(witnessAt), "the fork accepts "+witness+" — strict mode must accept only what encoding/asn1 accepts")
	} else {
		res.typed = true
		r.Pass("element:typed", r.Where(s.call), fmt.Sprintf("every element that %s (called by %s with the parameters the fork passes, evaluated field by field) accepts or starts to store has a header that encoding/asn1's counting pass lets through (%d fork path(s) against %d upstream path(s), %d header / type-class combinations)", FuncName(s.dec), FuncName(s.holder), len(pass), len(accept), checked))
	}
	// ---- (neutral): fields of the slice decoder's parameter structure that nobody fixed
	if pi >= 0 {
		st := pT.Underlying().(*types.Struct)
		P := args[pi]
		var upT *types.TypeName
		if nt, ok := pT.(*types.Named); ok {
			upT, _ = up.Pkg.Scope().Lookup(nt.Obj().Name()).(*types.TypeName)
		}
		upHas := map[string]bool{}
		if upT != nil {
			if us, ok := upT.Type().Underlying().(*types.Struct); ok {
				for i := 0; i < us.NumFields(); i++ {
					upHas[us.Field(i).Name()] = true
				}
			}
		}
		for i := 0; i < st.NumFields(); i++ {
			f := st.Field(i)
			if !upHas[f.Name()] {
				continue // the fork's own fields (laxness, field name): C10.R1 / R2 and the diagnostics entries
			}
			if P.k == 's' && i < len(P.agg) {
				if txt, ok := xConstText(P.agg[i], f.Type()); ok {
					res.fields[f] = "=" + txt
					continue
				}
			}
			// cells of this field
			var bits uint64
			for name, idx := range xf.cells {
				if name == "P."+f.Name() || strings.HasPrefix(name, "P."+f.Name()+"?") || strings.HasPrefix(name, "P."+f.Name()+".") {
					bits |= 1 << idx
				}
			}
			bad := ""
			var badAt ssa.Instruction
			for _, m := range pass {
				if m.used&bits != 0 {
					bad = "on a path on which " + f.Name() + " was consulted (" + xDescribe(m.cons, tuples, func(k string) bool { return strings.HasPrefix(k, "P.") || relevant(k) }) + ") the element is accepted or stored"
					badAt = m.at
					break
				}
			}
			if bad == "" {
				res.fields[f] = "?"
				r.Pass("element:params:"+f.Name(), r.Where(s.call), fmt.Sprintf("the elements are decoded with whatever %s the slice field has (encoding/asn1 passes the zero value): every path of %s on which a value derived from it decides a branch or leaves the executed code ends in a rejection without a store into the target — the field does not matter", f.Name(), FuncName(s.dec)))
			} else {
				res.fields[f] = "!"
				r.Fail("element:params:"+f.Name(), r.Where(badAt), fmt.Sprintf("the elements of a SEQUENCE OF are decoded with the %s of the slice field (encoding/asn1 passes the zero value), and it matters: %s", f.Name(), bad))
			}
		}
	}
	return res
}

func c10ClassifierName(cons map[string]xCons) string {
	for k := range cons {
		if strings.HasPrefix(k, "τ:") {
			return strings.TrimPrefix(k, "τ:")
		}
	}
	return ""
}

// c10ClassifierRejectsInterfaces: the type classification (the constant-result function the slice
// decoder consults) yields, for a type of kind Interface, only classes with which the slice decoder
// never reaches the element decoding (tDec: the classes with which it does).
func c10ClassifierRejectsInterfaces(r *Run, m *c10Memo, holder *ssa.Function, pkg *types.Package, tuples *[]string, tDec map[int64]bool, ifaceKind int64) (bool, string) {
	var cls *ssa.Function
	x := newXExec(r, pkg, tuples)
	eachInstr(holder, func(in ssa.Instruction) {
		if c, ok := in.(*ssa.Call); ok {
			if cal := c.Common().StaticCallee(); cal != nil && cal.Pkg != nil && cal.Pkg.Pkg == pkg && len(cal.Blocks) > 0 && x.constTuples(cal) != nil {
				cls = cal
			}
		}
	})
	if cls == nil || len(cls.Params) != 1 {
		return false, "undecided: the slice decoder consults no type classification with constant results"
	}
	typeVars := c10NonIfaceTypeVars(r, m)
	// execute the classification with Kind() = Interface; comparisons with the type variables are false
	kindCell := ""
	eachInstr(cls, func(in ssa.Instruction) {
		if c, ok := in.(*ssa.Call); ok && c.Common().IsInvoke() && c.Common().Method.Name() == "Kind" && c.Common().Value == ssa.Value(cls.Params[0]) {
			kindCell = r.D.D(c)
		}
	})
	if kindCell == "" {
		return false, "undecided: the type classification does not ask for the Kind of its argument"
	}
	x.ifaceEq = func(in *ssa.BinOp) (bool, bool) {
		for _, o := range []ssa.Value{in.X, in.Y} {
			if ld, ok := o.(*ssa.UnOp); ok && ld.Op == token.MUL {
				if g, ok := ld.X.(*ssa.Global); ok && typeVars[g] {
					return false, true
				}
			}
		}
		return false, false
	}
	g := &xGlobal{cons: map[string]xCons{kindCell: {fixed: true, v: ifaceKind}}}
	outs := x.run(cls, []xVal{x.unknown(cls.Params[0].Type(), "", 0)}, g)
	if x.over || len(outs) == 0 {
		return false, "undecided: the type classification could not be executed"
	}
	var got []string
	for _, o := range outs {
		if o.pan {
			continue
		}
		id := x.intern(xBase(cls) + "(" + xTupleKey(o.ret) + ")")
		got = append(got, (*tuples)[id])
		if tDec[id] {
			return false, fmt.Sprintf("for a type of kind Interface %s can yield %s, with which %s goes on to decode elements: the element decoder's branch for interface{} targets (before its header test) can be taken for elements", FuncName(cls), (*tuples)[id], FuncName(holder))
		}
	}
	sort.Strings(got)
	return true, fmt.Sprintf("for a type of kind Interface %s yields only %s (its comparisons with the package's type variables are false: each is reflect.TypeOf of a value of a non-interface type, written by its declaration only), and %s reaches the element decoding with none of these: the branch of the element decoder for interface{} targets is not taken for elements", FuncName(cls), strings.Join(got, " / "), FuncName(holder))
}
