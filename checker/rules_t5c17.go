package main

// Round 5 additions for C17 (twin of seed C17-g: the same tidy-up of submission/races.go with
// and without the slip must be told apart).
//
//   C17.R3  groupComplete ⇔ needs ≤ 0 is decided on the VERDICT the function gives for
//           representative values of the group's needs (−1, 0, 1, 2), whatever the lookup looks
//           like (comma-ok with an early return, plain lookup whose zero value is 'needs
//           nothing', a branch instead of a returned comparison, `< 1`, `!(> 0)`).
//   C17.R3  setResult:no-sct-no-decrement says what is wrong when sct is never tested: a
//           failed request is booked like an SCT.
//   C17.R3  setResult:counted-sct-is-kept — on every path of setResult on which the needs of a
//           group that may still be waiting are decremented, the entry of this log in results
//           ends up carrying the SCT (or is tested to carry one already).  This is what the
//           former floor "4 writers of results entries" protected by counting literals: each
//           branch that books the SCT against a group also keeps it.  The count moved when
//           identical literals were merged; the fact does not.
//   C17.R1  the enumeration "every writer of a results entry stores a non-nil entry" is tied to
//           the writers the other rules know by role (request()'s marker, setResult's SCT
//           store) instead of to a number of syntactic sites.

import (
	"fmt"
	"go/token"
	"go/types"
	"sort"
	"strings"

	"golang.org/x/tools/go/ssa"
)

// ---- groupComplete ⇔ needs ≤ 0 -----------------------------------------------------

// c17OrdVsConst: ci orders the term matching xGlob against an integer constant — returns the
// constant and whether the term is operand A.
func c17OrdVsConst(ci *CondInfo, isX func(string) bool) (c int64, xIsA bool, ok bool) {
	if ci == nil || ci.Kind != "ord" {
		return 0, false, false
	}
	if isX(ci.A) {
		if v, err := parseInt(ci.B); err == nil {
			return v, true, true
		}
	}
	if isX(ci.B) {
		if v, err := parseInt(ci.A); err == nil {
			return v, false, true
		}
	}
	return 0, false, false
}

// c17Rel: the value of ord(A, B) when the term is n and the constant c.
func c17Rel(n, c int64, xIsA bool) string {
	a, b := n, c
	if !xIsA {
		a, b = c, n
	}
	switch {
	case a < b:
		return "<"
	case a > b:
		return ">"
	}
	return "="
}

// c17EvalUnder evaluates a boolean value under σ on a walk: a φ merges only the edges the walk
// takes (the φ of `!known || x` is x when known is fixed).
func c17EvalUnder(r *Run, v ssa.Value, s Sigma, reach *Reach, depth int) Tri {
	if depth > 8 {
		return U
	}
	switch x := v.(type) {
	case *ssa.Phi:
		res, n := U, 0
		for i, e := range x.Edges {
			if !reach.Edges[[2]int{x.Block().Preds[i].Index, x.Block().Index}] {
				continue
			}
			t := c17EvalUnder(r, e, s, reach, depth+1)
			if t == U || n > 0 && t != res {
				return U
			}
			res = t
			n++
		}
		return res
	case *ssa.UnOp:
		if x.Op == token.NOT {
			return c17EvalUnder(r, x.X, s, reach, depth+1).Not()
		}
	}
	return r.D.Eval(v, s, nil, -1)
}

// c17GroupCompleteVerdict: for a group the state knows, groupComplete() answers true exactly
// when its needs are ≤ 0.  The function is evaluated for needs = −1, 0, 1, 2: every ordering
// atom between the looked-up needs and an integer constant — in a branch condition or in the
// returned expression itself — is fixed accordingly, the comma-ok flag of the lookup (when there
// is one) is fixed to 'known', and every value the function can then return must be the
// expected constant.
func c17GroupCompleteVerdict(r *Run, fn *ssa.Function) {
	const x = "p0.groupNeeds[p1]"
	isX := func(s string) bool { return s == x || s == x+"#0" }
	// result values: what return statements store to the spilled result (the function defers
	// its unlock), and results returned directly
	type resv struct {
		v  ssa.Value
		in ssa.Instruction
	}
	var results []resv
	eachInstr(fn, func(in ssa.Instruction) {
		switch y := in.(type) {
		case *ssa.Store:
			if glob("new:bool#*", r.D.D(y.Addr)) {
				results = append(results, resv{y.Val, in})
			}
		case *ssa.Return:
			if y.Block().Comment == "recover" || len(y.Results) != 1 {
				return
			}
			if u, ok := y.Results[0].(*ssa.UnOp); ok && u.Op == token.MUL {
				if _, isAlloc := u.X.(*ssa.Alloc); isAlloc {
					return // the spilled result: its stores are looked at
				}
			}
			results = append(results, resv{y.Results[0], in})
		}
	})
	if len(results) == 0 {
		r.Fail("groupComplete:needs<=0", r.FnPos(fn), "undecided: no result value found")
		return
	}
	atoms := r.D.AtomsOf(fn)
	var visit func(v ssa.Value, depth int)
	visit = func(v ssa.Value, depth int) {
		if _, isC := isBoolConst(v); isC || depth > 6 {
			return
		}
		switch y := v.(type) {
		case *ssa.Phi:
			for _, e := range y.Edges {
				visit(e, depth+1)
			}
			return
		case *ssa.UnOp:
			if y.Op == token.NOT {
				visit(y.X, depth+1)
				return
			}
		}
		ci := r.D.Classify(v)
		atoms[ci.Key] = ci
	}
	for _, rv := range results {
		visit(rv.v, 0)
	}
	nOrd := 0
	for _, ci := range atoms {
		if _, _, ok := c17OrdVsConst(ci, isX); ok {
			nOrd++
		}
	}
	if nOrd == 0 {
		r.Fail("groupComplete:needs<=0", r.FnPos(fn), "undecided: nothing in groupComplete compares "+x+" with a constant")
		return
	}
	ok, detail := true, []string{}
	for _, n := range []int64{-1, 0, 1, 2} {
		s := Sigma{}
		for k, ci := range atoms {
			if ci.Kind == "bool" && k == x+"#1" {
				s[k] = "T" // a group the state knows
			}
			if c, xIsA, isOrd := c17OrdVsConst(ci, isX); isOrd {
				s[k] = c17Rel(n, c, xIsA)
			}
		}
		reach := r.D.Walk(fn, s, nil, nil)
		r.Valuations++
		want := F
		if n <= 0 {
			want = T
		}
		got := map[string]bool{}
		for _, rv := range results {
			if !reach.Has(rv.in) {
				continue
			}
			switch c17EvalUnder(r, rv.v, s, reach, 0) {
			case T:
				got["true"] = true
			case F:
				got["false"] = true
			default:
				got["?"+clipStr(r.D.DUnder(rv.v, reach), 60)] = true
			}
		}
		vals := keysOf(got)
		wantS := map[Tri]string{T: "true", F: "false"}[want]
		if len(vals) != 1 || vals[0] != wantS {
			ok = false
		}
		detail = append(detail, fmt.Sprintf("needs=%d ⇒ %v", n, vals))
	}
	r.Check("groupComplete:needs<=0", ok, r.FnPos(fn), "known group: "+strings.Join(detail, ", ")+" (complete ⇔ needs ≤ 0)")
}

// ---- setResult: an SCT that is counted is kept ------------------------------------------

// c17SctParam: the parameter of setResult that carries the SCT (found by type); -1 if there
// is not exactly one.
func c17SctParam(fn *ssa.Function) int {
	return paramOfType(fn, func(t types.Type) bool {
		return strings.HasSuffix(types.TypeString(t, nil), ".SignedCertificateTimestamp") && strings.HasPrefix(types.TypeString(t, nil), "*")
	})
}

// c17AllocOf: the allocation a pointer value is (directly).
func c17AllocOf(v ssa.Value) *ssa.Alloc {
	a, _ := v.(*ssa.Alloc)
	return a
}

// c17SCTKeepers: the map updates of fn that put into p0.results an entry whose SCT field is
// given the SCT parameter somewhere in fn (the writers that keep an SCT).
func c17SCTKeepers(r *Run, fn *ssa.Function) []ssa.Instruction {
	si := c17SctParam(fn)
	if si < 0 {
		return nil
	}
	carries := map[*ssa.Alloc]bool{}
	eachInstr(fn, func(in ssa.Instruction) {
		if st, ok := in.(*ssa.Store); ok && st.Val == ssa.Value(fn.Params[si]) {
			if fa, ok := st.Addr.(*ssa.FieldAddr); ok {
				if a := c17AllocOf(fa.X); a != nil {
					carries[a] = true
				}
			}
		}
	})
	var out []ssa.Instruction
	eachInstr(fn, func(in ssa.Instruction) {
		if mu, ok := in.(*ssa.MapUpdate); ok && r.D.D(mu.Map) == "p0.results" && carries[c17AllocOf(mu.Value)] {
			out = append(out, in)
		}
	})
	return out
}

type c17PathState struct {
	env     map[*ssa.Phi]ssa.Value
	facts   map[string]map[string]bool // atom key → values still possible on this path
	sctIn   map[*ssa.Alloc]bool        // entry.sct ← the SCT parameter (last store wins)
	cur     *ssa.Alloc                 // last entry put into results[log] on this path
	wrote   bool                       // results[log] was written on this path
	pending []*ssa.MapUpdate           // decrements of a group that may still have been waiting
	edges   map[[2]int]int
	trail   []int
}

func (p *c17PathState) clone() *c17PathState {
	q := &c17PathState{env: map[*ssa.Phi]ssa.Value{}, facts: map[string]map[string]bool{}, sctIn: map[*ssa.Alloc]bool{},
		cur: p.cur, wrote: p.wrote, edges: map[[2]int]int{}}
	for k, v := range p.env {
		q.env[k] = v
	}
	for k, v := range p.facts {
		m := map[string]bool{}
		for a, b := range v {
			m[a] = b
		}
		q.facts[k] = m
	}
	for k, v := range p.sctIn {
		q.sctIn[k] = v
	}
	for k, v := range p.edges {
		q.edges[k] = v
	}
	q.pending = append([]*ssa.MapUpdate{}, p.pending...)
	q.trail = append([]int{}, p.trail...)
	return q
}

// c17CountedIsKept (C17.R3): path enumeration over setResult (each CFG edge at most twice per
// path; boolean flags held in locals are followed through their φ-nodes; what a branch taken
// says about an atom is remembered until the term it speaks about changes).  On every path on
// which the SCT parameter is not known to be nil and group needs are decremented for a group
// that may still have been waiting (needs > 0 not excluded by a branch taken), the entry of
// this log in results must at the end carry the SCT: the last results[log] ← entry on the path
// has entry.sct ← sct, or — when the path does not write the entry — a branch taken has found
// results[log].sct non-nil.
func c17CountedIsKept(r *Run, fn *ssa.Function) {
	si := c17SctParam(fn)
	if si < 0 {
		r.Fail("setResult:counted-sct-is-kept", r.FnPos(fn), "undecided: setResult has no single *SignedCertificateTimestamp parameter")
		return
	}
	pSct := fmt.Sprintf("p%d", si)
	sctParam := ssa.Value(fn.Params[si])
	const pLog = "p1"
	// instructions that matter, and the blocks from which one of them can still be reached
	relevant := func(in ssa.Instruction) bool {
		switch y := in.(type) {
		case *ssa.MapUpdate:
			m := r.D.D(y.Map)
			return m == "p0.results" || m == "p0.groupNeeds"
		case *ssa.Store:
			if fa, ok := y.Addr.(*ssa.FieldAddr); ok && c17AllocOf(fa.X) != nil {
				return types.Identical(y.Val.Type(), sctParam.Type())
			}
		}
		return false
	}
	live := map[*ssa.BasicBlock]bool{}
	var decs []*ssa.MapUpdate
	for _, b := range fn.Blocks {
		for _, in := range b.Instrs {
			if relevant(in) {
				live[b] = true
				if mu, ok := in.(*ssa.MapUpdate); ok && r.D.D(mu.Map) == "p0.groupNeeds" {
					decs = append(decs, mu)
				}
			}
		}
	}
	for changed := true; changed; {
		changed = false
		for _, b := range fn.Blocks {
			if live[b] {
				continue
			}
			for _, s := range b.Succs {
				if live[s] {
					live[b], changed = true, true
					break
				}
			}
		}
	}
	if len(decs) == 0 {
		r.Fail("setResult:counted-sct-is-kept", r.FnPos(fn), "undecided: setResult does not decrement group needs itself")
		return
	}

	bad := map[*ssa.MapUpdate]string{}
	paths, aborted := 0, false
	resolve := func(p *c17PathState, v ssa.Value) ssa.Value {
		for i := 0; i < 8; i++ {
			ph, ok := v.(*ssa.Phi)
			if !ok {
				break
			}
			w, ok := p.env[ph]
			if !ok || w == v {
				break
			}
			v = w
		}
		return v
	}
	forget := func(p *c17PathState, mention ...string) {
		for k := range p.facts {
			for _, m := range mention {
				if strings.Contains(k, m) {
					delete(p.facts, k)
					break
				}
			}
		}
	}
	// mayWait: can the needs term still be > 0 given what the path knows?
	known := map[string]*CondInfo{}
	mayWait := func(p *c17PathState, term string) bool {
		isX := func(s string) bool { return s == term }
		for k, poss := range p.facts {
			c, xIsA, ok := c17OrdVsConst(known[k], isX)
			if !ok {
				continue
			}
			can := false
			for _, n := range []int64{1, 2, c - 1, c, c + 1} {
				if n > 0 && poss[c17Rel(n, c, xIsA)] {
					can = true
				}
			}
			if !can {
				return false
			}
		}
		return true
	}
	finish := func(p *c17PathState) {
		paths++
		if len(p.pending) == 0 {
			return
		}
		if poss, ok := p.facts["nil?"+pSct]; ok && !poss["non"] {
			return // a failed request: setResult:no-sct-no-decrement speaks about this path
		}
		kept := false
		if p.wrote {
			kept = p.cur != nil && p.sctIn[p.cur]
		} else if poss, ok := p.facts["nil?p0.results["+pLog+"].sct"]; ok && !poss["nil"] {
			kept = true
		}
		if kept {
			return
		}
		var fs []string
		for k, poss := range p.facts {
			fs = append(fs, k+"∈"+strings.Join(keysOf(poss), ""))
		}
		sort.Strings(fs)
		for _, d := range p.pending {
			if _, dup := bad[d]; !dup {
				bad[d] = fmt.Sprintf("blocks %v, knowing {%s}", p.trail, clipStr(strings.Join(fs, ", "), 300))
			}
		}
	}
	var run func(p *c17PathState, b *ssa.BasicBlock, pred int)
	run = func(p *c17PathState, b *ssa.BasicBlock, pred int) {
		if aborted {
			return
		}
		if paths > 200000 {
			aborted = true
			return
		}
		if !live[b] {
			finish(p)
			return
		}
		// φ-nodes: parallel assignment from the edge taken; a range header, or a block entered
		// over a back edge, starts a new iteration: what was learnt about per-iteration terms is void
		newIter := pred >= 0 && pred < len(b.Preds) && b.Dominates(b.Preds[pred]) // entered over a back edge
		p.trail = append(p.trail, b.Index)
		upd := map[*ssa.Phi]ssa.Value{}
		for _, in := range b.Instrs {
			switch y := in.(type) {
			case *ssa.Phi:
				if pred >= 0 && pred < len(y.Edges) {
					upd[y] = resolve(p, y.Edges[pred])
				}
			case *ssa.Next:
				newIter = true
			}
		}
		for k, v := range upd {
			p.env[k] = v
		}
		if newIter {
			forget(p, "range", "phi(", "φ", "it@")
		}
		for _, in := range b.Instrs {
			switch y := in.(type) {
			case *ssa.Store:
				if fa, ok := y.Addr.(*ssa.FieldAddr); ok && types.Identical(y.Val.Type(), sctParam.Type()) {
					if a := c17AllocOf(fa.X); a != nil {
						p.sctIn[a] = resolve(p, y.Val) == sctParam
					}
				}
			case *ssa.MapUpdate:
				switch r.D.D(y.Map) {
				case "p0.results":
					if r.D.D(y.Key) == pLog {
						p.wrote = true
						p.cur = c17AllocOf(resolve(p, y.Value))
					}
					forget(p, "p0.results[")
				case "p0.groupNeeds":
					term := "p0.groupNeeds[" + r.D.D(y.Key) + "]"
					if mayWait(p, term) {
						p.pending = append(p.pending, y)
					}
					forget(p, term)
				}
			case *ssa.Return:
				finish(p)
				return
			case *ssa.If:
				cond := resolve(p, y.Cond)
				neg := false
				for {
					u, ok := cond.(*ssa.UnOp)
					if !ok || u.Op != token.NOT {
						break
					}
					cond, neg = resolve(p, u.X), !neg
				}
				take := func(q *c17PathState, k int) {
					sb := b.Succs[k]
					e := [2]int{b.Index, sb.Index}
					if q.edges[e] >= 2 {
						return
					}
					q.edges[e]++
					pi := -1
					for i, pb := range sb.Preds {
						if pb == b {
							pi = i
							break
						}
					}
					run(q, sb, pi)
				}
				if bv, ok := isBoolConst(cond); ok {
					if bv != neg {
						take(p, 0)
					} else {
						take(p, 1)
					}
					return
				}
				if _, isPhi := cond.(*ssa.Phi); isPhi {
					// a merged flag the path does not determine: both ways, nothing learnt
					take(p.clone(), 0)
					take(p, 1)
					return
				}
				ci := r.D.Classify(cond)
				if neg {
					ci = invert(ci)
				}
				known[ci.Key] = ci
				poss := p.facts[ci.Key]
				if poss == nil {
					poss = map[string]bool{}
					for _, d := range feasibleDomain(ci) {
						poss[d] = true
					}
				}
				yes, no := map[string]bool{}, map[string]bool{}
				for d := range poss {
					if ci.True[d] {
						yes[d] = true
					} else {
						no[d] = true
					}
				}
				if len(yes) > 0 {
					q := p
					if len(no) > 0 {
						q = p.clone()
					}
					q.facts[ci.Key] = yes
					take(q, 0)
				}
				if len(no) > 0 {
					p.facts[ci.Key] = no
					take(p, 1)
				}
				return
			}
		}
		// no If / Return: a jump (or a panic: the path ends)
		if len(b.Succs) == 0 {
			finish(p)
			return
		}
		for i, sb := range b.Succs {
			q := p
			if i < len(b.Succs)-1 {
				q = p.clone()
			}
			e := [2]int{b.Index, sb.Index}
			if q.edges[e] >= 2 {
				continue
			}
			q.edges[e]++
			pi := -1
			for j, pb := range sb.Preds {
				if pb == b {
					pi = j
					break
				}
			}
			run(q, sb, pi)
		}
	}
	run(&c17PathState{env: map[*ssa.Phi]ssa.Value{}, facts: map[string]map[string]bool{}, sctIn: map[*ssa.Alloc]bool{}, edges: map[[2]int]int{}}, fn.Blocks[0], -1)
	r.Valuations += paths
	if aborted {
		r.Fail("setResult:counted-sct-is-kept", r.FnPos(fn), "undecided: too many paths through setResult")
		return
	}
	for _, d := range decs {
		why, isBad := bad[d]
		key := "setResult:counted-sct-is-kept[" + r.D.D(d.Key) + "]"
		if isBad {
			r.Fail(key, r.Where(d), "the SCT of this log is booked against group "+r.D.D(d.Key)+" that may still be waiting (needs > 0), but on a path the entry results[logURL] does not end up carrying it: the group can reach 'complete' with fewer SCTs in the returned set than it requires ("+why+")")
		} else {
			r.Pass(key, r.Where(d), fmt.Sprintf("whenever the needs of group %s are decremented while it may still be waiting, results[logURL] ends up carrying the SCT (%d paths)", r.D.D(d.Key), paths))
		}
	}
}

// c17NoSctNoDecrement (C17.R3): a request that failed (sct == nil) is not booked against any
// group.
func c17NoSctNoDecrement(r *Run, fn *ssa.Function) {
	var decs []ssa.Instruction
	eachInstr(fn, func(in ssa.Instruction) {
		if mu, ok := in.(*ssa.MapUpdate); ok && r.D.D(mu.Map) == "p0.groupNeeds" {
			decs = append(decs, in)
		}
	})
	pSct := "p2"
	if si := c17SctParam(fn); si >= 0 {
		pSct = fmt.Sprintf("p%d", si)
	}
	tested := false
	for k := range r.D.AtomsOf(fn) {
		if k == "nil?"+pSct {
			tested = true
		}
	}
	if len(decs) > 0 && !tested {
		r.Fail("setResult:no-sct-no-decrement", r.Where(decs[0]), fmt.Sprintf("a FAILED request is booked like an SCT: setResult never tests its sct parameter (%s) for nil, so the decrement of group needs here (and everything after it: completion of groups, cancellation of requests no group seems to wait for) also runs when the log answered with an error — groups reach 'complete' without an SCT", pSct))
		return
	}
	r.MustGuard(fn, "setResult:no-sct-no-decrement", "nil?"+pSct, "nil", decs, "decrement of group needs")
}

// c17ResultsWriters (C17.R1): the enumeration of writers of results entries (by field, over the
// whole module) must have seen the writers the other rules know by their role — otherwise
// "every writer stores a non-nil entry" was decided over the wrong set.  How many literals the
// code uses for these writers is a matter of style.
func c17ResultsWriters(r *Run, seen map[ssa.Instruction]bool, marker ssa.Instruction) {
	r.Check("results-writers:request-marker-enumerated", marker != nil && seen[marker], "-",
		"the entry request() records to mark a log as asked is among the writers of results entries examined")
	fn := r.P.Func("(*submission.safeSubmissionState).setResult")
	if fn == nil {
		r.Fail("results-writers:sct-store-enumerated", "-", "undecided: no setResult")
		return
	}
	keep := c17SCTKeepers(r, fn)
	all := len(keep) > 0
	for _, k := range keep {
		if !seen[k] {
			all = false
		}
	}
	r.Check("results-writers:sct-store-enumerated", all, r.FnPos(fn),
		fmt.Sprintf("%d writers of setResult put an entry carrying the SCT into results; all are among the writers examined", len(keep)))
}
