package main

import (
	"fmt"
	"go/ast"
	"go/token"
	"go/types"
	"os"
	"path/filepath"
	"regexp"
	"sort"
	"strings"

	"golang.org/x/tools/go/packages"
	"golang.org/x/tools/go/ssa"
	"golang.org/x/tools/go/ssa/ssautil"
)

var errFileRe = regexp.MustCompile(`(/[^\s:]+\.go):\d+`)

// ModPath is the module under analysis.
const ModPath = "github.com/google/certificate-transparency-go"

// Prog is the loaded, type-checked and SSA-built program.
type Prog struct {
	Root     string
	Fset     *token.FileSet
	Pkgs     []*packages.Package          // module packages only (roots of the load)
	ByPath   map[string]*packages.Package // all packages incl. deps
	SSA      *ssa.Program
	AllFuncs map[*ssa.Function]bool
	byName   map[string]*ssa.Function // short qualified name -> function (module functions only)
	ModFuncs []*ssa.Function          // all functions (incl. anonymous) defined in the module, sorted by name
	decls    map[*ssa.Function]*ast.FuncDecl
	Inline   *InlineNote     // what the source normaliser did (nil: nothing to do)
	Overlaid map[string]bool // files analysed in normalised form (positions refer to that form)
}

func repoRoot() string {
	if r := os.Getenv("CTVERIF_REPO"); r != "" {
		return r
	}
	return "/repo"
}

// Load loads ./... of the repository with full syntax and builds SSA.
func Load(root string) (*Prog, error) {
	env := append(os.Environ(), "GOFLAGS=-mod=mod", "GOPROXY=off", "GOSUMDB=off", "GOTOOLCHAIN=local", "GOWORK=off")
	if extra := os.Getenv("CTVERIF_LOADENV"); extra != "" {
		env = append(env, strings.Fields(extra)...)
	}
	overlay, note := buildInlineOverlay(root, env)
	p, err := loadWith(root, env, overlay)
	// the normalised source must type-check.  Everything the normaliser changes is unexported, so packages are
	// independent: the normalised files of a package that does not type-check are dropped, the others kept
	for try := 0; try < 3 && err != nil && len(overlay) > 0; try++ {
		bad := map[string]bool{}
		for _, m := range errFileRe.FindAllStringSubmatch(err.Error(), -1) {
			bad[filepath.Dir(m[1])] = true
		}
		dropped := 0
		for f := range overlay {
			if bad[filepath.Dir(f)] {
				delete(overlay, f)
				dropped++
			}
		}
		if dropped == 0 {
			break
		}
		var dirs []string
		for d := range bad {
			if r, e := filepath.Rel(root, d); e == nil {
				dirs = append(dirs, r)
			}
		}
		sort.Strings(dirs)
		note.Skipped = append(note.Skipped, "normalised source of "+strings.Join(dirs, ", ")+" rejected ("+firstLines(err.Error(), 3)+"): analysed as it is")
		if len(overlay) == 0 {
			overlay = nil
		}
		p, err = loadWith(root, env, overlay)
	}
	if err != nil && overlay != nil {
		// the normalised source must type-check; otherwise analyse the tree as it is
		note.Skipped = append(note.Skipped, "normalised source rejected ("+firstLines(err.Error(), 3)+"): helpers left alone")
		note.Inlined, note.Removed = nil, nil
		overlay = nil
		p, err = loadWith(root, env, nil)
	}
	if p != nil {
		p.Inline = note
		p.Overlaid = map[string]bool{}
		for f := range overlay {
			p.Overlaid[f] = true
		}
	}
	return p, err
}

func loadWith(root string, env []string, overlay map[string][]byte) (*Prog, error) {
	cfg := &packages.Config{
		Mode:    packages.LoadAllSyntax,
		Dir:     root,
		Env:     env,
		Tests:   false,
		Overlay: overlay,
	}
	pkgs, err := packages.Load(cfg, "./...")
	if err != nil {
		return nil, fmt.Errorf("load: %v", err)
	}
	if len(pkgs) == 0 {
		return nil, fmt.Errorf("load: zero packages under %s", root)
	}
	p := &Prog{Root: root, ByPath: map[string]*packages.Package{}, byName: map[string]*ssa.Function{}, decls: map[*ssa.Function]*ast.FuncDecl{}}
	var errs []string
	packages.Visit(pkgs, nil, func(pk *packages.Package) {
		p.ByPath[pk.PkgPath] = pk
		if strings.HasPrefix(pk.PkgPath, ModPath) {
			for _, e := range pk.Errors {
				errs = append(errs, e.Error())
			}
		}
	})
	if len(errs) > 0 {
		sort.Strings(errs)
		if len(errs) > 10 {
			errs = errs[:10]
		}
		return nil, fmt.Errorf("load: type errors in module packages:\n  %s", strings.Join(errs, "\n  "))
	}
	for _, pk := range pkgs {
		if strings.HasPrefix(pk.PkgPath, ModPath) {
			p.Pkgs = append(p.Pkgs, pk)
		}
	}
	if len(p.Pkgs) < 40 {
		return nil, fmt.Errorf("load: only %d module packages loaded (expected >= 40)", len(p.Pkgs))
	}
	p.Fset = pkgs[0].Fset
	prog, _ := ssautil.AllPackages(pkgs, ssa.InstantiateGenerics)
	prog.Build()
	p.SSA = prog
	p.AllFuncs = ssautil.AllFunctions(prog)
	for fn := range p.AllFuncs {
		if fn.Pkg == nil || fn.Pkg.Pkg == nil || !strings.HasPrefix(fn.Pkg.Pkg.Path(), ModPath) {
			// anonymous functions have Pkg set too; instantiations/wrappers may not
			if fn.Parent() == nil {
				continue
			}
		}
		if fn.Synthetic != "" && fn.Parent() == nil {
			continue
		}
		pk := fnPkg(fn)
		if pk == nil || !strings.HasPrefix(pk.Path(), ModPath) {
			continue
		}
		name := FuncName(fn)
		if old, ok := p.byName[name]; ok && old != fn {
			// keep the one with blocks
			if len(old.Blocks) > 0 {
				continue
			}
		}
		p.byName[name] = fn
		p.ModFuncs = append(p.ModFuncs, fn)
		if d, ok := fn.Syntax().(*ast.FuncDecl); ok {
			p.decls[fn] = d
		}
	}
	sort.Slice(p.ModFuncs, func(i, j int) bool { return FuncName(p.ModFuncs[i]) < FuncName(p.ModFuncs[j]) })
	resolveResultVariables(p.ModFuncs) // returns of functions with deferred calls deliver the values stored (ssa_resultvars.go)
	return p, nil
}

func fnPkg(fn *ssa.Function) *types.Package {
	for f := fn; f != nil; f = f.Parent() {
		if f.Pkg != nil {
			return f.Pkg.Pkg
		}
		if o := f.Object(); o != nil && o.Pkg() != nil {
			return o.Pkg()
		}
	}
	return nil
}

// ShortPkg shortens a package path: module packages lose the module prefix
// (the root package becomes "ct"); others are kept in full.
func ShortPkg(path string) string {
	if path == ModPath {
		return "ct"
	}
	if strings.HasPrefix(path, ModPath+"/") {
		return path[len(ModPath)+1:]
	}
	// external package: last path element (skipping a version suffix), unless it
	// would collide with a top-level module package name.
	parts := strings.Split(path, "/")
	last := parts[len(parts)-1]
	if len(parts) > 1 && len(last) >= 2 && last[0] == 'v' && last[1] >= '0' && last[1] <= '9' {
		last = parts[len(parts)-2]
	}
	if modTop[last] {
		return path
	}
	return last
}

// top-level module package directories whose names collide with well-known externals
var modTop = map[string]bool{"asn1": true, "x509": true, "tls": true, "client": true, "ct": true, "pkix": true,
	"util": true, "cache": true, "storage": true, "mysql": true, "http": false, "witness": true, "core": true}

// TypeName renders a type with shortened package paths.
func TypeName(t types.Type) string {
	return types.TypeString(t, func(p *types.Package) string { return ShortPkg(p.Path()) })
}

// FuncName renders the short qualified name of a function:
// "tls.Unmarshal", "(*trillian/ctfe.logInfo).getSTH", "scanner.(*Fetcher).Run$1".
func FuncName(fn *ssa.Function) string {
	if fn == nil {
		return "<nil>"
	}
	if fn.Parent() != nil {
		return FuncName(fn.Parent()) + "$" + strings.TrimPrefix(fn.Name(), fn.Parent().Name()+"$")
	}
	if recv := fn.Signature.Recv(); recv != nil {
		return "(" + TypeName(recv.Type()) + ")." + fn.Name()
	}
	if pk := fnPkg(fn); pk != nil {
		return ShortPkg(pk.Path()) + "." + fn.Name()
	}
	return fn.Name()
}

// Func resolves a function by short qualified name; nil if absent.
func (p *Prog) Func(name string) *ssa.Function { return p.byName[name] }

// Pos renders a position relative to the repo root.
func (p *Prog) Pos(pos token.Pos) string {
	if !pos.IsValid() {
		return "-"
	}
	ps := p.Fset.Position(pos)
	f := strings.TrimPrefix(ps.Filename, p.Root+"/")
	if p.Overlaid[ps.Filename] {
		// line of the normalised source (helpers expanded): see `ctverif inline`
		return fmt.Sprintf("%s:%d(normalised)", f, ps.Line)
	}
	return fmt.Sprintf("%s:%d", f, ps.Line)
}

// InstrPos finds the best position for an instruction (falls back to the function).
func (p *Prog) InstrPos(in ssa.Instruction) string {
	if in == nil {
		return "-"
	}
	if in.Pos().IsValid() {
		return p.Pos(in.Pos())
	}
	for _, op := range in.Operands(nil) {
		if *op != nil && (*op).Pos().IsValid() {
			return p.Pos((*op).Pos()) + "~"
		}
	}
	if in.Parent() != nil {
		return p.Pos(in.Parent().Pos()) + "(fn)"
	}
	return "-"
}

// Pkg returns the loaded package by short path ("tls", "ct", "trillian/ctfe").
func (p *Prog) Pkg(short string) *packages.Package {
	if short == "ct" {
		return p.ByPath[ModPath]
	}
	if pk, ok := p.ByPath[ModPath+"/"+short]; ok {
		return pk
	}
	if pk, ok := p.ByPath[short]; ok {
		return pk
	}
	var hit *packages.Package
	for path, pk := range p.ByPath {
		if !strings.HasPrefix(path, ModPath) && ShortPkg(path) == short {
			if hit != nil && hit.PkgPath < path {
				continue
			}
			hit = pk
		}
	}
	return hit
}

// LookupType finds a named type "pkg.Name" (short pkg path).
func (p *Prog) LookupType(q string) *types.Named {
	i := strings.LastIndex(q, ".")
	if i < 0 {
		return nil
	}
	pk := p.Pkg(q[:i])
	if pk == nil || pk.Types == nil {
		return nil
	}
	o := pk.Types.Scope().Lookup(q[i+1:])
	if o == nil {
		return nil
	}
	n, _ := o.Type().(*types.Named)
	return n
}

// LookupField finds the *types.Var of "pkg.Type.field".
func (p *Prog) LookupField(q string) *types.Var {
	i := strings.LastIndex(q, ".")
	if i < 0 {
		return nil
	}
	n := p.LookupType(q[:i])
	if n == nil {
		return nil
	}
	st, ok := n.Underlying().(*types.Struct)
	if !ok {
		return nil
	}
	for k := 0; k < st.NumFields(); k++ {
		if st.Field(k).Name() == q[i+1:] {
			return st.Field(k)
		}
	}
	return nil
}

// LookupConst returns the constant object "pkg.Name".
func (p *Prog) LookupConst(q string) *types.Const {
	i := strings.LastIndex(q, ".")
	pk := p.Pkg(q[:i])
	if pk == nil || pk.Types == nil {
		return nil
	}
	c, _ := pk.Types.Scope().Lookup(q[i+1:]).(*types.Const)
	return c
}

// Decl returns the AST declaration and the package of a source function.
func (p *Prog) Decl(fn *ssa.Function) (*ast.FuncDecl, *packages.Package) {
	d := p.decls[fn]
	pk := fnPkg(fn)
	if d == nil || pk == nil {
		return nil, nil
	}
	return d, p.ByPath[pk.Path()]
}

// Sizes is the type-size model of the loaded build configuration (word size of
// int/uint follows GOARCH of the load).
func (p *Prog) Sizes() types.Sizes {
	for _, pk := range p.Pkgs {
		if pk.TypesSizes != nil {
			return pk.TypesSizes
		}
	}
	return types.SizesFor("gc", "amd64")
}
