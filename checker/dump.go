package main

import (
	"fmt"

	"golang.org/x/tools/go/ssa"
)

// Dump prints the origin terms of the interesting instructions of fn
// (development aid for writing rule tables).
func Dump(p *Prog, fn *ssa.Function) {
	d := NewDescriber(p)
	fmt.Printf("=== %s  %s\n", FuncName(fn), p.Pos(fn.Pos()))
	for _, b := range fn.Blocks {
		fmt.Printf(" b%d preds=%v succs=%v %s\n", b.Index, idxs(b.Preds), idxs(b.Succs), b.Comment)
		for _, in := range b.Instrs {
			switch in := in.(type) {
			case *ssa.Call:
				fmt.Printf("   call  %s   @%s\n", d.D(in), p.InstrPos(in))
			case *ssa.Go:
				fmt.Printf("   go    %s\n", d.callDesc(&in.Call, 0))
			case *ssa.Defer:
				fmt.Printf("   defer %s\n", d.callDesc(&in.Call, 0))
			case *ssa.Store:
				fmt.Printf("   store %s <- %s   @%s\n", d.D(in.Addr), d.D(in.Val), p.InstrPos(in))
			case *ssa.MapUpdate:
				fmt.Printf("   mapupd %s[%s] <- %s\n", d.D(in.Map), d.D(in.Key), d.D(in.Value))
			case *ssa.Send:
				fmt.Printf("   send %s <- %s\n", d.D(in.Chan), d.D(in.X))
			case *ssa.If:
				fmt.Printf("   if    %s  -> b%d / b%d\n", d.D(in.Cond), b.Succs[0].Index, b.Succs[1].Index)
			case *ssa.Return:
				s := ""
				for _, r := range in.Results {
					s += " [" + d.D(r) + "]"
				}
				fmt.Printf("   ret  %s   @%s\n", s, p.InstrPos(in))
			case *ssa.Panic:
				fmt.Printf("   panic %s\n", d.D(in.X))
			}
		}
	}
	for _, af := range fn.AnonFuncs {
		Dump(p, af)
	}
}

func idxs(bs []*ssa.BasicBlock) []int {
	var r []int
	for _, b := range bs {
		r = append(r, b.Index)
	}
	return r
}
