package main

// Source normaliser, part 2: renames of unexported declarations are undone.
//
// The rule tables name functions, types, struct fields and package variables
// of the confirmed tree.  A consistent rename of an UNEXPORTED identifier is
// invisible to every user of the package, so it is undone in the overlay when
// it can be identified without doubt:
//   - function / method:  confirmed key gone, unknown key with the same receiver
//     type and the same signature present, pairing unique both ways;
//   - type: confirmed unexported type gone, unknown unexported type with the same
//     definition (for structs: the same field types in the same order) present,
//     unique both ways;
//   - struct field: a struct type present in both trees with the same field
//     types position by position; names that differ at a position are put back
//     (unexported names only);
//   - interface method: likewise, position by position with equal signatures;
//   - package-level var / const: same kind, type and initialiser text, unique.
// All renames of one package are applied to one type-checked load, so that an
// interface method and its implementations change together.

import (
	"bytes"
	_ "embed"
	"go/ast"
	"go/format"
	"go/parser"
	"go/token"
	"go/types"
	"os"
	"path/filepath"
	"sort"
	"strings"

	"golang.org/x/tools/go/packages"
)

//go:embed baseline_decls.txt
var baselineDeclsTxt string

type declInfo struct {
	kind   string // "type" | "var" | "const"
	dir    string
	name   string
	def    string   // type: definition text; var/const: "<type>\x00<value>"
	fields []string // struct: "name type" per field (embedded: "•type"); interface: "name sig"
	isIfc  bool
}

var baselineDecls = func() map[string]*declInfo { // key: dir + ":" + name
	m := map[string]*declInfo{}
	for _, l := range strings.Split(baselineDeclsTxt, "\n") {
		if l == "" || strings.HasPrefix(l, "#") {
			continue
		}
		p := strings.Split(l, "\t")
		if len(p) < 5 {
			continue
		}
		d := &declInfo{kind: p[0], dir: p[1], name: p[2], def: p[3]}
		if p[4] != "" {
			d.fields = strings.Split(p[4], ";")
		}
		d.isIfc = len(p) > 5 && p[5] == "ifc"
		m[d.dir+":"+d.name] = d
	}
	return m
}()

func nodeText(n ast.Node) string {
	var b bytes.Buffer
	format.Node(&b, token.NewFileSet(), n)
	return strings.Join(strings.Fields(b.String()), " ")
}

// declsOf lists the package-level type / var / const declarations of a file.
func declsOf(rel string, af *ast.File) []*declInfo {
	var out []*declInfo
	for _, d := range af.Decls {
		gd, ok := d.(*ast.GenDecl)
		if !ok {
			continue
		}
		switch gd.Tok {
		case token.TYPE:
			for _, s := range gd.Specs {
				ts := s.(*ast.TypeSpec)
				if ts.TypeParams != nil {
					continue
				}
				di := &declInfo{kind: "type", dir: rel, name: ts.Name.Name, def: nodeText(ts.Type)}
				switch t := ts.Type.(type) {
				case *ast.StructType:
					for _, f := range t.Fields.List {
						ft := nodeText(f.Type)
						if len(f.Names) == 0 {
							di.fields = append(di.fields, "•"+ft)
						}
						for _, n := range f.Names {
							di.fields = append(di.fields, n.Name+" "+ft)
						}
					}
				case *ast.InterfaceType:
					di.isIfc = true
					for _, f := range t.Methods.List {
						ft := nodeText(f.Type)
						if len(f.Names) == 0 {
							di.fields = append(di.fields, "•"+ft)
						}
						for _, n := range f.Names {
							di.fields = append(di.fields, n.Name+" "+ft)
						}
					}
				}
				out = append(out, di)
			}
		case token.VAR, token.CONST:
			kind := "var"
			if gd.Tok == token.CONST {
				kind = "const"
			}
			for _, s := range gd.Specs {
				vs := s.(*ast.ValueSpec)
				for i, n := range vs.Names {
					if n.Name == "_" {
						continue
					}
					t, v := "", ""
					if vs.Type != nil {
						t = nodeText(vs.Type)
					}
					if len(vs.Values) == len(vs.Names) {
						v = nodeText(vs.Values[i])
					} else if len(vs.Values) == 0 && gd.Tok == token.CONST {
						v = "<iota-continuation>"
					}
					out = append(out, &declInfo{kind: kind, dir: rel, name: n.Name, def: t + "\x00" + v})
				}
			}
		}
	}
	return out
}

func scanDeclsOverlay(root string, overlay map[string][]byte, f func(d *declInfo)) {
	fset := token.NewFileSet()
	filepath.Walk(root, func(path string, fi os.FileInfo, err error) error {
		if err != nil {
			return nil
		}
		name := fi.Name()
		if fi.IsDir() {
			if path != root && (strings.HasPrefix(name, ".") || strings.HasPrefix(name, "_") || name == "testdata" || name == "vendor") {
				return filepath.SkipDir
			}
			return nil
		}
		if !strings.HasSuffix(name, ".go") || strings.HasSuffix(name, "_test.go") {
			return nil
		}
		if scanDirs != nil {
			if r, _ := filepath.Rel(root, filepath.Dir(path)); !scanDirs[filepath.ToSlash(r)] {
				return nil
			}
		}
		var src interface{}
		if b, ok := overlay[path]; ok {
			src = b
		}
		af, perr := parser.ParseFile(fset, path, src, parser.SkipObjectResolution)
		if perr != nil || af == nil {
			return nil
		}
		rel, _ := filepath.Rel(root, filepath.Dir(path))
		for _, d := range declsOf(filepath.ToSlash(rel), af) {
			f(d)
		}
		return nil
	})
}

// writeBaselineDecls prints the declaration baseline of the tree at root.
func writeBaselineDecls(root string) string {
	var lines []string
	scanDeclsOverlay(root, nil, func(d *declInfo) {
		ifc := ""
		if d.isIfc {
			ifc = "ifc"
		}
		lines = append(lines, strings.Join([]string{d.kind, d.dir, d.name, strings.ReplaceAll(d.def, "\t", " "), strings.Join(d.fields, ";"), ifc}, "\t"))
	})
	sort.Strings(lines)
	return "# package-level types, vars and consts of the confirmed tree (ctverif baseline)\n" + strings.Join(lines, "\n") + "\n"
}

// typesOnly: "name type" list → "type" list (the shape of a struct or interface).
func typesOnly(fields []string) string {
	var ts []string
	for _, f := range fields {
		if strings.HasPrefix(f, "•") {
			ts = append(ts, f)
			continue
		}
		_, t, _ := strings.Cut(f, " ")
		ts = append(ts, t)
	}
	return strings.Join(ts, ";")
}

type renamePlan struct {
	what     string // "func" | "type" | "field" | "ifcmethod" | "var" | "const"
	dir      string
	owner    string // receiver / struct / interface type name ("" for package level)
	from, to string
	fromKey  string // funcs: current key
}

// renamesBack plans and applies all renames of unexported declarations.
func renamesBack(root string, env []string, overlay map[string][]byte, note *InlineNote) {
	var plans []renamePlan
	unexp := func(n string) bool { return n != "" && !ast.IsExported(n) }

	// ---- functions and methods
	type fnInfo struct{ key, recv, name, sig, print string }
	presentF := map[string]bool{}
	newF := map[string][]fnInfo{}
	scanFuncsOverlay(root, overlay, func(rel, file string, fd *ast.FuncDecl) {
		k := funcKey(rel, fd)
		presentF[k] = true
		if !baselineFuncs[k] && unexp(fd.Name.Name) && fd.Body != nil {
			recv := strings.TrimSuffix(strings.SplitN(k, ":", 2)[1], "."+fd.Name.Name)
			newF[rel] = append(newF[rel], fnInfo{k, recv, fd.Name.Name, sigText(fd), bodyPrint(fd)})
		}
	})
	// ---- types, vars, consts
	cur := map[string]*declInfo{}
	scanDeclsOverlay(root, overlay, func(d *declInfo) { cur[d.dir+":"+d.name] = d })
	newD := map[string][]*declInfo{}
	for k, d := range cur {
		if baselineDecls[k] == nil && unexp(d.name) {
			newD[d.dir] = append(newD[d.dir], d)
		}
	}
	missD := map[string][]*declInfo{}
	for k, d := range baselineDecls {
		if scanDirs != nil && !scanDirs[d.dir] {
			continue
		}
		if cur[k] == nil && unexp(d.name) {
			missD[d.dir] = append(missD[d.dir], d)
		}
	}
	shape := func(d *declInfo) string {
		if d.kind == "type" && len(d.fields) > 0 {
			return d.kind + "|" + typesOnly(d.fields)
		}
		return d.kind + "|" + d.def
	}
	typeBack := map[string]string{} // dir:newName → confirmed name (used to translate receivers)
	for dir, news := range newD {
		for _, n := range news {
			var cands []*declInfo
			for _, m := range missD[dir] {
				if shape(m) == shape(n) {
					cands = append(cands, m)
				}
			}
			if len(cands) != 1 {
				continue
			}
			back := 0
			for _, n2 := range news {
				if shape(n2) == shape(cands[0]) {
					back++
				}
			}
			if back != 1 {
				continue
			}
			plans = append(plans, renamePlan{what: n.kind, dir: dir, from: n.name, to: cands[0].name})
			if n.kind == "type" {
				typeBack[dir+":"+n.name] = cands[0].name
			}
		}
	}
	// ---- struct fields and interface methods of types present in both trees (or just paired)
	// (a field type that is a NEW unexported named non-struct type reads as its definition)
	canonFields := func(dir string, fields []string) string {
		var ts []string
		for _, t := range strings.Split(typesOnly(fields), ";") {
			if d := cur[dir+":"+t]; d != nil && d.kind == "type" && baselineDecls[dir+":"+t] == nil && unexp(t) && len(d.fields) == 0 && !d.isIfc && !strings.HasPrefix(d.def, "struct") {
				t = d.def
			}
			ts = append(ts, normTypeText(t))
		}
		return strings.Join(ts, ";")
	}
	for k, c := range cur {
		b := baselineDecls[k]
		if b == nil {
			if to, ok := typeBack[k]; ok {
				b = baselineDecls[c.dir+":"+to]
			}
		}
		if b == nil || c.kind != "type" || len(c.fields) == 0 || len(c.fields) != len(b.fields) || canonFields(c.dir, c.fields) != canonFields(c.dir, b.fields) {
			continue
		}
		oldNames := map[string]bool{}
		for _, f := range b.fields {
			n, _, _ := strings.Cut(f, " ")
			oldNames[n] = true
		}
		for i := range c.fields {
			cn, _, _ := strings.Cut(c.fields[i], " ")
			bn, _, _ := strings.Cut(b.fields[i], " ")
			if cn == bn || strings.HasPrefix(c.fields[i], "•") || !unexp(cn) || !unexp(bn) || oldNames[cn] {
				continue
			}
			what := "field"
			if c.isIfc {
				what = "ifcmethod"
			}
			plans = append(plans, renamePlan{what: what, dir: c.dir, owner: c.name, from: cn, to: bn})
		}
	}
	// ---- functions (receivers translated through the type renames)
	missF := map[string][]fnInfo{}
	for k := range baselineFuncs {
		if presentF[k] {
			continue
		}
		dir, rest, _ := strings.Cut(k, ":")
		if scanDirs != nil && !scanDirs[dir] {
			continue
		}
		i := strings.LastIndex(rest, ".")
		if i < 0 || !unexp(rest[i+1:]) {
			continue
		}
		missF[dir] = append(missF[dir], fnInfo{k, rest[:i], rest[i+1:], baselineSigs[k], baselinePrints[k]})
	}
	recvBack := func(dir, recv string) string {
		if to, ok := typeBack[dir+":"+recv]; ok {
			return to
		}
		return recv
	}
	// signatures are compared after translating renamed type names back
	sigBack := func(dir, sig string) string {
		for k, to := range typeBack {
			d, from, _ := strings.Cut(k, ":")
			if d != dir {
				continue
			}
			var sb strings.Builder
			for i := 0; i < len(sig); {
				j := strings.Index(sig[i:], from)
				if j < 0 {
					sb.WriteString(sig[i:])
					break
				}
				j += i
				end := j + len(from)
				isWord := func(c byte) bool {
					return c == '_' || c >= '0' && c <= '9' || c >= 'a' && c <= 'z' || c >= 'A' && c <= 'Z'
				}
				if (j > 0 && (isWord(sig[j-1]) || sig[j-1] == '.')) || (end < len(sig) && isWord(sig[end])) {
					sb.WriteString(sig[i:end])
				} else {
					sb.WriteString(sig[i:j] + to)
				}
				i = end
			}
			sig = sb.String()
		}
		return sig
	}
	for dir, news := range newF {
		for _, n := range news {
			match := func(m, x fnInfo, withPrint bool) bool {
				return m.recv == recvBack(dir, x.recv) && m.sig == sigBack(dir, x.sig) && m.sig != "" && (!withPrint || m.print == x.print)
			}
			var cands []fnInfo
			withPrint := false
			for _, m := range missF[dir] {
				if match(m, n, false) {
					cands = append(cands, m)
				}
			}
			if len(cands) > 1 {
				// several renamed functions share receiver and signature: the bodies decide
				withPrint = true
				var c2 []fnInfo
				for _, m := range cands {
					if match(m, n, true) {
						c2 = append(c2, m)
					}
				}
				cands = c2
			}
			if len(cands) != 1 {
				continue
			}
			back := 0
			for _, n2 := range news {
				if match(cands[0], n2, withPrint) {
					back++
				}
			}
			if back == 1 && n.name != cands[0].name {
				plans = append(plans, renamePlan{what: "func", dir: dir, owner: n.recv, from: n.name, to: cands[0].name, fromKey: n.key})
			}
		}
	}
	// ---- renamed AND re-shaped: a missing confirmed function and an unknown one whose bodies call the same
	// things are the same function under a new name (the signature solver then puts the parameters back).
	// Only the name is decided here; the pairing must be the best one for both, by a margin.
	{
		paired := map[string]bool{}
		for _, p := range plans {
			if p.what == "func" {
				paired[p.fromKey] = true
				paired[p.dir+":"+recvBackOwner(p.owner)+"."+p.to] = true
			}
		}
		set := func(print string) map[string]bool {
			m := map[string]bool{}
			for _, k := range strings.Split(print, ",") {
				if k != "" {
					m[k] = true
				}
			}
			return m
		}
		sim := func(a, b string) float64 {
			sa, sb := set(a), set(b)
			if len(sa) < 2 || len(sb) < 2 {
				return 0
			}
			inter := 0
			for k := range sa {
				if sb[k] {
					inter++
				}
			}
			return float64(inter) / float64(len(sa)+len(sb)-inter)
		}
		for dir, news := range newF {
			// what an unknown function calls includes what the unknown helpers it calls call (they are expanded later)
			byCallee := map[string]string{}
			for _, n := range news {
				if n.recv == "" {
					byCallee[n.name] = n.print
				}
				byCallee["."+n.name] = n.print
			}
			for i := range news {
				full := set(news[i].print)
				for round := 0; round < 3; round++ {
					for k := range full {
						if p, ok := byCallee[k]; ok && k != news[i].name && k != "."+news[i].name {
							delete(full, k)
							for k2 := range set(p) {
								if k2 != k {
									full[k2] = true
								}
							}
						}
					}
				}
				var ks []string
				for k := range full {
					ks = append(ks, k)
				}
				sort.Strings(ks)
				news[i].print = strings.Join(ks, ",")
			}
			best := func(n fnInfo) (fnInfo, float64, float64) {
				var bm fnInfo
				b1, b2 := 0.0, 0.0
				for _, m := range missF[dir] {
					if paired[m.key] || !resultsAgree(resultsOf(m.sig), resultsOf(sigBack(dir, n.sig))) {
						continue
					}
					if s := sim(m.print, n.print); s > b1 {
						bm, b1, b2 = m, s, b1
					} else if s > b2 {
						b2 = s
					}
				}
				return bm, b1, b2
			}
			for _, n := range news {
				if paired[n.key] {
					continue
				}
				m, s1, s2 := best(n)
				if s1 < 0.5 || s1-s2 < 0.15 || m.name == n.name {
					continue
				}
				// the best the other way round, too
				r1, r2 := 0.0, 0.0
				var rn fnInfo
				for _, n2 := range news {
					if paired[n2.key] || !resultsAgree(resultsOf(m.sig), resultsOf(sigBack(dir, n2.sig))) {
						continue
					}
					if s := sim(m.print, n2.print); s > r1 {
						rn, r1, r2 = n2, s, r1
					} else if s > r2 {
						r2 = s
					}
				}
				if rn.key != n.key || r1-r2 < 0.15 {
					continue
				}
				plans = append(plans, renamePlan{what: "func", dir: dir, owner: n.recv, from: n.name, to: m.name, fromKey: n.key})
				paired[n.key], paired[m.key] = true, true
			}
		}
	}
	if len(plans) == 0 {
		return
	}
	dirs := map[string]bool{}
	for _, p := range plans {
		dirs[p.dir] = true
	}
	var pats []string
	for d := range dirs {
		pats = append(pats, "./"+d)
	}
	sort.Strings(pats)
	cfg := &packages.Config{
		Mode: packages.NeedName | packages.NeedFiles | packages.NeedCompiledGoFiles | packages.NeedImports |
			packages.NeedTypes | packages.NeedSyntax | packages.NeedTypesInfo | packages.NeedTypesSizes,
		Dir: root, Env: env, Tests: false, Overlay: overlay,
	}
	pkgs, err := packages.Load(cfg, pats...)
	if err != nil {
		return
	}
	for _, pk := range pkgs {
		if len(pk.Errors) > 0 || pk.TypesInfo == nil || pk.Types == nil {
			continue
		}
		rel, _ := filepath.Rel(root, pkgDir(pk))
		rel = filepath.ToSlash(rel)
		info := pk.TypesInfo
		scope := pk.Types.Scope()
		targets := map[types.Object]string{}
		var done []string
		for _, p := range plans {
			if p.dir != rel {
				continue
			}
			switch p.what {
			case "type", "var", "const":
				o := scope.Lookup(p.from)
				if o == nil || scope.Lookup(p.to) != nil {
					continue
				}
				targets[o] = p.to
				done = append(done, p.what+" "+rel+":"+p.from+" → "+p.to)
			case "field", "ifcmethod":
				tn, _ := scope.Lookup(p.owner).(*types.TypeName)
				if tn == nil {
					continue
				}
				switch u := tn.Type().Underlying().(type) {
				case *types.Struct:
					for i := 0; i < u.NumFields(); i++ {
						if f := u.Field(i); f.Name() == p.from && !f.Embedded() {
							targets[f] = p.to
							done = append(done, "field "+rel+":"+p.owner+"."+p.from+" → "+p.to)
						}
					}
				case *types.Interface:
					for i := 0; i < u.NumExplicitMethods(); i++ {
						if m := u.ExplicitMethod(i); m.Name() == p.from {
							targets[m] = p.to
							done = append(done, "interface method "+rel+":"+p.owner+"."+p.from+" → "+p.to)
						}
					}
				}
			case "func":
				for _, f := range pk.Syntax {
					for _, d := range f.Decls {
						if fd, ok := d.(*ast.FuncDecl); ok && funcKey(rel, fd) == p.fromKey {
							if o := info.Defs[fd.Name]; o != nil {
								if p.owner == "" && scope.Lookup(p.to) != nil {
									continue
								}
								if p.owner != "" {
									if tn, _ := scope.Lookup(p.owner).(*types.TypeName); tn != nil {
										if x, _, _ := types.LookupFieldOrMethod(types.NewPointer(tn.Type()), true, pk.Types, p.to); x != nil {
											continue
										}
									}
								}
								targets[o] = p.to
								done = append(done, "func "+p.fromKey+" → "+p.to)
							}
						}
					}
				}
			}
		}
		if len(targets) == 0 {
			continue
		}
		in := &inliner{pk: pk}
		for _, f := range pk.Syntax {
			if in.fileUnsupported(f) {
				continue
			}
			changed := false
			ast.Inspect(f, func(n ast.Node) bool {
				id, ok := n.(*ast.Ident)
				if !ok {
					return true
				}
				o := info.Uses[id]
				if o == nil {
					o = info.Defs[id]
				}
				if to, ok := targets[o]; ok && o != nil {
					id.Name = to
					changed = true
				}
				return true
			})
			if changed {
				var buf bytes.Buffer
				if err := format.Node(&buf, pk.Fset, f); err == nil {
					overlay[pk.Fset.File(f.Pos()).Name()] = buf.Bytes()
				}
			}
		}
		note.Renamed = append(note.Renamed, done...)
	}
}

func recvBackOwner(o string) string { return o }

// resultsAgree: the same results, or the confirmed function has one more, a trailing error.
func resultsAgree(confirmed, current string) bool {
	confirmed, current = normTypeText(confirmed), normTypeText(current)
	return confirmed == current || (current == "()" && confirmed == "(error)") ||
		(strings.HasSuffix(confirmed, ",error)") && strings.TrimSuffix(confirmed, ",error)")+")" == current)
}
