package main

import (
	"fmt"
	"go/token"
	"go/types"
	"strings"

	"golang.org/x/tools/go/ssa"
)

func init() {
	register("C20", "Decides structural necessary conditions of 'migration mirrors the source entry for entry and refuses inconsistent sources': "+
		"(R1) buildLogLeaf copies LeafInput / ExtraData verbatim, submits under the index it was given, takes the identity hash from the configured function over that index and the raw entry, and nothing after RawLogEntryFromLeaf (in particular not the certificate parse) can fail the leaf; idHashCertData = SHA-256(cert data), idHashLeafIndex = SHA-256(8-byte little-endian index); the identity-function switch binds exactly these and rejects unknown values; the destination must be a PREORDERED_LOG; "+
		"(R2) addSequencedLeaves gives entry i of a batch the index Start+i (same i for entry, index and slot), sends {LogId: tree id, Leaves: the built leaves} and stops before the RPC on a leaf error; "+
		"(R3) the reply switch retries exactly on ResourceExhausted, stops on OK (absent reply ⇒ error) and on every other code, the recorded RPC error is what the caller gets, and the value returned to request a retry is one the pinned backoff.Retry actually retries (decided against backoff.IsRetryable's own code); "+
		"(R4) fetchTail obtains ONE source tree head per pass (from the Fetcher's Prepare, or from the source client itself) and cannot start the fetcher unless getRoot and that request succeeded, the source grew past `begin`, and verifyConsistency(destination size, destination root, that STH) returned nil in this pass — or a verdict remembered on the Controller is hit: every input the verdict depends on (read off verifyConsistency: destination size, root hash, STH size, STH root hash) is compared with the remembered one and a mismatch bars the bypass, the never-filled state is no hit, and the remembered fields are written only by fetchTail after a nil verdict with the verified values; the Fetcher reads the configured source client and fits its range to the verified tree head (it delivered it, or its client is a struct around p0.ctClient whose only own method, GetSTH, answers with the verified STH); it reports, only when Run and the shared context are error-free, the verified tree size or the end of the transferred range (the options' EndIndex, fitted to the verified size iff 0 or beyond it, on every path to the return, unwritten afterwards); the submitters run as goroutines (started by fetchTail or by a function only it calls) on that context and on the channel the fetcher callback feeds, a submitter error cancels that context, and the context's Err() verdict is read only after close(batches) and Wait() on the WaitGroup every submitter is counted in (never deferred: a late submitter failure must still be seen); verifyConsistency returns nil without a proof only for an empty destination or NoConsistencyCheck, otherwise the result of proof.VerifyConsistency(hasher, dest size, sth size, proof(dest size, sth size), dest root, sth root); "+
		"(R5) resume position: continuous ⇒ StartIndex = destination tree size, EndIndex = 0 (clamped to the verified STH by Prepare, C16); begin > StartIndex ⇒ StartIndex = begin; Run threads each pass's result into the next; "+
		"(R6) AddSequencedLeaves, addSequencedLeaves, buildLogLeaf, runSubmitter, verifyConsistency and fetchTail have no other callers. "+
		"(R10) somebody works: the loops that start the submitter goroutines and the fetch-worker goroutines of the Fetcher.Run fetchTail calls are entered at least once for every value of the configuration fields their counts are computed from that the configuration validator (func(*MigrationConfig) error) accepts — the count is followed from the loop's first test back through struct fields (by allocation site), copies, parameters, constructors and defaults to the configuration message and evaluated for sample values containing every constant it is compared with ±1 and the extremes of its type; the fields on the way are written only into structs their writer allocated; a function whose success the validator gates is called, and its error looked at, before the configuration is handed on (a pass with no worker fails nothing, cancels nothing and reports the tail as transferred with no entry copied). "+
		"NOT covered: in-place modification of a remembered STH / root hash, locking of the remembered verdict (fetchTail passes are sequential), that the validated message is the very one the controllers are built from, negative or huge channel sizes, worker counts of other users of scanner.Fetcher (C16), the destination's state after a run, per-leaf statuses in the AddSequencedLeaves reply, restarts and mastership histories, back-off timing, fetcher cursor discipline (C16), behaviour of the source log and of proof.VerifyConsistency.",
		runC20)
}

const c20core = "trillian/migrillian/core."
const c20ctl = "(*trillian/migrillian/core.Controller)."
const c20plc = "(*trillian/migrillian/core.PreorderedLogClient)."
const c20rpc = "iface(trillian.TrillianLogClient).AddSequencedLeaves"

func c20Const(r *Run, name, fallback string) string {
	if c := r.P.LookupConst(name); c != nil {
		r.Pass("const:"+name, r.P.Pos(c.Pos()), "= "+c.Val().ExactString())
		return c.Val().ExactString()
	}
	r.Fail("const:"+name, "-", "constant not found")
	return fallback
}

func runC20(r *Run) {
	r.Assume("channel send/receive pairs deliver each batch exactly once; scanner.Fetcher delivers the range it was prepared for (C16)")
	r.Assume("backoff.Retry retries exactly the errors its own IsRetryable accepts (read from the pinned dependency's code, not from its documentation)")
	r.Rule("C20.R1")
	c20Leaf(r)
	r.Rule("C20.R2")
	c20Batch(r)
	r.Rule("C20.R3")
	c20Retry(r)
	r.Rule("C20.R4")
	c20FetchTail(r)
	c20Consistency(r)
	r.Rule("C20.R5")
	c20Resume(r)
	r.Rule("C20.R6")
	c20Callers(r, "who:AddSequencedLeaves", c20rpc, c20plc+"addSequencedLeaves$*")
	c20Callers(r, "who:addSequencedLeaves", c20plc+"addSequencedLeaves", c20ctl+"runSubmitter")
	c20Callers(r, "who:buildLogLeaf", c20plc+"buildLogLeaf", c20plc+"addSequencedLeaves")
	submitterOwner := c20ctl + "fetchTail$*"
	if ft := r.P.Func(c20ctl + "fetchTail"); ft != nil {
		tf, _ := c20Transfer(ft)
		if tf != ft {
			// the transfer part of fetchTail lives in a function of its own (only fetchTail calls it: C20.R4)
			submitterOwner = FuncName(tf) + "$*"
		}
		// … or the goroutines are started by a named function that only the transfer function (or a
		// literal of it) calls, at one site (c20NewScope admits no other)
		for _, f := range c20NewScope(r, tf).fam {
			if f.Parent() == nil && f != tf && f != ft {
				submitterOwner += " || " + FuncName(f) + "$*"
			}
		}
	}
	c20Callers(r, "who:runSubmitter", c20ctl+"runSubmitter", submitterOwner)
	c20Callers(r, "who:verifyConsistency", c20ctl+"verifyConsistency", c20ctl+"fetchTail")
	c20Callers(r, "who:fetchTail", c20ctl+"fetchTail", c20ctl+"Run")

	// The fetch cursor discipline the migration relies on (source short reads
	// must not cause gaps, reordering or mislabelled batches): the range
	// generator and worker rules of C16 over scanner/fetcher.go.
	r.Rule("C20.R7")
	r.D.PhiByName = true
	if fn := r.Fn("(*scanner.Fetcher).genRanges$1"); fn != nil {
		c16GenRanges(r, fn)
	}
	if fn := r.Fn("(*scanner.Fetcher).runWorker"); fn != nil {
		c16Worker(r, fn)
	}
	r.D.PhiByName = false

	r.Rule("C20.R8")
	c20UnparsableCopied(r)
	r.Rule("C20.R9")
	c20Defaults(r)
	// somebody works: every fan-out loop of the pass is entered for every accepted configuration (rules_t7c20counts.go)
	r.Rule("C20.R10")
	c20Counts(r)
}

// c20Callers: every module function calling callee matches ownerGlob (closure
// numbers may shift), and at least one does (positive control).
func c20Callers(r *Run, key, callee, ownerGlob string) {
	got := r.CallersOf(callee)
	n := 0
	for _, g := range keysOf(got) {
		if anyGlob(ownerGlob, g) {
			n++
			r.Pass(key+"@"+g, r.Where(got[g][0]), fmt.Sprintf("%s calls %s (%d sites)", g, callee, len(got[g])))
		} else {
			r.Fail(key+"@"+g, r.Where(got[g][0]), fmt.Sprintf("%s calls %s; only %s may", g, callee, ownerGlob))
		}
	}
	if n == 0 {
		r.Fail(key, "-", fmt.Sprintf("positive control: no function matching %s calls %s", ownerGlob, callee))
	}
}

// ---- R1 ------------------------------------------------------------------------

func c20Leaf(r *Run) {
	if fn := r.Fn(c20plc + "buildLogLeaf"); fn != nil {
		k := "buildLogLeaf:"
		raw := "ct.RawLogEntryFromLeaf(*)#0"
		succ := sgOkReturns(fn)
		// the index and the entry parameter, whichever order they are declared in
		ip, ep := c20LeafParams(r)
		pIdx, pEnt := fmt.Sprintf("p%d", ip), fmt.Sprintf("p%d", ep)
		for _, ret := range succ {
			r.ExpectFields(fn, k+"leaf", ret.Results[0], map[string]string{
				"LeafValue":        pEnt + ".LeafInput",
				"ExtraData":        pEnt + ".ExtraData",
				"LeafIndex":        pIdx,
				"LeafIdentityHash": "dyn(p0." + c20IDField(r) + ")(" + pIdx + ", " + raw + ") || dyn(p0." + c20IDField(r) + ")(" + pIdx + ", " + raw + ")[:]",
			})
		}
		r.Check(k+"one-success-return", len(succ) == 1, r.FnPos(fn), fmt.Sprintf("%d success returns", len(succ)))
		if c := r.OneCall(fn, k+"raw-entry", "ct.RawLogEntryFromLeaf"); c != nil {
			r.ExpectArg(c, k+"raw-entry.index", 0, pIdx)
			r.ExpectArg(c, k+"raw-entry.entry", 1, pEnt)
			r.ErrorsGate(fn, k+"raw-entry-error", "ct.RawLogEntryFromLeaf", 1)
			// verbatim copy: once the raw entry exists nothing can fail the leaf,
			// whatever the certificate parser says
			parse := CallsTo(fn, "(*ct.RawLogEntry).ToLogEntry")
			from := c.Block().Succs
			ok, detail := true, "after RawLogEntryFromLeaf succeeded every return is the success return"
			for _, val := range []string{"T", "F"} {
				s := Sigma{}
				for key, ci := range r.D.AtomsOf(fn) {
					if ci.Kind == "bool" && strings.Contains(key, "IsFatal") {
						s[key] = val
					}
					if ci.Kind == "nil" && strings.Contains(key, "RawLogEntryFromLeaf") && strings.HasSuffix(key, "#1") {
						s[key] = "nil"
					}
				}
				for _, b := range from {
					if b == nil || len(from) != 2 {
						continue
					}
					r.Valuations++
					reach := r.D.Walk(fn, s, c.Block(), nil)
					for _, ret := range reachableReturns(fn, reach) {
						vs := sgRetVals(ret)
						if errKind(vs[len(vs)-1]) != "nil" {
							ok = false
							detail = fmt.Sprintf("the return at %s carries error %s although the raw entry was built (entries with unparsable certificates must be copied verbatim); %s", r.Where(ret), r.D.D(vs[len(vs)-1]), s)
						}
					}
				}
			}
			r.Check(k+"parse-errors-do-not-fail-the-leaf", ok, r.FnPos(fn), fmt.Sprintf("%s (%d certificate parse call(s))", detail, len(parse)))
		}
	}
	if fn := r.Fn(c20core + "idHashCertData"); fn != nil {
		for _, ret := range Returns(fn) {
			r.Check("idHashCertData:value", r.D.D(ret.Results[0]) == "sha256.Sum256(p1.Cert.Data)[:]", r.Where(ret), "returns "+r.D.D(ret.Results[0]))
		}
	}
	if fn := r.Fn(c20core + "idHashLeafIndex"); fn != nil {
		if c := r.OneCall(fn, "idHashLeafIndex:encode", "(binary.littleEndian).PutUint64"); c != nil {
			buf := r.D.D(CallArgs(c)[1])
			r.ExpectArg(c, "idHashLeafIndex:encode.index", 2, "p0")
			r.Check("idHashLeafIndex:encode.width", glob("new:[8]byte#*[:8]", buf) || glob("make:[]byte(8)*", buf), r.Where(c), "8-byte buffer "+buf)
			for _, ret := range Returns(fn) {
				r.Check("idHashLeafIndex:value", r.D.D(ret.Results[0]) == "sha256.Sum256("+buf+")[:]", r.Where(ret), "returns "+r.D.D(ret.Results[0]))
			}
		}
	}
	if fn := r.Fn(c20core + "NewPreorderedLogClient"); fn != nil {
		k := "NewPreorderedLogClient:"
		cert := c20Const(r, "trillian/migrillian/configpb.IdentityFunction_SHA256_CERT_DATA", "1")
		idx := c20Const(r, "trillian/migrillian/configpb.IdentityFunction_SHA256_LEAF_INDEX", "2")
		pre := c20Const(r, "trillian.TreeType_PREORDERED_LOG", "3")
		want := map[string]string{cert: "fn:" + c20core + "idHashCertData", idx: "fn:" + c20core + "idHashLeafIndex"}
		cases, err := r.D.ConstTable(fn, "p2", nil)
		if err != nil {
			r.Fail(k+"identity-function", r.FnPos(fn), "undecided: "+err.Error())
		}
		sts := r.StoresTo(fn, "&(new:trillian/migrillian/core.PreorderedLogClient#*."+c20IDField(r)+")")
		seen := map[string]bool{}
		for _, c := range cases {
			r.Valuations++
			var got []string
			for _, st := range sts {
				if c.Reach.Has(st) {
					got = append(got, r.D.D(st.Val))
				}
			}
			okRet := sgAnyReach(c.Reach, sgOkReturns(fn)) != nil
			label := fmt.Sprint(c.Value)
			if c.Default {
				r.Check(k+"identity-function[other]", !okRet, r.FnPos(fn), fmt.Sprintf("unknown identity function: success reachable=%v, idFunc ← %v", okRet, got))
				continue
			}
			seen[label] = true
			w, known := want[label]
			r.Check(k+"identity-function["+label+"]", known && okRet && len(got) == 1 && got[0] == w, r.FnPos(fn), fmt.Sprintf("identity function %s ⇒ idFunc ← %v (statement: %s), success reachable=%v", label, got, w, okRet))
		}
		for v := range want {
			r.Check(k+"identity-function-known["+v+"]", seen[v], r.FnPos(fn), "identity function "+v+" has a case")
		}
		r.SgRejects(fn, k+"destination-not-preordered", sgNil("p1", "non"), sgOrd("p1.TreeType || *GetTreeType(p1)", pre, "<,>"))
		r.SgRejects(fn, k+"destination-missing", sgNil("p1", "nil"))
		for _, ret := range sgOkReturns(fn) {
			r.ExpectFields(fn, k+"client", ret.Results[0], map[string]string{"cli": "p0", "treeID": "p1.TreeId || *GetTreeId(p1)"})
		}
	}
}

// ---- R2 ------------------------------------------------------------------------

func c20Batch(r *Run) {
	fn := r.Fn(c20plc + "addSequencedLeaves")
	if fn == nil {
		return
	}
	k := "addSequencedLeaves:"
	bl := r.OneCall(fn, k+"buildLogLeaf", c20plc+"buildLogLeaf")
	if bl == nil {
		return
	}
	// the entry handed to buildLogLeaf: &b.Entries[i] or the address of a copy of it
	ip, ep := c20LeafParams(r)
	if ip >= len(CallArgs(bl)) || ep >= len(CallArgs(bl)) {
		r.Fail(k+"entry", r.Where(bl), "undecided: buildLogLeaf is not called with an index and an entry")
		return
	}
	entry := r.D.D(CallArgs(bl)[ep])
	if a := baseAlloc(CallArgs(bl)[ep]); a != nil {
		for _, ref := range *a.Referrers() {
			if st, ok := ref.(*ssa.Store); ok && st.Addr == ssa.Value(a) {
				entry = r.D.D(st.Val)
			}
		}
	}
	entry = strings.TrimSuffix(strings.TrimPrefix(entry, "&("), ")")
	i := ""
	var leavesPhi *ssa.Phi
	if strings.HasPrefix(entry, "p2.Entries[") && strings.HasSuffix(entry, "]") {
		i = entry[len("p2.Entries[") : len(entry)-1]
	}
	r.Check(k+"entry", i != "", r.Where(bl), "buildLogLeaf gets entry "+entry+" of the batch")
	if i != "" {
		a, b, ok := sgAddOperands(r.D.D(CallArgs(bl)[ip]))
		r.Check(k+"index=start+i", ok && ((a == i && b == "p2.Start") || (b == i && a == "p2.Start")), r.Where(bl),
			fmt.Sprintf("entry %s is submitted under index %s (statement: Start + position in the batch)", entry, r.D.D(CallArgs(bl)[ip])))
		slot := false
		for _, st := range r.StoresTo(fn, "&(make:[]*trillian.LogLeaf(len(p2.Entries))["+i+"])") {
			if glob(c20plc+"buildLogLeaf(*)#0", r.D.D(st.Val)) {
				slot = true
			}
		}
		if !slot {
			// the same slice built by appending: one leaf per iteration of the loop that counts
			// the entries from zero, so the leaf of entry i lands at position i
			if ph := c20AppendLoop(r, fn, bl, i); ph != nil {
				slot, leavesPhi = true, ph
			}
		}
		r.Check(k+"slot", slot, r.Where(bl), "the leaf built for entry "+i+" is stored at position "+i+" of a slice of len(b.Entries) leaves")
	}
	retry := CallsTo(fn, "(*backoff.Backoff).Retry")
	r.FailEdge(fn, "addSequencedLeaves", EdgeSpec{Name: "leaf-error-stops-batch", Atom: nilAtom(c20plc + "buildLogLeaf(*)#1"), Bad: "non", Unreach: asInstrs(retry),
		Want: func(r *Run, ret *ssa.Return) (bool, string) {
			d := r.D.D(sgRetVals(ret)[0])
			return glob(c20plc+"buildLogLeaf(*)#1", d) || errKind(sgRetVals(ret)[0]) == "non", "returns " + d
		}})
	r.ExpectStores(fn, k+"request.LogId", "&(new:trillian.AddSequencedLeavesRequest#*.LogId)", "p0.treeID", 1)
	if leavesPhi != nil {
		sts := r.StoresTo(fn, "&(new:trillian.AddSequencedLeavesRequest#*.Leaves)")
		okL := len(sts) >= 1
		for _, st := range sts {
			okL = okL && st.Val == ssa.Value(leavesPhi)
		}
		r.Check(k+"request.Leaves", okL, r.FnPos(fn), "the request carries the slice the loop over the batch's entries appended the leaves to")
	} else {
		r.ExpectStores(fn, k+"request.Leaves", "&(new:trillian.AddSequencedLeavesRequest#*.Leaves)", "make:[]*trillian.LogLeaf(len(p2.Entries))", 1)
	}
}

// c20AppendLoop recognises the append form of "leaf i goes to position i of a slice of
// len(p2.Entries) leaves": a slice that is empty before the loop whose counter is named i,
// and to which every iteration that goes round appends exactly one element, result 0 of the
// buildLogLeaf call bl.  The counter must run 0, 1, 2, … up to len(p2.Entries), so that the
// number of elements appended before iteration i is i.  Returns the slice as it is when the
// loop is left (the loop-header φ), or nil.
func c20AppendLoop(r *Run, fn *ssa.Function, bl ssa.CallInstruction, i string) *ssa.Phi {
	var n int
	if _, err := fmt.Sscanf(i, "it@%d", &n); err != nil || fmt.Sprintf("it@%d", n) != i || n < 0 || n >= len(fn.Blocks) {
		return nil
	}
	head := fn.Blocks[n]
	// the counter of that loop: from zero, by one (range loop: pre-index −1, +1 before each iteration)
	counters := 0
	okCounter := false
	var slices []*ssa.Phi
	for _, in := range head.Instrs {
		ph, ok := in.(*ssa.Phi)
		if !ok {
			break
		}
		switch {
		case isRangePre(ph):
			counters++
			okCounter = true
		case isInduction(ph):
			counters++
			okCounter = true
			for _, e := range ph.Edges {
				if b, isB := e.(*ssa.BinOp); isB && b.X == ssa.Value(ph) {
					if b.Op != token.ADD || !isConstInt(b.Y, 1) {
						okCounter = false
					}
				} else if !isConstInt(e, 0) {
					okCounter = false
				}
			}
		default:
			if _, isSl := ph.Type().Underlying().(*types.Slice); isSl {
				slices = append(slices, ph)
			}
		}
	}
	if counters != 1 || !okCounter {
		return nil
	}
	// the loop runs while the counter is below len(p2.Entries)
	ifi, ok := head.Instrs[len(head.Instrs)-1].(*ssa.If)
	if !ok || r.D.D(ifi.Cond) != "("+i+" < len(p2.Entries))" {
		return nil
	}
	for _, ph := range slices {
		ok := true
		backs := 0
		for k, e := range ph.Edges {
			if head.Dominates(head.Preds[k]) {
				// back edge: append(φ, [bl#0])
				backs++
				c, isC := e.(*ssa.Call)
				if !isC {
					ok = false
					continue
				}
				b, isB := c.Call.Value.(*ssa.Builtin)
				if !isB || b.Name() != "append" || len(c.Call.Args) != 2 || c.Call.Args[0] != ssa.Value(ph) {
					ok = false
					continue
				}
				el, known := sliceElems(c.Call.Args[1], 0)
				if !known || len(el) != 1 {
					ok = false
					continue
				}
				ex, isEx := el[0].(*ssa.Extract)
				if !isEx || ex.Index != 0 || ex.Tuple != bl.Value() {
					ok = false
				}
			} else if el, known := sliceElems(e, 0); !known || len(el) != 0 {
				ok = false // not empty when the loop is entered
			}
		}
		if ok && backs >= 1 {
			return ph
		}
	}
	return nil
}

// ---- R3 ------------------------------------------------------------------------

func c20Retry(r *Run) {
	outer := r.Fn(c20plc + "addSequencedLeaves")
	if outer == nil {
		return
	}
	k := "addSequencedLeaves:"
	// the operation handed to the back-off
	var cl *ssa.Function
	if retry := r.OneCall(outer, k+"backoff", "(*backoff.Backoff).Retry"); retry != nil {
		if mc, ok := CallArgs(retry)[2].(*ssa.MakeClosure); ok {
			cl, _ = mc.Fn.(*ssa.Function)
		}
	}
	if cl == nil {
		r.Fail(k+"backoff.operation", r.FnPos(outer), "undecided: the operation passed to backoff.Retry is not a local closure")
		return
	}
	exhausted := c20Const(r, "google.golang.org/grpc/codes.ResourceExhausted", "8")
	okCode := c20Const(r, "google.golang.org/grpc/codes.OK", "0")
	rpc := r.OneCall(cl, k+"rpc", c20rpc)
	code := r.OneCall(cl, k+"status-code", "status.Code")
	if rpc == nil || code == nil {
		return
	}
	r.ExpectArg(rpc, k+"rpc.client", 0, "*p0*.cli")
	r.ExpectArg(rpc, k+"rpc.request", 2, "^new:trillian.AddSequencedLeavesRequest#* || new:trillian.AddSequencedLeavesRequest#*")
	// the code examined is the code of this call's error
	rpcErr := CallResult(rpc, 1)
	errVar := "" // the variable the error is recorded in (captured from the caller)
	scrut := r.D.D(CallArgs(code)[0])
	okScrut := rpcErr != nil && scrut == r.D.D(rpcErr)
	if rpcErr != nil {
		for _, ref := range *rpcErr.Referrers() {
			if st, ok := ref.(*ssa.Store); ok && st.Block() == code.Block() {
				errVar = r.D.D(st.Addr)
				if scrut == deref(errVar) {
					okScrut = true
				}
			}
		}
	}
	r.Check(k+"status-code.of-rpc-error", okScrut, r.Where(code), "status.Code("+scrut+") examines the error of AddSequencedLeaves")
	r.Check(k+"rpc-error-recorded", strings.HasPrefix(errVar, "^new:error#"), r.Where(rpc), "the RPC error is recorded in the caller's variable "+errVar)

	cases, err := r.D.ConstTable(cl, "status.Code(*)", nil)
	if err != nil {
		r.Fail(k+"reply-switch", r.FnPos(cl), "undecided: "+err.Error())
		return
	}
	var retrySignals []ssa.Value
	for _, c := range cases {
		r.Valuations++
		label := fmt.Sprint(c.Value)
		if c.Default {
			label = "other"
		}
		rets := reachableReturns(cl, c.Reach)
		stop := len(rets) > 0
		for _, ret := range rets {
			if errKind(ret.Results[0]) != "nil" {
				stop = false
				if label == exhausted {
					retrySignals = append(retrySignals, ret.Results[0])
				}
			}
		}
		switch label {
		case exhausted:
			r.Check(k+"reply[ResourceExhausted]", !stop && len(retrySignals) == len(rets), r.FnPos(cl), fmt.Sprintf("quota error ⇒ %d of %d returns ask for a retry", len(retrySignals), len(rets)))
		case okCode:
			r.Check(k+"reply[OK]", stop, r.FnPos(cl), "OK ⇒ the retry loop stops")
		default:
			r.Check(k+"reply["+label+"]", stop, r.FnPos(cl), fmt.Sprintf("code %s ⇒ stops retrying=%v (only ResourceExhausted is retried; the error surfaces)", label, stop))
		}
	}
	// OK with an absent reply ⇒ an error is recorded
	{
		s := Sigma{}
		for key, ci := range r.D.AtomsOf(cl) {
			if ci.Kind == "nil" && glob("nil?"+c20rpc+"(*)#0", key) {
				s[key] = "nil"
			}
		}
		for _, c := range cases {
			if fmt.Sprint(c.Value) == okCode && !c.Default {
				for a, v := range c.Sigma {
					s[a] = v
				}
			}
		}
		r.Valuations++
		reach := r.D.Walk(cl, s, nil, nil)
		recorded := false
		for _, st := range r.StoresTo(cl, errVar) {
			if reach.Has(st) && errKind(st.Val) == "non" {
				recorded = true
			}
		}
		r.Check(k+"reply[OK,absent]", recorded && len(s) >= 2, r.FnPos(cl), fmt.Sprintf("OK without a response message ⇒ an error is recorded in %s (%v)", errVar, recorded))
	}
	// the caller returns the recorded error, else the back-off's own result
	if rs := CallsTo(outer, "(*backoff.Backoff).Retry"); len(rs) == 1 {
		retry := rs[0]
		r.ExpectArg(retry, k+"backoff.ctx", 1, "p1")
		local := strings.TrimPrefix(errVar, "^")
		for _, v := range []string{"non", "nil"} {
			s := Sigma{"nil?" + deref(local): v}
			r.Valuations++
			reach := r.D.Walk(outer, s, retry.Block(), nil)
			var got []string
			for _, ret := range reachableReturns(outer, reach) {
				got = append(got, r.D.D(ret.Results[0]))
			}
			want := deref(local)
			if v == "nil" {
				want = "(*backoff.Backoff).Retry(*)"
			}
			r.Check(k+"result[recorded-error="+v+"]", len(got) == 1 && glob(want, got[0]), r.Where(retry), fmt.Sprintf("after the retry loop with recorded error %s the caller returns %v (expected %s)", v, got, want))
		}
		c20Retryable(r, k, cl, retrySignals, rpcErr, errVar, len(retry.Common().Args) > 3 && r.D.D(retry.Common().Args[3]) != "nil")
	}
}

// ---- R4 ------------------------------------------------------------------------

// c20Transfer locates the function that runs the fetcher for fetchTail: fetchTail itself, or
// the one module function fetchTail calls (directly, once) that contains the Fetcher.Run call —
// the transfer part may have been moved into a function of its own.  call is fetchTail's call
// of that function (nil when it is fetchTail itself).
func c20Transfer(fn *ssa.Function) (tf *ssa.Function, call ssa.CallInstruction) {
	if len(CallsTo(fn, "(*scanner.Fetcher).Run")) > 0 {
		return fn, nil
	}
	n := 0
	eachInstr(fn, func(in ssa.Instruction) {
		ci, ok := in.(ssa.CallInstruction)
		if !ok {
			return
		}
		if _, isGo := in.(*ssa.Go); isGo {
			return
		}
		if _, isDefer := in.(*ssa.Defer); isDefer {
			return
		}
		cal := ci.Common().StaticCallee()
		// (a function literal of fetchTail called on the spot counts: the shape a helper with deferred calls has
		// once the normaliser has expanded it)
		if cal == nil || (cal.Parent() != nil && cal.Parent() != fn) || len(cal.Blocks) == 0 || fnPkg(cal) != fnPkg(fn) {
			return
		}
		if len(CallsTo(cal, "(*scanner.Fetcher).Run")) > 0 {
			n++
			tf, call = cal, ci
		}
	})
	if n != 1 {
		return fn, nil
	}
	return tf, call
}

func c20FetchTail(r *Run) {
	fn := r.Fn(c20ctl + "fetchTail")
	if fn == nil {
		return
	}
	k := "fetchTail:"
	tf, tcall := c20Transfer(fn)
	split := tcall != nil
	if split {
		r.Funcs[FuncName(tf)] = true
	}
	run := r.OneCall(tf, k+"fetcher.Run", "(*scanner.Fetcher).Run")
	// the one tree head of the pass: delivered by the Fetcher's Prepare, or asked of the source client by fetchTail itself
	sthSrc := c20SthSource(r, fn)
	r.Check(k+"fetcher.Prepare", sthSrc.n == 1, r.FnPos(fn), fmt.Sprintf("expected exactly one request for the source tree head ((*scanner.Fetcher).Prepare, or (*client.LogClient).GetSTH) in %s, found %d", FuncName(fn), sthSrc.n))
	prep := sthSrc.call
	vc := r.OneCall(fn, k+"verifyConsistency", c20ctl+"verifyConsistency")
	root := r.OneCall(fn, k+"getRoot", c20plc+"getRoot")
	if run == nil || prep == nil || vc == nil || root == nil {
		return
	}
	// what starts the fetcher, seen from fetchTail: the Run call, or the call of the function
	// that contains it (which nothing else may call)
	markers := []ssa.Instruction{run}
	tfErr := "" // the error the transfer function reports to fetchTail
	parentCtx := "p1"
	if split {
		markers = []ssa.Instruction{tcall}
		c20Callers(r, "who:"+tf.Name(), FuncName(tf), c20ctl+"fetchTail")
		res := tf.Signature.Results()
		if res.Len() == 0 || types.TypeString(res.At(res.Len()-1).Type(), nil) != "error" {
			r.Fail(k+"transfer.error", r.FnPos(tf), "undecided: "+FuncName(tf)+" runs the fetcher but does not report an error")
			return
		}
		tfErr = FuncName(tf) + "(*)"
		if res.Len() > 1 {
			tfErr += fmt.Sprintf("#%d", res.Len()-1)
		}
		// the parameter(s) of the transfer function that carry fetchTail's own context
		var alts []string
		for j, a := range CallArgs(tcall) {
			if r.D.D(a) == "p1" {
				alts = append(alts, fmt.Sprintf("p%d", j))
			}
		}
		if tf.Parent() == fn && len(alts) > 0 {
			alts = append(alts, "^p1") // a literal called on the spot: its parameter reads as the argument
		}
		if len(alts) == 0 {
			r.Fail(k+"transfer.context", r.Where(tcall), "undecided: "+FuncName(tf)+" is not handed fetchTail's context")
			return
		}
		parentCtx = strings.Join(alts, " || ")
	}
	withCancel := func(i int) string {
		var alts []string
		for _, p := range strings.Split(parentCtx, " || ") {
			alts = append(alts, fmt.Sprintf("context.WithCancel(%s)#%d", p, i))
		}
		return strings.Join(alts, " || ")
	}
	sthSize := sthSrc.val + ".TreeSize"
	// how getRoot delivers the destination's size, root hash and error (separate results, or
	// fields of a struct result)
	shape := c20RootShape(r, true)
	r.SgBlocked(fn, k+"gate[destination-root-unavailable]", "fetcher.Run", markers, sgNil(c20plc+"getRoot(*)"+shape.err, "non"))
	r.SgBlocked(fn, k+"gate[source-sth-unavailable]", "fetcher.Run", markers, sgNil(sthSrc.err, "non"))
	r.SgBlocked(fn, k+"gate[source-not-past-begin]", "fetcher.Run", markers, sgOrd(sthSize, "p2", "<,="))
	// verifyConsistency is handed the destination size and root hash getRoot delivered and the
	// source STH of this pass — each in the parameter(s) the callee reads them from
	roles := c20ConsistencyRoles(r, vc, shape)
	// the fetcher starts only after this pass's check returned nil, or on a hit on a remembered verdict (rules_t8c20.go)
	c20ConsistencyGate(r, fn, k, markers, vc, roles)
	r.Check(k+"consistency.dest-size", roles.size != "", r.Where(vc), "verifyConsistency gets the destination tree size "+c20plc+"getRoot(*)"+shape.size+roles.how("size"))
	r.Check(k+"consistency.dest-root", roles.hash != "", r.Where(vc), "verifyConsistency gets the destination root hash "+c20plc+"getRoot(*)"+shape.hash+roles.how("hash"))
	r.Check(k+"consistency.source-sth", roles.sth != "", r.Where(vc), "verifyConsistency gets the source STH "+sthSrc.val+roles.how("sth"))
	if !split {
		r.Check(k+"one-fetcher", (sthSrc.own || CallArgs(run)[0] == CallArgs(prep)[0]) && glob("scanner.NewFetcher(*)", r.D.D(CallArgs(run)[0])), r.Where(run), "Run is called on the fetcher that was prepared: "+r.D.D(CallArgs(run)[0]))
	} else {
		// Run's receiver is a parameter of the transfer function, bound to the prepared fetcher
		ok, got := false, r.D.D(CallArgs(run)[0])
		if par, isPar := CallArgs(run)[0].(*ssa.Parameter); isPar {
			for j, q := range tf.Params {
				if q == par && j < len(CallArgs(tcall)) {
					a := CallArgs(tcall)[j]
					got = r.D.D(a)
					ok = (sthSrc.own || a == CallArgs(prep)[0]) && glob("scanner.NewFetcher(*)", got)
				}
			}
		}
		r.Check(k+"one-fetcher", ok, r.Where(run), "Run is called on the fetcher that was prepared: "+got)
	}
	if nf := r.OneCall(fn, k+"NewFetcher", "scanner.NewFetcher"); nf != nil {
		// the Fetcher reads the configured source, and fits its range to the tree head that was verified (rules_t8c20.go)
		var verified ssa.Value
		if j := strings.TrimPrefix(roles.sth, "p"); roles.sth != "" && !strings.Contains(roles.sth, ".") {
			var idx int
			if _, err := fmt.Sscanf(j, "%d", &idx); err == nil && idx < len(CallArgs(vc)) {
				verified = CallArgs(vc)[idx]
			}
		}
		c20SourceClient(r, fn, k, nf, sthSrc, verified)
	}
	// results
	for _, ret := range sgOkReturns(fn) {
		v := r.D.D(sgRetVals(ret)[0])
		switch {
		case glob(sthSize, v), c20ReportsRangeEnd(r, fn, k, ret, sthSrc):
			// the verified tree size, or the end of the range the Fetcher was made to transfer (rules_t8c20.go)
			m := []ssa.Instruction{ret}
			what := "return (sth.TreeSize, nil)"
			tm, tfn := m, fn
			if split {
				// fetchTail reports the size only if the transfer function reported no error,
				// and that function reports none only if …
				r.SgBlocked(fn, k+"done[transfer-error]", what, m, sgNil(tfErr, "non"))
				tm, tfn, what = nil, tf, "return of a nil error"
				for _, tr := range sgOkReturns(tf) {
					tm = append(tm, tr)
				}
			}
			r.SgBlocked(tfn, k+"done[fetch-error]", what, tm, sgNil("(*scanner.Fetcher).Run(*)", "non"))
			r.SgBlocked(tfn, k+"done[cancelled]", what, tm, sgNil("iface(context.Context).Err(*)", "non"))
			for _, c := range CallsTo(tfn, "iface(context.Context).Err") {
				r.Check(k+"done[cancelled].context", r.D.D(CallArgs(c)[0]) == r.D.D(CallArgs(run)[1]), r.Where(c), "the context examined after Run is the one Run and the submitters were given: "+r.D.D(CallArgs(c)[0]))
			}
		case v == "p2":
			r.SgBlocked(fn, k+"idle[source-past-begin]", "return (begin, nil)", []ssa.Instruction{ret}, sgOrd(sthSize, "p2", ">"))
		default:
			r.Fail(k+"result", r.Where(ret), "success return of "+v+" (only begin, the verified source tree size or the fitted end of the range may be reported)")
		}
	}
	// shared cancellable context
	ctxTerm := r.D.D(CallArgs(run)[1])
	if glob("*new:context.Context#*", ctxTerm) {
		r.Pass(k+"context", r.Where(run), "Run gets "+ctxTerm)
		r.ExpectStores(tf, k+"context.cancellable", strings.TrimPrefix(ctxTerm, "*"), withCancel(0), 1)
	} else {
		// held in no variable of its own: the WithCancel result itself
		r.Check(k+"context", anyGlob(withCancel(0), ctxTerm), r.Where(run), "Run gets "+ctxTerm)
	}
	// the submitter fan-out (goroutines on the shared context and channel, cancel on error, awaited
	// before the verdict), whichever function holds the go statement: rules_t5c20.go
	c20Submitters(r, k, tf, run, parentCtx)
	// the batch handler forwards the batch it was given
	var handler *ssa.Function
	if mc, ok := CallArgs(run)[2].(*ssa.MakeClosure); ok {
		handler, _ = mc.Fn.(*ssa.Function)
	}
	if handler == nil {
		r.Fail(k+"handler", r.Where(run), "undecided: Run's callback is not a local closure")
	} else {
		sent := false
		eachInstr(handler, func(in ssa.Instruction) {
			switch x := in.(type) {
			case *ssa.Select:
				for _, st := range x.States {
					if st.Dir == types.SendOnly && glob("*p0*", r.D.D(st.Send)) && !strings.Contains(r.D.D(st.Send), ".") {
						sent = true
					}
				}
			case *ssa.Send:
				if glob("*p0*", r.D.D(x.X)) && !strings.Contains(r.D.D(x.X), ".") {
					sent = true
				}
			}
		})
		r.Check(k+"handler-forwards-batch", sent, r.FnPos(handler), "the fetcher callback sends the batch it received to the submitters")
	}
	if rs := r.Fn(c20ctl + "runSubmitter"); rs != nil {
		r.SgRejectsInLoop(rs, "runSubmitter:batch-error-stops-submitter", sgNil(c20plc+"addSequencedLeaves(*)", "non"))
		if c := r.OneCall(rs, "runSubmitter:add", c20plc+"addSequencedLeaves"); c != nil {
			r.ExpectArg(c, "runSubmitter:add.client", 0, "p0.plClient")
			if a := baseAlloc(CallArgs(c)[2]); a != nil {
				r.ExpectStores(rs, "runSubmitter:add.batch", r.D.allocName(a), "<-p2#0", 1)
			} else {
				r.Fail("runSubmitter:add.batch", r.Where(c), "undecided: batch argument "+r.D.D(CallArgs(c)[2]))
			}
		}
	}
}

func c20Consistency(r *Run) {
	fn := r.Fn(c20ctl + "verifyConsistency")
	if fn == nil {
		return
	}
	k := "verifyConsistency:"
	// nil without a proof exactly for an empty destination or a disabled check,
	// on sample destination sizes (the size is only compared with constants)
	succ := sgOkReturns(fn)
	// the terms under which the callee sees destination size, destination root hash and source
	// STH: its parameters 2, 3, 4 — or, when the root travels as one struct, fields of a parameter
	pSize, pHash, pSth := "p2", "p3", "p4"
	if ft := r.P.Func(c20ctl + "fetchTail"); ft != nil {
		if vcs := CallsTo(ft, c20ctl+"verifyConsistency"); len(vcs) == 1 {
			if roles := c20ConsistencyRoles(r, vcs[0], c20RootShape(r, false)); roles.size != "" && roles.hash != "" && roles.sth != "" {
				pSize, pHash, pSth = roles.size, roles.hash, roles.sth
			}
		}
	}
	for _, size := range []int64{0, 1, 7} {
		for _, ncc := range []string{"T", "F"} {
			s, bound := r.SgModel(fn, map[string]int64{pSize: size})
			b, err := r.sgBind(fn, sgBool("p0.opts.NoConsistencyCheck", ncc))
			if err != nil {
				r.Fail(k+"unproven-nil", r.FnPos(fn), "undecided: "+err.Error())
				continue
			}
			b.set(s, ncc)
			r.Valuations++
			got := sgAnyReach(r.D.Walk(fn, s, nil, nil), succ) != nil
			want := size == 0 || ncc == "T"
			r.Check(fmt.Sprintf("%sunproven-nil[dest-size=%d,check-disabled=%s]", k, size, ncc), got == want && len(bound) > 0, r.FnPos(fn),
				fmt.Sprintf("a nil result without a consistency proof is reachable=%v; statement (only for an empty destination or NoConsistencyCheck) says %v; comparisons valuated: %v", got, want, bound))
		}
	}
	get := r.OneCall(fn, k+"proof", "(*client.LogClient).GetSTHConsistency")
	ver := r.OneCall(fn, k+"verify", "proof.VerifyConsistency")
	if get == nil || ver == nil {
		return
	}
	r.ExpectArg(get, k+"proof.source", 0, "p0.ctClient")
	r.ExpectArg(get, k+"proof.first", 2, pSize)
	r.ExpectArg(get, k+"proof.second", 3, pSth+".TreeSize")
	for i, w := range []string{"g:rfc6962.DefaultHasher", pSize, pSth + ".TreeSize", "(*client.LogClient).GetSTHConsistency(*)#0", pHash, pSth + ".SHA256RootHash[:]"} {
		r.ExpectArg(ver, fmt.Sprintf("%sverify.arg%d", k, i), i, w)
	}
	for _, ret := range Returns(fn) {
		v := ret.Results[0]
		d := r.D.D(v)
		switch {
		case errKind(v) == "nil":
		case glob("(*client.LogClient).GetSTHConsistency(*)#1", d):
			r.SgBlocked(fn, k+"proof-error-returned-only-when-set", "return of the proof error", []ssa.Instruction{ret}, sgNil("(*client.LogClient).GetSTHConsistency(*)#1", "nil"))
		case v == ver.Value():
			r.Pass(k+"returns-verdict", r.Where(ret), "returns proof.VerifyConsistency(…)")
		default:
			r.Fail(k+"result", r.Where(ret), "returns "+d+" (neither the proof error nor the verifier's verdict)")
		}
	}
	r.SgBlocked(fn, k+"verify-needs-proof", "proof.VerifyConsistency", []ssa.Instruction{ver}, sgNil("(*client.LogClient).GetSTHConsistency(*)#1", "non"))
}

// ---- how the destination root travels ------------------------------------------------------

// c20Shape: the suffixes under which a caller of getRoot sees the decoded log root's tree size,
// its root hash and the error: "#0" / "#1" / "#2" for three separate results, "#0.size" /
// "#0.hash" / "#1" when size and hash are fields of one struct result.
type c20Shape struct{ size, hash, err string }

// c20RootShape reads getRoot's success return: which result (or field of a struct result built
// for the return) is TreeSize and which is RootHash of the types.LogRootV1 that was decoded.
// With record=true the finding is recorded as an obligation.  When it cannot be determined the
// shape of the confirmed tree is returned (the dependent checks then fail on their own terms).
func c20RootShape(r *Run, record bool) c20Shape {
	def := c20Shape{"#0", "#1", "#2"}
	fn := r.P.Func(c20plc + "getRoot")
	if fn == nil {
		if record {
			r.Fn(c20plc + "getRoot") // records the missing anchor
		}
		return def
	}
	fail := func(why string) c20Shape {
		if record {
			r.Fail("getRoot:results", r.FnPos(fn), "undecided: "+why)
		}
		return def
	}
	var decoded *ssa.Alloc
	for _, c := range CallsTo(fn, "(*types.LogRootV1).UnmarshalBinary") {
		decoded = baseAlloc(CallArgs(c)[0])
	}
	if decoded == nil {
		return fail("no local types.LogRootV1 is decoded with UnmarshalBinary")
	}
	classify := func(v ssa.Value) string {
		u, ok := v.(*ssa.UnOp)
		if !ok {
			return ""
		}
		fa, ok := u.X.(*ssa.FieldAddr)
		if !ok || fa.X != ssa.Value(decoded) {
			return ""
		}
		if f := fieldOf(fa); f != nil && (f.Name() == "TreeSize" || f.Name() == "RootHash") {
			return f.Name()
		}
		return ""
	}
	var got *c20Shape
	for _, ret := range sgOkReturns(fn) {
		vs := sgRetVals(ret)
		sh := c20Shape{err: fmt.Sprintf("#%d", len(vs)-1)}
		put := func(role, path string) {
			switch role {
			case "TreeSize":
				if sh.size != "" {
					sh.size = "?"
				} else {
					sh.size = path
				}
			case "RootHash":
				if sh.hash != "" {
					sh.hash = "?"
				} else {
					sh.hash = path
				}
			}
		}
		for i, v := range vs[:len(vs)-1] {
			if role := classify(v); role != "" {
				put(role, fmt.Sprintf("#%d", i))
				continue
			}
			a := baseAlloc(v)
			if a == nil || a.Referrers() == nil {
				continue
			}
			if _, isStruct := a.Type().Underlying().(*types.Pointer).Elem().Underlying().(*types.Struct); !isStruct {
				continue
			}
			// a struct built for the return: each field written once
			for _, ref := range *a.Referrers() {
				fa, ok := ref.(*ssa.FieldAddr)
				if !ok || fa.Referrers() == nil {
					continue
				}
				var sts []*ssa.Store
				for _, r2 := range *fa.Referrers() {
					if st, ok := r2.(*ssa.Store); ok && st.Addr == ssa.Value(fa) {
						sts = append(sts, st)
					}
				}
				if f := fieldOf(fa); f != nil && len(sts) == 1 {
					put(classify(sts[0].Val), fmt.Sprintf("#%d.%s", i, f.Name()))
				} else if len(sts) > 1 {
					put("TreeSize", "?")
				}
			}
			if len(WholeStores(a)) > 0 {
				put("TreeSize", "?")
			}
		}
		if sh.size == "" || sh.hash == "" || strings.Contains(sh.size+sh.hash, "?") {
			return fail("a success return of getRoot does not deliver TreeSize and RootHash of the decoded log root, each exactly once")
		}
		if got != nil && *got != sh {
			return fail("success returns of getRoot deliver the root in different places")
		}
		got = &sh
	}
	if got == nil {
		return fail("getRoot has no success return")
	}
	if record {
		r.Pass("getRoot:results", r.FnPos(fn), "a caller sees the decoded root's TreeSize as getRoot(…)"+got.size+", its RootHash as getRoot(…)"+got.hash+", the error as getRoot(…)"+got.err)
	}
	return *got
}

// c20Roles: the terms under which verifyConsistency reads the destination size, the
// destination root hash and the source STH ("" = that value is not handed over).
type c20Roles struct {
	size, hash, sth string
	via             map[string]string
}

func (ro c20Roles) how(role string) string {
	if v := ro.via[role]; v != "" {
		return " (" + v + ")"
	}
	return " — not found among the arguments"
}

// c20ConsistencyRoles matches the arguments of fetchTail's verifyConsistency call against what
// getRoot and Prepare delivered.  An argument may be the value itself, or the whole struct
// result of getRoot (the callee then reads the field).
func c20ConsistencyRoles(r *Run, vc ssa.CallInstruction, sh c20Shape) c20Roles {
	ro := c20Roles{via: map[string]string{}}
	root := c20plc + "getRoot(*)"
	set := func(role string, dst *string, term, via string) {
		if *dst != "" {
			*dst, ro.via[role] = "", "" // handed over twice: ambiguous
			return
		}
		*dst, ro.via[role] = term, via
	}
	dup := map[string]bool{}
	for j, a := range CallArgs(vc) {
		d := r.D.D(a)
		pj := fmt.Sprintf("p%d", j)
		for _, x := range []struct {
			role, suffix string
			dst          *string
		}{{"size", sh.size, &ro.size}, {"hash", sh.hash, &ro.hash}} {
			whole, field, isField := strings.Cut(x.suffix, ".")
			switch {
			case glob(root+x.suffix, d):
				if !dup[x.role] {
					set(x.role, x.dst, pj, "argument "+fmt.Sprint(j))
				}
			case isField && glob(root+whole, d):
				if !dup[x.role] {
					set(x.role, x.dst, pj+"."+field, "field "+field+" of argument "+fmt.Sprint(j))
				}
			default:
				continue
			}
			if *x.dst == "" {
				dup[x.role] = true
			}
		}
		if glob(c20SthVal(r), d) {
			if !dup["sth"] {
				set("sth", &ro.sth, pj, "argument "+fmt.Sprint(j))
			}
			if ro.sth == "" {
				dup["sth"] = true
			}
		}
	}
	return ro
}

// c20CopiedFrom sees through "x := y" for struct locals: when the only thing ever written to
// the local x is one whole copy of another local y, made at an instruction that dominates `use`,
// no pointer to y escapes and y is not written after the copy (later in the copy's block, or in
// any block that can execute after it), then x at `use` is y as it stands at the copy: every
// write to y executes before the copy.  Returns y; otherwise x unchanged.
func c20CopiedFrom(fn *ssa.Function, x *ssa.Alloc, use ssa.Instruction) *ssa.Alloc {
	for depth := 0; depth < 3; depth++ {
		ws := WholeStores(x)
		if len(ws) != 1 || len(c20PartStores(x)) != 0 {
			return x
		}
		cp := ws[0]
		ld, ok := cp.Val.(*ssa.UnOp)
		if !ok || ld.Op != token.MUL {
			return x
		}
		y, ok := ld.X.(*ssa.Alloc)
		if !ok || y == x || !types.Identical(y.Type(), x.Type()) {
			return x
		}
		cb := cp.Block()
		if cb != ld.Block() {
			return x
		}
		if !(cb != use.Block() && cb.Dominates(use.Block()) || cb == use.Block() && instrPos(cp) < instrPos(use)) {
			return x
		}
		// y is only ever accessed directly (no pointer to it escapes)
		for _, ref := range *y.Referrers() {
			switch ref.(type) {
			case *ssa.Store, *ssa.UnOp, *ssa.FieldAddr, *ssa.DebugRef:
			default:
				return x
			}
		}
		// nothing is written to y between the load and the copy, nor after the copy
		after := blocksAfter(cb)
		for _, st := range append(WholeStores(y), c20PartStores(y)...) {
			if after[st.Block()] || st.Block() == cb && instrPos(st) > instrPos(ld) {
				return x
			}
		}
		x, use = y, cp
	}
	return x
}

// instrPos: position of an instruction in its block.
func instrPos(in ssa.Instruction) int {
	for i, x := range in.Block().Instrs {
		if x == in {
			return i
		}
	}
	return -1
}

// blocksAfter: the blocks that can execute after block b has been left (b itself when it lies on a cycle).
func blocksAfter(b *ssa.BasicBlock) map[*ssa.BasicBlock]bool {
	after := map[*ssa.BasicBlock]bool{}
	var visit func(b *ssa.BasicBlock)
	visit = func(b *ssa.BasicBlock) {
		if after[b] {
			return
		}
		after[b] = true
		for _, sb := range b.Succs {
			visit(sb)
		}
	}
	for _, sb := range b.Succs {
		visit(sb)
	}
	return after
}

// c20StoredUnder: what a store writes on a walk — the values its operand can have along the edges
// the walk takes (φ read edge by edge, conversions seen through), leaving out the case in which
// the store writes back what the location already holds (`x.f = max(x.f, b)` when x.f is the
// larger: the value is a load of the same location and nothing is written to it between that load
// and the store).  ok=false when a value cannot be resolved.
func c20StoredUnder(r *Run, st *ssa.Store, reach *Reach) (vals []string) {
	seen := map[ssa.Value]bool{}
	var visit func(v ssa.Value)
	visit = func(v ssa.Value) {
		if seen[v] {
			return
		}
		seen[v] = true
		switch x := v.(type) {
		case *ssa.Phi:
			if !isInduction(x) && !isRangePre(x) {
				n := 0
				for i, e := range x.Edges {
					if reach != nil && !reach.Edges[[2]int{x.Block().Preds[i].Index, x.Block().Index}] {
						continue
					}
					n++
					visit(e)
				}
				if n == 0 {
					vals = append(vals, "⊥")
				}
				return
			}
		case *ssa.Convert:
			visit(x.X)
			return
		case *ssa.ChangeType:
			visit(x.X)
			return
		case *ssa.UnOp:
			if x.Op == token.MUL && r.D.D(x.X) == r.D.D(st.Addr) && c20Unwritten(r, x, st) {
				return // writes back the current content
			}
		}
		vals = append(vals, r.D.DUnder(v, reach))
	}
	visit(st.Val)
	return vals
}

// c20Unwritten: between the load ld of a local's component and the store st to the same component
// nothing else writes that component or the local as a whole (on any path from ld to st).
func c20Unwritten(r *Run, ld *ssa.UnOp, st *ssa.Store) bool {
	a := baseAlloc(st.Addr)
	if a == nil || baseAlloc(ld.X) != a {
		return false
	}
	for _, ref := range *a.Referrers() { // no pointer to the local is handed out
		switch ref.(type) {
		case *ssa.Store, *ssa.UnOp, *ssa.FieldAddr, *ssa.DebugRef, *ssa.Call:
		default:
			return false
		}
	}
	lb, sb := ld.Block(), st.Block()
	fwd := blocksAfter(lb)
	fwd[lb] = true
	bwd := map[*ssa.BasicBlock]bool{}
	var back func(b *ssa.BasicBlock)
	back = func(b *ssa.BasicBlock) {
		if bwd[b] {
			return
		}
		bwd[b] = true
		for _, p := range b.Preds {
			back(p)
		}
	}
	back(sb)
	onCycle := func(b *ssa.BasicBlock) bool { return blocksAfter(b)[b] }
	addr := r.D.D(st.Addr)
	for _, w := range append(WholeStores(a), c20PartStores(a)...) {
		if w == st || !(fwd[w.Block()] && bwd[w.Block()]) {
			continue
		}
		if w.Addr != ssa.Value(a) && r.D.D(w.Addr) != addr {
			continue // another component
		}
		if w.Block() == lb && instrPos(w) < instrPos(ld) && !onCycle(lb) {
			continue
		}
		if w.Block() == sb && instrPos(w) > instrPos(st) && !onCycle(sb) {
			continue
		}
		return false
	}
	// a call that was given the local's address may keep it and write through it: none may execute before the store
	for _, ref := range *a.Referrers() {
		if c, ok := ref.(*ssa.Call); ok && bwd[c.Block()] {
			if c.Block() == sb && instrPos(c) > instrPos(st) && !onCycle(sb) {
				continue
			}
			return false
		}
	}
	return true
}

// c20PartStores: stores into components (fields, fields of fields, elements) of the allocation.
func c20PartStores(a *ssa.Alloc) []*ssa.Store {
	var out []*ssa.Store
	var walk func(v ssa.Value, depth int)
	walk = func(v ssa.Value, depth int) {
		if depth > 4 || v.Referrers() == nil {
			return
		}
		for _, ref := range *v.Referrers() {
			switch y := ref.(type) {
			case *ssa.FieldAddr:
				walk(y, depth+1)
			case *ssa.IndexAddr:
				walk(y, depth+1)
			case *ssa.Store:
				if y.Addr == v && v != ssa.Value(a) {
					out = append(out, y)
				}
			}
		}
	}
	walk(a, 0)
	return out
}

// ---- R5 ------------------------------------------------------------------------

func c20Resume(r *Run) {
	fn := r.Fn(c20ctl + "fetchTail")
	if fn == nil {
		return
	}
	k := "fetchTail:"
	nf := r.OneCall(fn, k+"options", "scanner.NewFetcher")
	if nf == nil {
		return
	}
	fo := baseAlloc(CallArgs(nf)[1])
	if fo == nil {
		r.Fail(k+"options", r.Where(nf), "undecided: fetcher options "+r.D.D(CallArgs(nf)[1])+" are not a local copy")
		return
	}
	// the options may be prepared in one local and handed over as a copy of it: the rules below
	// then read the local that was copied, up to the point of the copy
	fo = c20CopiedFrom(fn, fo, nf)
	name := r.D.allocName(fo)
	r.ExpectStores(fn, k+"options.base", name, "p0.opts.FetcherOptions", 1)
	size := c20plc + "getRoot(*)" + c20RootShape(r, false).size
	starts := r.StoresTo(fn, "&("+name+".StartIndex)")
	ends := r.StoresTo(fn, "&("+name+".EndIndex)")
	conts := r.StoresTo(fn, "&("+name+".Continuous)")
	// fitting the end of the range to the verified tree size (what Prepare does with the Fetcher's
	// options) is no resume decision: those stores are decided by range-end-fit (rules_t8c20.go)
	sthSize := c20SthVal(r) + ".TreeSize"
	fit := c20FitOf(r, fn, fo, sthSize)
	isFit := map[*ssa.Store]bool{}
	for _, st := range fit.fits {
		isFit[st] = true
	}
	if len(fit.fits) > 0 {
		c20FitTable(r, fn, k, fit, sthSize)
	}
	res, err := r.D.Table(fn, nil, nil, []RuleAtom{
		{Name: "cont", Pat: name + ".Continuous"},
		{Name: "neg", OrdA: name + ".StartIndex", OrdB: "0"},
		{Name: "beg", OrdA: name + ".StartIndex", OrdB: "p2"},
	}, func(val map[string]string, reach *Reach, s Sigma) {
		var st, en, co []string
		// what each store that may execute writes on this walk (a store that only writes back the
		// field's current content, as `f = max(f, b)` does when f is the larger, writes nothing)
		for _, x := range starts {
			if reach.Has(x) {
				st = append(st, c20StoredUnder(r, x, reach)...)
			}
		}
		for _, x := range ends {
			if reach.Has(x) && !isFit[x] {
				en = append(en, c20StoredUnder(r, x, reach)...)
			}
		}
		for _, x := range conts {
			if reach.Has(x) {
				co = append(co, c20StoredUnder(r, x, reach)...)
			}
		}
		has := func(l []string, g string) bool {
			for _, x := range l {
				if glob(g, x) {
					return true
				}
			}
			return false
		}
		key := fmt.Sprintf("%sresume[continuous=%s,start?0=%s,start?begin=%s]", k, val["cont"], val["neg"], val["beg"])
		wantSize := val["cont"] == "T" || val["neg"] == "<"
		wantBegin := val["beg"] == "<"
		ok := has(st, size) == wantSize && has(st, "p2") == wantBegin
		for _, x := range st {
			if !glob(size, x) && x != "p2" {
				ok = false
			}
		}
		if val["cont"] == "T" {
			ok = ok && len(en) == 1 && en[0] == "0" && len(co) == 1 && co[0] == "false"
		} else {
			ok = ok && len(en) == 0 && len(co) == 0
		}
		r.Check(key, ok, r.FnPos(fn), fmt.Sprintf("StartIndex ← %v, EndIndex ← %v, Continuous ← %v (statement: tree size iff continuous or negative start; begin iff begin > start; continuous ⇒ EndIndex 0 and a one-shot fetcher; stores that fit EndIndex to the verified tree size are decided by range-end-fit)", st, en, co))
	})
	if err != nil {
		r.Fail(k+"resume", r.FnPos(fn), "undecided: "+err.Error())
	} else {
		r.Valuations += res.Valuations
	}
	if run := r.Fn(c20ctl + "Run"); run != nil {
		calls := CallsTo(run, c20ctl+"fetchTail")
		r.Floor("fetchTail passes in Run", len(calls), 2)
		for _, c := range calls {
			arg := CallArgs(c)[2]
			if r.D.D(arg) == "0" {
				r.Pass("Run:first-pass", r.Where(c), "the first pass starts from begin = 0")
				continue
			}
			ok := true
			var visit func(v ssa.Value, depth int)
			visit = func(v ssa.Value, depth int) {
				if depth > 4 {
					return
				}
				switch x := v.(type) {
				case *ssa.Phi:
					for _, e := range x.Edges {
						visit(e, depth+1)
					}
				case *ssa.Extract:
					call, isCall := x.Tuple.(*ssa.Call)
					if !isCall || x.Index != 0 || CalleeOf(call) != c20ctl+"fetchTail" {
						ok = false
					}
				default:
					ok = false
				}
			}
			visit(arg, 0)
			r.Check("Run:position-threaded", ok, r.Where(c), "each further pass begins at the position the previous pass returned: "+r.D.D(arg))
		}
		r.ErrorsGate(run, "Run:errors", c20ctl+"fetchTail", 2)
	}
}
