package main

// Round 5 (twins): the facts of C06.R4, C07.R2, C07.R5 and C08.R2–R4 that used to be anchored at the helper functions
// rpcGetLeavesByRange, rpcGetEntryAndProof and marshalGetEntriesResponse are stated on "the function that issues the
// RPC" and "the function in which the entries are built" — whether that is a helper the handler calls or the handler
// itself.

import (
	"fmt"
	"go/token"
	"go/types"
	"regexp"
	"strconv"
	"strings"

	"golang.org/x/tools/go/ssa"
)

const backendClient = "iface(trillian.TrillianLogClient)."
const fixLeafCall = "iface(trillian/ctfe.leafChainBuilder).FixLogLeaf"

func inCtfePkg(fn *ssa.Function) bool {
	pk := fnPkg(fn)
	return pk != nil && ShortPkg(pk.Path()) == "trillian/ctfe" && len(fn.Blocks) > 0
}

// backendFetch is the one place a read handler obtains the backend's reply to one RPC from.
type backendFetch struct {
	fn     *ssa.Function       // the handler
	h      *ssa.Function       // the function issuing the RPC: fn itself, or the one function of the package fn calls for it
	call   ssa.CallInstruction // the call fn → h (nil when h == fn)
	rpc    ssa.CallInstruction // the RPC in h
	method string
}

// c06BackendFetch locates the fetch of the backend's reply to RPC `method` in handler fn: exactly one site — the
// RPC itself, or one call of a function of the package that issues it (exactly once).  nil ⇒ undecided (recorded).
func c06BackendFetch(r *Run, fn *ssa.Function, key, method string) *backendFetch {
	f := c06FindFetch(fn, method)
	if f == nil {
		n := len(c06FetchSites(fn, method))
		r.Fail(key, r.FnPos(fn), fmt.Sprintf("expected exactly one fetch of the backend's %s reply in %s (the RPC itself or one call of the function issuing it), found %d", method, FuncName(fn), n))
		return nil
	}
	r.Funcs[FuncName(f.h)] = true
	if f.call == nil {
		r.Pass(key, r.Where(f.rpc), FuncName(fn)+" issues "+method+" itself, once")
	} else {
		r.Pass(key, r.Where(f.call), FuncName(fn)+" obtains the reply by one call of "+FuncName(f.h)+", which issues "+method+" once")
	}
	return f
}

func c06FetchSites(fn *ssa.Function, method string) []ssa.CallInstruction {
	rpcName := backendClient + method
	sites := append([]ssa.CallInstruction{}, CallsTo(fn, rpcName)...)
	eachInstr(fn, func(in ssa.Instruction) {
		ci, ok := in.(ssa.CallInstruction)
		if !ok {
			return
		}
		if g := ci.Common().StaticCallee(); g != nil && g != fn && inCtfePkg(g) && len(CallsTo(g, rpcName)) > 0 {
			sites = append(sites, ci)
		}
	})
	return sites
}

// c06FindFetch is c06BackendFetch without obligations (nil when there is not exactly one site).
func c06FindFetch(fn *ssa.Function, method string) *backendFetch {
	sites := c06FetchSites(fn, method)
	if len(sites) != 1 {
		return nil
	}
	f := &backendFetch{fn: fn, method: method}
	if CalleeOf(sites[0]) == backendClient+method {
		f.h, f.rpc = fn, sites[0]
		return f
	}
	f.call = sites[0]
	f.h = f.call.Common().StaticCallee()
	rpcs := CallsTo(f.h, backendClient+method)
	if len(rpcs) != 1 {
		return nil
	}
	f.rpc = rpcs[0]
	return f
}

// reply: glob of the origin term of the backend's reply in the handler's frame.
func (f *backendFetch) reply() string {
	if f.call == nil {
		return f.replyH()
	}
	return FuncName(f.h) + "(*)#0"
}

// replyH: the same in the frame of the function issuing the RPC.
func (f *backendFetch) replyH() string { return backendClient + f.method + "(*)#0" }

// errTerm / statusTerm: globs of the error and the status the handler receives from the fetch when it is done by a
// helper (results n-1 and n-2 of the helper).
func (f *backendFetch) errTerm() string {
	if f.call == nil {
		return backendClient + f.method + "(*)#1"
	}
	return fmt.Sprintf("%s(*)#%d", FuncName(f.h), f.h.Signature.Results().Len()-1)
}

func (f *backendFetch) statusTerm() string {
	return fmt.Sprintf("%s(*)#%d", FuncName(f.h), f.h.Signature.Results().Len()-2)
}

// toCaller renders an origin term of h's frame in the handler's frame.
func (f *backendFetch) toCaller(r *Run, term string) string {
	if f.call == nil {
		return term
	}
	var args []string
	for _, a := range CallArgs(f.call) {
		args = append(args, r.D.D(a))
	}
	return c06SubstParams(term, args)
}

// request: the value, in the handler, of the request message the RPC receives — the RPC's argument, or the
// handler's argument for the parameter the helper hands to the RPC unchanged.
func (f *backendFetch) request(r *Run, key string) ssa.Value {
	req := CallArgs(f.rpc)[2]
	if f.call == nil {
		return req
	}
	if p, ok := req.(*ssa.Parameter); ok {
		for i, q := range f.h.Params {
			if q == p && i < len(CallArgs(f.call)) {
				return CallArgs(f.call)[i]
			}
		}
	}
	r.Fail(key, r.Where(f.rpc), "undecided: the request "+r.D.D(req)+" sent by "+FuncName(f.h)+" is not the request its caller built")
	return nil
}

// relays: the reply the handler works on is the backend's reply to its own request on this log's client.
//   - the RPC is sent on <li>.rpcClient (rendered in the handler's frame);
//   - when a helper issues it: the context it sends is the one it was given, and each of its success returns hands
//     out result 0 of that very RPC.
func (f *backendFetch) relays(r *Run, key, li string) {
	client := f.toCaller(r, r.D.D(CallArgs(f.rpc)[0]))
	r.Check(key+":client", client == li+".rpcClient", r.Where(f.rpc), fmt.Sprintf("%s is sent on %s (expected %s.rpcClient: this log's backend client)", f.method, client, li))
	if f.call == nil {
		return
	}
	_, isParam := CallArgs(f.rpc)[1].(*ssa.Parameter)
	r.Check(key+":context", isParam, r.Where(f.rpc), "the RPC runs under the caller's context: "+r.D.D(CallArgs(f.rpc)[1]))
	n := 0
	for _, ret := range Returns(f.h) {
		if k := len(ret.Results); k == 0 || errKind(ret.Results[k-1]) != "nil" {
			continue
		}
		n++
		ex, ok := ret.Results[0].(*ssa.Extract)
		r.Check(key+":returns-reply", ok && ex.Index == 0 && ex.Tuple == f.rpc.Value(), r.Where(ret), "returns the backend's reply for the caller's request: "+r.D.D(ret.Results[0]))
	}
	if n == 0 {
		r.Fail(key+":returns-reply", r.FnPos(f.h), "undecided: "+FuncName(f.h)+" has no success return")
	}
}

var itRe = regexp.MustCompile(`\[it@(\d+)\]`)

// chainRestored decides, on the function h issuing the RPC: an entry whose issuance chain is kept outside the backend
// is only relayed after FixLogLeaf restored it, and never when that failed.
//   - a FixLogLeaf call receives the reply's leaf (<reply>.Leaf) resp. the element <reply>.Leaves[i] of a loop over
//     i < len(<reply>.Leaves);
//   - its error blocks every success return of h (ErrorsGate, key);
//   - single leaf: with the leaf present, no use of the reply's extra data and no success return of h can execute
//     without the call having been passed (key:before-use);
//   - leaves: inside the loop no path reaches the next leaf or a return around the call (key:every-leaf), and every
//     use of a leaf's extra data and every success return comes after the loop has run to its end — or, for the
//     leaf of the same iteration, after the call (key:before-use).
//
// Uses are: loads of <leaf>.ExtraData, calls handing the reply's leaves to a function of the module (other than
// FixLogLeaf), success returns of h.
func (f *backendFetch) chainRestored(r *Run, key string) {
	h, R := f.h, f.replyH()
	var fixes []ssa.CallInstruction
	list := false
	for _, c := range CallsTo(h, fixLeafCall) {
		a := CallArgs(c)
		if len(a) < 3 {
			continue
		}
		switch leaf := r.D.D(a[2]); {
		case glob(R+".Leaf", leaf):
			fixes = append(fixes, c)
		case glob(R+".Leaves[it@*]", leaf) && strings.Count(leaf, "it@") == 1:
			fixes = append(fixes, c)
			list = true
		}
	}
	if len(fixes) == 0 {
		r.Fail(key, r.Where(f.rpc), fmt.Sprintf("%s issues %s and relays the leaf data of the reply, but no FixLogLeaf call receives a leaf of that reply: with issuance chains kept outside the backend, extra_data is served in its stored hash form and no longer decodes to the submitted chain", FuncName(h), f.method))
		return
	}
	r.ErrorsGate(h, key, fixLeafCall, 1)

	// the uses of the reply's leaf data in h
	var uses []ssa.Instruction
	eachInstr(h, func(in ssa.Instruction) {
		switch x := in.(type) {
		case *ssa.UnOp:
			if x.Op == token.MUL {
				if d := r.D.D(x); glob(R+".Leaf.ExtraData", d) || glob(R+".Leaves[*].ExtraData", d) {
					uses = append(uses, in)
				}
			}
		case ssa.CallInstruction:
			g := x.Common().StaticCallee()
			if g == nil || !r.P.AllFuncs[g] || len(g.Blocks) == 0 || fnPkg(g) == nil || !strings.HasPrefix(fnPkg(g).Path(), ModPath) {
				return
			}
			for _, a := range CallArgs(x) {
				if d := r.D.D(a); glob(R, d) || glob(R+".Leaf", d) || glob(R+".Leaves", d) || glob(R+".Leaves[*]", d) {
					uses = append(uses, in)
					break
				}
			}
		}
	})
	uses = append(uses, successReturns(h)...)
	isFixBlock := map[*ssa.BasicBlock]bool{}
	for _, c := range fixes {
		isFixBlock[c.Block()] = true
	}
	afterFixInBlock := func(u ssa.Instruction) bool {
		for _, c := range fixes {
			if c.Block() == u.Block() && instrIdx(c) < instrIdx(u) {
				return true
			}
		}
		return false
	}

	if !list {
		// with the leaf present, nothing is used and nothing succeeds around the call
		s := Sigma{}
		for k := range r.D.AtomsOf(h) {
			if glob("nil?"+R+".Leaf", k) {
				s[k] = "non"
			}
		}
		reach := r.D.Walk(h, s, f.rpc.Block(), isFixBlock)
		r.Valuations++
		ok, detail := true, fmt.Sprintf("with a leaf present, none of the %d uses of the reply's leaf data / success returns of %s can execute before FixLogLeaf restored the leaf's chain", len(uses), FuncName(h))
		for _, u := range uses {
			switch {
			case isFixBlock[u.Block()]:
				if !afterFixInBlock(u) {
					ok, detail = false, "the leaf data is used at "+r.Where(u)+" before FixLogLeaf is called on the leaf"
				}
			case reach.Has(u):
				ok, detail = false, fmt.Sprintf("with a leaf present, %s can execute without FixLogLeaf having been called on the leaf: extra_data is relayed in its stored (hash) form", r.Where(u))
			}
		}
		r.Check(key+":before-use", ok, r.Where(fixes[0]), detail)
		return
	}

	// the loop over the reply's leaves
	okAll, okUse := true, true
	dAll := "inside the loop over the reply's leaves no path reaches the next leaf or a return around FixLogLeaf"
	dUse := fmt.Sprintf("all %d uses of the leaves' data / success returns of %s come after every leaf went through FixLogLeaf", len(uses), FuncName(h))
	for _, c := range fixes {
		m := itRe.FindStringSubmatch(r.D.D(CallArgs(c)[2]))
		n, _ := strconv.Atoi(m[1])
		if n >= len(h.Blocks) {
			okAll, dAll = false, "undecided: loop header of "+m[0]+" not found"
			continue
		}
		H := h.Blocks[n]
		ifi, isIf := H.Instrs[len(H.Instrs)-1].(*ssa.If)
		bounded := false
		if isIf {
			ci := r.D.Classify(ifi.Cond)
			it := "it@" + m[1]
			bounded = ci.Kind == "ord" && (ci.A == it && glob("len("+R+".Leaves)", ci.B) || ci.B == it && glob("len("+R+".Leaves)", ci.A))
		}
		if !bounded {
			okAll, dAll = false, "undecided: the loop calling FixLogLeaf at "+r.Where(c)+" is not a loop over i < len(reply.Leaves)"
			continue
		}
		body, exit := 0, 1
		if !H.Succs[0].Dominates(c.Block()) {
			body, exit = 1, 0
		}
		if !H.Succs[body].Dominates(c.Block()) || H.Succs[exit].Dominates(c.Block()) {
			okAll, dAll = false, "undecided: shape of the loop calling FixLogLeaf at "+r.Where(c)
			continue
		}
		if H.Succs[body] != c.Block() {
			reach := r.D.Walk(h, Sigma{}, H.Succs[body], map[*ssa.BasicBlock]bool{c.Block(): true})
			r.Valuations++
			if reach.Blocks[H] {
				okAll, dAll = false, "an iteration of the loop around the FixLogLeaf call at "+r.Where(c)+" can reach the next leaf without calling FixLogLeaf: that leaf's extra_data is relayed in its stored (hash) form"
			}
			for _, ret := range successReturns(h) {
				if reach.Has(ret) {
					okAll, dAll = false, "an iteration of the loop around the FixLogLeaf call at "+r.Where(c)+" can reach a success return without calling FixLogLeaf"
				}
			}
		}
		for _, u := range uses {
			if edgeDominates(H, exit, u.Block()) {
				continue
			}
			// the leaf of the same iteration, after the call
			if v, isVal := u.(ssa.Value); isVal && c06InstrDominates(c, u) && strings.Contains(r.D.D(v), "["+"it@"+m[1]+"]") {
				continue
			}
			okUse, dUse = false, r.Where(u)+" can execute before every leaf of the reply went through FixLogLeaf: extra_data may be relayed in its stored (hash) form"
		}
	}
	r.Check(key+":every-leaf", okAll, r.Where(fixes[0]), dAll)
	r.Check(key+":before-use", okUse, r.Where(fixes[0]), dUse)
}

// ---- C07.R5: where the entries of a get-entries response are built ------------------------------------------------------

// entriesBuilder: the function in which ct.LeafEntry values are filled from the reply's leaves.
type entriesBuilder struct {
	b      *ssa.Function       // the handler itself or the one function it hands the leaves to
	call   ssa.CallInstruction // handler → b (nil when b is the handler)
	leaves string              // origin term (glob) of the leaves in b's frame
}

// c07FindEntriesBuilder: b is the handler when it stores into LeafEntry values itself; otherwise the one static
// callee of the package that receives <reply>.Leaves (or the reply) and does.
func c07FindEntriesBuilder(r *Run, fn *ssa.Function, f *backendFetch) *entriesBuilder {
	builds := func(g *ssa.Function) bool { return len(r.StoresTo(g, "&(new:ct.LeafEntry#*.LeafInput)")) > 0 }
	var out []*entriesBuilder
	if builds(fn) {
		out = append(out, &entriesBuilder{b: fn, leaves: f.reply() + ".Leaves"})
	}
	eachInstr(fn, func(in ssa.Instruction) {
		ci, ok := in.(ssa.CallInstruction)
		if !ok {
			return
		}
		g := ci.Common().StaticCallee()
		if g == nil || g == fn || !inCtfePkg(g) || !builds(g) {
			return
		}
		for i, a := range CallArgs(ci) {
			switch d := r.D.D(a); {
			case glob(f.reply()+".Leaves", d):
				out = append(out, &entriesBuilder{b: g, call: ci, leaves: fmt.Sprintf("p%d", i)})
			case glob(f.reply(), d):
				out = append(out, &entriesBuilder{b: g, call: ci, leaves: fmt.Sprintf("p%d.Leaves", i)})
			}
		}
	})
	if len(out) != 1 {
		return nil
	}
	return out[0]
}

// c07Entries decides C07.R5 for get-entries wherever the loop lives: entry i of the JSON body is
// {leaf_input ← leaves[i].LeafValue, extra_data ← leaves[i].ExtraData} of one and the same leaf of the backend's
// reply, the entries are appended one by one to the list accumulated so far (slice order), and the list serialised
// is that accumulated list as it is when the loop has ended.
func c07Entries(r *Run, fn *ssa.Function, f *backendFetch) {
	eb := c07FindEntriesBuilder(r, fn, f)
	if eb == nil {
		r.Fail("getEntries:marshal", r.FnPos(fn), "undecided: expected exactly one place where ct.LeafEntry values are built from the reply's leaves (in "+FuncName(fn)+" or in one function it hands "+f.reply()+".Leaves to)")
		return
	}
	b, L := eb.b, eb.leaves
	r.Funcs[FuncName(b)] = true
	where := "in " + FuncName(b)
	if eb.call != nil {
		r.Pass("getEntries:marshal", r.Where(eb.call), "entries are built "+where+" from the leaves of the backend's reply")
	} else {
		r.Pass("getEntries:marshal", r.FnPos(fn), "entries are built in the handler itself from the leaves of the backend's reply")
	}
	r.ExpectStores(b, "marshal:leaf_input", "&(new:ct.LeafEntry#*.LeafInput)", L+"[it@*].LeafValue", 1)
	r.ExpectStores(b, "marshal:extra_data", "&(new:ct.LeafEntry#*.ExtraData)", L+"[it@*].ExtraData", 1)
	li := r.StoresTo(b, "&(new:ct.LeafEntry#*.LeafInput)")
	ed := r.StoresTo(b, "&(new:ct.LeafEntry#*.ExtraData)")
	if len(li) != 1 || len(ed) != 1 {
		r.Fail("marshal:same-leaf", r.FnPos(b), fmt.Sprintf("undecided: %d / %d stores to LeafEntry.LeafInput / ExtraData", len(li), len(ed)))
		return
	}
	x, y := r.D.D(li[0].Val), r.D.D(ed[0].Val)
	same := strings.HasSuffix(x, ".LeafValue") && strings.HasSuffix(y, ".ExtraData") && strings.TrimSuffix(x, "LeafValue") == strings.TrimSuffix(y, "ExtraData") && addrBase(li[0].Addr) == addrBase(ed[0].Addr)
	r.Check("marshal:same-leaf", same, r.Where(li[0]), "leaf_input and extra_data of one entry come from the same backend leaf: "+x+" / "+y)
	entry := addrBase(li[0].Addr)
	if entry == nil {
		r.Fail("marshal:elem", r.Where(li[0]), "undecided: the entry is not built in a local")
		return
	}
	// the one append of that entry
	var app *ssa.Call
	nApp := 0
	for _, c := range CallsTo(b, "append") {
		a := CallArgs(c)
		if len(a) == 2 && glob("new:[1]ct.LeafEntry#*[:]", r.D.D(a[1])) {
			nApp++
			app, _ = c.(*ssa.Call)
		}
	}
	if nApp != 1 || app == nil {
		r.Fail("marshal:append", r.FnPos(b), fmt.Sprintf("expected exactly one append of a single ct.LeafEntry in %s, found %d", FuncName(b), nApp))
		return
	}
	var one *ssa.Alloc
	if sl, ok := CallArgs(app)[1].(*ssa.Slice); ok {
		one = baseAlloc(sl.X)
	}
	okElem := false
	if one != nil {
		sts := r.StoresTo(b, "&("+r.D.allocName(one)+"[0])")
		okElem = len(sts) == 1 && r.D.D(sts[0].Val) == "*"+r.D.allocName(entry) && c06InstrDominates(li[0], sts[0]) && c06InstrDominates(ed[0], sts[0]) && c06InstrDominates(sts[0], app)
	}
	r.Check("marshal:elem", okElem, r.Where(app), "the element appended is the entry just filled")
	// the accumulator: a memory cell the result of append is stored back into, or the value carried round the loop
	accAddr := ""
	var accStore *ssa.Store
	for _, ref := range *app.Referrers() {
		if st, ok := ref.(*ssa.Store); ok && st.Val == ssa.Value(app) {
			accAddr, accStore = r.D.D(st.Addr), st
		}
	}
	accCell, _ := stripAddr(accAddr)
	isAcc := func(v ssa.Value) bool {
		hit := false
		for _, leaf := range phiLeaves(v) {
			switch {
			case leaf == ssa.Value(app):
				hit = true
			case isNilConst(leaf):
			case accCell != "" && r.D.D(leaf) == accCell:
				hit = true
			default:
				return false
			}
		}
		return hit
	}
	okApp := isAcc(CallArgs(app)[0])
	if accAddr != "" {
		for _, st := range r.StoresTo(b, accAddr) {
			if st != accStore && !isNilConst(st.Val) {
				okApp = false
			}
		}
	}
	r.Check("marshal:append", okApp, r.Where(app), "each entry is appended to the list accumulated so far: append("+r.D.D(CallArgs(app)[0])+", entry)")
	// the loop the entries are built in, and its exit
	m := itRe.FindStringSubmatch(x)
	var H *ssa.BasicBlock
	exit := -1
	if m != nil {
		if n, _ := strconv.Atoi(m[1]); n < len(b.Blocks) {
			H = b.Blocks[n]
			if len(H.Succs) == 2 {
				switch {
				case H.Succs[0].Dominates(app.Block()) && !H.Succs[1].Dominates(app.Block()):
					exit = 1
				case H.Succs[1].Dominates(app.Block()) && !H.Succs[0].Dominates(app.Block()):
					exit = 0
				}
			}
		}
	}
	if exit < 0 {
		r.Fail("marshal:returns-response", r.Where(app), "undecided: the loop in which the entries are appended was not found")
		return
	}
	afterLoop := func(in ssa.Instruction) bool { return edgeDominates(H, exit, in.Block()) }
	// what is served: the JSON body's Entries
	j := r.OneCall(fn, "getEntries:json", "json.Marshal")
	if j == nil {
		return
	}
	body := baseAlloc(c06Built(CallArgs(j)[0], j))
	if body == nil {
		r.Fail("getEntries:json.value", r.Where(j), "undecided: the JSON body "+r.D.D(CallArgs(j)[0])+" is not built in a local")
		return
	}
	bodyName := r.D.allocName(body)
	if eb.call == nil {
		// built in the handler: the body's Entries is the accumulator cell itself, or is assigned the accumulated
		// list after the loop
		ok, detail := false, ""
		if accCell == bodyName+".Entries" {
			ok, detail = afterLoop(j), "the list is accumulated in the body's Entries and serialised after the loop"
		} else {
			sts := r.StoresTo(fn, "&("+bodyName+".Entries)")
			ok = len(sts) >= 1
			for _, st := range sts {
				if !isAcc(st.Val) || !afterLoop(st) || !c06InstrDominates(st, j) {
					ok = false
				}
				detail = "Entries ← " + r.D.D(st.Val)
			}
			if whole := r.StoresTo(fn, bodyName); len(whole) > 0 {
				ok, detail = false, "the body is overwritten as a whole"
			}
		}
		r.Check("getEntries:json.value", ok, r.Where(j), "the JSON body's Entries is the list accumulated by the loop, complete: "+detail)
	} else {
		// built in a function the handler calls: it returns the accumulated list (or the response holding it)
		// after the loop, and the handler serialises that result
		res := FuncName(b) + "(*)#0"
		asStruct := false
		nOK := 0
		for _, ret := range Returns(b) {
			if k := len(ret.Results); k == 0 || errKind(ret.Results[k-1]) != "nil" && k > 1 {
				continue
			}
			nOK++
			v := ret.Results[0]
			good := false
			if a := baseAlloc(v); a != nil && accCell == r.D.allocName(a)+".Entries" && r.D.D(v) == "*"+r.D.allocName(a) {
				good, asStruct = true, true
			} else if isAcc(v) {
				good = true
			}
			r.Check("marshal:returns-response", good && afterLoop(ret), r.Where(ret), "returns the list built in the loop, after the loop: "+r.D.D(v))
		}
		if nOK == 0 {
			r.Fail("marshal:returns-response", r.FnPos(b), "undecided: no success return")
		}
		wantArg := f.reply() + ".Leaves"
		if strings.HasSuffix(L, ".Leaves") {
			wantArg = f.reply()
		}
		r.ExpectArg(eb.call, "getEntries:marshal.leaves", argIndexOf(eb), wantArg)
		ok := false
		detail := ""
		if asStruct {
			for _, st := range r.StoresTo(fn, bodyName) {
				ok = glob(res, r.D.D(st.Val))
				detail = bodyName + " ← " + r.D.D(st.Val)
			}
		} else {
			sts := r.StoresTo(fn, "&("+bodyName+".Entries)")
			ok = len(sts) >= 1
			for _, st := range sts {
				if !glob(res, r.D.D(st.Val)) {
					ok = false
				}
				detail = "Entries ← " + r.D.D(st.Val)
			}
		}
		r.Check("getEntries:json.value", ok, r.Where(j), "the JSON body is the response returned by "+FuncName(b)+": "+detail)
	}
	if w := r.OneCall(fn, "getEntries:write", "iface(http.ResponseWriter).Write"); w != nil {
		r.ExpectArg(w, "getEntries:write.body", 1, "json.Marshal(*)#0")
	}
}

func argIndexOf(eb *entriesBuilder) int {
	n := 0
	fmt.Sscanf(eb.leaves, "p%d", &n)
	return n
}

// ---- C08.R3: a cause whose test is not the first thing that can go wrong ------------------------------------------------

// c08EdgeEval evaluates an EdgeSpec like FailEdge, without recording: for every block testing the atom, the returns
// that may execute once the condition came out bad.  own[ret] ⇔ ret can only be reached through the bad outcome of
// one of those tests (the return "belongs" to this cause).  strict ⇔ FailEdge would pass.
type c08EdgeResult struct {
	bound      bool
	strict     bool
	rets       map[*ssa.Return]bool // all returns reachable after the failure
	nonOK      map[*ssa.Return]string
	own        map[*ssa.Return]bool
	unreachHit bool
	at         ssa.Instruction
}

func c08EdgeEval(r *Run, fn *ssa.Function, sp EdgeSpec) *c08EdgeResult {
	found := r.D.AtomsOf(fn)
	var bound []string
	flipped := map[string]bool{}
	for _, k := range keysOf(found) {
		ci := found[k]
		if sp.Atom.OrdA != "" {
			if ci.Kind == "ord" {
				if glob(sp.Atom.OrdA, ci.A) && glob(sp.Atom.OrdB, ci.B) {
					bound = append(bound, k)
				} else if glob(sp.Atom.OrdA, ci.B) && glob(sp.Atom.OrdB, ci.A) {
					bound = append(bound, k)
					flipped[k] = true
				}
			}
		} else if glob(sp.Atom.Pat, k) {
			bound = append(bound, k)
		}
	}
	return c08EdgeEvalBound(r, fn, sp, bound, flipped)
}

// c08EdgeEvalBound: the evaluation for atoms already bound — by the glob of sp.Atom (c08EdgeEval) or by a fact about
// the values tested (c08NilTests: the absence tests of a part of the reply, however the part is read).
func c08EdgeEvalBound(r *Run, fn *ssa.Function, sp EdgeSpec, bound []string, flipped map[string]bool) *c08EdgeResult {
	res := &c08EdgeResult{rets: map[*ssa.Return]bool{}, nonOK: map[*ssa.Return]string{}, own: map[*ssa.Return]bool{}}
	found := r.D.AtomsOf(fn)
	if len(bound) == 0 {
		return res
	}
	isBound := map[string]bool{}
	for _, k := range bound {
		isBound[k] = true
	}
	blocks := r.blocksTesting(fn, func(ci *CondInfo) bool { return isBound[ci.Key] })
	if len(blocks) == 0 {
		return res
	}
	res.bound = true
	res.at = blocks[0].Instrs[len(blocks[0].Instrs)-1]
	for _, bad := range strings.Split(sp.Bad, ",") {
		s := Sigma{}
		skip := true
		for _, k := range bound {
			v := bad
			if flipped[k] {
				v = flipRel(bad)
			}
			if !r.D.infeasible(found, k, v) {
				skip = false
			}
			s[k] = v
		}
		if skip {
			continue
		}
		for _, b := range blocks {
			reach := r.D.Walk(fn, s, b, nil)
			r.Valuations++
			// the returns that may also execute when the test came out good
			goodReach := map[*ssa.Return]bool{}
			for _, gv := range domains[found[bound[0]].Kind] {
				if isBad(sp.Bad, gv) {
					continue
				}
				gs := Sigma{}
				for _, k := range bound {
					if flipped[k] {
						gs[k] = flipRel(gv)
					} else {
						gs[k] = gv
					}
				}
				for _, ret := range reachableReturns(fn, r.D.Walk(fn, gs, b, nil)) {
					goodReach[ret] = true
				}
			}
			for _, ret := range reachableReturns(fn, reach) {
				res.rets[ret] = true
				if good, why := sp.Want(r, ret); !good {
					res.nonOK[ret] = why
				}
				if !goodReach[ret] {
					res.own[ret] = true
				}
			}
			for _, m := range sp.Unreach {
				if m.Block() != b && reach.Has(m) {
					res.unreachHit = true
				}
			}
		}
	}
	res.strict = len(res.rets) > 0 && len(res.nonOK) == 0 && !res.unreachHit
	return res
}

// c08EdgeAmongCauses: the cause of sp is tested at a point where another named cause may still intervene (the test
// guards a use of the optional part before the sanity checks): once the condition came out bad,
//   - every return that belongs to this cause alone conforms to sp.Want,
//   - every other return that may execute conforms too, or belongs alone to another cause of the same function whose
//     own edge check holds strictly (its status is the one prescribed for that cause),
//   - at least one reachable return conforms, and no instruction of sp.Unreach executes.
//
// true ⇒ recorded as passed; false ⇒ nothing recorded (the caller falls back to FailEdge, which reports).
func c08EdgeAmongCauses(r *Run, fn *ssa.Function, key string, sp EdgeSpec, me int, all []*c08EdgeResult) bool {
	res := all[me]
	if res == nil || !res.bound || res.strict || res.unreachHit || len(res.rets) == 0 {
		return false
	}
	nConform, nOther := 0, 0
	for ret := range res.rets {
		if _, bad := res.nonOK[ret]; !bad {
			nConform++
			continue
		}
		if res.own[ret] {
			return false
		}
		claimed := false
		for i, o := range all {
			if i != me && o != nil && o.strict && o.own[ret] {
				claimed = true
			}
		}
		if !claimed {
			return false
		}
		nOther++
	}
	if nConform == 0 {
		return false
	}
	r.Pass(key+":"+sp.Name, r.Where(res.at), fmt.Sprintf("%s ⇒ %d reachable returns conform; %d further returns that may execute belong to causes tested later, each with the status prescribed for it", sp.Name, nConform, nOther))
	return true
}

// ---- C08.R2 / R4: instance counts that do not depend on helper boundaries ------------------------------------------------

// c08EntryHandlers: the status-error functions of the package that are used as a value (installed as an endpoint's
// handler) rather than only called.
func c08EntryHandlers(r *Run, fns []*ssa.Function) int {
	is := map[*ssa.Function]bool{}
	for _, f := range fns {
		is[f] = true
	}
	used := map[*ssa.Function]bool{}
	for _, fn := range r.P.ModFuncs {
		if !inCtfePkg(fn) {
			continue
		}
		eachInstr(fn, func(in ssa.Instruction) {
			var callee ssa.Value
			if ci, ok := in.(ssa.CallInstruction); ok && !ci.Common().IsInvoke() {
				callee = ci.Common().Value
			}
			for _, op := range in.Operands(nil) {
				if op == nil || *op == nil {
					continue
				}
				if g, ok := (*op).(*ssa.Function); ok && is[g] && ssa.Value(g) != callee {
					used[g] = true
				}
			}
			if ci, ok := in.(ssa.CallInstruction); ok && callee != nil {
				// the callee operand itself is not a use as a value, but the same function may also be an argument
				for _, a := range ci.Common().Args {
					if g, ok := a.(*ssa.Function); ok && is[g] {
						used[g] = true
					}
				}
			}
		})
	}
	return len(used)
}

// c08DistinctOptionalParts counts the optional parts (message type, field) of backend messages that functions in
// scope use in a way that needs them present (a field selection through the part, a callee that dereferences it) —
// each part once, in however many functions it is used and whether it is read by field load or through an accessor.
func c08DistinctOptionalParts(r *Run, scope func(fn *ssa.Function) bool, msgPkgGlob string) int {
	e := newNilEngine(r)
	parts := map[string]bool{}
	add := func(v ssa.Value) {
		x, fv, ok := e.optionalRead(v) // by field load or through a nil-safe accessor
		if !ok {
			return
		}
		nt := msgNamed(x.Type())
		if nt == nil || nt.Obj().Pkg() == nil || !glob(msgPkgGlob, nt.Obj().Pkg().Path()) {
			return
		}
		parts[nt.Obj().Name()+"."+fv.Name()] = true
	}
	for _, fn := range r.P.ModFuncs {
		if !scope(fn) || len(fn.Blocks) == 0 {
			continue
		}
		eachInstr(fn, func(in ssa.Instruction) {
			switch x := in.(type) {
			case *ssa.FieldAddr:
				add(x.X)
			case ssa.CallInstruction:
				for _, a := range x.Common().Args {
					if _, _, ok := e.optionalRead(a); !ok {
						continue
					}
					if b, _ := e.passesNilTo(x, a, 0); b {
						add(a)
					}
				}
			}
		})
	}
	return len(parts)
}

// c08BackendCalls: the backend calls of fn — the RPCs it issues itself and its calls of functions of the package
// that issue one (whatever they are called).
func c08BackendCalls(fn *ssa.Function) []ssa.CallInstruction {
	out := append([]ssa.CallInstruction{}, CallsTo(fn, backendClient+"*")...)
	eachInstr(fn, func(in ssa.Instruction) {
		ci, ok := in.(ssa.CallInstruction)
		if !ok {
			return
		}
		if g := ci.Common().StaticCallee(); g != nil && g != fn && inCtfePkg(g) && len(CallsTo(g, backendClient+"*")) > 0 {
			out = append(out, ci)
		}
	})
	return out
}

// c08RelayedStatus: sv is the status result of a call to a status-error function of the package (the status a
// function that fetched a backend reply computed next to its error).
func c08RelayedStatus(r *Run, sv ssa.Value) bool {
	ex, ok := sv.(*ssa.Extract)
	if !ok {
		return false
	}
	call, ok := ex.Tuple.(*ssa.Call)
	if !ok {
		return false
	}
	g := call.Call.StaticCallee()
	return g != nil && isStatusErrFunc(r, g) && ex.Index == g.Signature.Results().Len()-2
}

// c08FetchRows: the causes of a read handler that arise where the backend's reply is fetched and in what is done
// with the parts of that reply, stated on the function that issues the RPC.
func c08FetchRows(r *Run, handler, method string) []edgeRow {
	fn := r.P.Func(handler)
	if fn == nil || len(fn.Blocks) == 0 {
		return nil // the handler's other rows record the missing anchor
	}
	f := c06FindFetch(fn, method)
	if f == nil {
		r.Fail(short(handler)+":backend-error", r.FnPos(fn), fmt.Sprintf("undecided: expected exactly one fetch of the backend's %s reply in %s (the RPC itself or one call of the function issuing it), found %d", method, handler, len(c06FetchSites(fn, method))))
		return nil
	}
	h := FuncName(f.h)
	rpc := backendClient + method
	li := strings.TrimSuffix(r.D.D(CallArgs(f.rpc)[0]), ".rpcClient")
	rows := []edgeRow{
		{h, "backend-error", nilAtom(rpc + "(*)#1"), "non", "(*trillian/ctfe.logInfo).toHTTPStatus(" + li + ", " + rpc + "(*)#1)"},
		{h, "fix-leaf-error", nilAtom(fixLeafCall + "(*)"), "non", "500"},
	}
	if f.call != nil {
		// the handler hands on the status the fetching function computed
		rows = append(rows, edgeRow{handler, "backend-or-fix-error", nilAtom(f.errTerm()), "non", f.statusTerm()})
	}
	switch method {
	case "GetLeavesByRange":
		if eb := c07FindEntriesBuilder(r, fn, f); eb != nil && eb.call != nil {
			if n := eb.b.Signature.Results().Len(); n > 0 && types.Identical(eb.b.Signature.Results().At(n-1).Type(), types.Universe.Lookup("error").Type()) {
				rows = append(rows, edgeRow{handler, "marshal-entries-failed", nilAtom(fmt.Sprintf("%s(*)#%d", FuncName(eb.b), n-1)), "non", "500"})
			}
		} else if eb == nil {
			r.Fail(short(handler)+":marshal-entries-failed", r.FnPos(fn), "undecided: the place where the entries are built from the reply's leaves was not found")
		} else {
			r.Pass(short(handler)+":marshal-entries-failed:cannot-arise", r.FnPos(fn), "the entries are built in the handler itself: no separate step whose failure would have to be mapped")
		}
	case "GetEntryAndProof":
		rows = append(rows,
			edgeRow{handler, "leaf-absent", nilAtom(f.reply() + ".Leaf"), "nil", "500"},
			edgeRow{handler, "proof-absent", nilAtom(f.reply() + ".Proof"), "nil", "500"})
	}
	return rows
}
