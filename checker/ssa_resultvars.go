package main

import (
	"go/token"

	"golang.org/x/tools/go/ssa"
)

// Result variables of functions with deferred calls (round 8).
//
// In a function that defers a call go/ssa keeps the results in memory: every `return x` becomes
// "store r <- x; rundefers; return *r", and a *recover block* is added that returns whatever the
// result variables hold ("return *r") — the way out of the function when a deferred call recovers
// from a panic.  Rules read `ret.Results[i]` and enumerate `Returns(fn)`; on such a function they
// saw every result as an opaque load and one extra return in no source statement.  Adding
// `defer mu.Unlock()` or a deferred hand-back of a pooled buffer to a function changes nothing
// about what its return statements deliver, so the two facts are decided here, once, right after
// the SSA form is built:
//
//  1. **what a return delivers**: the operand `*r` of a return is the value stored into r last
//     before it in the return's own block, provided r is a *private* result variable — its only
//     uses are whole stores and loads (it is not captured by a function literal, its address is not
//     taken otherwise), so nothing that runs between the store and the load — the deferred calls
//     included — can change it.  The operand is replaced by that value.  A named result assigned
//     elsewhere and returned by a bare `return`, or one a deferred literal may write, stays a load
//     (undecided for the rules, as before).
//
//  2. **the recover block executes only when a deferred call recovers**: `recover()` has an effect
//     only when called directly by the deferred function.  When every deferred call of the function
//     has a known callee with a body that does not call the builtin, the recover block is dead:
//     it is recorded in deadRecover and left out by Returns.  A deferred function value / interface
//     method / body-less callee may recover: the block stays a return (fail closed).
//
// When the recover block is dead and every load of a private result variable was replaced, the
// stores into it are dead as well and are removed (rules that look at "stores on an error path" do
// not see bookkeeping the source does not contain).

// deadRecover: recover blocks that cannot execute (no deferred call of the function recovers).
var deadRecover = map[*ssa.BasicBlock]bool{}

func resolveResultVariables(fns []*ssa.Function) {
	seen := map[*ssa.Function]bool{}
	var visit func(fn *ssa.Function)
	visit = func(fn *ssa.Function) {
		if fn == nil || seen[fn] {
			return
		}
		seen[fn] = true
		resolveResultVariablesOf(fn)
		for _, af := range fn.AnonFuncs {
			visit(af)
		}
	}
	for _, fn := range fns {
		visit(fn)
	}
}

// callsRecoverBuiltin: the body of f calls recover() itself (unknown body: may).
func callsRecoverBuiltin(f *ssa.Function) bool {
	if f == nil || len(f.Blocks) == 0 {
		return true
	}
	for _, b := range f.Blocks {
		for _, in := range b.Instrs {
			if ci, ok := in.(ssa.CallInstruction); ok {
				if bi, isB := ci.Common().Value.(*ssa.Builtin); isB && bi.Name() == "recover" {
					return true
				}
			}
		}
	}
	return false
}

// mayRecover: some deferred call of fn may stop a panic.
func mayRecover(fn *ssa.Function) bool {
	for _, b := range fn.Blocks {
		for _, in := range b.Instrs {
			d, ok := in.(*ssa.Defer)
			if !ok {
				continue
			}
			if bi, isB := d.Call.Value.(*ssa.Builtin); isB {
				if bi.Name() == "recover" {
					return true // `defer recover()` itself does not recover, but nobody writes it by accident: undecided
				}
				continue // close, delete, print …: no recover
			}
			if d.Call.IsInvoke() || callsRecoverBuiltin(d.Call.StaticCallee()) {
				return true
			}
		}
	}
	return false
}

// privateResultVar: the only uses of a are whole stores into it and whole loads of it.
func privateResultVar(a *ssa.Alloc) bool {
	refs := a.Referrers()
	if refs == nil {
		return false
	}
	for _, ref := range *refs {
		switch x := ref.(type) {
		case *ssa.DebugRef:
		case *ssa.Store:
			if x.Addr != ssa.Value(a) || x.Val == ssa.Value(a) {
				return false
			}
		case *ssa.UnOp:
			if x.Op != token.MUL {
				return false
			}
		default:
			return false
		}
	}
	return true
}

func dropReferrer(v ssa.Value, in ssa.Instruction) {
	refs := v.Referrers()
	if refs == nil {
		return
	}
	out := (*refs)[:0]
	dropped := false
	for _, x := range *refs {
		if x == in && !dropped {
			dropped = true
			continue
		}
		out = append(out, x)
	}
	*refs = out
}

func addReferrer(v ssa.Value, in ssa.Instruction) {
	if refs := v.Referrers(); refs != nil {
		*refs = append(*refs, in)
	}
}

func removeInstr(in ssa.Instruction) {
	b := in.Block()
	out := b.Instrs[:0]
	for _, x := range b.Instrs {
		if x != in {
			out = append(out, x)
		}
	}
	for i := len(out); i < len(b.Instrs); i++ {
		b.Instrs[i] = nil
	}
	b.Instrs = out
}

func resolveResultVariablesOf(fn *ssa.Function) {
	if fn.Recover == nil || len(fn.Blocks) == 0 {
		return
	}
	dead := !mayRecover(fn)
	if dead {
		deadRecover[fn.Recover] = true
	}
	unresolved := map[*ssa.Alloc]bool{} // result variables still read by a return outside the recover block
	touched := map[*ssa.Alloc]bool{}
	for _, b := range fn.Blocks {
		if b == fn.Recover || len(b.Instrs) == 0 {
			continue
		}
		ret, ok := b.Instrs[len(b.Instrs)-1].(*ssa.Return)
		if !ok {
			continue
		}
		for i, v := range ret.Results {
			ld, ok := v.(*ssa.UnOp)
			if !ok || ld.Op != token.MUL {
				continue
			}
			a, ok := ld.X.(*ssa.Alloc)
			if !ok || a.Parent() != fn {
				continue
			}
			if !privateResultVar(a) || ld.Block() != b {
				unresolved[a] = true
				continue
			}
			var last *ssa.Store
			for _, in := range b.Instrs {
				if in == ssa.Instruction(ld) {
					break
				}
				if st, isSt := in.(*ssa.Store); isSt && st.Addr == ssa.Value(a) {
					last = st
				}
			}
			if last == nil {
				unresolved[a] = true
				continue
			}
			ret.Results[i] = last.Val
			dropReferrer(ld, ret)
			addReferrer(last.Val, ret)
			touched[a] = true
			if refs := ld.Referrers(); refs != nil && len(*refs) == 0 {
				dropReferrer(a, ld)
				removeInstr(ld)
			}
		}
	}
	if !dead {
		return
	}
	// the variables are read only in the dead recover block now: their stores are bookkeeping
	for a := range touched {
		if unresolved[a] {
			continue
		}
		onlyDeadLoads := true
		var stores []*ssa.Store
		for _, ref := range *a.Referrers() {
			switch x := ref.(type) {
			case *ssa.Store:
				stores = append(stores, x)
			case *ssa.UnOp:
				if x.Block() != fn.Recover {
					onlyDeadLoads = false
				}
			}
		}
		if !onlyDeadLoads {
			continue
		}
		for _, st := range stores {
			dropReferrer(a, st)
			dropReferrer(st.Val, st)
			removeInstr(st)
		}
	}
}
