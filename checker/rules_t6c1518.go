package main

import (
	"fmt"
	"go/constant"
	"go/token"
	"go/types"
	"os"
	"strconv"
	"strings"

	"golang.org/x/tools/go/ssa"
)

// Round 6 (twins of the round-3 e seeds), C15 and C18.
//
// C15.R2  "a usable external-storage connection string … (for example a connection string without a scheme
//         separator)".  Until now the only thing standing for the separator clause was the C15.R1 floor "one
//         constant index on a library call's result" (the parts[1] behind `len(parts) < 2`): a count of a
//         syntactic site.  It is restated as the two facts it protected:
//
//           * the clause itself (round 7: c15ConnStrings in rules_t7c15cfg.go): with CTFE storage selected and a mysql connection string
//             that does not contain "://", no accepting return of the validator can execute — decided by
//             valuating every branch condition whose outcome that fact fixes, whatever the presence test is
//             written with (len(strings.Split(s, "://")) against a constant, the `found` result of
//             strings.Cut, strings.Contains, strings.Index / LastIndex / Count against a constant, an empty
//             remainder) — and with the separator present the accepting return is reachable again;
//           * totality (c15ParserInputs, C15.R1): every string handed to a storage driver's parser is derived
//             from a field of the configuration by steps that cannot fail, or by a constant index that the
//             const-index obligations guard.  The floor counts these parser inputs (what must not panic), not
//             index expressions.
//
// C18.R5  "shard lists that are non-contiguous, inverted or extend an unbounded interval are refused at
//         construction", for the form in which the previous shard's interval is READ BACK FROM THE LIST OF
//         INTERVALS under construction (c18NeighbourPairs): see there.

// t6Debug (dev aid, CTVERIF_T6_DEBUG=1): print the obligations recorded since index n.
func t6Debug(r *Run, n int) {
	if os.Getenv("CTVERIF_T6_DEBUG") == "" {
		return
	}
	for _, o := range r.Obls[n:] {
		fmt.Fprintf(os.Stderr, "t6: ok=%v %s at %s: %s\n", o.OK, o.Key, o.Where, o.Detail)
	}
}

// ---- C15.R2: the scheme separator ---------------------------------------------------------------------
//
// Round 7: the clause is now decided on concrete sample strings ("mysql", "mysql:/user@tcp(h)/db" against
// "mysql://user@tcp(h)/db") by the string evaluator of rules_t7c15cfg.go (c15ConnStrings), which subsumes the
// abstract "separator present / absent" evaluation that stood here and no longer needs the validator to select
// the mysql case with one particular predicate.

// ---- C15.R1: what is handed to a storage driver's parser ----------------------------------------------

// c15ThirdParty: fn belongs to a package that is neither of the module nor of the standard library.
func c15ThirdParty(fn *ssa.Function) bool {
	pk := fnPkg(fn)
	if pk == nil || strings.HasPrefix(pk.Path(), ModPath) {
		return false
	}
	first := pk.Path()
	if i := strings.Index(first, "/"); i >= 0 {
		first = first[:i]
	}
	return strings.Contains(first, ".")
}

func c15LibCallOf(v ssa.Value) *ssa.Call {
	var c *ssa.Call
	switch x := v.(type) {
	case *ssa.Call:
		c = x
	case *ssa.Extract:
		c, _ = x.Tuple.(*ssa.Call)
	}
	if c == nil || c.Call.IsInvoke() {
		return nil
	}
	if f := c.Call.StaticCallee(); f == nil || fnPkg(f) == nil || strings.HasPrefix(fnPkg(f).Path(), ModPath) {
		return nil
	}
	return c
}

type c15Derivation struct {
	roots     []string // configuration fields the string stems from
	steps     []string
	undecided string
}

// c15Derive follows a string back to where it comes from.
func c15Derive(r *Run, v ssa.Value, d *c15Derivation, depth int, seen map[ssa.Value]bool) {
	if depth > 12 || seen[v] {
		return
	}
	seen[v] = true
	step := func(s string) {
		for _, x := range d.steps {
			if x == s {
				return
			}
		}
		d.steps = append(d.steps, s)
	}
	switch x := v.(type) {
	case *ssa.Const, *ssa.Parameter, *ssa.Global:
		return
	case *ssa.Phi:
		for _, e := range x.Edges {
			c15Derive(r, e, d, depth+1, seen)
		}
		return
	case *ssa.BinOp:
		if x.Op == token.ADD {
			c15Derive(r, x.X, d, depth+1, seen)
			c15Derive(r, x.Y, d, depth+1, seen)
			return
		}
	case *ssa.ChangeType:
		c15Derive(r, x.X, d, depth+1, seen)
		return
	case *ssa.Convert:
		if isStringType(x.X.Type()) {
			c15Derive(r, x.X, d, depth+1, seen)
		}
		return
	case *ssa.Slice:
		if x.Low == nil && x.High == nil {
			c15Derive(r, x.X, d, depth+1, seen)
			return
		}
		d.undecided = "the substring " + clipStr(r.D.D(x), 100) + " has computed bounds (not followed)"
		c15Derive(r, x.X, d, depth+1, seen)
		return
	case *ssa.UnOp:
		if x.Op != token.MUL {
			return
		}
		switch a := x.X.(type) {
		case *ssa.FieldAddr:
			if isProtoMsgPtr(a.X.Type()) {
				d.roots = append(d.roots, r.D.D(x))
			}
			return
		case *ssa.Alloc:
			if sv := uniqueStore(a); sv != nil {
				c15Derive(r, sv, d, depth+1, seen)
			} else {
				d.undecided = "a local written in several places: " + clipStr(r.D.D(x), 100)
			}
			return
		case *ssa.IndexAddr:
			k, isConst := a.Index.(*ssa.Const)
			lib := c15LibCallOf(a.X)
			switch {
			case isConst && lib != nil:
				step(fmt.Sprintf("element [%s] of %s (guarded: see the const-index obligation of this site)", constString(k), CalleeOf(lib)))
				for _, arg := range lib.Call.Args {
					if isStringType(arg.Type()) {
						c15Derive(r, arg, d, depth+1, seen)
						break
					}
				}
			default:
				d.undecided = "the element " + clipStr(r.D.D(x), 100) + " is selected by an index this engine does not bound"
			}
			return
		}
		return
	}
	if lib := c15LibCallOf(v); lib != nil {
		f := lib.Call.StaticCallee()
		if recv := f.Signature.Recv(); recv != nil && isProtoMsgPtr(recv.Type()) && strings.HasPrefix(f.Name(), "Get") {
			d.roots = append(d.roots, r.D.D(v))
			return
		}
		name := FuncName(f)
		if ex, ok := v.(*ssa.Extract); ok {
			name += "#" + strconv.Itoa(ex.Index)
		}
		step(name)
		for _, arg := range lib.Call.Args {
			if isStringType(arg.Type()) {
				c15Derive(r, arg, d, depth+1, seen)
				break
			}
		}
		return
	}
	// a getter of the module's own generated message types
	if c, ok := v.(*ssa.Call); ok && !c.Call.IsInvoke() && c.Call.StaticCallee() != nil {
		f := c.Call.StaticCallee()
		if recv := f.Signature.Recv(); recv != nil && isProtoMsgPtr(recv.Type()) && strings.HasPrefix(f.Name(), "Get") {
			d.roots = append(d.roots, r.D.D(v))
		}
	}
}

// c15ParserInputs: every string that a function in scope hands to a third-party library (the storage drivers'
// parsers) and that stems from a field of a configuration message is derived from it by total steps.  Returns the
// number of such inputs.
func c15ParserInputs(r *Run, scope func(fn *ssa.Function) bool) int {
	defer t6Debug(r, len(r.Obls))
	n := 0
	for _, fn := range r.P.ModFuncs {
		if !scope(fn) || len(fn.Blocks) == 0 {
			continue
		}
		eachInstr(fn, func(in ssa.Instruction) {
			call, ok := in.(*ssa.Call)
			if !ok || call.Call.IsInvoke() || call.Call.StaticCallee() == nil || !c15ThirdParty(call.Call.StaticCallee()) {
				return
			}
			for i, a := range call.Call.Args {
				if !isStringType(a.Type()) {
					continue
				}
				d := &c15Derivation{}
				c15Derive(r, a, d, 0, map[ssa.Value]bool{})
				if len(d.roots) == 0 {
					continue
				}
				n++
				r.Funcs[FuncName(fn)] = true
				key := fmt.Sprintf("parser-input:%s→%s#%d", short(FuncName(fn)), CalleeOf(call), i)
				how := "as it is"
				if len(d.steps) > 0 {
					how = "through " + strings.Join(d.steps, " of ")
				}
				if d.undecided != "" {
					r.Fail(key, r.Where(call), "undecided: the string handed to "+CalleeOf(call)+" stems from "+strings.Join(d.roots, ", ")+" but "+d.undecided+": cannot tell that no configuration makes this step panic")
					continue
				}
				r.Pass(key, r.Where(call), "the string handed to "+CalleeOf(call)+" is "+strings.Join(d.roots, ", ")+" "+how+": library calls on strings and guarded constant indices only, no step that a configuration can make panic")
			}
		})
	}
	return n
}

// ---- C18.R5: neighbour checks that read the previous shard's interval back from the list --------------

// c18NeighbourPairs decides the construction rule of NewTemporalLogClient for every form in which the contiguity
// comparison reads a bound of an interval that is an ELEMENT OF THE LIST OF INTERVALS the function builds — inside
// the loop that converts the shards (prev = intervals[i-1], cur = the shard just converted), or in a loop of its
// own after all shards are converted (prev, cur = intervals[i-1], intervals[i]), with or without a helper.  Facts:
//
//	list            the list handed out as the result holds at position j the interval of shard j: it is filled
//	                by exactly one statement, in the loop that calls shardInterval(Shard[i]) for every i from 0,
//	                with that call's result, at position i, on every turn (result.intervals, every-shard-kept);
//	pair            the instants compared are the lower bound of the interval of shard a and the upper bound of
//	                the interval of shard b with b = a − 1 as linear forms over the loop counter (previous-shard);
//	tests           a previous interval without upper bound, a missing lower bound, lower ≠ previous upper: once
//	                one of them came out bad every return that may execute is an error (extends-unbounded,
//	                no-lower-bound, not-contiguous), the comparison is (time.Time).Equal;
//	every join      the loop around the tests counts in steps of one, the first shard it takes as the later one
//	                is shard 1 (or 0) and the last one is shard len−1, decided on the linear form of the loop
//	                condition (every-later-shard-compared); for the counter values that make the later shard 1,
//	                2, 3 none of the three tests can be got round on the way to the next turn, to the statement
//	                that keeps the shard or out of the loop (later-shards-from-1); no accepting return executes
//	                unless the loop has run to its end (pairs-before-accept).
//
// Reports false (nothing recorded) when fn has no such comparison.
func c18NeighbourPairs(r *Run, fn *ssa.Function, key string) bool {
	calls := CallsTo(fn, "client.shardInterval")
	if len(calls) != 1 {
		return false
	}
	si, isCall := calls[0].(*ssa.Call)
	if !isCall {
		return false
	}
	hS := loopHeaderOf(si.Block())
	idxS := indexOfElem(CallArgs(si)[0])
	if hS == nil || idxS == nil {
		return false
	}
	succ := successReturns(fn)
	// the list of intervals: what the result's intervals are set to
	var listV ssa.Value
	var listSt *ssa.Store
	for _, ret := range succ {
		if a := baseAlloc(ret.(*ssa.Return).Results[0]); a != nil {
			for _, st := range r.storesAt(fn, "&("+r.D.allocName(a)+".intervals)") {
				listV, listSt = st.Val, st
			}
		}
	}
	if listV == nil {
		return false
	}
	list := c18ListValues(listV)
	// the comparisons of a lower with an upper bound
	type pair struct {
		site     *ssa.Call
		lo, up   *c18Bound
		iLo, iUp ssa.Value
	}
	var pairs []pair
	all := map[string]bool{}
	for k := range r.D.AtomsOf(fn) {
		all[k] = true
	}
	fromList := false
	for _, v := range r.atomSites(fn, all) {
		c, ok := v.(*ssa.Call)
		if !ok || c.Call.IsInvoke() || c.Call.StaticCallee() == nil || len(c.Call.Args) != 2 || r.D.Classify(v).Kind != "ord" {
			continue
		}
		a, b := c18BoundOf(c.Call.Args[0]), c18BoundOf(c.Call.Args[1])
		if a == nil || b == nil {
			continue
		}
		if a.field == "upper" {
			a, b = b, a
		}
		if a.field != "lower" || b.field != "upper" {
			continue
		}
		p := pair{site: c, lo: a, up: b}
		var srcA, srcB string
		p.iLo, srcA = c18ShardOf(si, a.holder, list)
		p.iUp, srcB = c18ShardOf(si, b.holder, list)
		if srcA == "list" || srcB == "list" {
			fromList = true
		}
		pairs = append(pairs, p)
	}
	if len(pairs) == 0 {
		return false
	}
	_ = fromList // (a comparison of bounds neither of which is read from the list is reported by previous-shard)
	defer t6Debug(r, len(r.Obls))
	r.Pass(key+":overall/next", r.FnPos(fn), fmt.Sprintf("each shard's interval is shardInterval(Shard[i]); the previous shard's interval is read back from the list of intervals under construction (%d comparison(s) of a lower with an upper bound)", len(pairs)))

	// ---- every shard is converted, an invalid one rejects, the list holds shard j's interval at position j
	r.ErrorsGate(fn, key+":invalid-shard", "client.shardInterval", 1)
	r.FailEdge(fn, key, EdgeSpec{Name: "empty-config", Atom: ordAtomR("0", "len((*client/configpb.TemporalLogConfig).GetShard(*))"), Bad: "=", Want: wantErr(true)})
	i := r.D.D(idxS)
	shardLenGlob := "len(p0.Shard) || len((*client/configpb.TemporalLogConfig).GetShard(p0))"
	r.ExpectArg(si, key+":interval-of-shard-i", 0, "p0.Shard["+i+"]* || (*client/configpb.TemporalLogConfig).GetShard(p0)["+i+"]*")
	r.Check(key+":all-shards-from-0", glob("it@*", i) && nonNegCounter(idxS) && c18StartsAtZero(idxS) && len(r.bindAtom(fn, ordAtomR(i, shardLenGlob))) > 0, r.Where(si),
		"the loop that converts the shards runs over index "+i+" from 0 to len(Shard)")
	shardLen := func(makes []*ssa.MakeSlice) bool {
		return len(makes) == 1 && anyGlob(shardLenGlob, r.D.D(makes[0].Len))
	}
	var keep []ssa.Instruction
	{
		fills, makes, built := sliceFills(listV)
		good := built && len(fills) == 1
		for _, f := range fills {
			ix, src := c18ShardOf(si, f.Elem, list)
			good = good && src == "call" && ix == idxS && loopHeaderOf(f.In.Block()) == hS
			if f.Index == nil {
				for _, m := range makes {
					good = good && isConstInt(m.Len, 0)
				}
			} else {
				good = good && r.D.D(f.Index) == i && shardLen(makes)
			}
			keep = append(keep, f.In)
		}
		r.Check(key+":result.intervals", good, r.Where(listSt), fmt.Sprintf("intervals ← %s: %d fills; position j holds the interval of shard j (one fill, with shardInterval(Shard[i])'s result, at position i of a list that starts empty or by index i into a list of len(Shard))", clipStr(r.D.D(listV), 80), len(fills)))
	}
	for _, ret := range succ {
		a := baseAlloc(ret.(*ssa.Return).Results[0])
		if a == nil {
			r.Fail(key+":result", r.Where(ret), "undecided: the result is not built in a local allocation")
			continue
		}
		for _, st := range r.storesAt(fn, "&("+r.D.allocName(a)+".Clients)") {
			fills, makes, built := sliceFills(st.Val)
			good := built && len(fills) == 1
			for _, f := range fills {
				el := r.D.D(f.Elem)
				good = good && glob("client.New(p0.Shard[it@*].Uri, *)#0", el)
				if f.Index != nil {
					good = good && glob("client.New(p0.Shard["+r.D.D(f.Index)+"].Uri, *)#0", el) && shardLen(makes)
				}
			}
			r.Check(key+":result.Clients", good, r.Where(st), fmt.Sprintf("Clients ← %s: %d fills with the client of shard i (at position i)", clipStr(r.D.D(st.Val), 80), len(fills)))
		}
		if len(r.storesAt(fn, "&("+r.D.allocName(a)+".Clients)")) == 0 {
			r.Fail(key+":result.Clients", r.Where(ret), "the result's Clients are never set")
		}
	}
	for _, c := range CallsTo(fn, "client.New") {
		r.ExpectArg(c, key+":client-of-shard", 0, "p0.Shard[*it@*].Uri")
	}
	if len(keep) == 0 {
		r.Fail(key+":result.intervals", r.FnPos(fn), "undecided: no statement puts a shard's interval into the result")
		return true
	}
	if body := si.Block(); body != hS {
		stop := wBlockSet(keep)
		skips := !stop[body] && r.D.Walk(fn, Sigma{}, body, stop).Blocks[hS]
		r.Valuations++
		r.Check(key+":every-shard-kept", !skips, r.Where(keep[0]), "the next shard is reached only through the statement that keeps the current shard's interval")
	}

	// inside the conversion loop, before the shard is kept, a list that is filled by one append per turn from empty
	// has as many elements as shards were taken before: len(list at the loop header) = i
	lenIsCounter := func(l LinForm) LinForm { return l }
	if fills, makes, built := sliceFills(listV); built && len(fills) == 1 && fills[0].Index == nil {
		empty := true
		for _, m := range makes {
			empty = empty && isConstInt(m.Len, 0)
		}
		for v := range list {
			ph, isPhi := v.(*ssa.Phi)
			if !isPhi || ph.Block() != hS || !empty {
				continue
			}
			leaf := "len(" + r.D.D(ph) + ")"
			ctrL := r.D.Lin(idxS, nil)
			lenIsCounter = func(l LinForm) LinForm {
				co := l.Coef[leaf]
				if co == 0 {
					return l
				}
				n := l.add(linLeaf(leaf), -co)
				return n.add(ctrL, co)
			}
		}
	}

	// ---- the pairs
	for _, p := range pairs {
		where := r.Where(p.site)
		lo, up := r.D.D(p.lo.ptr), r.D.D(p.up.ptr)
		if p.iLo == nil || p.iUp == nil {
			r.Fail(key+":previous-shard", where, fmt.Sprintf("undecided: the comparison of %s with %s — cannot tell which shards' intervals these are (an interval is that of shard i when it is shardInterval(Shard[i])'s result or element i of the list of intervals)", clipStr(lo, 80), clipStr(up, 80)))
			continue
		}
		lLo, lUp := lenIsCounter(r.D.Lin(p.iLo, nil)), lenIsCounter(r.D.Lin(p.iUp, nil))
		diff := lUp.add(lLo, -1)
		dc, isC := diff.isConst()
		pairOK := r.Check(key+":previous-shard", isC && dc == -1, where, fmt.Sprintf("the lower bound compared is that of shard [%s], the upper bound that of shard [%s]: contiguity wants the upper bound of the shard just before (difference −1, found %s)", lLo, lUp, diff))
		if !pairOK {
			continue // the tests are those of a pair of neighbours; this is not one
		}
		for _, e := range []EdgeSpec{
			{Name: "extends-unbounded", Atom: nilAtom(up), Bad: "nil"},
			{Name: "no-lower-bound", Atom: nilAtom(lo), Bad: "nil"},
			{Name: "not-contiguous", Atom: ordAtomR("*"+lo, "*"+up), Bad: "<,>"},
		} {
			e.Want, e.Unreach = wantErr(true), succ
			r.FailEdge(fn, key, e)
		}
		f := p.site.Call.StaticCallee()
		r.Check(key+":contiguity-compares-instants", FuncName(f) == "(time.Time).Equal", where, "contiguity test is "+clipStr(r.D.D(p.site), 160))
		c18EveryJoin(r, fn, key, p.site, p.iLo, lo, up, hS, succ, keep, list)
	}
	return true
}

// c18Bound: an instant read through a bound of an interval.
type c18Bound struct {
	ptr    ssa.Value // the *time.Time
	holder ssa.Value // the interval: its address or its value
	field  string
}

func c18BoundOf(v ssa.Value) *c18Bound {
	u, ok := v.(*ssa.UnOp)
	if !ok || u.Op != token.MUL {
		return nil
	}
	var b *c18Bound
	switch x := u.X.(type) {
	case *ssa.UnOp:
		if fa, isFA := x.X.(*ssa.FieldAddr); isFA && x.Op == token.MUL && fieldOf(fa) != nil {
			b = &c18Bound{ptr: x, holder: fa.X, field: fieldOf(fa).Name()}
		}
	case *ssa.Field:
		if fv := fieldOfVal(x); fv != nil {
			b = &c18Bound{ptr: x, holder: x.X, field: fv.Name()}
		}
	}
	if b == nil {
		return nil
	}
	t := b.holder.Type()
	if pt, isP := t.Underlying().(*types.Pointer); isP {
		t = pt.Elem()
	}
	if TypeName(t) != "client.interval" {
		return nil
	}
	return b
}

// c18ListValues: the SSA values through which the list v is built (φ, reslicing, append chains, make).
func c18ListValues(v ssa.Value) map[ssa.Value]bool {
	out := map[ssa.Value]bool{}
	var visit func(v ssa.Value)
	visit = func(v ssa.Value) {
		if out[v] {
			return
		}
		switch x := v.(type) {
		case *ssa.Phi:
			out[v] = true
			for _, e := range x.Edges {
				visit(e)
			}
		case *ssa.Slice:
			out[v] = true
			visit(x.X)
		case *ssa.MakeSlice:
			out[v] = true
		case *ssa.Call:
			if b, isB := x.Call.Value.(*ssa.Builtin); isB && b.Name() == "append" && len(x.Call.Args) == 2 {
				out[v] = true
				visit(x.Call.Args[0])
			}
		}
	}
	visit(v)
	return out
}

// c18WholeStore: the one value stored into a local interval that is otherwise only read (as a whole or by field).
func c18WholeStore(a *ssa.Alloc) ssa.Value {
	var val ssa.Value
	n := 0
	for _, ref := range *a.Referrers() {
		switch x := ref.(type) {
		case *ssa.DebugRef:
		case *ssa.Store:
			if x.Addr != ssa.Value(a) {
				return nil
			}
			val = x.Val
			n++
		case *ssa.UnOp:
			if x.Op != token.MUL {
				return nil
			}
		case *ssa.FieldAddr:
			for _, rr := range *x.Referrers() {
				switch y := rr.(type) {
				case *ssa.DebugRef:
				case *ssa.UnOp:
					if y.Op != token.MUL {
						return nil
					}
				default:
					return nil
				}
			}
		default:
			return nil
		}
	}
	if n != 1 {
		return nil
	}
	return val
}

// c18ShardOf: which shard's interval is this?  The index i when the interval is shardInterval(Shard[i])'s result
// (src "call") or element i of the list of intervals (src "list"); nil when it is neither.
func c18ShardOf(si *ssa.Call, holder ssa.Value, list map[ssa.Value]bool) (ssa.Value, string) {
	v := holder
	for depth := 0; depth < 8 && v != nil; depth++ {
		switch x := v.(type) {
		case *ssa.Alloc:
			v = c18WholeStore(x)
		case *ssa.UnOp:
			if x.Op != token.MUL {
				return nil, ""
			}
			v = x.X
		case *ssa.IndexAddr:
			if list[x.X] {
				return x.Index, "list"
			}
			return nil, ""
		case *ssa.Extract:
			if x.Tuple == ssa.Value(si) && x.Index == 0 {
				return indexOfElem(CallArgs(si)[0]), "call"
			}
			return nil, ""
		default:
			return nil, ""
		}
	}
	return nil, ""
}

// c18Counter: the loop counter an index is a linear function of (index = counter + const): the counter's value,
// the header of its loop and its first value.
func c18Counter(v ssa.Value) (ctr ssa.Value, h *ssa.BasicBlock, init int64, ok bool) {
	for depth := 0; depth < 6; depth++ {
		switch x := v.(type) {
		case *ssa.Phi:
			if !isInduction(x) || isRangePre(x) {
				return nil, nil, 0, false
			}
			n := 0
			for _, e := range x.Edges {
				if b, isB := e.(*ssa.BinOp); isB && b.X == ssa.Value(x) {
					if b.Op != token.ADD || !isConstInt(b.Y, 1) {
						return nil, nil, 0, false
					}
					continue
				}
				c, isC := e.(*ssa.Const)
				if !isC || c.Value == nil || c.Value.Kind() != constant.Int {
					return nil, nil, 0, false
				}
				init, _ = constant.Int64Val(c.Value)
				n++
			}
			return x, x.Block(), init, n == 1
		case *ssa.BinOp:
			if ph, isP := x.X.(*ssa.Phi); isP && x.Op == token.ADD && isConstInt(x.Y, 1) && isRangePre(ph) {
				return x, ph.Block(), 0, true
			}
			if _, isC := x.Y.(*ssa.Const); isC && (x.Op == token.ADD || x.Op == token.SUB) {
				v = x.X
				continue
			}
			if _, isC := x.X.(*ssa.Const); isC && x.Op == token.ADD {
				v = x.Y
				continue
			}
			return nil, nil, 0, false
		case *ssa.Convert:
			v = x.X
		default:
			return nil, nil, 0, false
		}
	}
	return nil, nil, 0, false
}

func c18Reaches(from, to *ssa.BasicBlock) bool {
	seen := map[*ssa.BasicBlock]bool{}
	work := append([]*ssa.BasicBlock(nil), from.Succs...)
	for len(work) > 0 {
		b := work[len(work)-1]
		work = work[:len(work)-1]
		if seen[b] {
			continue
		}
		seen[b] = true
		if b == to {
			return true
		}
		work = append(work, b.Succs...)
	}
	return false
}

// c18EveryJoin: the tests around the comparison `site` are applied to every join of two neighbouring shards
// (see c18NeighbourPairs).  iLo is the index of the later shard of the pair.
func c18EveryJoin(r *Run, fn *ssa.Function, key string, site *ssa.Call, iLo ssa.Value, lo, up string, hS *ssa.BasicBlock, succ, keep []ssa.Instruction, list map[ssa.Value]bool) {
	where := r.Where(site)
	ctr, hP, init, ok := c18Counter(iLo)
	if !ok || hP == nil || !hP.Dominates(site.Block()) || !c18Reaches(site.Block(), hP) {
		r.Fail(key+":every-later-shard-compared", where, "undecided: the index of the later shard of the pair, "+r.D.D(iLo)+", is not a loop counter (from a constant, in steps of one) plus a constant of a loop around the comparison")
		return
	}
	lIdx := r.D.Lin(iLo, nil)
	ctrLeaf := r.D.Lin(ctr, nil)
	off := lIdx.add(ctrLeaf, -1)
	c, isC := off.isConst()
	if !isC {
		r.Fail(key+":every-later-shard-compared", where, fmt.Sprintf("undecided: index of the later shard %s is not the loop counter %s plus a constant", lIdx, ctrLeaf))
		return
	}
	if hP != hS {
		// a loop of its own: it must read the finished list
		inS := hS.Dominates(hP) && c18Reaches(hP, hS)
		r.Check(key+":pairs-read-finished-list", hS.Dominates(hP) && !inS, r.Where(hP.Instrs[len(hP.Instrs)-1]), "the loop that compares neighbouring intervals runs after the loop that converts the shards (the list it reads is complete)")
	}
	// the loop condition: continue iff counter < len − d
	ifi, isIf := hP.Instrs[len(hP.Instrs)-1].(*ssa.If)
	if !isIf {
		r.Fail(key+":every-later-shard-compared", where, "undecided: the header of the loop around the comparison does not end in a test")
		return
	}
	cond, neg := ifi.Cond, false
	for {
		u, isNot := cond.(*ssa.UnOp)
		if !isNot || u.Op != token.NOT {
			break
		}
		cond, neg = u.X, !neg
	}
	contOnTrue := hP.Dominates(hP.Succs[0]) && c18Reaches(hP.Succs[0], hP) && hP.Succs[0] != hP
	if hP.Succs[0] == hP {
		contOnTrue = true
	}
	if neg {
		contOnTrue = !contOnTrue
	}
	bo, isBin := cond.(*ssa.BinOp)
	if !isBin {
		r.Fail(key+":every-later-shard-compared", where, "undecided: the condition of the loop around the comparison, "+clipStr(r.D.D(ifi.Cond), 120)+", is not a comparison")
		return
	}
	// continue iff L < R (strict) or L <= R
	var L, R ssa.Value
	strict := false
	switch bo.Op {
	case token.LSS:
		L, R, strict = bo.X, bo.Y, true
	case token.LEQ:
		L, R, strict = bo.X, bo.Y, false
	case token.GTR:
		L, R, strict = bo.Y, bo.X, true
	case token.GEQ:
		L, R, strict = bo.Y, bo.X, false
	default:
		r.Fail(key+":every-later-shard-compared", where, "undecided: the condition of the loop around the comparison, "+clipStr(r.D.D(ifi.Cond), 120)+", is not an order comparison of the counter with a length")
		return
	}
	if !contOnTrue { // ¬(L < R) = R <= L ; ¬(L <= R) = R < L
		L, R, strict = R, L, !strict
	}
	d := r.D.Lin(L, nil).add(r.D.Lin(R, nil), -1) // continue iff d < 0 (strict) / d <= 0
	if !strict {
		d.Const--
	}
	// d must be  +counter − len(list | Shard) + k
	lenLeaf, k, shapeOK := "", d.Const, true
	for leaf, co := range d.Coef {
		switch {
		case co == 0:
		case co == 1 && ctrLeaf.Coef[leaf] == 1:
		case co == -1 && lenLeaf == "" && c18IsListLen(r, leaf, list):
			lenLeaf = leaf
		default:
			shapeOK = false
		}
	}
	if d.Coef[firstLeaf(ctrLeaf)] != 1 || lenLeaf == "" || !shapeOK {
		r.Fail(key+":every-later-shard-compared", where, fmt.Sprintf("undecided: the loop around the comparison continues while %s < 0, which is not \"counter below the number of shards (± a constant)\"", d))
		return
	}
	// counter runs init … len−k−1; later shard = counter + c
	first := init + c
	okFirst := first == 0 || first == 1
	okLast := c == k
	lastTxt := fmt.Sprintf("len%+d", c-k-1)
	lenTxt := lenLeaf
	if !anyGlob("len(p0.Shard) || len((*client/configpb.TemporalLogConfig).GetShard(p0))", lenLeaf) {
		lenTxt = "len(list of intervals)"
	}
	bound := lenTxt
	if k != 0 {
		bound = fmt.Sprintf("%s%+d", lenTxt, -k)
	}
	later := "counter"
	if c != 0 {
		later = fmt.Sprintf("counter%+d", c)
	}
	verdict := "every shard from 1 to len−1, the last one included, is compared with the one before it"
	switch {
	case !okLast && c < k:
		verdict = fmt.Sprintf("the shards from len%+d on — the LAST shard — are never compared with their predecessor: a gap, an overlap, an out-of-order shard or an unbounded predecessor at the last join is accepted (a two-shard list is not checked at all)", c-k)
	case !okLast:
		verdict = "the loop runs past the last shard"
	case !okFirst:
		verdict = fmt.Sprintf("the first join compared is that of shard %d: the joins of the shards before it (from shard 1 on) are never compared", first)
	}
	r.Check(key+":every-later-shard-compared", okFirst && okLast, r.Where(ifi),
		fmt.Sprintf("the loop around the neighbour tests runs its counter from %d while counter < %s and takes shard [%s] as the later one of each pair, so the joins tested are those of shards %d … %s with the shard before: %s",
			init, bound, later, first, lastTxt, verdict))
	// no accepting return unless the loop has run to its end
	body := hP.Succs[0]
	for _, s := range hP.Succs {
		if hP.Dominates(s) && c18Reaches(s, hP) {
			body = s
		}
	}
	early := ""
	for _, ret := range succ {
		if !hP.Dominates(ret.Block()) {
			early = "the accepting return at " + r.Where(ret) + " can execute without the loop around the neighbour tests having been entered"
		}
	}
	reach := r.D.Walk(fn, Sigma{}, body, map[*ssa.BasicBlock]bool{hP: true})
	r.Valuations++
	for _, ret := range succ {
		if reach.Has(ret) {
			early = "the accepting return at " + r.Where(ret) + " can be reached from inside the loop around the neighbour tests without its condition having ended it (later joins go untested)"
		}
	}
	r.Check(key+":pairs-before-accept", early == "", r.Where(ifi), "every accepting return lies behind the loop that tests the joins and is reached only when its condition ends it "+early)

	// for the later shards 1, 2, 3: none of the three tests can be got round
	found := r.D.AtomsOf(fn)
	tests := map[string][]string{}
	for _, a := range []struct {
		name string
		at   RuleAtom
	}{{"extends-unbounded", nilAtom(up)}, {"no-lower-bound", nilAtom(lo)}, {"not-contiguous", ordAtomR("*"+lo, "*"+up)}} {
		tests[a.name] = r.bindAtom(fn, a.at)
	}
	bad := ""
	ctrTerm := r.D.D(ctr)
	for later := int64(1); later <= 3 && bad == ""; later++ {
		s, _ := r.SgModel(fn, map[string]int64{ctrTerm: later - c})
		for _, name := range []string{"extends-unbounded", "no-lower-bound", "not-contiguous"} {
			ks := wKeySet(tests[name])
			blocks := r.blocksTesting(fn, func(ci *CondInfo) bool { return ks[ci.Key] && found[ci.Key] != nil })
			if len(blocks) == 0 {
				continue // reported by the test's own obligation
			}
			stop := map[*ssa.BasicBlock]bool{}
			for _, b := range blocks {
				stop[b] = true
			}
			if stop[body] {
				continue
			}
			reach := r.D.Walk(fn, s, body, stop)
			r.Valuations++
			switch {
			case reach.Blocks[hP]:
				bad = fmt.Sprintf("with shard %d as the later one (counter %s = %d) the next turn of the loop is reached without the test %s", later, ctrTerm, later-c, name)
			case hP == hS && wAnyIn(reach.Blocks, wBlockSet(keep)) && !c18KeepBefore(keep, blocks):
				bad = fmt.Sprintf("with shard %d as the later one (counter %s = %d) the shard's interval is kept without the test %s", later, ctrTerm, later-c, name)
			default:
				for _, ret := range succ {
					if reach.Has(ret) {
						bad = fmt.Sprintf("with shard %d as the later one (counter %s = %d) the accepting return is reached without the test %s", later, ctrTerm, later-c, name)
					}
				}
			}
		}
	}
	r.Check(key+":later-shards-from-1", bad == "", where, "for the later shards 1, 2, 3 (sample counter values; guards on the counter valuated exactly) a turn of the loop cannot end, keep the shard or leave the loop without passing the three neighbour tests "+bad)
}

// c18KeepBefore: the statement that keeps the shard dominates the tests (kept first, tested afterwards: an error
// return discards the list).
func c18KeepBefore(keep []ssa.Instruction, tests []*ssa.BasicBlock) bool {
	for _, k := range keep {
		for _, t := range tests {
			if k.Block() != t && !k.Block().Dominates(t) {
				return false
			}
		}
	}
	return true
}

func firstLeaf(l LinForm) string {
	for k, c := range l.Coef {
		if c != 0 {
			return k
		}
	}
	return ""
}

// c18IsListLen: a leaf of a linear form that is the number of shards: len(Shard) or the length of the list of intervals.
func c18IsListLen(r *Run, leaf string, list map[ssa.Value]bool) bool {
	if anyGlob("len(p0.Shard) || len((*client/configpb.TemporalLogConfig).GetShard(p0))", leaf) {
		return true
	}
	for v := range list {
		if leaf == "len("+r.D.D(v)+")" {
			return true
		}
	}
	return false
}
