package main

import (
	"fmt"
	"os"
	"go/constant"
	"go/token"
	"strconv"
	"strings"

	"golang.org/x/tools/go/ssa"
)

// Round 6 (twins of the round-3 e seeds), C15 and C18.
//
// C15.R2  "a usable external-storage connection string … (for example a connection string without a scheme
//         separator)".  Until now the only thing standing for the separator clause was the C15.R1 floor "one
//         constant index on a library call's result" (the parts[1] behind `len(parts) < 2`): a count of a
//         syntactic site.  It is restated as the two facts it protected:
//
//           * the clause itself (c15SchemeSeparator): with CTFE storage selected and a mysql connection string
//             that does not contain "://", no accepting return of the validator can execute — decided by
//             valuating every branch condition whose outcome that fact fixes, whatever the presence test is
//             written with (len(strings.Split(s, "://")) against a constant, the `found` result of
//             strings.Cut, strings.Contains, strings.Index / LastIndex / Count against a constant, an empty
//             remainder) — and with the separator present the accepting return is reachable again;
//           * totality (c15ParserInputs, C15.R1): every string handed to a storage driver's parser is derived
//             from a field of the configuration by steps that cannot fail, or by a constant index that the
//             const-index obligations guard.  The floor counts these parser inputs (what must not panic), not
//             index expressions.
//
// C18.R5  "shard lists that are non-contiguous, inverted or extend an unbounded interval are refused at
//         construction", for the form in which the previous shard's interval is READ BACK FROM THE LIST OF
//         INTERVALS under construction (c18NeighbourPairs): see there.

// t6Debug (dev aid, CTVERIF_T6_DEBUG=1): print the obligations recorded since index n.
func t6Debug(r *Run, n int) {
	if os.Getenv("CTVERIF_T6_DEBUG") == "" {
		return
	}
	for _, o := range r.Obls[n:] {
		fmt.Fprintf(os.Stderr, "t6: ok=%v %s at %s: %s\n", o.OK, o.Key, o.Where, o.Detail)
	}
}

// ---- C15.R2: the scheme separator ---------------------------------------------------------------------

const c15Conn = "p0.CtfeStorageConnectionString || (*trillian/ctfe/configpb.LogConfig).GetCtfeStorageConnectionString(p0)"
const c15Sep = "://"

// c15sepEval evaluates integer / boolean SSA values that are functions of "does the connection string contain the
// scheme separator" (present: the witness is a string with exactly one separator, after a 5-byte driver name).
type c15sepEval struct {
	r       *Run
	present bool
}

// sepCall: v is strings.<name>(conn, "://", …); returns the call.
func (e *c15sepEval) sepCall(v ssa.Value, names ...string) *ssa.Call {
	c, ok := v.(*ssa.Call)
	if !ok || c.Call.IsInvoke() || c.Call.StaticCallee() == nil || len(c.Call.Args) < 2 {
		return nil
	}
	fn := FuncName(c.Call.StaticCallee())
	hit := false
	for _, n := range names {
		hit = hit || fn == "strings."+n
	}
	if !hit || !anyGlob(c15Conn, e.r.D.D(c.Call.Args[0])) {
		return nil
	}
	k, isC := c.Call.Args[1].(*ssa.Const)
	if !isC || k.Value == nil || k.Value.Kind() != constant.String || constant.StringVal(k.Value) != c15Sep {
		return nil
	}
	return c
}

func (e *c15sepEval) cutResult(v ssa.Value, idx int) bool {
	ex, ok := v.(*ssa.Extract)
	return ok && ex.Index == idx && e.sepCall(ex.Tuple, "Cut") != nil
}

func (e *c15sepEval) intVal(v ssa.Value, depth int) (int64, bool) {
	if depth > 6 {
		return 0, false
	}
	pick := func(absent, present int64) (int64, bool) {
		if e.present {
			return present, true
		}
		return absent, true
	}
	switch x := v.(type) {
	case *ssa.Const:
		if x.Value != nil && x.Value.Kind() == constant.Int {
			return constant.Int64Val(x.Value)
		}
	case *ssa.Convert:
		return e.intVal(x.X, depth+1)
	case *ssa.BinOp:
		a, okA := e.intVal(x.X, depth+1)
		b, okB := e.intVal(x.Y, depth+1)
		if okA && okB {
			switch x.Op {
			case token.ADD:
				return a + b, true
			case token.SUB:
				return a - b, true
			}
		}
	case *ssa.Call:
		if b, isB := x.Call.Value.(*ssa.Builtin); isB && b.Name() == "len" && len(x.Call.Args) == 1 {
			arg := x.Call.Args[0]
			if e.sepCall(arg, "Split", "SplitAfter") != nil {
				return pick(1, 2)
			}
			if c := e.sepCall(arg, "SplitN", "SplitAfterN"); c != nil && len(c.Call.Args) == 3 {
				if n, ok := e.intVal(c.Call.Args[2], depth+1); ok {
					switch {
					case n == 0:
						return 0, true
					case n == 1:
						return 1, true
					}
					return pick(1, 2)
				}
			}
			if e.cutResult(arg, 1) && !e.present {
				return 0, true // nothing follows a separator that is not there
			}
			return 0, false
		}
		if e.sepCall(x, "Index", "LastIndex") != nil {
			return pick(-1, 5)
		}
		if e.sepCall(x, "Count") != nil {
			return pick(0, 1)
		}
	}
	return 0, false
}

// boolVal: (value, known).
func (e *c15sepEval) boolVal(v ssa.Value, depth int) (bool, bool) {
	if depth > 6 {
		return false, false
	}
	switch x := v.(type) {
	case *ssa.UnOp:
		if x.Op == token.NOT {
			b, ok := e.boolVal(x.X, depth+1)
			return !b, ok
		}
	case *ssa.Extract:
		if e.cutResult(x, 2) {
			return e.present, true
		}
	case *ssa.Call:
		if e.sepCall(x, "Contains") != nil {
			return e.present, true
		}
	case *ssa.BinOp:
		if a, okA := e.intVal(x.X, depth+1); okA {
			if b, okB := e.intVal(x.Y, depth+1); okB {
				switch x.Op {
				case token.EQL:
					return a == b, true
				case token.NEQ:
					return a != b, true
				case token.LSS:
					return a < b, true
				case token.LEQ:
					return a <= b, true
				case token.GTR:
					return a > b, true
				case token.GEQ:
					return a >= b, true
				}
			}
		}
		// the remainder after a separator that is not there is the empty string
		if !e.present && (x.Op == token.EQL || x.Op == token.NEQ) {
			isEmpty := func(v ssa.Value) bool {
				k, ok := v.(*ssa.Const)
				return ok && k.Value != nil && k.Value.Kind() == constant.String && constant.StringVal(k.Value) == ""
			}
			if e.cutResult(x.X, 1) && isEmpty(x.Y) || e.cutResult(x.Y, 1) && isEmpty(x.X) {
				return x.Op == token.EQL, true
			}
		}
	}
	return false, false
}

// c15SepModel valuates every branch condition of fn whose outcome is fixed by the presence / absence of the scheme
// separator in the connection string.  Returns the valuation and the atoms it fixes.
func c15SepModel(r *Run, fn *ssa.Function, present bool) (Sigma, []string) {
	e := &c15sepEval{r: r, present: present}
	s := Sigma{}
	var bound []string
	found := r.D.AtomsOf(fn)
	all := map[string]bool{}
	for k := range found {
		all[k] = true
	}
	for _, site := range r.atomSites(fn, all) {
		t, known := e.boolVal(site, 0)
		if !known {
			continue
		}
		ci := r.D.Classify(site)
		var fit []string
		for _, d := range domains[ci.Kind] {
			if ci.True[d] == t {
				fit = append(fit, d)
			}
		}
		val := ""
		switch {
		case len(fit) == 1:
			val = fit[0]
		case ci.Kind == "ord":
			// the exact relation of the two operands, oriented as the atom's key is
			if bo, ok := site.(*ssa.BinOp); ok {
				a, okA := e.intVal(bo.X, 0)
				b, okB := e.intVal(bo.Y, 0)
				if okA && okB {
					rel := "="
					if a < b {
						rel = "<"
					} else if a > b {
						rel = ">"
					}
					switch {
					case r.D.D(bo.X) == ci.A && r.D.D(bo.Y) == ci.B:
						val = rel
					case r.D.D(bo.X) == ci.B && r.D.D(bo.Y) == ci.A:
						val = sgFlipRel(rel)
					}
					if val != "" && ci.True[val] != t {
						val = ""
					}
				}
			}
		}
		if val == "" {
			continue
		}
		if _, done := s[ci.Key]; !done {
			bound = append(bound, ci.Key)
		}
		s[ci.Key] = val
	}
	return s, bound
}

// c15SchemeSeparator: under the preconditions pre (the case: CTFE storage, mysql driver) a connection string without
// the scheme separator is refused, one with the separator can be accepted.
func c15SchemeSeparator(r *Run, fn *ssa.Function, key string, pre ...SgAtom) {
	defer t6Debug(r, len(r.Obls))
	succ := sgOkReturns(fn)
	if len(succ) == 0 {
		r.Fail(key, r.FnPos(fn), "undecided: "+FuncName(fn)+" has no success return")
		return
	}
	base := Sigma{}
	for _, c := range pre {
		b, err := r.sgBind(fn, c)
		if err != nil {
			r.Fail(key, r.FnPos(fn), "undecided: "+err.Error())
			return
		}
		b.set(base, c.Val)
	}
	with := func(m Sigma) Sigma {
		s := Sigma{}
		for k, v := range base {
			s[k] = v
		}
		for k, v := range m {
			s[k] = v
		}
		return s
	}
	absent, bound := c15SepModel(r, fn, false)
	present, _ := c15SepModel(r, fn, true)
	r.Valuations += 2
	sA, sP := with(absent), with(present)
	if ret := sgAnyReach(r.D.Walk(fn, sA, nil, nil), succ); ret != nil {
		why := fmt.Sprintf("the tests that depend on it (%s) do not stand between such a string and the accepting return (valuation %s)", strings.Join(bound, "; "), sA)
		if len(bound) == 0 {
			why = "no branch condition of the validator depends on whether \"" + c15Sep + "\" occurs in the string (what a missing separator leaves — an empty or whole-string DSN — goes to the driver's parser, which has defaults for everything)"
		}
		r.Fail(key, r.Where(ret), "CTFE storage with a mysql connection string that lacks the scheme separator \""+c15Sep+"\" (\"mysql\", \"mysql:/user@tcp(h)/db\", …) is accepted: the accepting return is reachable; "+why)
		return
	}
	if sgAnyReach(r.D.Walk(fn, sP, nil, nil), succ) == nil {
		r.Fail(key, r.FnPos(fn), fmt.Sprintf("the accepting return is unreachable even for a mysql connection string WITH the scheme separator (valuation %s): rejected more broadly than by the cause (control)", sP))
		return
	}
	r.Pass(key, r.Where(succ[0]), fmt.Sprintf("mysql connection string without \"%s\": the accepting return is unreachable; with it: reachable; conditions fixed by the separator's presence: %s", c15Sep, strings.Join(bound, "; ")))
}

// ---- C15.R1: what is handed to a storage driver's parser ----------------------------------------------

// c15ThirdParty: fn belongs to a package that is neither of the module nor of the standard library.
func c15ThirdParty(fn *ssa.Function) bool {
	pk := fnPkg(fn)
	if pk == nil || strings.HasPrefix(pk.Path(), ModPath) {
		return false
	}
	first := pk.Path()
	if i := strings.Index(first, "/"); i >= 0 {
		first = first[:i]
	}
	return strings.Contains(first, ".")
}

func c15LibCallOf(v ssa.Value) *ssa.Call {
	var c *ssa.Call
	switch x := v.(type) {
	case *ssa.Call:
		c = x
	case *ssa.Extract:
		c, _ = x.Tuple.(*ssa.Call)
	}
	if c == nil || c.Call.IsInvoke() {
		return nil
	}
	if f := c.Call.StaticCallee(); f == nil || fnPkg(f) == nil || strings.HasPrefix(fnPkg(f).Path(), ModPath) {
		return nil
	}
	return c
}

type c15Derivation struct {
	roots     []string // configuration fields the string stems from
	steps     []string
	undecided string
}

// c15Derive follows a string back to where it comes from.
func c15Derive(r *Run, v ssa.Value, d *c15Derivation, depth int, seen map[ssa.Value]bool) {
	if depth > 12 || seen[v] {
		return
	}
	seen[v] = true
	step := func(s string) {
		for _, x := range d.steps {
			if x == s {
				return
			}
		}
		d.steps = append(d.steps, s)
	}
	switch x := v.(type) {
	case *ssa.Const, *ssa.Parameter, *ssa.Global:
		return
	case *ssa.Phi:
		for _, e := range x.Edges {
			c15Derive(r, e, d, depth+1, seen)
		}
		return
	case *ssa.BinOp:
		if x.Op == token.ADD {
			c15Derive(r, x.X, d, depth+1, seen)
			c15Derive(r, x.Y, d, depth+1, seen)
			return
		}
	case *ssa.ChangeType:
		c15Derive(r, x.X, d, depth+1, seen)
		return
	case *ssa.Convert:
		if isStringType(x.X.Type()) {
			c15Derive(r, x.X, d, depth+1, seen)
		}
		return
	case *ssa.Slice:
		if x.Low == nil && x.High == nil {
			c15Derive(r, x.X, d, depth+1, seen)
			return
		}
		d.undecided = "the substring " + clipStr(r.D.D(x), 100) + " has computed bounds (not followed)"
		c15Derive(r, x.X, d, depth+1, seen)
		return
	case *ssa.UnOp:
		if x.Op != token.MUL {
			return
		}
		switch a := x.X.(type) {
		case *ssa.FieldAddr:
			if isProtoMsgPtr(a.X.Type()) {
				d.roots = append(d.roots, r.D.D(x))
			}
			return
		case *ssa.Alloc:
			if sv := uniqueStore(a); sv != nil {
				c15Derive(r, sv, d, depth+1, seen)
			} else {
				d.undecided = "a local written in several places: " + clipStr(r.D.D(x), 100)
			}
			return
		case *ssa.IndexAddr:
			k, isConst := a.Index.(*ssa.Const)
			lib := c15LibCallOf(a.X)
			switch {
			case isConst && lib != nil:
				step(fmt.Sprintf("element [%s] of %s (guarded: see the const-index obligation of this site)", constString(k), CalleeOf(lib)))
				for _, arg := range lib.Call.Args {
					if isStringType(arg.Type()) {
						c15Derive(r, arg, d, depth+1, seen)
						break
					}
				}
			default:
				d.undecided = "the element " + clipStr(r.D.D(x), 100) + " is selected by an index this engine does not bound"
			}
			return
		}
		return
	}
	if lib := c15LibCallOf(v); lib != nil {
		f := lib.Call.StaticCallee()
		if recv := f.Signature.Recv(); recv != nil && isProtoMsgPtr(recv.Type()) && strings.HasPrefix(f.Name(), "Get") {
			d.roots = append(d.roots, r.D.D(v))
			return
		}
		name := FuncName(f)
		if ex, ok := v.(*ssa.Extract); ok {
			name += "#" + strconv.Itoa(ex.Index)
		}
		step(name)
		for _, arg := range lib.Call.Args {
			if isStringType(arg.Type()) {
				c15Derive(r, arg, d, depth+1, seen)
				break
			}
		}
		return
	}
	// a getter of the module's own generated message types
	if c, ok := v.(*ssa.Call); ok && !c.Call.IsInvoke() && c.Call.StaticCallee() != nil {
		f := c.Call.StaticCallee()
		if recv := f.Signature.Recv(); recv != nil && isProtoMsgPtr(recv.Type()) && strings.HasPrefix(f.Name(), "Get") {
			d.roots = append(d.roots, r.D.D(v))
		}
	}
}

// c15ParserInputs: every string that a function in scope hands to a third-party library (the storage drivers'
// parsers) and that stems from a field of a configuration message is derived from it by total steps.  Returns the
// number of such inputs.
func c15ParserInputs(r *Run, scope func(fn *ssa.Function) bool) int {
	defer t6Debug(r, len(r.Obls))
	n := 0
	for _, fn := range r.P.ModFuncs {
		if !scope(fn) || len(fn.Blocks) == 0 {
			continue
		}
		eachInstr(fn, func(in ssa.Instruction) {
			call, ok := in.(*ssa.Call)
			if !ok || call.Call.IsInvoke() || call.Call.StaticCallee() == nil || !c15ThirdParty(call.Call.StaticCallee()) {
				return
			}
			for i, a := range call.Call.Args {
				if !isStringType(a.Type()) {
					continue
				}
				d := &c15Derivation{}
				c15Derive(r, a, d, 0, map[ssa.Value]bool{})
				if len(d.roots) == 0 {
					continue
				}
				n++
				r.Funcs[FuncName(fn)] = true
				key := fmt.Sprintf("parser-input:%s→%s#%d", short(FuncName(fn)), CalleeOf(call), i)
				how := "as it is"
				if len(d.steps) > 0 {
					how = "through " + strings.Join(d.steps, " of ")
				}
				if d.undecided != "" {
					r.Fail(key, r.Where(call), "undecided: the string handed to "+CalleeOf(call)+" stems from "+strings.Join(d.roots, ", ")+" but "+d.undecided+": cannot tell that no configuration makes this step panic")
					continue
				}
				r.Pass(key, r.Where(call), "the string handed to "+CalleeOf(call)+" is "+strings.Join(d.roots, ", ")+" "+how+": library calls on strings and guarded constant indices only, no step that a configuration can make panic")
			}
		})
	}
	return n
}
