package main

import (
	"fmt"
	"go/constant"
	"go/token"
	"go/types"
	"math/big"
	"os"
	"sort"
	"strings"

	"golang.org/x/tools/go/ssa"
)

// ---- C16.R2 restated: the worker's delivery accounting -------------------------------------------
//
// The property says of the worker: every index of the range it took from the channel reaches the
// callback exactly once, with the bytes the log returned for that index, whatever the log does
// (short reads, failures).  Whether a response is handed over at once or kept and handed over
// later, in one batch or in several, with the range's own start field as cursor or with a cursor
// of its own, is the worker's business.  So the rule does not look for "the" callback site, "the"
// advance of "the" cursor: it walks the worker.
//
//   - The worker function is executed symbolically, one path at a time: from the receive of a range
//     to the head of the loop that issues the get-entries request (base paths), and one round of
//     that loop from its head back to the head (round paths), to the next receive (range done) or
//     to a return.  Integers are linear forms, slices are sequences of chunks ("what the slice
//     held when the round began", "the entries of the response to request k of this round"), a
//     request has two outcomes (succeeded: its response is valid; failed: it is not).
//   - A ghost counter g ("first index of the range not delivered yet") starts at the start of the
//     range received and is advanced by every batch handed to the callback.
//   - The strongest system of linear equalities among the loop-carried integers, the lengths of the
//     loop-carried slices and g that holds whenever control is at the head of the loop is computed
//     from the base paths and the round paths (affine hull, Karr 1976).  Nothing about the roles of
//     the variables is assumed; "next = r.start + len(entries)" or "r.start = g" come out of it.
//   - Decided under those equalities, for every path:
//     batch.Start     a batch is labelled with the first index not delivered yet (g);
//     batch.Entries   every chunk of a batch sits at the index its request asked for (a kept
//     slice: at g, by the clause "kept" below), and is the response of a request
//     that succeeded;
//     kept            what a round leaves in a slice that is handed over later lies, chunk by
//     chunk, at consecutive indices from the g the round ends with; it is empty
//     when a range is taken up; its backing array was not handed to the callback;
//     range-complete  when the loop is left for the next range, the test that let it go entails
//     g > the last index requested.
//     A round that, alone, leaves the equalities all other rounds keep is reported as such, with the
//     equality and what the round makes of it.
//
// Anything the walk cannot follow (a loop within a round, a value of unknown origin where a label
// or a chunk is needed, a request made from a function the worker does not run itself) fails.

type c16v interface{}

type (
	c16I     struct{ l LinForm }  // integer
	c16P     struct{ key string } // address of a memory cell
	c16Chunk struct {
		head string // the entries the loop-carried slice <head> held when the round began
		k    int    // … or the entries of the response to request k of this path
		ok   bool   // that request succeeded
		unk  string // … or entries of unknown origin
	}
	c16S struct {
		ch      []c16Chunk
		backing string
	}
	c16Rsp struct {
		k  int
		ok bool
	} // the response to request k
	c16RspF struct {
		r c16Rsp
	}
	c16Er struct {
		k   int
		non bool
	} // the error of request k
	c16T  struct{ f []c16v } // struct value or tuple
	c16Fn struct {
		fn    *ssa.Function
		binds []c16v
	}
	c16Prm  struct{ p *ssa.Parameter }
	c16Nil  struct{}
	c16Bool struct {
		known, v   bool
		onT, onF   []LinForm // facts "… ≥ 0" either outcome establishes
		tagT, tagF string
	}
	c16U struct{ why string }
)

func (c c16Chunk) length() (LinForm, bool) {
	switch {
	case c.unk != "":
		return LinForm{}, false
	case c.head != "":
		return linLeaf("len(" + c.head + ")"), true
	}
	return linLeaf(fmt.Sprintf("n%d", c.k)), true
}

func c16Zero() LinForm { return LinForm{Coef: map[string]int64{}} }

func c16SliceLen(s c16S) (LinForm, bool) {
	n := c16Zero()
	for _, c := range s.ch {
		l, ok := c.length()
		if !ok {
			return n, false
		}
		n = n.add(l, 1)
	}
	return n, true
}

type c16Rq struct {
	start, end c16v
	ok         bool
}

type c16Del struct {
	start, entries c16v
	at             ssa.Instruction
}

type c16Note struct{ clause, where, detail string }

type c16State struct {
	mem     map[string]c16v
	fresh   map[string]bool // cells allocated on this path (they start out zero)
	havoc   map[string]bool // cells whose address was passed on
	regs    map[ssa.Value]c16v
	escaped map[string]bool // backing arrays handed to the callback
	reqs    []c16Rq
	dels    []c16Del
	facts   []LinForm
	tags    []string
	visited map[*ssa.BasicBlock]bool
	notes   []c16Note
}

func (s *c16State) clone() *c16State {
	n := &c16State{mem: map[string]c16v{}, fresh: map[string]bool{}, havoc: map[string]bool{}, regs: map[ssa.Value]c16v{}, escaped: map[string]bool{}, visited: map[*ssa.BasicBlock]bool{}}
	for k, v := range s.mem {
		n.mem[k] = v
	}
	for k, v := range s.fresh {
		n.fresh[k] = v
	}
	for k, v := range s.havoc {
		n.havoc[k] = v
	}
	for k, v := range s.regs {
		n.regs[k] = v
	}
	for k, v := range s.escaped {
		n.escaped[k] = v
	}
	for k, v := range s.visited {
		n.visited[k] = v
	}
	n.reqs = append([]c16Rq{}, s.reqs...)
	n.dels = append([]c16Del{}, s.dels...)
	n.facts = append([]LinForm{}, s.facts...)
	n.tags = append([]string{}, s.tags...)
	n.notes = append([]c16Note{}, s.notes...)
	return n
}

type c16Path struct {
	kind string // base | back | exit | return
	st   *c16State
	pred *ssa.BasicBlock // base, back: the predecessor the loop head was reached from
	at   ssa.Instruction
}

type c16HV struct {
	key string
	typ types.Type
}

type c16X struct {
	r         *Run
	fn, clo   *ssa.Function
	H         *ssa.BasicBlock
	loop      map[*ssa.BasicBlock]bool
	req       ssa.CallInstruction
	issue     ssa.Instruction
	cb        *ssa.Parameter
	recv      *ssa.UnOp
	allocs    map[string]*ssa.Alloc
	headPhi   map[string]*ssa.Phi
	hv        map[string]c16HV
	paths     []*c16Path
	undecided []string
	nsym      int
	npaths    int
}

func (x *c16X) giveUp(why string) {
	for _, u := range x.undecided {
		if u == why {
			return
		}
	}
	x.undecided = append(x.undecided, why)
}

func (x *c16X) akey(a *ssa.Alloc) string {
	k := a.Name()
	if a.Parent() != x.fn {
		k = "$" + k
	}
	x.allocs[k] = a
	return k
}

func c16Root(key string) string {
	if i := strings.IndexByte(key, '.'); i >= 0 {
		return key[:i]
	}
	return key
}

func (x *c16X) fresh(prefix string) string {
	x.nsym++
	return fmt.Sprintf("%s%d", prefix, x.nsym)
}

// unk: a value nothing is known about; an integer becomes a symbol of its own.
func (x *c16X) unk(t types.Type, why string) c16v {
	if t != nil && c16Integer(t) {
		return c16I{linLeaf(x.fresh("?"))}
	}
	return c16U{why}
}

func (x *c16X) headSym(key string, t types.Type, depth int) c16v {
	if depth > 3 {
		return c16U{"deep"}
	}
	switch u := t.Underlying().(type) {
	case *types.Basic:
		if u.Info()&types.IsInteger != 0 {
			x.hv[key] = c16HV{key, t}
			return c16I{linLeaf(key)}
		}
	case *types.Slice:
		x.hv[key] = c16HV{key, t}
		return c16S{ch: []c16Chunk{{head: key}}, backing: "head:" + key}
	case *types.Pointer:
		return c16P{key + "^"}
	case *types.Struct:
		out := c16T{}
		for i := 0; i < u.NumFields(); i++ {
			out.f = append(out.f, x.headSym(fmt.Sprintf("%s.%d", key, i), u.Field(i).Type(), depth+1))
		}
		return out
	}
	return c16U{"state of " + key}
}

func (x *c16X) zero(t types.Type, depth int) c16v {
	if depth > 3 {
		return c16U{"deep"}
	}
	switch u := t.Underlying().(type) {
	case *types.Basic:
		if u.Info()&types.IsInteger != 0 {
			return c16I{c16Zero()}
		}
		if u.Info()&types.IsBoolean != 0 {
			return c16Bool{known: true}
		}
	case *types.Slice:
		return c16S{backing: "nil"}
	case *types.Pointer, *types.Interface, *types.Signature, *types.Map, *types.Chan:
		return c16Nil{}
	case *types.Struct:
		out := c16T{}
		for i := 0; i < u.NumFields(); i++ {
			out.f = append(out.f, x.zero(u.Field(i).Type(), depth+1))
		}
		return out
	}
	return c16U{"zero"}
}

func (x *c16X) read(st *c16State, key string, t types.Type, depth int) c16v {
	if st.havoc[c16Root(key)] {
		return x.unk(t, "its address was passed on")
	}
	if u, ok := t.Underlying().(*types.Struct); ok && depth <= 3 {
		if v, ok := st.mem[key]; ok { // stored as a whole, of unknown content
			return v
		}
		out := c16T{}
		for i := 0; i < u.NumFields(); i++ {
			out.f = append(out.f, x.read(st, fmt.Sprintf("%s.%d", key, i), u.Field(i).Type(), depth+1))
		}
		return out
	}
	if v, ok := st.mem[key]; ok {
		return v
	}
	if st.fresh[c16Root(key)] {
		return x.zero(t, 0)
	}
	// a local that holds one value for good (a spilled parameter)
	if a := x.allocs[key]; a != nil {
		if sv := c16CellOnce(a); sv != nil {
			if p, ok := sv.(*ssa.Parameter); ok {
				return c16Prm{p}
			}
		}
	}
	return x.headSym(key, t, 0)
}

func (x *c16X) write(st *c16State, key string, v c16v, t types.Type, depth int) {
	if u, ok := t.Underlying().(*types.Struct); ok && depth <= 3 {
		tv, isT := v.(c16T)
		for k := range st.mem {
			if strings.HasPrefix(k, key+".") {
				delete(st.mem, k)
			}
		}
		delete(st.mem, key)
		if !isT || len(tv.f) != u.NumFields() {
			for i := 0; i < u.NumFields(); i++ {
				x.write(st, fmt.Sprintf("%s.%d", key, i), x.unk(u.Field(i).Type(), "stored as a whole"), u.Field(i).Type(), depth+1)
			}
			return
		}
		for i := 0; i < u.NumFields(); i++ {
			x.write(st, fmt.Sprintf("%s.%d", key, i), tv.f[i], u.Field(i).Type(), depth+1)
		}
		return
	}
	st.mem[key] = v
}

func (x *c16X) val(st *c16State, v ssa.Value) c16v {
	if got, ok := st.regs[v]; ok {
		return got
	}
	switch y := v.(type) {
	case *ssa.Const:
		if y.Value == nil {
			if _, ok := y.Type().Underlying().(*types.Slice); ok {
				return c16S{backing: "nil"}
			}
			if isNumeric(y.Type()) {
				return c16I{c16Zero()}
			}
			return c16Nil{}
		}
		switch y.Value.Kind() {
		case constant.Int:
			if i, ok := constant.Int64Val(y.Value); ok {
				return c16I{LinForm{Coef: map[string]int64{}, Const: i}}
			}
		case constant.Bool:
			return c16Bool{known: true, v: constant.BoolVal(y.Value)}
		}
		return c16U{"constant"}
	case *ssa.Parameter:
		return c16Prm{y}
	case *ssa.Function:
		return c16Fn{fn: y}
	case *ssa.Alloc:
		// allocated before the walk began
		return c16P{x.akey(y)}
	}
	// a value computed before the walk began: the same in every round
	if c16Integer(v.Type()) {
		return c16I{linLeaf("v:" + v.Name())}
	}
	return c16U{"computed before the range was received"}
}

func (x *c16X) boolOf(v c16v) c16Bool {
	if b, ok := v.(c16Bool); ok {
		return b
	}
	return c16Bool{}
}

func c16IsNil(v c16v) bool { _, ok := v.(c16Nil); return ok }

func (x *c16X) compare(op token.Token, a, b c16v) c16v {
	ia, okA := a.(c16I)
	ib, okB := b.(c16I)
	if okA && okB {
		d := ia.l.add(ib.l, -1) // a − b
		neg := d.scale(-1)
		minus1 := func(l LinForm) LinForm { n := l.add(c16Zero(), 1); n.Const--; return n }
		var out c16Bool
		switch op {
		case token.LSS: // a < b: b − a − 1 ≥ 0 | a − b ≥ 0
			out = c16Bool{onT: []LinForm{minus1(neg)}, onF: []LinForm{d}}
		case token.LEQ:
			out = c16Bool{onT: []LinForm{neg}, onF: []LinForm{minus1(d)}}
		case token.GTR:
			out = c16Bool{onT: []LinForm{minus1(d)}, onF: []LinForm{neg}}
		case token.GEQ:
			out = c16Bool{onT: []LinForm{d}, onF: []LinForm{minus1(neg)}}
		case token.EQL:
			out = c16Bool{onT: []LinForm{d, neg}}
		case token.NEQ:
			out = c16Bool{onF: []LinForm{d, neg}}
		default:
			return c16Bool{}
		}
		if c, ok := d.isConst(); ok {
			out.known = true
			switch op {
			case token.LSS:
				out.v = c < 0
			case token.LEQ:
				out.v = c <= 0
			case token.GTR:
				out.v = c > 0
			case token.GEQ:
				out.v = c >= 0
			case token.EQL:
				out.v = c == 0
			case token.NEQ:
				out.v = c != 0
			}
			return out
		}
		out.tagT, out.tagF = c16LenTag(out.onT), c16LenTag(out.onF)
		return out
	}
	if op != token.EQL && op != token.NEQ {
		return c16Bool{}
	}
	if c16IsNil(a) {
		a, b = b, a
	}
	if !c16IsNil(b) {
		return c16Bool{}
	}
	eq := op == token.EQL
	switch y := a.(type) {
	case c16Er:
		return c16Bool{known: true, v: y.non != eq}
	case c16Rsp:
		if y.ok {
			return c16Bool{known: true, v: !eq}
		}
	case c16Nil:
		return c16Bool{known: true, v: eq}
	case c16P, c16Fn:
		return c16Bool{known: true, v: !eq}
	case c16U:
		if y.why == "ctx.Err" {
			if eq {
				return c16Bool{tagT: "ctx=live", tagF: "ctx=cancelled"}
			}
			return c16Bool{tagT: "ctx=cancelled", tagF: "ctx=live"}
		}
	}
	return c16Bool{}
}

// c16LenTag names a fact about the length of a kept slice alone: "kept≥1", "kept≤0".
func c16LenTag(facts []LinForm) string {
	if len(facts) != 1 {
		return ""
	}
	f := facts[0]
	sym, co := "", int64(0)
	for k, c := range f.Coef {
		if c == 0 {
			continue
		}
		if sym != "" {
			return ""
		}
		sym, co = k, c
	}
	if !strings.HasPrefix(sym, "len(") {
		return ""
	}
	switch co {
	case 1: // len + c ≥ 0
		return fmt.Sprintf("kept≥%d", -f.Const)
	case -1: // −len + c ≥ 0
		return fmt.Sprintf("kept≤%d", f.Const)
	}
	return ""
}

// fieldRoles: in the struct the callback takes, the one integer field is the label and the one
// slice field the entries.
func c16BatchFields(t types.Type) (label, entries int) {
	label, entries = -1, -1
	u, ok := t.Underlying().(*types.Struct)
	if !ok {
		return
	}
	for i := 0; i < u.NumFields(); i++ {
		ft := u.Field(i).Type()
		if c16Integer(ft) {
			if label >= 0 {
				return -1, -1
			}
			label = i
		} else if _, ok := ft.Underlying().(*types.Slice); ok {
			if entries >= 0 {
				return -1, -1
			}
			entries = i
		}
	}
	return
}

// step executes one instruction that is neither a terminator nor the request.
func (x *c16X) step(st *c16State, in ssa.Instruction) {
	switch y := in.(type) {
	case *ssa.Alloc:
		k := x.akey(y)
		for m := range st.mem {
			if m == k || strings.HasPrefix(m, k+".") {
				delete(st.mem, m)
			}
		}
		st.fresh[k] = true
		delete(st.havoc, k)
		st.regs[y] = c16P{k}
	case *ssa.UnOp:
		a := x.val(st, y.X)
		switch y.Op {
		case token.MUL:
			switch p := a.(type) {
			case c16P:
				st.regs[y] = x.read(st, p.key, y.Type(), 0)
			case c16RspF:
				if _, ok := y.Type().Underlying().(*types.Slice); ok {
					st.regs[y] = c16S{ch: []c16Chunk{{k: p.r.k, ok: p.r.ok}}, backing: fmt.Sprintf("response%d", p.r.k)}
				} else {
					st.regs[y] = x.unk(y.Type(), "field of a response")
				}
			default:
				if _, ok := y.Type().Underlying().(*types.Slice); ok {
					st.regs[y] = c16S{ch: []c16Chunk{{unk: "read through a pointer of unknown origin"}}, backing: x.fresh("b")}
				} else {
					st.regs[y] = x.unk(y.Type(), "read through a pointer of unknown origin")
				}
			}
		case token.SUB:
			if i, ok := a.(c16I); ok {
				st.regs[y] = c16I{i.l.scale(-1)}
			} else {
				st.regs[y] = x.unk(y.Type(), "negation")
			}
		case token.NOT:
			b := x.boolOf(a)
			st.regs[y] = c16Bool{known: b.known, v: !b.v, onT: b.onF, onF: b.onT, tagT: b.tagF, tagF: b.tagT}
		default:
			st.regs[y] = x.unk(y.Type(), "operator "+y.Op.String())
		}
	case *ssa.BinOp:
		a, b := x.val(st, y.X), x.val(st, y.Y)
		switch y.Op {
		case token.ADD, token.SUB, token.MUL:
			ia, okA := a.(c16I)
			ib, okB := b.(c16I)
			if okA && okB && isNumeric(y.Type()) {
				switch y.Op {
				case token.ADD:
					st.regs[y] = c16I{ia.l.add(ib.l, 1)}
					return
				case token.SUB:
					st.regs[y] = c16I{ia.l.add(ib.l, -1)}
					return
				case token.MUL:
					if c, ok := ia.l.isConst(); ok {
						st.regs[y] = c16I{ib.l.scale(c)}
						return
					}
					if c, ok := ib.l.isConst(); ok {
						st.regs[y] = c16I{ia.l.scale(c)}
						return
					}
				}
			}
			st.regs[y] = x.unk(y.Type(), "arithmetic")
		case token.LSS, token.LEQ, token.GTR, token.GEQ, token.EQL, token.NEQ:
			st.regs[y] = x.compare(y.Op, a, b)
		default:
			st.regs[y] = x.unk(y.Type(), "operator "+y.Op.String())
		}
	case *ssa.Convert:
		if isNumeric(y.Type()) && isNumeric(y.X.Type()) {
			st.regs[y] = x.val(st, y.X)
		} else {
			st.regs[y] = x.unk(y.Type(), "conversion")
		}
	case *ssa.ChangeType:
		st.regs[y] = x.val(st, y.X)
	case *ssa.MakeInterface:
		st.regs[y] = x.val(st, y.X)
	case *ssa.ChangeInterface:
		st.regs[y] = x.val(st, y.X)
	case *ssa.FieldAddr:
		switch p := x.val(st, y.X).(type) {
		case c16P:
			st.regs[y] = c16P{fmt.Sprintf("%s.%d", p.key, y.Field)}
		case c16Rsp:
			st.regs[y] = c16RspF{p}
		default:
			st.regs[y] = c16U{"field of a pointer of unknown origin"}
		}
	case *ssa.Field:
		if t, ok := x.val(st, y.X).(c16T); ok && y.Field < len(t.f) {
			st.regs[y] = t.f[y.Field]
		} else {
			st.regs[y] = x.unk(y.Type(), "field of a value of unknown origin")
		}
	case *ssa.Slice:
		s, ok := x.val(st, y.X).(c16S)
		if !ok {
			st.regs[y] = x.unk(y.Type(), "slice expression")
			return
		}
		isZero := func(v ssa.Value) bool {
			if v == nil {
				return false
			}
			i, ok := x.val(st, v).(c16I)
			if !ok {
				return false
			}
			c, isC := i.l.isConst()
			return isC && c == 0
		}
		full := func(v ssa.Value) bool { // the high bound is the length of the operand
			if v == nil {
				return true
			}
			i, ok := x.val(st, v).(c16I)
			n, okN := c16SliceLen(s)
			return ok && okN && i.l.add(n, -1).String() == c16Zero().String()
		}
		switch {
		case (y.Low == nil || isZero(y.Low)) && y.High != nil && isZero(y.High):
			st.regs[y] = c16S{backing: s.backing}
		case (y.Low == nil || isZero(y.Low)) && full(y.High):
			st.regs[y] = s
		default:
			st.regs[y] = c16S{ch: []c16Chunk{{unk: "a part of a slice"}}, backing: s.backing}
		}
	case *ssa.MakeSlice:
		if i, ok := x.val(st, y.Len).(c16I); ok {
			if c, isC := i.l.isConst(); isC && c == 0 {
				st.regs[y] = c16S{backing: x.fresh("b")}
				return
			}
		}
		st.regs[y] = c16S{ch: []c16Chunk{{unk: "zero entries of a new slice"}}, backing: x.fresh("b")}
	case *ssa.MakeClosure:
		f, _ := y.Fn.(*ssa.Function)
		out := c16Fn{fn: f}
		for _, b := range y.Bindings {
			out.binds = append(out.binds, x.val(st, b))
		}
		if f != x.clo || x.clo == nil {
			// a function literal that may write what it captured
			for _, b := range out.binds {
				if p, ok := b.(c16P); ok {
					st.havoc[c16Root(p.key)] = true
				}
			}
		}
		st.regs[y] = out
	case *ssa.Extract:
		if t, ok := x.val(st, y.Tuple).(c16T); ok && y.Index < len(t.f) {
			st.regs[y] = t.f[y.Index]
		} else {
			st.regs[y] = x.unk(y.Type(), "result of a call")
		}
	case *ssa.TypeAssert:
		if y.CommaOk {
			st.regs[y] = c16T{f: []c16v{c16U{"type assertion"}, c16Bool{}}}
		} else {
			st.regs[y] = c16U{"type assertion"}
		}
	case *ssa.Store:
		v := x.val(st, y.Val)
		switch p := x.val(st, y.Addr).(type) {
		case c16P:
			x.write(st, p.key, v, y.Val.Type(), 0)
		}
		// the address of a cell stored away: the cell may change behind the walk's back
		if p, ok := v.(c16P); ok {
			if _, isP := x.val(st, y.Addr).(c16P); !isP {
				st.havoc[c16Root(p.key)] = true
			}
		}
	case *ssa.Call:
		x.call(st, y)
	case *ssa.Go:
		x.passOn(st, y.Common())
	case *ssa.Defer:
		x.passOn(st, y.Common())
	case *ssa.DebugRef, *ssa.RunDefers:
	case *ssa.Phi:
		// evaluated on entry to the block
	case *ssa.Send, *ssa.MapUpdate:
	default:
		if v, ok := in.(ssa.Value); ok {
			st.regs[v] = x.unk(v.Type(), fmt.Sprintf("%T", in))
		}
	}
}

// passOn: addresses handed to a call the walk does not follow may be written through.
func (x *c16X) passOn(st *c16State, c *ssa.CallCommon) {
	for _, a := range c.Args {
		switch p := x.val(st, a).(type) {
		case c16P:
			st.havoc[c16Root(p.key)] = true
		case c16Fn:
			for _, b := range p.binds {
				if q, ok := b.(c16P); ok {
					st.havoc[c16Root(q.key)] = true
				}
			}
		}
	}
	if !c.IsInvoke() {
		if p, ok := x.val(st, c.Value).(c16Fn); ok {
			for _, b := range p.binds {
				if q, ok := b.(c16P); ok {
					st.havoc[c16Root(q.key)] = true
				}
			}
		}
	}
}

func (x *c16X) call(st *c16State, y *ssa.Call) {
	c := y.Common()
	if b, ok := c.Value.(*ssa.Builtin); ok {
		switch b.Name() {
		case "len":
			if s, ok := x.val(st, c.Args[0]).(c16S); ok {
				if n, ok := c16SliceLen(s); ok {
					st.regs[y] = c16I{n}
					return
				}
			}
		case "append":
			a, okA := x.val(st, c.Args[0]).(c16S)
			if okA && len(c.Args) == 2 {
				out := c16S{ch: append([]c16Chunk{}, a.ch...), backing: a.backing}
				if a.backing == "nil" {
					out.backing = x.fresh("b")
				} else if st.escaped[a.backing] {
					st.notes = append(st.notes, c16Note{"kept-fresh", x.r.Where(y), "entries are appended to a slice whose backing array was already handed to the callback: a consumer that keeps the batch sees its entries overwritten"})
				}
				if bS, ok := x.val(st, c.Args[1]).(c16S); ok {
					out.ch = append(out.ch, bS.ch...)
				} else {
					out.ch = append(out.ch, c16Chunk{unk: "appended entries of unknown origin"})
				}
				st.regs[y] = out
				return
			}
			if _, ok := y.Type().Underlying().(*types.Slice); ok {
				st.regs[y] = c16S{ch: []c16Chunk{{unk: "append to a slice of unknown origin"}}, backing: x.fresh("b")}
				return
			}
		}
		st.regs[y] = x.unk(y.Type(), "builtin "+b.Name())
		return
	}
	if !c.IsInvoke() {
		if p, ok := x.val(st, c.Value).(c16Prm); ok && p.p == x.cb && len(c.Args) == 1 {
			d := c16Del{at: y, start: c16U{"?"}, entries: c16U{"?"}}
			li, ei := c16BatchFields(c.Args[0].Type())
			if t, ok := x.val(st, c.Args[0]).(c16T); ok && li >= 0 && ei >= 0 && li < len(t.f) && ei < len(t.f) {
				d.start, d.entries = t.f[li], t.f[ei]
			}
			if s, ok := d.entries.(c16S); ok {
				st.escaped[s.backing] = true
			}
			st.dels = append(st.dels, d)
			return
		}
	}
	x.passOn(st, c)
	if c.IsInvoke() && c.Method != nil && c.Method.Name() == "Err" && TypeName(c.Value.Type()) == "context.Context" {
		st.regs[y] = c16U{"ctx.Err"}
		return
	}
	if tup, ok := y.Type().(*types.Tuple); ok {
		out := c16T{}
		for i := 0; i < tup.Len(); i++ {
			out.f = append(out.f, x.unk(tup.At(i).Type(), "result of "+CalleeOf(y)))
		}
		st.regs[y] = out
		return
	}
	st.regs[y] = x.unk(y.Type(), "result of "+CalleeOf(y))
}

// request: the get-entries request with one of its two outcomes.
func (x *c16X) request(st *c16State, ok bool) c16v {
	args := CallArgs(x.req)
	k := len(st.reqs) + 1
	rq := c16Rq{ok: ok, start: c16U{"?"}, end: c16U{"?"}}
	if len(args) >= 4 {
		rq.start, rq.end = x.val(st, args[2]), x.val(st, args[3])
	}
	st.reqs = append(st.reqs, rq)
	if ok {
		st.tags = append(st.tags, "request=ok")
	} else {
		st.tags = append(st.tags, "request=failed")
	}
	return c16T{f: []c16v{c16Rsp{k, ok}, c16Er{k, !ok}}}
}

// issueRequest: the instruction of the worker that makes the request — the call itself, or the
// call of the retry helper that is handed the function literal making it.
func (x *c16X) issueRequest(st *c16State, in ssa.Instruction) []*c16State {
	var out []*c16State
	for _, ok := range []bool{true, false} {
		s := st.clone()
		if in == ssa.Instruction(x.req) {
			s.regs[x.req.Value()] = x.request(s, ok)
			out = append(out, s)
			continue
		}
		ci := in.(ssa.CallInstruction)
		var lit *c16Fn
		for _, a := range ci.Common().Args {
			if f, isF := x.val(s, a).(c16Fn); isF && f.fn == x.clo {
				lit = &f
			}
		}
		if f, isF := x.val(s, ci.Common().Value).(c16Fn); isF && f.fn == x.clo && !ci.Common().IsInvoke() {
			lit = &f
		}
		if lit == nil || len(x.clo.Blocks) != 1 || len(lit.binds) != len(x.clo.FreeVars) {
			x.giveUp("the function literal that makes the request is not a straight-line function handed to the call that runs it")
			return nil
		}
		for i, fv := range x.clo.FreeVars {
			s.regs[fv] = lit.binds[i]
		}
		var res c16v = c16U{"no result"}
		for _, cin := range x.clo.Blocks[0].Instrs {
			switch z := cin.(type) {
			case *ssa.Return:
				if len(z.Results) == 1 {
					res = x.val(s, z.Results[0])
				}
			default:
				if cin == ssa.Instruction(x.req) {
					s.regs[x.req.Value()] = x.request(s, ok)
					continue
				}
				x.step(s, cin)
			}
		}
		if v, isV := in.(ssa.Value); isV {
			s.regs[v] = res
		}
		out = append(out, s)
	}
	return out
}

const c16MaxPaths = 4000

func (x *c16X) run(st *c16State, b *ssa.BasicBlock, i int, mode string) {
	for ; i < len(b.Instrs); i++ {
		in := b.Instrs[i]
		if in == x.issue {
			for _, s := range x.issueRequest(st, in) {
				x.run(s, b, i+1, mode)
			}
			return
		}
		if mode == "round" && in == ssa.Instruction(x.recv) {
			x.end(&c16Path{kind: "exit", st: st, at: in})
			return
		}
		switch y := in.(type) {
		case *ssa.If:
			c := x.boolOf(x.val(st, y.Cond))
			for k, succ := range b.Succs {
				taken := k == 0
				if c.known && c.v != taken {
					continue
				}
				s := st
				if !c.known {
					s = st.clone()
					if taken {
						s.facts = append(s.facts, c.onT...)
						if c.tagT != "" {
							s.tags = append(s.tags, c.tagT)
						}
					} else {
						s.facts = append(s.facts, c.onF...)
						if c.tagF != "" {
							s.tags = append(s.tags, c.tagF)
						}
					}
				}
				x.enter(s, b, succ, mode)
			}
			return
		case *ssa.Jump:
			x.enter(st, b, b.Succs[0], mode)
			return
		case *ssa.Return:
			x.end(&c16Path{kind: "return", st: st, at: in})
			return
		case *ssa.Panic:
			return
		default:
			x.step(st, in)
		}
	}
}

func (x *c16X) end(p *c16Path) {
	x.npaths++
	if x.npaths > c16MaxPaths {
		x.giveUp("more than 4000 paths through one round of the worker")
		return
	}
	x.paths = append(x.paths, p)
}

func (x *c16X) enter(st *c16State, from, to *ssa.BasicBlock, mode string) {
	if len(x.undecided) > 0 {
		return
	}
	if to == x.H {
		kind := "back"
		if mode == "pro" {
			kind = "base"
		}
		x.end(&c16Path{kind: kind, st: st, pred: from, at: from.Instrs[len(from.Instrs)-1]})
		return
	}
	if mode == "pro" && x.loop[to] {
		x.giveUp("the loop that makes the requests is entered other than at its head")
		return
	}
	if st.visited[to] {
		if to == x.recv.Block() {
			return // the prologue went round to the receive again
		}
		x.giveUp("a loop within one round of the worker (" + x.r.Where(to.Instrs[0]) + ")")
		return
	}
	st.visited[to] = true
	x.phis(st, from, to)
	x.run(st, to, 0, mode)
}

func (x *c16X) phis(st *c16State, from, to *ssa.BasicBlock) {
	idx := -1
	for i, p := range to.Preds {
		if p == from {
			idx = i
		}
	}
	vals := map[*ssa.Phi]c16v{}
	for _, in := range to.Instrs {
		ph, ok := in.(*ssa.Phi)
		if !ok {
			break
		}
		if idx < 0 || idx >= len(ph.Edges) {
			vals[ph] = x.unk(ph.Type(), "φ")
			continue
		}
		vals[ph] = x.val(st, ph.Edges[idx])
	}
	for ph, v := range vals {
		st.regs[ph] = v
	}
}

// hvNew: what the loop-carried variable key holds when path p arrives at the loop head.
func (x *c16X) hvNew(p *c16Path, key string) c16v {
	hv := x.hv[key]
	edge := func(ph *ssa.Phi) c16v {
		for i, q := range x.H.Preds {
			if q == p.pred && i < len(ph.Edges) {
				return x.val(p.st, ph.Edges[i])
			}
		}
		return c16U{"φ"}
	}
	if ph := x.headPhi[key]; ph != nil {
		if _, isPtr := ph.Type().Underlying().(*types.Pointer); !isPtr {
			return edge(ph)
		}
	}
	root := c16Root(key)
	if ph := x.headPhi[root]; ph != nil {
		np, ok := edge(ph).(c16P)
		if !ok {
			return x.unk(hv.typ, "pointer of unknown origin")
		}
		return x.read(p.st, np.key+key[len(root):], hv.typ, 0)
	}
	return x.read(p.st, key, hv.typ, 0)
}

// ---- rational linear algebra (the affine hull of the states at the loop head) ---------------------

type c16Vec []*big.Rat

func c16NewVec(n int) c16Vec {
	v := make(c16Vec, n)
	for i := range v {
		v[i] = new(big.Rat)
	}
	return v
}

func (v c16Vec) isZero() bool {
	for _, c := range v {
		if c.Sign() != 0 {
			return false
		}
	}
	return true
}

func (v c16Vec) copy() c16Vec {
	o := c16NewVec(len(v))
	for i := range v {
		o[i].Set(v[i])
	}
	return o
}

// axpy: v += a·w
func (v c16Vec) axpy(a *big.Rat, w c16Vec) {
	for i := range v {
		v[i].Add(v[i], new(big.Rat).Mul(a, w[i]))
	}
}

type c16Space struct {
	dim  int
	pt   c16Vec
	dirs []c16Vec // echelon: dirs[i] has pivot piv[i], value 1 there, 0 at the pivots of the others before it
	piv  []int
}

func (s *c16Space) reduceDir(v c16Vec) c16Vec {
	v = v.copy()
	for i, d := range s.dirs {
		if c := v[s.piv[i]]; c.Sign() != 0 {
			v.axpy(new(big.Rat).Neg(c), d)
		}
	}
	return v
}

func (s *c16Space) addDir(v c16Vec) bool {
	v = s.reduceDir(v)
	if v.isZero() {
		return false
	}
	p := 0
	for v[p].Sign() == 0 {
		p++
	}
	inv := new(big.Rat).Inv(v[p])
	for i := range v {
		v[i].Mul(v[i], inv)
	}
	s.dirs = append(s.dirs, v)
	s.piv = append(s.piv, p)
	return true
}

func (s *c16Space) addPoint(p c16Vec) bool {
	if s.pt == nil {
		s.pt = p.copy()
		return true
	}
	d := p.copy()
	d.axpy(big.NewRat(-1, 1), s.pt)
	return s.addDir(d)
}

// equations: rows (a, b) with a·x + b = 0 on the whole space, in reduced echelon form.
func (s *c16Space) equations() (rows []c16Vec, piv []int) {
	// null space of the direction matrix
	n := s.dim
	m := make([]c16Vec, len(s.dirs))
	for i, d := range s.dirs {
		m[i] = d.copy()
	}
	var pcols []int
	r := 0
	for c := 0; c < n && r < len(m); c++ {
		k := -1
		for i := r; i < len(m); i++ {
			if m[i][c].Sign() != 0 {
				k = i
				break
			}
		}
		if k < 0 {
			continue
		}
		m[r], m[k] = m[k], m[r]
		inv := new(big.Rat).Inv(m[r][c])
		for j := range m[r] {
			m[r][j].Mul(m[r][j], inv)
		}
		for i := range m {
			if i != r && m[i][c].Sign() != 0 {
				m[i].axpy(new(big.Rat).Neg(m[i][c]), m[r])
			}
		}
		pcols = append(pcols, c)
		r++
	}
	isP := map[int]int{}
	for i, c := range pcols {
		isP[c] = i
	}
	var null []c16Vec
	for f := 0; f < n; f++ {
		if _, ok := isP[f]; ok {
			continue
		}
		a := c16NewVec(n)
		a[f].SetInt64(1)
		for i, c := range pcols {
			a[c].Neg(m[i][f])
		}
		null = append(null, a)
	}
	// echelon form of the equations themselves (over the variables, last variable first so
	// that the ghost counter and lengths are expressed through program variables last)
	r = 0
	for c := 0; c < n && r < len(null); c++ {
		k := -1
		for i := r; i < len(null); i++ {
			if null[i][c].Sign() != 0 {
				k = i
				break
			}
		}
		if k < 0 {
			continue
		}
		null[r], null[k] = null[k], null[r]
		inv := new(big.Rat).Inv(null[r][c])
		for j := range null[r] {
			null[r][j].Mul(null[r][j], inv)
		}
		for i := range null {
			if i != r && null[i][c].Sign() != 0 {
				null[i].axpy(new(big.Rat).Neg(null[i][c]), null[r])
			}
		}
		piv = append(piv, c)
		r++
	}
	for _, a := range null {
		row := c16NewVec(n + 1)
		b := new(big.Rat)
		for i := 0; i < n; i++ {
			row[i].Set(a[i])
			if s.pt != nil {
				b.Add(b, new(big.Rat).Mul(a[i], s.pt[i]))
			}
		}
		row[n].Neg(b)
		rows = append(rows, row)
	}
	return rows, piv
}

// c16Q: a linear form with rational coefficients.
type c16Q struct {
	c map[string]*big.Rat
	k *big.Rat
}

func c16QOf(l LinForm) c16Q {
	q := c16Q{c: map[string]*big.Rat{}, k: big.NewRat(l.Const, 1)}
	for s, co := range l.Coef {
		if co != 0 {
			q.c[s] = big.NewRat(co, 1)
		}
	}
	return q
}

func (q c16Q) isZero() bool {
	for _, c := range q.c {
		if c.Sign() != 0 {
			return false
		}
	}
	return q.k.Sign() == 0
}

func (q c16Q) constant() (*big.Rat, bool) {
	for _, c := range q.c {
		if c.Sign() != 0 {
			return nil, false
		}
	}
	return q.k, true
}

// ---- the analysis -----------------------------------------------------------------------------------

type c16Ob struct {
	p      *c16Path
	clause string
	where  string
	eq     *LinForm  // must be 0 under the invariant
	geq    []LinForm // … or: one of these must be a constant ≥ 0 under the invariant
	vac    *LinForm  // the equality says nothing when this (the length of the chunk placed) is 0
	what   string    // what the equality says, in words
	failed string    // decided already: failed for this reason
}

type c16Map struct {
	p    *c16Path
	rows []LinForm // new value of each dimension
	sig  string
}

type c16An struct {
	x     *c16X
	dims  []string
	index map[string]int
	maps  []*c16Map // round paths that come back to the head
	bases []*c16Map
	obs   []*c16Ob
	kept  []string
	last  LinForm
}

func (a *c16An) disp(sym string) string {
	x := a.x
	switch {
	case sym == "g":
		return "first-undelivered"
	case strings.HasPrefix(sym, "len("):
		return "len(" + a.disp(sym[4:len(sym)-1]) + ")"
	case strings.HasPrefix(sym, "recv."):
		return "received." + sym[5:]
	case strings.HasPrefix(sym, "n"):
		if _, err := parseInt(sym[1:]); err == nil {
			return "len(response" + sym[1:] + ")"
		}
	}
	name := func(root string) (string, types.Type) {
		if ph := x.headPhi[root]; ph != nil {
			n := ph.Comment
			if n == "" {
				n = root
			}
			t := ph.Type()
			if p, ok := t.Underlying().(*types.Pointer); ok {
				t = p.Elem()
			}
			return n, t
		}
		if al := x.allocs[root]; al != nil {
			n := al.Comment
			if n == "" {
				n = root
			}
			return n, al.Type().Underlying().(*types.Pointer).Elem()
		}
		return root, nil
	}
	parts := strings.Split(sym, ".")
	n, t := name(strings.TrimSuffix(parts[0], "^"))
	for _, f := range parts[1:] {
		idx, err := parseInt(strings.TrimSuffix(f, "^"))
		if t != nil && err == nil {
			if u, ok := t.Underlying().(*types.Struct); ok && int(idx) < u.NumFields() {
				n += "." + u.Field(int(idx)).Name()
				t = u.Field(int(idx)).Type()
				continue
			}
		}
		n += "." + f
		t = nil
	}
	return n
}

func (a *c16An) show(q c16Q) string {
	var ks []string
	for k, c := range q.c {
		if c.Sign() != 0 {
			ks = append(ks, k)
		}
	}
	sort.Slice(ks, func(i, j int) bool { return a.disp(ks[i]) < a.disp(ks[j]) })
	var parts []string
	for _, k := range ks {
		c := q.c[k]
		switch {
		case c.Cmp(big.NewRat(1, 1)) == 0:
			parts = append(parts, "+ "+a.disp(k))
		case c.Cmp(big.NewRat(-1, 1)) == 0:
			parts = append(parts, "− "+a.disp(k))
		case c.Sign() < 0:
			parts = append(parts, "− "+new(big.Rat).Neg(c).RatString()+"·"+a.disp(k))
		default:
			parts = append(parts, "+ "+c.RatString()+"·"+a.disp(k))
		}
	}
	if q.k.Sign() != 0 || len(parts) == 0 {
		if q.k.Sign() < 0 {
			parts = append(parts, "− "+new(big.Rat).Neg(q.k).RatString())
		} else {
			parts = append(parts, "+ "+q.k.RatString())
		}
	}
	return strings.TrimPrefix(strings.Join(parts, " "), "+ ")
}

func (a *c16An) showL(l LinForm) string { return a.show(c16QOf(l)) }

// reduce: q modulo the equalities that hold on the space.
func (a *c16An) reduce(sp *c16Space, q c16Q) c16Q {
	rows, piv := sp.equations()
	out := c16Q{c: map[string]*big.Rat{}, k: new(big.Rat).Set(q.k)}
	for k, c := range q.c {
		out.c[k] = new(big.Rat).Set(c)
	}
	for i, row := range rows {
		if i >= len(piv) {
			break
		}
		pv := a.dims[piv[i]]
		c, ok := out.c[pv]
		if !ok || c.Sign() == 0 {
			continue
		}
		f := new(big.Rat).Set(c)
		for j, d := range a.dims {
			if row[j].Sign() == 0 {
				continue
			}
			if out.c[d] == nil {
				out.c[d] = new(big.Rat)
			}
			out.c[d].Sub(out.c[d], new(big.Rat).Mul(f, row[j]))
		}
		out.k.Sub(out.k, new(big.Rat).Mul(f, row[len(a.dims)]))
	}
	return out
}

// simplest: among the forms equal to q on sp, one with few terms (for messages only).
func (a *c16An) simplest(sp *c16Space, q c16Q) c16Q {
	terms := func(q c16Q) int {
		n := 0
		for _, c := range q.c {
			if c.Sign() != 0 {
				n++
			}
		}
		if q.k.Sign() != 0 {
			n++
		}
		return n
	}
	rows, _ := sp.equations()
	for improved := true; improved; {
		improved = false
		for _, row := range rows {
			for _, k := range []int64{1, -1, 2, -2} {
				cand := c16Q{c: map[string]*big.Rat{}, k: new(big.Rat).Set(q.k)}
				for s, c := range q.c {
					cand.c[s] = new(big.Rat).Set(c)
				}
				f := big.NewRat(k, 1)
				for j, d := range a.dims {
					if row[j].Sign() == 0 {
						continue
					}
					if cand.c[d] == nil {
						cand.c[d] = new(big.Rat)
					}
					cand.c[d].Add(cand.c[d], new(big.Rat).Mul(f, row[j]))
				}
				cand.k.Add(cand.k, new(big.Rat).Mul(f, row[len(a.dims)]))
				if terms(cand) < terms(q) {
					q, improved = cand, true
				}
			}
		}
	}
	return q
}

// rowsOf: the value of every dimension when p arrives at the loop head.
func (a *c16An) rowsOf(p *c16Path, gEnd LinForm) []LinForm {
	x := a.x
	rows := make([]LinForm, len(a.dims))
	for i, d := range a.dims {
		switch {
		case d == "g":
			rows[i] = gEnd
		case strings.HasPrefix(d, "len("):
			rows[i] = linLeaf(x.fresh("?"))
			if s, ok := x.hvNew(p, d[4:len(d)-1]).(c16S); ok {
				if n, ok := c16SliceLen(s); ok {
					rows[i] = n
				}
			}
		default:
			rows[i] = linLeaf(x.fresh("?"))
			if v, ok := x.hvNew(p, d).(c16I); ok {
				rows[i] = v.l
			}
		}
	}
	return rows
}

func (a *c16An) vecs(m *c16Map) (A []c16Vec, c c16Vec, free map[string]c16Vec) {
	n := len(a.dims)
	A = make([]c16Vec, n) // A[j] = image of unit vector j (column)
	for j := range A {
		A[j] = c16NewVec(n)
	}
	c = c16NewVec(n)
	free = map[string]c16Vec{}
	for i, row := range m.rows {
		c[i].SetInt64(row.Const)
		for s, co := range row.Coef {
			if co == 0 {
				continue
			}
			if j, ok := a.index[s]; ok {
				A[j][i].SetInt64(co)
				continue
			}
			if free[s] == nil {
				free[s] = c16NewVec(n)
			}
			free[s][i].SetInt64(co)
		}
	}
	return
}

func (a *c16An) image(A []c16Vec, v c16Vec) c16Vec {
	out := c16NewVec(len(a.dims))
	for j, col := range A {
		if v[j].Sign() != 0 {
			out.axpy(v[j], col)
		}
	}
	return out
}

// pathEqs: what the tests passed on the way say about the state the path began in, as equalities
// over the dimensions: a test that came out "=" (both X − Y ≥ 0 and Y − X ≥ 0 were recorded), or
// "the length of a slice is ≤ 0" (a length is never negative).
func (a *c16An) pathEqs(p *c16Path) []LinForm {
	facts := append([]LinForm{}, p.st.facts...)
	seenLen := map[string]bool{}
	for _, f := range p.st.facts {
		for s, c := range f.Coef {
			if c != 0 && strings.HasPrefix(s, "len(") && !seenLen[s] {
				seenLen[s] = true
				facts = append(facts, linLeaf(s))
			}
		}
	}
	var out []LinForm
	seen := map[string]bool{}
	for i, f := range facts {
		pure := true
		for s, c := range f.Coef {
			if _, isDim := a.index[s]; c != 0 && !isDim {
				pure = false
			}
		}
		if !pure {
			continue
		}
		for j, g := range facts {
			if i < j && f.add(g, 1).String() == c16Zero().String() {
				k := f.String()
				if !seen[k] && !seen[g.String()] {
					seen[k] = true
					out = append(out, f)
				}
			}
		}
	}
	return out
}

// restrict: the states of sp in which the equalities eqs hold (nil: there are none).
func (a *c16An) restrict(sp *c16Space, eqs []LinForm) *c16Space {
	cur := sp
	for _, e := range eqs {
		if cur.pt == nil {
			return nil
		}
		c := c16NewVec(len(a.dims))
		for s, co := range e.Coef {
			if j, ok := a.index[s]; ok {
				c[j].SetInt64(co)
			}
		}
		dot := func(v c16Vec) *big.Rat {
			t := new(big.Rat)
			for i := range v {
				t.Add(t, new(big.Rat).Mul(c[i], v[i]))
			}
			return t
		}
		v0 := dot(cur.pt)
		v0.Add(v0, big.NewRat(e.Const, 1))
		pivot := -1
		ws := make([]*big.Rat, len(cur.dirs))
		for i, d := range cur.dirs {
			ws[i] = dot(d)
			if ws[i].Sign() != 0 && pivot < 0 {
				pivot = i
			}
		}
		if pivot < 0 {
			if v0.Sign() != 0 {
				return nil
			}
			continue
		}
		next := &c16Space{dim: cur.dim}
		pt := cur.pt.copy()
		pt.axpy(new(big.Rat).Neg(new(big.Rat).Quo(v0, ws[pivot])), cur.dirs[pivot])
		next.addPoint(pt)
		for i, d := range cur.dirs {
			if i == pivot {
				continue
			}
			nd := d.copy()
			nd.axpy(new(big.Rat).Neg(new(big.Rat).Quo(ws[i], ws[pivot])), cur.dirs[pivot])
			next.addDir(nd)
		}
		cur = next
	}
	return cur
}

// space: the affine hull of the head states that the start of a range and the chosen rounds produce.
func (a *c16An) space(include func(m *c16Map) bool) *c16Space {
	sp := &c16Space{dim: len(a.dims)}
	for _, b := range a.bases {
		_, c, free := a.vecs(b)
		sp.addPoint(c)
		for _, k := range sortedKeys(free) {
			sp.addDir(free[k])
		}
	}
	if sp.pt == nil {
		return sp
	}
	for changed := true; changed; {
		changed = false
		for _, m := range a.maps {
			if !include(m) {
				continue
			}
			A, c, free := a.vecs(m)
			from := a.restrict(sp, a.pathEqs(m.p)) // the states in which the tests of this round can come out as they did
			if from == nil || from.pt == nil {
				continue
			}
			img := a.image(A, from.pt)
			img.axpy(big.NewRat(1, 1), c)
			if sp.addPoint(img) {
				changed = true
			}
			for _, d := range from.dirs {
				if sp.addDir(a.image(A, d)) {
					changed = true
				}
			}
			for _, k := range sortedKeys(free) {
				if sp.addDir(free[k]) {
					changed = true
				}
			}
		}
	}
	return sp
}

func sortedKeys[V any](m map[string]V) []string {
	ks := make([]string, 0, len(m))
	for k := range m {
		ks = append(ks, k)
	}
	sort.Strings(ks)
	return ks
}

type c16Failure struct {
	ob     *c16Ob
	detail string
}

// check: the obligations of the chosen paths, decided under the equalities of sp.
func (a *c16An) check(sp *c16Space, of func(p *c16Path) bool) []c16Failure {
	var out []c16Failure
	under := map[*c16Path]*c16Space{}
	for _, ob := range a.obs {
		if !of(ob.p) {
			continue
		}
		if _, ok := under[ob.p]; !ok {
			under[ob.p] = sp
			if ob.p.kind != "base" {
				under[ob.p] = a.restrict(sp, a.pathEqs(ob.p))
			}
		}
		sp := under[ob.p]
		if sp == nil || sp.pt == nil {
			continue // no state at the head of the loop lets the tests of this path come out as they did
		}
		switch {
		case ob.failed != "":
			out = append(out, c16Failure{ob, ob.failed})
		case ob.eq != nil:
			if ob.vac != nil && a.reduce(sp, c16QOf(*ob.vac)).isZero() {
				continue // an empty chunk lies anywhere
			}
			if res := a.reduce(sp, c16QOf(*ob.eq)); !res.isZero() {
				out = append(out, c16Failure{ob, ob.what + ": they differ by " + a.show(a.simplest(sp, res))})
			}
		case ob.geq != nil:
			ok := false
			for _, cand := range ob.geq {
				if c, isC := a.reduce(sp, c16QOf(cand)).constant(); isC && c.Sign() >= 0 {
					ok = true
				}
			}
			if !ok {
				out = append(out, c16Failure{ob, ob.what})
			}
		}
	}
	return out
}

// broken: the equalities of sp that the round m does not keep, with what it makes of them.
func (a *c16An) broken(sp *c16Space, m *c16Map) []string {
	var out []string
	from := a.restrict(sp, a.pathEqs(m.p))
	if from == nil || from.pt == nil {
		return nil
	}
	rows, _ := sp.equations()
	for _, row := range rows {
		eq := c16Q{c: map[string]*big.Rat{}, k: new(big.Rat).Set(row[len(a.dims)])}
		after := c16Q{c: map[string]*big.Rat{}, k: new(big.Rat).Set(row[len(a.dims)])}
		for j, d := range a.dims {
			if row[j].Sign() == 0 {
				continue
			}
			eq.c[d] = new(big.Rat).Set(row[j])
			nv := c16QOf(m.rows[j])
			for s, c := range nv.c {
				if after.c[s] == nil {
					after.c[s] = new(big.Rat)
				}
				after.c[s].Add(after.c[s], new(big.Rat).Mul(row[j], c))
			}
			after.k.Add(after.k, new(big.Rat).Mul(row[j], nv.k))
		}
		if res := a.reduce(from, after); !res.isZero() {
			out = append(out, fmt.Sprintf("%s = 0 becomes %s", a.show(eq), a.show(a.simplest(from, res))))
		}
	}
	return out
}

func (a *c16An) class(p *c16Path) string {
	seen := map[string]bool{}
	var ts []string
	for _, t := range p.st.tags {
		if !seen[t] {
			seen[t] = true
			ts = append(ts, t)
		}
	}
	switch p.kind {
	case "exit":
		ts = append(ts, "range-done")
	case "return":
		ts = append(ts, "returns")
	case "base":
		return "range-received"
	}
	return strings.Join(ts, ",")
}

// obligations of one path, given the ghost counter it starts with.
func (a *c16An) obligations(p *c16Path, g0 LinForm) LinForm {
	x := a.x
	g := g0
	place := func(clause, where string, s c16S, from LinForm, what string) (LinForm, bool) {
		off := c16Zero()
		for _, ch := range s.ch {
			at := from.add(off, 1)
			switch {
			case ch.unk != "":
				a.obs = append(a.obs, &c16Ob{p: p, clause: clause, where: where, failed: "undecided: " + what + " contains " + ch.unk})
				return off, false
			case ch.head != "":
				if p.kind == "base" {
					a.obs = append(a.obs, &c16Ob{p: p, clause: clause, where: where, failed: what + " holds entries from before the range was received (" + a.disp(ch.head) + ")"})
					return off, false
				}
				l := at.add(linLeaf("g"), -1)
				n, _ := ch.length()
				a.obs = append(a.obs, &c16Ob{p: p, clause: clause, where: where, eq: &l, vac: &n,
					what: fmt.Sprintf("%s: the entries kept in %s since earlier rounds, which start at the first index not delivered when the round began (%s), are placed at index %s", what, a.disp(ch.head), a.showL(linLeaf("g")), a.showL(at))})
			case !ch.ok:
				a.obs = append(a.obs, &c16Ob{p: p, clause: "failed-request-not-delivered", where: where, failed: what + " contains the response variable of a request that failed (or was never made): those are not entries the log returned for these indices"})
				return off, false
			default:
				if ch.k < 1 || ch.k > len(p.st.reqs) {
					a.obs = append(a.obs, &c16Ob{p: p, clause: clause, where: where, failed: "undecided: response of an unknown request"})
					return off, false
				}
				rs, ok := p.st.reqs[ch.k-1].start.(c16I)
				if !ok {
					a.obs = append(a.obs, &c16Ob{p: p, clause: clause, where: where, failed: "undecided: the first index requested is of unknown origin"})
					return off, false
				}
				l := at.add(rs.l, -1)
				a.obs = append(a.obs, &c16Ob{p: p, clause: clause, where: where, eq: &l,
					what: fmt.Sprintf("%s: the entries of the response to the request from index %s are placed at index %s", what, a.showL(rs.l), a.showL(at))})
			}
			n, _ := ch.length()
			off = off.add(n, 1)
		}
		return off, true
	}
	for _, d := range p.st.dels {
		where := x.r.Where(d.at)
		st, ok := d.start.(c16I)
		if !ok {
			a.obs = append(a.obs, &c16Ob{p: p, clause: "batch.Start", where: where, failed: "undecided: the label of the batch handed to the callback is of unknown origin"})
			return linLeaf(x.fresh("?"))
		}
		l := st.l.add(g, -1)
		a.obs = append(a.obs, &c16Ob{p: p, clause: "batch.Start", where: where, eq: &l,
			what: fmt.Sprintf("a batch is labelled Start = %s; the first index of the range not delivered yet is %s", a.showL(st.l), a.showL(g))})
		s, ok := d.entries.(c16S)
		if !ok {
			a.obs = append(a.obs, &c16Ob{p: p, clause: "batch.Entries", where: where, failed: "undecided: the entries of the batch handed to the callback are of unknown origin"})
			return linLeaf(x.fresh("?"))
		}
		n, ok := place("batch.Entries", where, s, g, "the batch handed to the callback")
		if !ok {
			return linLeaf(x.fresh("?"))
		}
		g = g.add(n, 1)
	}
	switch p.kind {
	case "back", "base":
		for _, h := range a.kept {
			where := x.r.Where(p.at)
			s, ok := x.hvNew(p, h).(c16S)
			if !ok {
				a.obs = append(a.obs, &c16Ob{p: p, clause: "kept", where: where, failed: "undecided: what " + a.disp(h) + " holds at the end of the round"})
				continue
			}
			if p.st.escaped[s.backing] {
				a.obs = append(a.obs, &c16Ob{p: p, clause: "kept-fresh", where: where, failed: a.disp(h) + " goes into the next round on the backing array of a batch already handed to the callback: what is collected next overwrites the entries of a batch the consumer may still hold"})
			}
			place("kept", where, s, g, "what "+a.disp(h)+" holds when the round ends (to be handed over later, from the first index not delivered yet, "+a.showL(g)+")")
		}
	case "exit":
		var cands []LinForm
		goal := g.add(a.last, -1)
		goal.Const--
		for _, f := range p.st.facts {
			cands = append(cands, goal.add(f, -1))
		}
		a.obs = append(a.obs, &c16Ob{p: p, clause: "range-complete", where: x.r.Where(p.at), geq: cands,
			what: fmt.Sprintf("the worker turns to the next range with %s as the first index not delivered; the last index of the range is %s, and the tests on the way do not entail that it was passed: fetched entries are left undelivered, or the range is left early", a.showL(g), a.showL(a.last))})
	}
	for _, n := range p.st.notes {
		a.obs = append(a.obs, &c16Ob{p: p, clause: n.clause, where: n.where, failed: n.detail})
	}
	return g
}

// c16Account runs the accounting for the worker fn and records the obligations (rule set by the caller).
func c16Account(r *Run, fn *ssa.Function, q *c16Request, req ssa.CallInstruction) {
	x := &c16X{r: r, fn: fn, req: req, issue: q.issue, allocs: map[string]*ssa.Alloc{}, headPhi: map[string]*ssa.Phi{}, hv: map[string]c16HV{}}
	fail := func(why string) {
		r.Fail("runWorker:accounting", r.FnPos(fn), "undecided: "+why)
	}
	if req.Parent() != fn {
		x.clo = req.Parent()
	}
	x.cb, _ = c16Callbacks(r, fn)
	if x.cb == nil {
		fail("the worker has no callback parameter (a function taking one batch: a struct of one integer label and one slice of entries)")
		return
	}
	// the receive of a range
	eachInstr(fn, func(in ssa.Instruction) {
		if u, ok := in.(*ssa.UnOp); ok && u.Op == token.ARROW {
			if _, isParam := u.X.(*ssa.Parameter); isParam && x.recv == nil {
				x.recv = u
			} else if isParam {
				x.undecided = append(x.undecided, "the worker receives from its channel at several places")
			}
		}
	})
	if x.recv == nil {
		fail("the worker does not receive ranges from a channel it was given")
		return
	}
	// the callback is invoked by the worker function itself: a function literal that got hold of it
	// (or a call it is handed on to) could deliver behind the walk's back
	isCbCell := func(v ssa.Value) bool {
		if v == ssa.Value(x.cb) {
			return true
		}
		al, ok := v.(*ssa.Alloc)
		return ok && c16CellOnce(al) == ssa.Value(x.cb)
	}
	for _, f := range append([]*ssa.Function{fn}, fn.AnonFuncs...) {
		eachInstr(f, func(in ssa.Instruction) {
			switch y := in.(type) {
			case *ssa.MakeClosure:
				for _, b := range y.Bindings {
					if isCbCell(b) {
						x.giveUp("the callback is captured by a function literal (" + r.Where(in) + ")")
					}
				}
			case ssa.CallInstruction:
				for _, arg := range y.Common().Args {
					if isCbCell(arg) {
						x.giveUp("the callback is handed on to " + CalleeOf(y) + " (" + r.Where(in) + ")")
					}
					if u, ok := arg.(*ssa.UnOp); ok && u.Op == token.MUL && isCbCell(u.X) {
						x.giveUp("the callback is handed on to " + CalleeOf(y) + " (" + r.Where(in) + ")")
					}
				}
			}
		})
	}
	x.H, x.loop = c16LoopOf(fn, q.issue.Block())
	if x.H == nil || x.loop[x.recv.Block()] {
		fail("the request is not made in a loop of its own that works one received range off")
		return
	}
	for _, in := range x.H.Instrs {
		if ph, ok := in.(*ssa.Phi); ok {
			x.headPhi["φ"+ph.Name()] = ph
		}
	}
	// base paths: from the receive to the head of the loop
	{
		st := (&c16State{}).clone()
		var rt types.Type = x.recv.Type()
		if tup, ok := rt.(*types.Tuple); ok {
			rt = tup.At(0).Type()
		}
		rng := c16T{}
		if u, ok := rt.Underlying().(*types.Struct); ok {
			for i := 0; i < u.NumFields(); i++ {
				if c16Integer(u.Field(i).Type()) {
					rng.f = append(rng.f, c16I{linLeaf(fmt.Sprintf("recv.%d", i))})
				} else {
					rng.f = append(rng.f, c16U{"field of the range received"})
				}
			}
		}
		if x.recv.CommaOk {
			st.regs[x.recv] = c16T{f: []c16v{rng, c16Bool{}}}
		} else {
			st.regs[x.recv] = rng
		}
		b := x.recv.Block()
		st.visited[b] = true
		for i, in := range b.Instrs {
			if in == ssa.Instruction(x.recv) {
				x.run(st, b, i+1, "pro")
			}
		}
	}
	// round paths: from the head of the loop
	{
		st := (&c16State{}).clone()
		st.visited[x.H] = true
		for k, ph := range x.headPhi {
			switch ph.Type().Underlying().(type) {
			case *types.Pointer:
				st.regs[ph] = c16P{k}
			default:
				st.regs[ph] = x.headSym(k, ph.Type(), 0)
				if _, isU := st.regs[ph].(c16U); isU {
					st.regs[ph] = x.unk(ph.Type(), "loop-carried value")
				}
			}
		}
		x.run(st, x.H, 0, "round")
	}
	if len(x.undecided) > 0 {
		fail(strings.Join(x.undecided, "; "))
		return
	}
	a := &c16An{x: x}
	count := map[string]int{}
	nDel, nOK := 0, 0
	for _, p := range x.paths {
		count[p.kind]++
		r.Valuations++
		if p.kind != "base" {
			nDel += len(p.st.dels)
			for _, rq := range p.st.reqs {
				if rq.ok {
					nOK++
				}
			}
		}
	}
	if count["base"] == 0 || count["back"] == 0 || count["exit"] == 0 || nDel == 0 || nOK == 0 {
		fail(fmt.Sprintf("the walk found %d ways from the receive of a range to the loop, %d rounds that come back to its head, %d ways on to the next range, %d batches handed to the callback, %d successful requests (at least one of each is needed)", count["base"], count["back"], count["exit"], nDel, nOK))
		return
	}
	// the last index requested, as the state at the head of the loop gives it
	lastSet := false
	for _, p := range x.paths {
		if p.kind == "base" {
			continue
		}
		for _, rq := range p.st.reqs {
			e, ok := rq.end.(c16I)
			if !ok {
				fail("the last index requested is of unknown origin")
				return
			}
			if lastSet && e.l.String() != a.last.String() {
				fail("the last index requested differs between paths: " + a.showL(e.l) + " / " + a.showL(a.last))
				return
			}
			a.last, lastSet = e.l, true
		}
	}
	// the start of the range received: the integer field of it that is not the bound the requests count from
	bound := ""
	for s, c := range a.last.Coef {
		if c != 0 {
			if bound != "" || c != 1 {
				fail("the last index requested, " + a.showL(a.last) + ", is not a field of the range received ± a constant")
				return
			}
			bound = s
		}
	}
	if _, ok := x.hv[bound]; !ok {
		fail("the last index requested, " + a.showL(a.last) + ", is not read from the range received")
		return
	}
	// slices handed over that were carried into the round
	keptSet := map[string]bool{}
	for _, p := range x.paths {
		for _, d := range p.st.dels {
			if s, ok := d.entries.(c16S); ok {
				for _, ch := range s.ch {
					if ch.head != "" {
						keptSet[ch.head] = true
					}
				}
			}
		}
	}
	a.kept = sortedKeys(keptSet)
	// dimensions: evaluating the end states may read further loop-carried cells
	for n := -1; n != len(x.hv); {
		n = len(x.hv)
		for _, p := range x.paths {
			if p.kind != "back" && p.kind != "base" {
				continue
			}
			for _, k := range sortedKeys(x.hv) {
				x.hvNew(p, k)
			}
		}
	}
	for _, k := range sortedKeys(x.hv) {
		if _, isSlice := x.hv[k].typ.Underlying().(*types.Slice); isSlice {
			a.dims = append(a.dims, "len("+k+")")
		} else {
			a.dims = append(a.dims, k)
		}
	}
	sort.Strings(a.dims)
	a.dims = append(a.dims, "g")
	a.index = map[string]int{}
	for i, d := range a.dims {
		a.index[d] = i
	}
	// the start of the range: what the bound's cell holds on a base path names the bound's field
	startSym := ""
	for _, p := range x.paths {
		if p.kind != "base" {
			continue
		}
		bv, ok := x.hvNew(p, bound).(c16I)
		var bf string
		if ok {
			for s, c := range bv.l.Coef {
				if c == 1 && strings.HasPrefix(s, "recv.") && bf == "" {
					bf = s
				} else if c != 0 {
					ok = false
				}
			}
		}
		if !ok || bf == "" {
			fail("the bound the requests count from (" + a.disp(bound) + ") is not a field of the range received")
			return
		}
		var others []string
		if t, isT := p.st.regs[x.recv].(c16T); isT {
			rng := t
			if x.recv.CommaOk && len(t.f) == 2 {
				rng, _ = t.f[0].(c16T)
			}
			for i, f := range rng.f {
				if _, isI := f.(c16I); isI && fmt.Sprintf("recv.%d", i) != bf {
					others = append(others, fmt.Sprintf("recv.%d", i))
				}
			}
		}
		if len(others) != 1 || (startSym != "" && startSym != others[0]) {
			fail("a range is not a pair of integers (start, end)")
			return
		}
		startSym = others[0]
	}
	// obligations and transformers
	for _, p := range x.paths {
		switch p.kind {
		case "base":
			g := a.obligations(p, linLeaf(startSym))
			a.bases = append(a.bases, &c16Map{p: p, rows: a.rowsOf(p, g)})
		case "back":
			g := a.obligations(p, linLeaf("g"))
			m := &c16Map{p: p, rows: a.rowsOf(p, g)}
			a.maps = append(a.maps, m)
		default:
			a.obligations(p, linLeaf("g"))
		}
	}
	for _, m := range a.maps {
		m.sig = a.signature(m)
	}
	// The rounds that fetch (a request succeeded) are the mechanism: what they and the start of a range
	// keep at the head of the loop is decided first, with their obligations and those of the ways
	// out of the loop.  Every other kind of round (failed request, …) must then keep the same.
	fetches := func(m *c16Map) bool {
		for _, rq := range m.p.st.reqs {
			if rq.ok {
				return true
			}
		}
		return false
	}
	isMap := map[*c16Path]*c16Map{}
	for _, m := range a.maps {
		isMap[m.p] = m
	}
	core := a.space(fetches)
	fails := a.check(core, func(p *c16Path) bool { m := isMap[p]; return m == nil || fetches(m) })
	if os.Getenv("CTVERIF_C16_DEBUG") != "" { // dev aid: the paths walked and what each makes of the loop-carried values
		fmt.Fprintf(os.Stderr, "dims: %v  kept: %v  last: %s\n", a.dims, a.kept, a.showL(a.last))
		for _, m := range append(append([]*c16Map{}, a.bases...), a.maps...) {
			fmt.Fprintf(os.Stderr, "%s [%s] at %s\n", m.p.kind, a.class(m.p), r.Where(m.p.at))
			for i, row := range m.rows {
				fmt.Fprintf(os.Stderr, "    %s := %s\n", a.disp(a.dims[i]), a.showL(row))
			}
		}
		for _, p := range x.paths {
			if p.kind == "exit" || p.kind == "return" {
				fmt.Fprintf(os.Stderr, "%s [%s] at %s: %d batches\n", p.kind, a.class(p), r.Where(p.at), len(p.st.dels))
			}
		}
		defer func() {
			for _, o := range r.Obls {
				if strings.Contains(o.Key, "runWorker:") {
					fmt.Fprintf(os.Stderr, "%v %s @%s: %s\n", o.OK, o.Key, o.Where, o.Detail)
				}
			}
		}()
	}
	clauses := []struct{ key, what string }{
		{"batch.Start", "every batch handed to the callback is labelled with the first index of the range not delivered yet"},
		{"batch.Entries", "every chunk of a batch handed to the callback lies at the index its request asked for"},
		{"failed-request-not-delivered", "the response variable of a failed request is never handed over or kept"},
		{"kept", "what a round keeps for a later batch lies at consecutive indices from the first index not delivered, and nothing is kept when a range is taken up"},
		{"kept-fresh", "entries are never collected on the backing array of a batch already handed to the callback"},
		{"range-complete", "the worker turns to the next range only when the first index not delivered has passed the last index of the range"},
		{"round", "every kind of round keeps, at the head of the loop, the equalities between request cursor, batch label, entries kept and first index not delivered that the fetching rounds keep"},
	}
	inv := a.invariant(core)
	failedClause := map[string]bool{}
	seen := map[string]bool{}
	report := func(fs []c16Failure) {
		for _, f := range fs {
			failedClause[f.ob.clause] = true
			key := "runWorker:" + f.ob.clause + "[" + a.class(f.ob.p) + "]"
			if seen[key+f.detail] {
				continue
			}
			seen[key+f.detail] = true
			r.Fail(key, f.ob.where, f.detail+" (the start of a range and the rounds that fetch keep, at the head of the loop: "+inv+")")
		}
	}
	if len(fails) > 0 {
		// what the fetching rounds do to the loop-carried values (the equalities printed are what survives that)
		var eff []string
		seenSig := map[string]bool{}
		for _, m := range a.maps {
			if !fetches(m) || seenSig[m.sig] {
				continue
			}
			seenSig[m.sig] = true
			var ch []string
			for i, row := range m.rows {
				if row.String() != linLeaf(a.dims[i]).String() {
					ch = append(ch, a.disp(a.dims[i])+" := "+a.showL(row))
				}
			}
			eff = append(eff, "a round ["+a.class(m.p)+"] makes "+strings.Join(ch, ", "))
		}
		inv += "; " + strings.Join(eff, "; ")
	}
	report(fails)
	if len(fails) == 0 {
		seenSig := map[string]bool{}
		for _, m := range a.maps {
			if fetches(m) || seenSig[m.sig] {
				continue
			}
			seenSig[m.sig] = true
			if br := a.broken(core, m); len(br) > 0 {
				failedClause["round"] = true
				where := r.Where(m.p.at)
				if len(m.p.st.reqs) > 0 {
					where = r.Where(x.issue)
				}
				r.Fail("runWorker:round["+a.class(m.p)+"]", where, fmt.Sprintf("a round of this kind breaks what the start of a range and the rounds that fetch keep between the request cursor, the label of the next batch, the entries kept and the first index of the range not delivered yet (first-undelivered): %s when the round ends — from then on the next request, the next label or the entries kept are off by that much (indices skipped or delivered twice, or entries under the wrong index)", strings.Join(br, "; ")))
			}
			sig := m.sig
			report(a.check(core, func(p *c16Path) bool { q := isMap[p]; return q != nil && q.sig == sig }))
		}
	}
	for _, c := range clauses {
		if !failedClause[c.key] {
			r.Pass("runWorker:"+c.key, r.FnPos(fn), c.what)
		}
	}
	if len(failedClause) == 0 {
		r.Pass("runWorker:accounting", r.FnPos(fn), fmt.Sprintf("%d paths walked (%d from the receive of a range to the loop, %d rounds back to its head, %d on to the next range, %d returns); at the head of the loop: %s", len(x.paths), count["base"], count["back"], count["exit"], count["return"], inv))
	}
}

func (a *c16An) invariant(sp *c16Space) string {
	rows, _ := sp.equations()
	var eqs []string
	for _, row := range rows {
		eq := c16Q{c: map[string]*big.Rat{}, k: new(big.Rat).Set(row[len(a.dims)])}
		for j, d := range a.dims {
			if row[j].Sign() != 0 {
				eq.c[d] = new(big.Rat).Set(row[j])
			}
		}
		eqs = append(eqs, a.show(eq)+" = 0")
	}
	if len(eqs) == 0 {
		return "no equality holds between the loop-carried values"
	}
	return strings.Join(eqs, "; ")
}

// signature: the effect of a round, with the symbols of its own renamed in order of appearance.
func (a *c16An) signature(m *c16Map) string {
	ren := map[string]string{}
	var sb strings.Builder
	for i, row := range m.rows {
		q := LinForm{Coef: map[string]int64{}, Const: row.Const}
		for _, s := range sortedKeys(row.Coef) {
			if row.Coef[s] == 0 {
				continue
			}
			if _, isDim := a.index[s]; isDim {
				q.Coef[s] = row.Coef[s]
				continue
			}
			if ren[s] == "" {
				ren[s] = fmt.Sprintf("_%d", len(ren))
			}
			q.Coef[ren[s]] += row.Coef[s]
		}
		fmt.Fprintf(&sb, "%s:=%s|", a.dims[i], q.String())
	}
	for _, d := range m.p.st.dels {
		if st, ok := d.start.(c16I); ok {
			sb.WriteString("deliver@" + st.l.String())
		}
		if s, ok := d.entries.(c16S); ok {
			for _, ch := range s.ch {
				fmt.Fprintf(&sb, "[%s%d%v]", ch.head, ch.k, ch.ok)
			}
		}
	}
	return sb.String()
}

// c16Callbacks: the worker's callback parameter — the parameter of function type that takes one
// batch (a struct of one integer label and one slice) — and the calls of it in fn.
func c16Callbacks(r *Run, fn *ssa.Function) (*ssa.Parameter, []ssa.CallInstruction) {
	var cb *ssa.Parameter
	for _, p := range fn.Params {
		sig, ok := p.Type().Underlying().(*types.Signature)
		if !ok || sig.Params().Len() != 1 || sig.Results().Len() != 0 {
			continue
		}
		if l, e := c16BatchFields(sig.Params().At(0).Type()); l < 0 || e < 0 {
			continue
		}
		if cb != nil {
			return nil, nil
		}
		cb = p
	}
	if cb == nil {
		return nil, nil
	}
	isCb := func(v ssa.Value) bool {
		if v == ssa.Value(cb) {
			return true
		}
		if u, ok := v.(*ssa.UnOp); ok && u.Op == token.MUL {
			if al, ok := u.X.(*ssa.Alloc); ok {
				return c16CellOnce(al) == ssa.Value(cb)
			}
		}
		return false
	}
	var calls []ssa.CallInstruction
	eachInstr(fn, func(in ssa.Instruction) {
		if ci, ok := in.(ssa.CallInstruction); ok && !ci.Common().IsInvoke() && isCb(ci.Common().Value) {
			calls = append(calls, ci)
		}
	})
	return cb, calls
}
