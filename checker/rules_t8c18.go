package main

import (
	"fmt"
	"go/constant"
	"go/token"
	"go/types"
	"sort"
	"strings"

	"golang.org/x/tools/go/ssa"
)

// Round 8 (honest twins of the round-5 seeds), C18.
//
// C18.R4  "the bounds reach the comparison unswapped and unconverted from the configuration".  Until now this was
//         frozen as "setUpLogInfo stores p1.Validated.NotAfterStart into a field of a struct literal" and
//         "NewCertValidationOpts stores its parameter": a commit that builds the options through the constructor, or
//         makes the constructor keep private copies of the bounds, was reported although the window is the same —
//         and a commit that truncates the copies was reported for the same (wrong) reason.  Restated as the fact:
//
//           every value that the start (limit) field of the options handed to the log can hold — followed through
//           field stores, whole-struct copies and the results of module functions that build the struct — is
//           either the configured pointer itself, or nil exactly when the configured pointer is nil and otherwise
//           the address of a private time.Time whose only content is the configured instant *p, taken over by
//           steps that keep the instant (value copy, UTC / Local / In).  A step that can change the instant
//           (Truncate, Round, Add, a conversion through Unix…) is named in the violation.
//
//         (t8StructSources / c18ExpectBound; C15.R5 reads the other option fields through the same provenance.)
//
// C18.R2  "the temporal-shard client's shard choice treats t as inside exactly when start <= t < limit".  Until now
//         the rule wanted ONE group of window tests in IndexByDate (one block dominating all of them): a fast path
//         that looks at a remembered shard first was "undecided" whether its test was exclusive or not.  Restated:
//
//           window      every group of tests that compares the instant with the bounds of ONE interval
//                       intervals[x] obeys the window table of the property: on the valuations that put t inside,
//                       a return of the index x is reached; on the others no accepting return is reached before
//                       another interval is looked at (the next element of a scan, the scan after a remembered
//                       shard) — the outcome of the table is the same for the scan and for a remembered shard;
//           tested      every accepting return lies behind the tests of the interval whose index it returns;
//           whole scan  some group sits in a loop over every element of the list (counter from 0 in steps of one
//                       while below len), every turn tests its element, a miss goes on with the next element, and
//                       "no log found" is returned only once that loop has run out;
//           memory      an index that is not the scan's counter is state remembered from earlier lookups: it is
//                       held in an atomic cell of the client, the list of intervals is written only where a client
//                       is built, every value written to the cell is <scan counter of a turn that returned> + c,
//                       and the index used, cell + k under the guards on the cell, is a valid position (c + k ≤ 0,
//                       never below 0, the never-written value 0 does not pass the guards).
//
//         With `window` holding for the remembered shard, a hit there is a shard containing t; by contiguity
//         (R5: disjoint, increasing) it is the shard the scan returns, so the result does not depend on history.

// ---- provenance of a struct's fields through constructors ---------------------------------------------

// t8Src is one value that a field of a struct can hold: the store that puts it there (in fn), and the calls that
// lead from the function asked about down to fn (outermost first).
type t8Src struct {
	fn  *ssa.Function
	st  *ssa.Store
	val ssa.Value
	via []ssa.CallInstruction
}

// t8InOuter renders a term of s.fn in the terms of the function asked about (parameters replaced by the
// arguments of the calls on the way).
func (r *Run) t8InOuter(s t8Src, term string) string {
	for i := len(s.via) - 1; i >= 0; i-- {
		term = r.substParams(term, s.via[i])
	}
	return term
}

func (r *Run) t8Via(s t8Src) string {
	if len(s.via) == 0 {
		return ""
	}
	var names []string
	for _, c := range s.via {
		names = append(names, CalleeOf(c))
	}
	return " [built by " + strings.Join(names, " → ") + "]"
}

func t8ModFunc(c *ssa.Call) *ssa.Function {
	if c == nil || c.Call.IsInvoke() {
		return nil
	}
	g := c.Call.StaticCallee()
	if g == nil || len(g.Blocks) == 0 {
		return nil
	}
	if pk := fnPkg(g); pk == nil || !strings.HasPrefix(pk.Path(), ModPath) {
		return nil
	}
	return g
}

// t8StructSources: the values that field `field` of the struct value v (of fn) can hold.  v is followed through
// loads of locals (field stores and whole-value stores into them), φ-nodes and the results of module functions
// with a body.  und != "" when some way the struct comes about is not understood.
func (r *Run) t8StructSources(fn *ssa.Function, v ssa.Value, field string, via []ssa.CallInstruction, depth int, seen map[ssa.Value]bool) (out []t8Src, und string) {
	if seen[v] {
		return nil, ""
	}
	seen[v] = true
	if depth > 8 {
		return nil, "the struct " + clipStr(r.D.D(v), 100) + " is built more than 8 levels deep"
	}
	merge := func(o []t8Src, u string) {
		out = append(out, o...)
		if und == "" {
			und = u
		}
	}
	fromAlloc := func(a *ssa.Alloc) {
		addr := "&(" + r.D.allocName(a) + "." + field + ")"
		eachInstr(fn, func(in ssa.Instruction) {
			st, ok := in.(*ssa.Store)
			if !ok {
				return
			}
			switch {
			case st.Addr == ssa.Value(a):
				merge(r.t8StructSources(fn, st.Val, field, via, depth+1, seen))
			case r.D.D(st.Addr) == addr:
				out = append(out, t8Src{fn, st, st.Val, via})
			}
		})
	}
	fromCall := func(c *ssa.Call, idx int) {
		g := t8ModFunc(c)
		if g == nil {
			und = "the struct is the result of " + CalleeOf(c) + ", which is not a module function with a body"
			return
		}
		r.Funcs[FuncName(g)] = true
		nvia := append(append([]ssa.CallInstruction{}, via...), c)
		n := 0
		for _, ret := range Returns(g) {
			if idx < len(ret.Results) {
				n++
				merge(r.t8StructSources(g, ret.Results[idx], field, nvia, depth+1, seen))
			}
		}
		if n == 0 {
			und = CalleeOf(c) + " has no return"
		}
	}
	switch x := v.(type) {
	case *ssa.Alloc:
		fromAlloc(x)
	case *ssa.UnOp:
		if a, ok := x.X.(*ssa.Alloc); ok && x.Op == token.MUL {
			fromAlloc(a)
		} else {
			und = "the struct " + clipStr(r.D.D(v), 100) + " is not built in a local"
		}
	case *ssa.Phi:
		for _, e := range x.Edges {
			merge(r.t8StructSources(fn, e, field, via, depth+1, seen))
		}
	case *ssa.MakeInterface:
		merge(r.t8StructSources(fn, x.X, field, via, depth+1, seen))
	case *ssa.ChangeType:
		merge(r.t8StructSources(fn, x.X, field, via, depth+1, seen))
	case *ssa.Call:
		fromCall(x, 0)
	case *ssa.Extract:
		if c, ok := x.Tuple.(*ssa.Call); ok {
			fromCall(c, x.Index)
		} else {
			und = "the struct " + clipStr(r.D.D(v), 100) + " is not built in a local"
		}
	case *ssa.Const:
		// the zero value (or nil pointer): the field holds nothing
	default:
		und = "the struct " + clipStr(r.D.D(v), 100) + " is neither built in a local nor the result of a module function"
	}
	return
}

// ExpectFieldVia: every value that field `field` of the struct behind base can hold (see t8StructSources) matches
// valGlob in fn's terms; at least min such values.
func (r *Run) ExpectFieldVia(fn *ssa.Function, key string, base ssa.Value, field, valGlob string, min int) {
	srcs, und := r.t8StructSources(fn, base, field, nil, 0, map[ssa.Value]bool{})
	if und != "" {
		r.Fail(key, r.FnPos(fn), "undecided: "+und)
		return
	}
	if len(srcs) < min {
		r.Fail(key, r.FnPos(fn), fmt.Sprintf("expected >= %d stores to field %s of %s in %s (or in the function that builds the struct), found %d", min, field, clipStr(r.D.D(base), 80), FuncName(fn), len(srcs)))
		return
	}
	for _, s := range srcs {
		got := r.t8InOuter(s, r.D.D(s.val))
		r.Check(key, anyGlob(valGlob, got), r.Where(s.st), fmt.Sprintf("%s <- %s (expected %s)%s", r.D.D(s.st.Addr), got, valGlob, r.t8Via(s)))
	}
}

// ExpectFieldsVia is ExpectFields with the struct followed through whole-value copies and constructors.
func (r *Run) ExpectFieldsVia(fn *ssa.Function, key string, base ssa.Value, want map[string]string) {
	for _, f := range keysOf(want) {
		r.ExpectFieldVia(fn, key+"."+f, base, f, want[f], 1)
	}
}

// ---- C18.R4: the instant behind a bound of the admission window -----------------------------------------

// c18SameInstant peels the steps that keep an instant off a time.Time value: UTC / Local / In, Round / Truncate
// with a constant that is not positive (strips the monotonic reading only), copies through a local written once.
// lossy names the first step that can change the instant.
func c18SameInstant(r *Run, v ssa.Value) (inner ssa.Value, steps []string, lossy string) {
	for depth := 0; depth < 8; depth++ {
		switch x := v.(type) {
		case *ssa.Call:
			f := x.Call.StaticCallee()
			if x.Call.IsInvoke() || f == nil {
				return v, steps, "a dynamic call"
			}
			switch name := FuncName(f); name {
			case "(time.Time).UTC", "(time.Time).Local", "(time.Time).In":
				steps = append(steps, name)
				v = x.Call.Args[0]
				continue
			case "(time.Time).Round", "(time.Time).Truncate":
				if k, ok := x.Call.Args[1].(*ssa.Const); ok && k.Value != nil && k.Value.Kind() == constant.Int {
					if d, exact := constant.Int64Val(k.Value); exact && d <= 0 {
						steps = append(steps, name+"(≤0)")
						v = x.Call.Args[0]
						continue
					}
				}
				return v, steps, name + " drops the part of the instant below its unit (a bound with a sub-second component moves)"
			default:
				return v, steps, name + " is not known to keep the instant"
			}
		case *ssa.UnOp:
			if a, ok := x.X.(*ssa.Alloc); ok && x.Op == token.MUL {
				if sv := uniqueStore(a); sv != nil {
					v = sv
					continue
				}
			}
			return v, steps, ""
		case *ssa.ChangeType:
			v = x.X
		default:
			return v, steps, ""
		}
	}
	return v, steps, "a chain of more than 8 steps"
}

// t8LeavesUnder: the non-φ values v can be on the edges of a walk.
func t8LeavesUnder(v ssa.Value, reach *Reach, depth int, out *[]ssa.Value) {
	ph, ok := v.(*ssa.Phi)
	if !ok || depth > 6 {
		*out = append(*out, v)
		return
	}
	pb := ph.Block()
	for i, e := range ph.Edges {
		if reach.Edges[[2]int{pb.Preds[i].Index, pb.Index}] {
			t8LeavesUnder(e, reach, depth+1, out)
		}
	}
}

// t8Site is one place where a value is handed on: the store into the field, a return of the function that builds
// the pointer, the call that passes it.
type t8Site struct {
	at  ssa.Instruction
	val ssa.Value
}

// c18BoundQ carries one question: do the pointers handed on at `sites` of cx.fn (reached from the function asked
// about through the calls cx.via) stand for the configured bound `want`?
type c18BoundQ struct {
	r    *Run
	key  string
	want string // glob over the configured *time.Time, in the terms of the function asked about
	addr string // the field asked about (for messages)
	ok   bool
}

func (b *c18BoundQ) fail(where, detail string) {
	b.ok = false
	b.r.Fail(b.key, where, detail)
}

// sites decides the pointers handed on at sites of fn; via leads from the function asked about to fn.  Reports
// whether some pointer is (a private copy of) the configured bound.
func (b *c18BoundQ) sites(fn *ssa.Function, via []ssa.CallInstruction, sites []t8Site, depth int) (found bool) {
	r := b.r
	cx := t8Src{fn: fn, via: via}
	render := func(v ssa.Value) string { return r.t8InOuter(cx, r.D.D(v)) }
	isCfg := func(v ssa.Value) bool { return !isNilConst(v) && anyGlob(b.want, render(v)) }
	note := r.t8Via(cx)
	if depth > 8 {
		b.fail(r.Where(sites[0].at), "undecided: the bound kept in "+b.addr+" is handed on through more than 8 functions"+note)
		return false
	}
	var src ssa.Value // the pointer whose pointee the private copies made in fn are taken from
	var srcAt ssa.Instruction
	hasNil := false
	for _, site := range sites {
		where := r.Where(site.at)
		leaves, ok := wPhiLeaves(site.val)
		if !ok {
			b.fail(where, "undecided: "+b.addr+" <- "+clipStr(render(site.val), 120)+" merges too many values"+note)
			continue
		}
		for _, l := range leaves {
			if isNilConst(l) {
				hasNil = true
				continue
			}
			if isCfg(l) {
				found = true
				r.Pass(b.key, where, fmt.Sprintf("%s <- %s (expected %s): the configured pointer itself%s", b.addr, render(l), b.want, note))
				continue
			}
			switch x := l.(type) {
			case *ssa.Parameter:
				if len(via) > 0 { // what the caller passes
					call := via[len(via)-1]
					if k := paramIndex(x); k >= 0 && k < len(CallArgs(call)) {
						found = b.sites(call.Parent(), via[:len(via)-1], []t8Site{{call, CallArgs(call)[k]}}, depth+1) || found
						continue
					}
				}
			case *ssa.Call:
				if g := t8ModFunc(x); g != nil { // what a module function hands back
					r.Funcs[FuncName(g)] = true
					var rets []t8Site
					for _, ret := range Returns(g) {
						if len(ret.Results) > 0 {
							rets = append(rets, t8Site{ret, ret.Results[0]})
						}
					}
					if len(rets) > 0 {
						found = b.sites(g, append(append([]ssa.CallInstruction{}, via...), x), rets, depth+1) || found
						continue
					}
				}
			case *ssa.Alloc: // a private copy
				var content []*ssa.Store
				bad := false
				for _, ref := range *x.Referrers() {
					switch y := ref.(type) {
					case *ssa.Store:
						if y.Addr == ssa.Value(x) {
							content = append(content, y)
						}
					case *ssa.Phi, *ssa.DebugRef, *ssa.Return:
					case *ssa.UnOp:
						bad = bad || y.Op != token.MUL
					case *ssa.Call:
						// handed on as the pointer it is (to the constructor …): followed from there
						for _, a := range y.Call.Args {
							if a == ssa.Value(x) && t8ModFunc(y) == nil {
								bad = true
							}
						}
					default:
						bad = true
					}
					if bad {
						b.fail(r.Where(ref), fmt.Sprintf("undecided: the private copy %s kept in %s is written or handed on by another statement%s", r.D.D(x), b.addr, note))
						break
					}
				}
				if bad {
					continue
				}
				if len(content) == 0 {
					b.fail(where, fmt.Sprintf("%s <- %s: the private copy is never filled (it holds the zero time, not the configured bound %s)%s", b.addr, r.D.D(x), b.want, note))
					continue
				}
				for _, st := range content {
					inner, steps, lossy := c18SameInstant(r, st.Val)
					ld, isLoad := inner.(*ssa.UnOp)
					switch {
					case lossy != "":
						b.fail(r.Where(st), fmt.Sprintf("the bound kept in %s is %s, not the configured instant *%s itself: %s%s", b.addr, clipStr(render(st.Val), 160), b.want, lossy, note))
					case !isLoad || ld.Op != token.MUL:
						b.fail(r.Where(st), fmt.Sprintf("the bound kept in %s is %s, not a copy of the configured instant *%s%s", b.addr, clipStr(render(st.Val), 160), b.want, note))
					case src != nil && r.D.D(src) != r.D.D(ld.X):
						b.fail(r.Where(st), fmt.Sprintf("undecided: the copies kept in %s are taken from different pointers (%s, %s)%s", b.addr, render(src), render(ld.X), note))
					default:
						src, srcAt = ld.X, st
						how := ""
						if len(steps) > 0 {
							how = " through " + strings.Join(steps, ", ")
							r.Assume("time.Time.UTC / Local / In and Round / Truncate with a unit ≤ 0 return the same instant (location and monotonic reading aside)")
						}
						r.Pass(b.key, r.Where(st), fmt.Sprintf("%s holds a private copy of *%s%s: that instant itself%s", b.addr, render(ld.X), how, note))
					}
				}
				continue
			}
			b.fail(where, fmt.Sprintf("%s <- %s (expected %s, or a private copy of the instant it points to)%s", b.addr, clipStr(render(l), 160), b.want, note))
		}
	}
	if src == nil || !b.ok {
		return found
	}
	// the copies are taken from src: absent ⇔ absent, decided on a test of src …
	k := "nil?" + r.D.D(src)
	where := r.Where(srcAt)
	if r.D.AtomsOf(fn)[k] == nil {
		why := "the copy dereferences " + render(src) + " without a test: a log without this bound (nil) cannot be set up"
		if hasNil {
			why = "undecided: whether the bound is kept or dropped does not depend on a test of " + render(src) + " against nil"
		}
		b.fail(where, fmt.Sprintf("%s: %s%s", b.addr, why, note))
		return found
	}
	for _, val := range []string{"nil", "non"} {
		reach := r.D.Walk(fn, Sigma{k: val}, nil, nil)
		r.Valuations++
		n, good, got := 0, true, ""
		for _, site := range sites {
			if !reach.Blocks[site.at.Block()] {
				continue
			}
			n++
			var lv []ssa.Value
			t8LeavesUnder(site.val, reach, 0, &lv)
			for _, l := range lv {
				_, isParam := l.(*ssa.Parameter)
				switch {
				case isCfg(l), isParam && r.D.D(l) == r.D.D(src): // the pointer itself: absent ⇔ absent
				case val == "nil":
					good = good && isNilConst(l)
				default:
					good = good && !isNilConst(l)
				}
			}
			got = clipStr(render2(r, cx, r.D.DUnder(site.val, reach)), 100)
		}
		what := "absent (nil) ⇒ no bound is kept"
		if val == "non" {
			what = "present ⇒ the bound is kept"
			good = good && n > 0
		}
		if !b.r.Check(b.key, good, where, fmt.Sprintf("%s: bound %s %s: hands on %s%s", b.addr, render(src), what, got, note)) {
			b.ok = false
		}
	}
	// … and src itself stands for the configured bound
	if !b.sites(fn, via, []t8Site{{srcAt, src}}, depth+1) {
		if b.ok {
			b.fail(where, fmt.Sprintf("the bound kept in %s is a copy of *%s (expected *%s)%s", b.addr, clipStr(render(src), 120), b.want, note))
		}
		return found
	}
	return true
}

func render2(r *Run, cx t8Src, term string) string { return r.t8InOuter(cx, term) }

// c18ExpectBound: field `field` of the struct behind base holds the configured bound `want` and nothing else.
// Returns the number of values the field can hold.
func c18ExpectBound(r *Run, fn *ssa.Function, key string, base ssa.Value, field, want string) int {
	srcs, und := r.t8StructSources(fn, base, field, nil, 0, map[ssa.Value]bool{})
	if und != "" {
		r.Fail(key, r.FnPos(fn), "undecided: "+und)
		return 1
	}
	// the stores of one function (reached through the same calls) are decided together: absent ⇔ absent is a fact
	// about all of them
	type group struct {
		s     t8Src
		sites []t8Site
	}
	var groups []*group
	for _, s := range srcs {
		var g *group
		for _, o := range groups {
			same := o.s.fn == s.fn && len(o.s.via) == len(s.via)
			for i := 0; same && i < len(s.via); i++ {
				same = o.s.via[i] == s.via[i]
			}
			if same {
				g = o
			}
		}
		if g == nil {
			g = &group{s: s}
			groups = append(groups, g)
		}
		g.sites = append(g.sites, t8Site{s.st, s.val})
	}
	for _, g := range groups {
		b := &c18BoundQ{r: r, key: key, want: want, addr: r.D.D(g.s.st.Addr), ok: true}
		if !b.sites(g.s.fn, g.s.via, g.sites, 0) && b.ok {
			r.Fail(key, r.Where(g.s.st), fmt.Sprintf("%s <- %s: the configured bound %s never gets there%s", b.addr, clipStr(r.t8InOuter(g.s, r.D.D(g.s.val)), 160), want, r.t8Via(g.s)))
		}
	}
	return len(srcs)
}

// c18ExpectBoundIn: the same for every CertValidationOpts that fn builds in a local; at least one value in all.
func c18ExpectBoundIn(r *Run, fn *ssa.Function, key, typ, field, want string) {
	n := 0
	for _, a := range t8Allocs(fn) {
		if TypeName(a.Type().(*types.Pointer).Elem()) == typ {
			n += c18ExpectBound(r, fn, key, a, field, want)
		}
	}
	if n == 0 {
		r.Fail(key, r.FnPos(fn), fmt.Sprintf("expected >= 1 stores to &(new:%s#*.%s) in %s (or in the function that builds the struct), found 0", typ, field, FuncName(fn)))
	}
}

// t8Allocs: the local and heap allocations of fn, in instruction order.
func t8Allocs(fn *ssa.Function) []*ssa.Alloc {
	var out []*ssa.Alloc
	seen := map[*ssa.Alloc]bool{}
	eachInstr(fn, func(in ssa.Instruction) {
		if a, ok := in.(*ssa.Alloc); ok && !seen[a] {
			seen[a] = true
			out = append(out, a)
		}
	})
	for _, a := range fn.Locals {
		if !seen[a] {
			seen[a] = true
			out = append(out, a)
		}
	}
	return out
}

// ---- C18.R2: the shard choice, one group of window tests per interval looked at ---------------------------

// c18Region is one group of tests that compares the instant with the bounds of one interval.
type c18Region struct {
	name   string // construct name in obligation keys
	holder string // term of the interval whose bounds are compared
	idx    string // term of its position in the list of intervals
	idxV   ssa.Value
	entry  *ssa.BasicBlock // the block that dominates the tests
	loopH  *ssa.BasicBlock // header of the innermost loop around them
	body   *ssa.BasicBlock // first block of a turn, when loopH runs over the whole list with idx as its counter
}

func (g *c18Region) restart() *ssa.BasicBlock {
	if g.loopH != nil {
		return g.loopH
	}
	return g.entry
}

const c18List = "p0.intervals"

// c18IndexByDate decides C18.R2 / C18.R4 for TemporalLogClient.IndexByDate (see the head of this file).
func c18IndexByDate(r *Run, fn *ssa.Function) {
	r.Rule("C18.R2")
	found := r.D.AtomsOf(fn)
	holders := map[string]bool{}
	for _, k := range keysOf(found) {
		ci := found[k]
		if ci.Kind != "ord" {
			continue
		}
		for _, p := range [][2]string{{ci.A, ci.B}, {ci.B, ci.A}} {
			if p[0] != "p1" || !strings.HasPrefix(p[1], "*") {
				continue
			}
			for _, side := range []string{".lower", ".upper"} {
				if strings.HasSuffix(p[1], side) {
					holders[strings.TrimSuffix(p[1][1:], side)] = true
				}
			}
		}
	}
	succ := func() []ssa.Instruction { return successReturns(fn) }
	if len(holders) == 0 {
		// nothing compares the instant with a bound: the window table reports it
		r.CheckWindow(Window{Name: "IndexByDate", Fn: fn, T: "p1", S: "*.lower", L: "*.upper", PresS: "nil?*.lower", PresL: "nil?*.upper", Outcome: loopOutcome(succ)})
		return
	}
	var regions []*c18Region
	for _, h := range keysOf(holders) {
		g := &c18Region{holder: h}
		g.idx, g.idxV = c18IndexOfHolder(r, fn, h)
		if g.idx == "" {
			r.Fail("IndexByDate:window", r.FnPos(fn), "undecided: the instant is compared with the bounds of "+clipStr(h, 100)+", which is not an element of the list of intervals "+c18List)
			continue
		}
		var keys [][]string
		for _, a := range c18RegionAtoms(h) {
			keys = append(keys, r.bindAtom(fn, a))
		}
		g.entry = r.domEntry(fn, wKeySet(keys...))
		if g.entry != nil {
			g.loopH = loopHeaderOf(g.entry)
			if g.loopH != nil {
				if body, ctr := r.wholeListLoop(g.loopH, c18List); body != nil && ctr == g.idx {
					g.body = body
				}
			}
		}
		regions = append(regions, g)
	}
	// names: the scan over the whole list is "IndexByDate"; any other group is named by the index it looks at
	named := false
	for _, g := range regions {
		if g.body != nil && !named {
			g.name, named = "IndexByDate", true
		} else {
			g.name = "IndexByDate[" + g.idx + "]"
			if ld := c18CellLoad(g.idxV); ld != nil { // a remembered index: named by the cell it is read from
				if kf, isC := r.D.Lin(g.idxV, nil).add(linLeaf(r.D.D(ld)), -1).isConst(); isC {
					g.name = fmt.Sprintf("IndexByDate[%s%+d]", selBase(r.D.D(ld.Call.Args[0])), kf)
				}
			}
		}
	}
	if !named && len(regions) == 1 {
		regions[0].name = "IndexByDate"
	}
	for _, g := range regions {
		g := g
		a := c18RegionAtoms(g.holder)
		r.Rule("C18.R2")
		r.CheckWindow(Window{Name: g.name, Fn: fn, T: "p1", S: a[0].OrdB, L: a[1].OrdB, PresS: a[2].Pat, PresL: a[3].Pat,
			Outcome: func(_ map[string]string, reach *Reach, entry *ssa.BasicBlock) (bool, bool, string) {
				// hit: a return of this interval's index is reached; miss: another interval is looked at next (the
				// next turn of the scan, another group of tests) with no accepting return on the way
				targets := map[*ssa.BasicBlock]bool{}
				if g.loopH != nil {
					targets[g.loopH] = true
				}
				for _, o := range regions {
					if o != g && o.entry != nil && o.restart() != entry {
						targets[o.restart()] = true
					}
				}
				if len(targets) == 0 {
					return false, false, "(undecided: the tests are not inside a scan and no other interval is looked at after a miss)"
				}
				own, all := map[*ssa.BasicBlock]bool{}, map[*ssa.BasicBlock]bool{}
				for _, ret := range succ() {
					all[ret.Block()] = true
					if r.D.D(ret.(*ssa.Return).Results[0]) == g.idx {
						own[ret.Block()] = true
					}
				}
				in := wAnyIn(pathReach(reach, entry, targets), own)
				stop := map[*ssa.BasicBlock]bool{}
				for b := range targets {
					stop[b] = true
				}
				for b := range all {
					stop[b] = true
				}
				out := wAnyIn(pathReach(reach, entry, stop), targets)
				return in, out, "(inside = a return of index " + clipStr(g.idx, 60) + " is reached; outside = another interval is looked at next, no accepting return before)"
			}})
	}

	// ---- R4: every accepting return lies behind the tests of the interval whose index it returns
	r.Rule("C18.R4")
	for _, ret := range succ() {
		idx := r.D.D(ret.(*ssa.Return).Results[0])
		var behind *c18Region
		for _, g := range regions {
			if g.idx == idx && g.entry != nil && g.entry.Dominates(ret.Block()) {
				behind = g
			}
		}
		ok, why := behind != nil, "returns index "+clipStr(idx, 80)+"; the bounds compared on every way to this return are those of intervals["+clipStr(idx, 80)+"]"
		if !ok {
			why = "returns index " + clipStr(idx, 80) + ", but no group of window tests of intervals[" + clipStr(idx, 80) + "] lies on every way to this return"
		} else if c := c18CellLoad(behind.idxV); c != nil && c18CellLoad(ret.(*ssa.Return).Results[0]) != c {
			ok, why = false, "returns index "+clipStr(idx, 80)+" read from the remembered cell a second time: a concurrent lookup may have changed it since the interval tested was chosen"
		}
		r.Check("IndexByDate:index-of-tested-interval", ok, r.Where(ret), why)
	}
	// no shard matched ⇒ error, never an index
	for _, ret := range Returns(fn) {
		if errKind(ret.Results[1]) == "nil" {
			continue
		}
		ok, why := wantErr(false)(r, ret)
		r.Check("IndexByDate:no-shard⇒error", ok && r.D.D(ret.Results[0]) == "-1", r.Where(ret), "no interval matched: returns "+r.D.D(ret.Results[0])+" with an error "+why)
	}

	// ---- R2: one group is the scan over the whole list; "no log found" only once it has run out
	r.Rule("C18.R2")
	var scan *c18Region
	for _, g := range regions {
		if g.body != nil && scan == nil {
			scan = g
		}
	}
	if scan == nil {
		if len(regions) > 0 {
			r.Fail("IndexByDate:whole-list-scan", r.FnPos(fn), "undecided: none of the groups of window tests sits in a loop that runs over every element of "+c18List+" (counter from 0 in steps of one while below len) and tests the element at its counter: some shard may never be looked at")
		}
	} else {
		h := scan.loopH
		whereH := r.Where(h.Instrs[len(h.Instrs)-1])
		r.Pass("IndexByDate:whole-list-scan", whereH, "the scan tests "+c18List+"["+scan.idx+"] for every position from 0 to len−1")
		bad := ""
		if scan.body != scan.entry {
			reach := r.D.Walk(fn, Sigma{}, scan.body, map[*ssa.BasicBlock]bool{scan.entry: true})
			r.Valuations++
			if reach.Blocks[h] {
				bad = ": the next turn can be reached without testing the current element"
			}
			for _, ret := range Returns(fn) {
				if reach.Has(ret) {
					bad = ": the return at " + r.Where(ret) + " can be reached from inside a turn without testing the current element"
				}
			}
		}
		r.Check("IndexByDate:every-element-tested", bad == "", whereH, "each turn of the scan tests the window of its element before it ends"+bad)
		reach := r.D.Walk(fn, Sigma{}, scan.body, map[*ssa.BasicBlock]bool{h: true})
		r.Valuations++
		for _, ret := range Returns(fn) {
			if errKind(ret.Results[1]) == "nil" {
				continue
			}
			bad := ""
			switch {
			case !h.Dominates(ret.Block()):
				bad = ": this return can execute without the scan over the whole list having been started (an instant inside a shard that was not looked at is refused)"
			case reach.Has(ret):
				bad = ": this return can be reached from inside a turn of the scan, before the remaining shards were looked at"
			}
			r.Check("IndexByDate:no-shard-only-after-whole-scan", bad == "", r.Where(ret), "\"no log found\" is returned only once the scan over the whole list has run out"+bad)
		}
	}

	// ---- R2: an index that is not the scan's counter is remembered state
	for _, g := range regions {
		if g.body == nil && g.entry != nil {
			c18RememberedIndex(r, fn, g)
		}
	}
}

// c18RegionAtoms: start order, limit order, start presence, limit presence of the interval rendered h.
func c18RegionAtoms(h string) [4]RuleAtom {
	return [4]RuleAtom{{OrdA: "p1", OrdB: "*" + h + ".lower"}, {OrdA: "p1", OrdB: "*" + h + ".upper"}, {Pat: "nil?" + h + ".lower"}, {Pat: "nil?" + h + ".upper"}}
}

// c18IndexOfHolder: the interval rendered h is element idx of the list of intervals — in place, or a local that
// only ever receives such an element (then all stores must agree on the index).
func c18IndexOfHolder(r *Run, fn *ssa.Function, h string) (string, ssa.Value) {
	pre := c18List + "["
	if strings.HasPrefix(h, pre) && strings.HasSuffix(h, "]") {
		idx := h[len(pre) : len(h)-1]
		var v ssa.Value
		eachInstr(fn, func(in ssa.Instruction) {
			if ia, ok := in.(*ssa.IndexAddr); ok && v == nil && r.D.D(ia.X) == c18List && r.D.D(ia.Index) == idx {
				v = ia.Index
			}
		})
		if v == nil {
			return "", nil
		}
		return idx, v
	}
	idx, n := "", 0
	var v ssa.Value
	for _, a := range t8Allocs(fn) {
		if r.D.allocName(a) != h {
			continue
		}
		for _, ref := range *a.Referrers() {
			st, ok := ref.(*ssa.Store)
			if !ok || st.Addr != ssa.Value(a) {
				continue
			}
			n++
			t := r.D.D(st.Val)
			iv := indexOfElem(st.Val)
			if iv == nil || t != pre+r.D.D(iv)+"]" || idx != "" && idx != r.D.D(iv) {
				return "", nil
			}
			idx, v = r.D.D(iv), iv
		}
	}
	if n == 0 {
		return "", nil
	}
	return idx, v
}

// c18CellLoad: v is <atomic cell>.Load() ± constants (through integer conversions); returns the Load call.
func c18CellLoad(v ssa.Value) *ssa.Call {
	for depth := 0; depth < 8 && v != nil; depth++ {
		switch x := v.(type) {
		case *ssa.Convert:
			v = x.X
		case *ssa.ChangeType:
			v = x.X
		case *ssa.BinOp:
			if x.Op != token.ADD && x.Op != token.SUB {
				return nil
			}
			if _, isC := x.Y.(*ssa.Const); isC {
				v = x.X
			} else if _, isC := x.X.(*ssa.Const); isC && x.Op == token.ADD {
				v = x.Y
			} else {
				return nil
			}
		case *ssa.Call:
			f := x.Call.StaticCallee()
			if x.Call.IsInvoke() || f == nil || f.Name() != "Load" || len(x.Call.Args) != 1 {
				return nil
			}
			if pk := fnPkg(f); pk == nil || pk.Path() != "sync/atomic" {
				return nil
			}
			if _, ok := x.Call.Args[0].(*ssa.FieldAddr); !ok {
				return nil
			}
			return x
		default:
			return nil
		}
	}
	return nil
}

// c18RememberedIndex: the group g looks at an interval whose index is not the counter of a scan over the whole
// list — state remembered from earlier lookups (see `memory` at the head of this file).
func c18RememberedIndex(r *Run, fn *ssa.Function, g *c18Region) {
	key := g.name + ":remembered-index"
	where := r.Where(g.entry.Instrs[len(g.entry.Instrs)-1])
	ld := c18CellLoad(g.idxV)
	if ld == nil {
		r.Fail(key, where, "undecided: the index "+clipStr(g.idx, 100)+" of the interval looked at is neither the counter of a scan over the whole list nor read (± a constant) from an atomic cell of the client: cannot tell that it is a position of the list and that concurrent lookups agree on it")
		return
	}
	r.Assume("a value read from a sync/atomic cell by Load is the cell's zero value or a value that some Store put there")
	cellFA := ld.Call.Args[0].(*ssa.FieldAddr)
	cell := fieldOf(cellFA)
	recv := r.D.D(cellFA.X)
	if cell == nil || recv != "p0" {
		r.Fail(key, where, "undecided: the cell "+r.D.D(cellFA)+" the index is read from is not a field of the client itself")
		return
	}
	loadTerm := r.D.D(ld)
	lin := r.D.Lin(g.idxV, nil)
	kf := lin.add(linLeaf(loadTerm), -1)
	k, isC := kf.isConst()
	if !isC {
		r.Fail(key, where, fmt.Sprintf("undecided: the index %s is not the remembered value %s plus a constant", lin, loadTerm))
		return
	}
	// the list the index points into never changes its length after the client is built
	var listVar *types.Var
	eachInstr(fn, func(in ssa.Instruction) {
		if ia, ok := in.(*ssa.IndexAddr); ok && listVar == nil && r.D.D(ia.X) == c18List {
			if u, ok := ia.X.(*ssa.UnOp); ok {
				if fa, ok := u.X.(*ssa.FieldAddr); ok {
					listVar = fieldOf(fa)
				}
			}
		}
	})
	if listVar == nil {
		r.Fail(key+":list-fixed", where, "undecided: "+c18List+" is not read as a field of the client")
		return
	}
	listName := listVar.Name()
	nW := 0
	for _, f := range r.P.ModFuncs {
		eachInstr(f, func(in ssa.Instruction) {
			st, ok := in.(*ssa.Store)
			if !ok {
				return
			}
			if fa, ok := st.Addr.(*ssa.FieldAddr); ok && fieldOf(fa) == listVar {
				nW++
				r.Funcs[FuncName(f)] = true
				_, fresh := fa.X.(*ssa.Alloc)
				r.Check(key+":list-fixed", fresh, r.Where(st), "the list of intervals is set in "+FuncName(f)+" on a client "+r.D.D(fa.X)+" that is being built there (a remembered index stays a position of the list only while the list keeps its length)")
			}
		})
	}
	r.Check(key+":list-fixed", nW > 0, where, fmt.Sprintf("%d statements set the list of intervals, all while the client is built", nW))
	// the cell: atomic, touched only through Load and Store; what is stored
	if !strings.HasPrefix(TypeName(cell.Type()), "atomic.") {
		r.Fail(key+":cell", where, "undecided: the remembered index is kept in "+r.D.D(cellFA)+" of type "+TypeName(cell.Type())+", not in a sync/atomic cell: lookups from several goroutines (AddChain) race on it")
		return
	}
	cmax, nStores, decided := int64(0), 0, true
	for _, f := range r.P.ModFuncs {
		eachInstr(f, func(in ssa.Instruction) {
			fa, ok := in.(*ssa.FieldAddr)
			if !ok || fieldOf(fa) != cell || fa.Referrers() == nil {
				return
			}
			r.Funcs[FuncName(f)] = true
			for _, ref := range *fa.Referrers() {
				c, isCall := ref.(*ssa.Call)
				if _, isDbg := ref.(*ssa.DebugRef); isDbg {
					continue
				}
				callee := ""
				if isCall && !c.Call.IsInvoke() && c.Call.StaticCallee() != nil && len(c.Call.Args) > 0 && c.Call.Args[0] == ssa.Value(fa) {
					callee = c.Call.StaticCallee().Name()
				}
				switch callee {
				case "Load":
				case "Store":
					nStores++
					c, good, why := c18StoredIndex(r, f, c, r.D.D(fa.X)+"."+listName)
					if good && c > cmax {
						cmax = c
					}
					decided = decided && good
					r.Check(key+":stored", good, r.Where(ref), why)
				default:
					decided = false
					r.Fail(key+":cell", r.Where(ref), "undecided: the cell "+r.D.D(fa)+" is used other than through Load / Store: "+clipStr(ref.String(), 80))
				}
			}
		})
	}
	if !decided {
		return
	}
	// the index used is a position of the list
	r.Check(key+":in-range[upper]", nStores == 0 || cmax+k <= 0, where, fmt.Sprintf("every value stored is <position of a shard> + c with c ≤ %d; the interval looked at is [cell%+d]: at most the last position iff c%+d ≤ 0", cmax, k, k))
	var hot []*ssa.BasicBlock // the blocks that index the list with the remembered value
	eachInstr(fn, func(in ssa.Instruction) {
		if ia, ok := in.(*ssa.IndexAddr); ok && r.D.D(ia.X) == c18List && r.D.D(ia.Index) == g.idx {
			hot = append(hot, ia.Block())
		}
	})
	samples := map[int64]bool{0: true, -k - 1: true, -k - 2: true, -1: true}
	var vals []int64
	for v := range samples {
		if v == 0 || v+k < 0 {
			vals = append(vals, v)
		}
	}
	sort.Slice(vals, func(i, j int) bool { return vals[i] < vals[j] })
	bad := ""
	for _, v := range vals {
		s, bound := r.SgModel(fn, map[string]int64{loadTerm: v})
		reach := r.D.Walk(fn, s, nil, nil)
		r.Valuations++
		for _, b := range hot {
			if reach.Blocks[b] {
				what := fmt.Sprintf("position %d", v+k)
				if v == 0 {
					what += " (0 is the value of a cell that no lookup has written yet)"
				}
				bad = fmt.Sprintf(": with the cell = %d the list is indexed at %s, %s (guards on the cell: %s)", v, r.Where(b.Instrs[0]), what, strings.Join(bound, "; "))
			}
		}
	}
	r.Check(key+":in-range[lower]", bad == "" && len(hot) > 0, where, fmt.Sprintf("the guards on the cell keep the value of a cell never written (0) and the values below %d (sampled %v) away from the statement that indexes the list with [cell%+d]%s", -k, vals, k, bad))
}

// c18StoredIndex: the value an atomic Store puts into the remembered cell is <counter> + c, where counter is the
// counter of a loop over the whole list `list` (from 0 in steps of one while below len) around the store — the
// position of a shard of this very client.  A constant 0 ("none") is fine too.
func c18StoredIndex(r *Run, f *ssa.Function, c *ssa.Call, list string) (int64, bool, string) {
	if len(c.Call.Args) != 2 {
		return 0, false, "undecided: Store with an unexpected number of arguments"
	}
	v := c.Call.Args[1]
	lin := r.D.Lin(v, nil)
	if k, isC := lin.isConst(); isC {
		return 0, k == 0, fmt.Sprintf("stores the constant %d (0 = no shard remembered)", k)
	}
	if ld := c18CellLoad(v); ld != nil && r.D.D(ld.Call.Args[0]) == r.D.D(c.Call.Args[0]) {
		// the cell's own value written back (± a constant): a position already decided, shifted
		if k, isC := lin.add(linLeaf(r.D.D(ld)), -1).isConst(); isC && k <= 0 {
			return 0, k == 0, fmt.Sprintf("stores the cell's own value %+d", k)
		}
	}
	for _, h := range f.Blocks { // (the store may sit behind the scan's accepting exit: inside a turn, outside the natural loop)
		if len(h.Instrs) == 0 {
			continue
		}
		body, ctr := r.wholeListLoop(h, list)
		if body == nil || body == h || !body.Dominates(c.Block()) {
			continue
		}
		kf := lin.add(linLeaf(ctr), -1)
		if k, isC := kf.isConst(); isC {
			return k, true, fmt.Sprintf("stores %s: the position %s of a shard of %s (inside the scan over the whole list) %+d", lin, ctr, list, k)
		}
	}
	return 0, false, "undecided: the value stored, " + lin.String() + ", is not the position of a shard of " + list + " (the counter of a loop over the whole list around the store) plus a constant"
}
