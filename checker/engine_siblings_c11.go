package main

import (
	"fmt"
	"strings"

	"golang.org/x/tools/go/ssa"
)

// E8 (siblings) — strict-parse → lax-retry pairs and slice-building helpers.
//
// A pair is a call asn1.UnmarshalWithParams(d', p', "lax") that sits in the
// error≠nil branch of a call asn1.Unmarshal(d, p).  The rule on a pair: same
// bytes, same destination, the lax error is what is returned when the retry
// fails, and the strict error is recorded in the function's NonFatalErrors
// collector on every path once the retry succeeded.

// ---- strict → lax pairs ---------------------------------------------------------------

type laxPair struct {
	fn     *ssa.Function
	strict *ssa.Call
	lax    *ssa.Call
	key    string
}

func c11LaxPairs(r *Run) []laxPair {
	var out []laxPair
	for _, fn := range r.P.ModFuncs {
		if fnPkg(fn) == nil || ShortPkg(fnPkg(fn).Path()) != "x509" {
			continue
		}
		for _, ci := range CallsTo(fn, "asn1.UnmarshalWithParams") {
			lax, ok := ci.(*ssa.Call)
			if !ok || len(lax.Call.Args) != 3 || !strings.Contains(r.D.D(lax.Call.Args[2]), "lax") {
				continue
			}
			r.Funcs[FuncName(fn)] = true
			// the strict sibling: the nearest asn1.Unmarshal whose error≠nil edge dominates the retry
			var best *ssa.Call
			for _, si := range CallsTo(fn, "asn1.Unmarshal") {
				sc, ok := si.(*ssa.Call)
				if !ok {
					continue
				}
				ev := errValueOf(sc)
				if ev == nil || !nonNilEdgeDominates(r, ev, lax.Block()) {
					continue
				}
				if best == nil || best.Block().Dominates(sc.Block()) {
					best = sc
				}
			}
			if best == nil {
				r.Fail("pair:"+short(FuncName(fn))+":"+argType(lax.Call.Args[1])+":strict-sibling", r.Where(lax), "undecided: the lax parse is not in the failure branch of a strict asn1.Unmarshal")
				continue
			}
			out = append(out, laxPair{fn: fn, strict: best, lax: lax})
		}
	}
	// keys: function + destination type of the strict parse (+ the data's last path segment when that is ambiguous)
	count := map[string]int{}
	for i := range out {
		out[i].key = short(FuncName(out[i].fn)) + ":" + argType(out[i].strict.Call.Args[1])
		count[out[i].key]++
	}
	for i := range out {
		if count[out[i].key] > 1 {
			out[i].key += "@" + c11Short(lastSeg(r.D.D(out[i].strict.Call.Args[0])))
		}
	}
	return out
}

func lastSeg(d string) string {
	if i := strings.LastIndex(d, "."); i >= 0 && i+1 < len(d) && !strings.ContainsAny(d[i:], "()") {
		if j := strings.LastIndex(d[:i], "."); j >= 0 {
			return d[j+1:]
		}
	}
	return d
}

// nonNilEdgeDominates: some branch on ev (==/!= nil) has its non-nil edge dominating block b.
func nonNilEdgeDominates(r *Run, ev ssa.Value, b *ssa.BasicBlock) bool {
	for _, ref := range *ev.Referrers() {
		bo, ok := ref.(*ssa.BinOp)
		if !ok || !(isNilConst(bo.X) || isNilConst(bo.Y)) {
			continue
		}
		ci := r.D.Classify(bo)
		for _, r2 := range *bo.Referrers() {
			ifi, ok := r2.(*ssa.If)
			if !ok {
				continue
			}
			k := 1
			if ci.True["non"] {
				k = 0
			}
			if edgeDominates(ifi.Block(), k, b) {
				return true
			}
		}
	}
	return false
}

func sameValue(r *Run, a, b ssa.Value) bool {
	if a == b {
		return true
	}
	da, db := r.D.D(a), r.D.D(b)
	return da == db && !strings.Contains(da, "φ") && !strings.Contains(da, "…") && !strings.Contains(da, "opaque")
}

func c11CheckPair(r *Run, p laxPair) {
	k := "pair:" + p.key
	sa, la := p.strict.Call.Args, p.lax.Call.Args
	r.Check(k+":same-data", sameValue(r, sa[0], la[0]), r.Where(p.lax),
		fmt.Sprintf("strict parse reads %s, lax retry reads %s (must be the same bytes)", r.D.D(sa[0]), r.D.D(la[0])))
	r.Check(k+":same-destination", sameValue(r, sa[1], la[1]), r.Where(p.lax),
		fmt.Sprintf("strict parse fills %s (%s), lax retry fills %s (%s) (must be the same object)", r.D.D(sa[1]), argType(sa[1]), r.D.D(la[1]), argType(la[1])))
	lerr, serr := errValueOf(p.lax), errValueOf(p.strict)
	if lerr == nil || serr == nil {
		r.Fail(k+":errors-used", r.Where(p.lax), "the error of the strict or of the lax parse is discarded")
		return
	}
	// lax failure ⇒ (nil, lax error)
	lkey := r.D.Classify(nilTestOf(lerr)).Key
	if nilTestOf(lerr) == nil {
		r.Fail(k+":lax-error-returned", r.Where(p.lax), "the error of the lax parse is never tested")
		return
	}
	reach := r.D.Walk(p.fn, Sigma{lkey: "non"}, p.lax.Block(), nil)
	r.Valuations++
	rets := reachableReturns(p.fn, reach)
	ok := len(rets) > 0
	detail := fmt.Sprintf("%d returns reachable after a failed lax parse, all (nil, lax error)", len(rets))
	for _, ret := range rets {
		n := len(ret.Results)
		if ret.Results[n-1] != lerr {
			ok = false
			detail = "after a failed lax parse the return at " + r.Where(ret) + " yields error " + r.D.DUnder(ret.Results[n-1], reach) + ", not the lax error"
		}
		if n >= 2 && !isNilConst(ret.Results[0]) {
			ok = false
			detail = "after a failed lax parse the return at " + r.Where(ret) + " yields object " + r.D.DUnder(ret.Results[0], reach)
		}
	}
	r.Check(k+":lax-error-returned", ok, r.Where(p.lax), detail)
	// lax success ⇒ the strict error is recorded as non-fatal before anything is returned
	var adds []*ssa.Call
	for _, ci := range CallsTo(p.fn, "(*x509.NonFatalErrors).AddError") {
		if c, ok := ci.(*ssa.Call); ok && len(c.Call.Args) == 2 && c.Call.Args[1] == serr {
			adds = append(adds, c)
		}
	}
	if len(adds) == 0 {
		r.Fail(k+":strict-error-recorded", r.Where(p.lax), "no AddError(strict error) in "+FuncName(p.fn))
		return
	}
	stop := map[*ssa.BasicBlock]bool{}
	for _, a := range adds {
		stop[a.Block()] = true
	}
	reach = r.D.Walk(p.fn, Sigma{lkey: "nil"}, p.lax.Block(), stop)
	r.Valuations++
	escaped := reachableReturns(p.fn, reach)
	r.Check(k+":strict-error-recorded", len(escaped) == 0 && !stop[p.lax.Block()], r.Where(adds[0]),
		fmt.Sprintf("after a successful lax parse every path passes AddError(strict error) before returning (returns reachable without it: %d)", len(escaped)))
	// the collector is the one the function reports: a parameter, or the local boxed into a returned error
	recv := adds[0].Call.Args[0]
	if a, ok := recv.(*ssa.Alloc); ok {
		reported := false
		for _, ret := range Returns(p.fn) {
			if mi, ok := ret.Results[len(ret.Results)-1].(*ssa.MakeInterface); ok {
				if ld, ok := mi.X.(*ssa.UnOp); ok && ld.X == ssa.Value(a) {
					reported = true
				}
			}
		}
		r.Check(k+":collector-reported", reported, r.Where(adds[0]), "the NonFatalErrors that receives the strict error is returned as the function's non-fatal error")
	} else {
		_, isParam := recv.(*ssa.Parameter)
		r.Check(k+":collector-reported", isParam, r.Where(adds[0]), "the NonFatalErrors that receives the strict error is the caller's collector ("+r.D.D(recv)+")")
	}
}

func argType(v ssa.Value) string {
	if mi, ok := v.(*ssa.MakeInterface); ok {
		return TypeName(mi.X.Type())
	}
	return TypeName(v.Type())
}

// nilTestOf returns some ==/!= nil comparison of v.
func nilTestOf(v ssa.Value) ssa.Value {
	for _, ref := range *v.Referrers() {
		if bo, ok := ref.(*ssa.BinOp); ok && (isNilConst(bo.X) || isNilConst(bo.Y)) {
			return bo
		}
	}
	return nil
}

func stripIface(v ssa.Value) ssa.Value {
	if mi, ok := v.(*ssa.MakeInterface); ok {
		return mi.X
	}
	return v
}

// appendedElems lists the values appended to a slice built only by append (φ-merged, starting from nil).
func appendedElems(v ssa.Value, seen map[ssa.Value]bool) ([]ssa.Value, bool) {
	if seen[v] {
		return nil, true
	}
	seen[v] = true
	switch x := v.(type) {
	case *ssa.Const:
		return nil, x.Value == nil
	case *ssa.Phi:
		var out []ssa.Value
		for _, ed := range x.Edges {
			e, ok := appendedElems(ed, seen)
			if !ok {
				return nil, false
			}
			out = append(out, e...)
		}
		return out, true
	case *ssa.Call:
		b, ok := x.Call.Value.(*ssa.Builtin)
		if !ok || b.Name() != "append" || len(x.Call.Args) != 2 {
			return nil, false
		}
		out, ok := appendedElems(x.Call.Args[0], seen)
		if !ok {
			return nil, false
		}
		// the variadic part: a slice of a fresh array whose slots are stored once
		sl, ok := x.Call.Args[1].(*ssa.Slice)
		if !ok {
			return nil, false
		}
		arr, ok := sl.X.(*ssa.Alloc)
		if !ok {
			return nil, false
		}
		for _, ref := range *arr.Referrers() {
			if ia, ok := ref.(*ssa.IndexAddr); ok {
				for _, r2 := range *ia.Referrers() {
					if st, ok := r2.(*ssa.Store); ok {
						out = append(out, st.Val)
					}
				}
			}
		}
		return out, true
	}
	return nil, false
}
