package main

import (
	"fmt"
	"go/token"
	"go/types"
	"strings"

	"golang.org/x/tools/go/ssa"
)

// Rules added after the second round of independently seeded changes.  Each is
// attached to the properties it is a necessary condition of (see the run*
// functions that call them).

// freshPerIteration: the value `v` accumulated in an inner loop and handed on
// in the outer loop body starts from a fresh (nil / newly made) slice in every
// outer iteration — it is not a re-slice of the previous iteration's value,
// which would alias the backing array of elements already handed on.
func freshPerIteration(r *Run, v ssa.Value) (bool, string) {
	seen := map[ssa.Value]bool{}
	var starts []ssa.Value
	var visit func(x ssa.Value, d int)
	visit = func(x ssa.Value, d int) {
		if d > 8 || seen[x] {
			return
		}
		seen[x] = true
		switch y := x.(type) {
		case *ssa.Phi:
			for _, e := range y.Edges {
				visit(e, d+1)
			}
		case *ssa.Call:
			if b, ok := y.Call.Value.(*ssa.Builtin); ok && b.Name() == "append" {
				visit(y.Call.Args[0], d+1)
				return
			}
			starts = append(starts, x)
		default:
			starts = append(starts, x)
		}
	}
	visit(v, 0)
	for _, s := range starts {
		switch y := s.(type) {
		case *ssa.Const:
			if y.Value == nil {
				continue
			}
		case *ssa.MakeSlice:
			continue
		}
		return false, r.D.D(s)
	}
	return len(starts) > 0, ""
}

// c02ParseOIDs: every configured forbidden-extension OID is parsed into its own slice.
func c02ParseOIDs(r *Run) {
	fn := r.Fn("trillian/ctfe.parseOIDs")
	if fn == nil {
		return
	}
	n := 0
	eachInstr(fn, func(in ssa.Instruction) {
		st, ok := in.(*ssa.Store)
		if !ok || !glob("&(new:[1]asn1.ObjectIdentifier#*[0])", r.D.D(st.Addr)) {
			return
		}
		n++
		ok2, alias := freshPerIteration(r, st.Val)
		r.Check("parseOIDs:each-oid-own-storage", ok2, r.Where(st), "each parsed OID starts from a fresh slice (an OID built by re-slicing the previous one would share its backing array, and earlier reject_extensions entries would be overwritten): "+alias)
	})
	r.Check("parseOIDs:appends-parsed-oid", n == 1, r.FnPos(fn), fmt.Sprintf("%d sites append a parsed OID to the result", n))
	r.ErrorsGate(fn, "parseOIDs:errors", "strconv.Atoi", 1)
	// wiring: the parsed list is what the validation options use
	if su := r.Fn("trillian/ctfe.setUpLogInfo"); su != nil {
		cs := CallsTo(su, "trillian/ctfe.parseOIDs")
		r.Check("setUpLogInfo:parses-reject-extensions", len(cs) == 1, r.FnPos(su), "reject_extensions are parsed by parseOIDs")
		for _, c := range cs {
			r.ExpectArg(c, "setUpLogInfo:reject-extensions.source", 0, "*RejectExtensions*")
			for _, st := range r.StoresTo(su, "&(*.rejectExtIds)") {
				r.Check("setUpLogInfo:reject-extensions.used", glob("trillian/ctfe.parseOIDs(*)#0", r.D.D(st.Val)), r.Where(st), "validation options' rejectExtIds ← "+r.D.D(st.Val))
			}
		}
	}
}

// c03RawChain: the raw-chain route parses enough of the chain for the pre-issuer case.
func c03RawChain(r *Run) {
	fn := r.Fn("ct.MerkleTreeLeafFromRawChain")
	if fn == nil {
		return
	}
	var mk *ssa.MakeSlice
	eachInstr(fn, func(in ssa.Instruction) {
		if m, ok := in.(*ssa.MakeSlice); ok && strings.Contains(TypeName(m.Type()), "x509.Certificate") {
			mk = m
		}
	})
	if mk == nil {
		r.Fail("MerkleTreeLeafFromRawChain:parsed-chain", r.FnPos(fn), "undecided: parsed chain slice not found")
		return
	}
	// count = min(3, len(rawChain)): under len < 3 it is len, otherwise 3
	for _, c := range []struct{ v, want string }{{"<", "len(p0)"}, {"=", "3"}, {">", "3"}} {
		s := Sigma{}
		for k, ci := range r.D.AtomsOf(fn) {
			if ci.Kind == "ord" && (ci.A == "3" && ci.B == "len(p0)" || ci.A == "len(p0)" && ci.B == "3") {
				v := c.v
				if ci.A == "3" {
					v = map[string]string{"<": ">", ">": "<", "=": "="}[c.v]
				}
				s[k] = v
			}
		}
		got := r.ValueUnder(fn, mk.Len, s)
		r.Check("MerkleTreeLeafFromRawChain:count[len"+c.v+"3]", len(s) == 1 && got == c.want, r.Where(mk), "certificates parsed = "+got+" (want "+c.want+": the precert, its issuer and — for a precert-signing issuer — the final issuer)")
	}
	r.ExpectStores(fn, "MerkleTreeLeafFromRawChain:element", "&(make:[]*x509.Certificate(*)[it@*])", "x509.ParseCertificate(p0[it@*].Data)#0", 1)
	if c := r.OneCall(fn, "MerkleTreeLeafFromRawChain:delegate", "ct.MerkleTreeLeafFromChain"); c != nil {
		r.Check("MerkleTreeLeafFromRawChain:delegate.chain", CallArgs(c)[0] == ssa.Value(mk), r.Where(c), "the parsed chain is what MerkleTreeLeafFromChain receives")
		r.ExpectArg(c, "MerkleTreeLeafFromRawChain:delegate.type", 1, "p1")
		r.ExpectArg(c, "MerkleTreeLeafFromRawChain:delegate.timestamp", 2, "p2")
	}
	r.MustGuardAfter(fn, "MerkleTreeLeafFromRawChain:fatal-parse-error", "x509.IsFatal(x509.ParseCertificate(*)#1)", "T", asInstrs(CallsTo(fn, "ct.MerkleTreeLeafFromChain")), "leaf construction")
}

// c03SCTListReader: the list read back has one element per embedded element, in order.
func c03SCTListReader(r *Run) {
	fn := r.Fn("x509util.ParseSCTsFromSCTList")
	if fn != nil {
		apps := CallsTo(fn, "append")
		ext := CallsTo(fn, "x509util.ExtractSCT")
		if len(apps) == 1 && len(ext) == 1 {
			// from the loop body, the next iteration is reached only through the append
			// the first block of the loop body: the in-loop successor of the nearest loop header
			body := ext[0].Block()
			for _, b := range fn.Blocks {
				if strings.HasSuffix(b.Comment, ".loop") && b.Dominates(ext[0].Block()) && len(b.Succs) == 2 {
					body = b.Succs[0]
				}
			}
			reach := r.D.Walk(fn, Sigma{"nil?x509util.ExtractSCT(" + r.D.D(CallArgs(ext[0])[0]) + ")#1": "nil"}, body, map[*ssa.BasicBlock]bool{apps[0].Block(): true})
			r.Valuations++
			skip := false
			for b := range reach.Blocks {
				if b != body && (strings.HasSuffix(b.Comment, ".loop") || len(b.Succs) == 0) {
					skip = true
				}
			}
			r.Check("ParseSCTsFromSCTList:every-element-kept", !skip, r.Where(apps[0]), "every element that decodes is appended (no element of the embedded list is skipped)")
			r.ExpectStores(fn, "ParseSCTsFromSCTList:element", "&(new:[1]*ct.SignedCertificateTimestamp#0[0])", "x509util.ExtractSCT(*)#0", 1)
			// what is decoded: the list element at the loop position, handed over in place
			// (&list[i]) or through the per-iteration copy of a range loop (&x, x := list[i])
			src := elemTerm(r, fn, CallArgs(ext[0])[0])
			pos := strings.TrimSuffix(strings.TrimPrefix(src, "p0.SCTList["), "]")
			inOrder := src == "p0.SCTList["+pos+"]" && isLoopPos(pos)
			why := ""
			if inOrder {
				// … of a loop that goes through the whole list front to back, and the decoded
				// element is appended within that same loop
				inOrder, why = loopSweeps(r, fn, pos, "p0.SCTList", false)
				if n, err := parseInt(strings.TrimPrefix(pos, "it@")); inOrder && (err != nil || !fn.Blocks[n].Dominates(apps[0].Block()) || !blockReachesBlock(apps[0].Block(), fn.Blocks[n])) {
					inOrder, why = false, "the append is outside that loop"
				}
			}
			r.Check("ParseSCTsFromSCTList:in-order", inOrder, r.Where(ext[0]), "element i of the result is decoded from element i of the list: "+src+" "+why)
		} else {
			r.Fail("ParseSCTsFromSCTList:shape", r.FnPos(fn), fmt.Sprintf("undecided: %d append / %d ExtractSCT sites", len(apps), len(ext)))
		}
		r.ErrorsGate(fn, "ParseSCTsFromSCTList:errors", "x509util.ExtractSCT", 1)
	}
	if ex := r.Fn("x509util.ExtractSCT"); ex != nil {
		for _, c := range CallsTo(ex, "tls.Unmarshal") {
			r.ExpectArg(c, "ExtractSCT:source", 0, "p0.Val")
			if rest := CallResult(c, 0); rest != nil {
				r.FailEdge(ex, "ExtractSCT", EdgeSpec{Name: "trailing-bytes", Atom: ordAtomR("len("+r.D.D(rest)+")", "0"), Bad: ">", Want: wantErr(true)})
			}
		}
		r.ErrorsGate(ex, "ExtractSCT:errors", "tls.Unmarshal", 1)
	}
	if pc := r.Fn("x509util.ParseSCTsFromCertificate"); pc != nil {
		// ANY error of the certificate parse refuses: the SCT-list decoding problems of
		// x509.ParseCertificate (trailing bytes, truncated or empty elements) are reported
		// as non-fatal errors, so testing IsFatal here would accept malformed lists
		list := asInstrs(CallsTo(pc, "x509util.ParseSCTsFromSCTList"))
		found := false
		for k, ci := range r.D.AtomsOf(pc) {
			if ci.Kind == "nil" && strings.Contains(k, "x509.ParseCertificate(p0)#1") {
				found = true
				r.MustGuard(pc, "ParseSCTsFromCertificate:any-parse-error-refuses", k, "non", list, "use of the decoded SCT list")
			}
		}
		r.Check("ParseSCTsFromCertificate:parse-error-tested-against-nil", found, r.FnPos(pc), "the certificate parser's error is compared with nil (not merely classified by IsFatal)")
	}
}

// c09FreshVector: a decoded vector never reuses the destination's old backing array.
func c09FreshVector(r *Run) {
	fn := r.Fn("tls.parseField")
	if fn == nil {
		return
	}
	n := len(CallsTo(fn, "(reflect.Value).SetLen")) + len(CallsTo(fn, "(reflect.Value).SetCap")) + len(CallsTo(fn, "(reflect.Value).Slice")) + len(CallsTo(fn, "(reflect.Value).Slice3"))
	r.Check("parseField:vector-storage-fresh", n == 0, r.FnPos(fn), fmt.Sprintf("%d re-slicing operations on the destination (a decoded vector must get storage of its own: elements decoded through one scratch value would otherwise alias)", n))
	// every reflect.Append in the element loop appends to a value set from MakeSlice
	mk := CallsTo(fn, "reflect.MakeSlice")
	ap := CallsTo(fn, "reflect.Append")
	r.Check("parseField:vector-made", len(mk) >= 2 && len(ap) >= 1, r.FnPos(fn), fmt.Sprintf("%d MakeSlice / %d Append sites", len(mk), len(ap)))
	for _, a := range ap {
		dom := false
		for _, m := range mk {
			if m.Block().Dominates(a.Block()) && m.Block() != a.Block() {
				dom = true
			}
		}
		r.Check("parseField:append-after-make", dom, r.Where(a), "the element loop appends to a slice freshly made on every path to it")
	}
}

// c12RspErrNonNil: an RspError built on a failure path carries the error of that failure.
func c12RspErrNonNil(r *Run) {
	n := 0
	for _, fn := range r.P.ModFuncs {
		pk := fnPkg(fn)
		if pk == nil || (ShortPkg(pk.Path()) != "client" && ShortPkg(pk.Path()) != "jsonclient") || len(fn.Blocks) == 0 {
			continue
		}
		eachInstr(fn, func(in ssa.Instruction) {
			st, ok := in.(*ssa.Store)
			if !ok {
				return
			}
			fa, ok := st.Addr.(*ssa.FieldAddr)
			if !ok {
				return
			}
			f := fieldOf(fa)
			if f == nil || f.Name() != "Err" {
				return
			}
			pt := fa.X.Type().Underlying().(*types.Pointer)
			if TypeName(types.Unalias(pt.Elem())) != "jsonclient.RspError" {
				return
			}
			n++
			key := "RspError.Err:" + short(FuncName(fn)) + ":" + shortErr(r.D.D(st.Val))
			switch errKind(st.Val) {
			case "non":
				r.Pass(key, r.Where(st), "Err is a constructed error")
			case "nil":
				r.Fail(key, r.Where(st), "RspError.Err is the nil constant: Error() dereferences it")
			default:
				// nil is never fatal: x509.IsFatal(v) is false when v is nil
				reach := r.D.Walk(fn, Sigma{"nil?" + r.D.D(st.Val): "nil", "x509.IsFatal(" + r.D.D(st.Val) + ")": "F"}, nil, nil)
				r.Valuations++
				r.Check(key, !reach.Has(st), r.Where(st), "RspError.Err ← "+r.D.D(st.Val)+": this value is provably non-nil here (the literal is unreachable when it is nil); otherwise the caller gets an RspError without a cause and Error() panics")
			}
			r.Funcs[FuncName(fn)] = true
		})
	}
	r.Floor("RspError literals", n, 10)
}

// ---- how a call hands values to the inputs of an unexported function ---------------------------
//
// A rule about an unexported function is a statement about the values its callers hand to it
// ("the chain BuildLogLeaf was given reaches ExtraDataForChain"), not about the way its parameter
// list packages them.  A callBinding lists the *inputs* of the callee as the callee's own origin
// terms name them — a parameter `p4`, or one field of a parameter that is a struct built at the
// call site, `p4.hash` — each with the origin term (in the caller) of the value the call stores
// there; fields the literal leaves out are bound to their zero value.  Rules then name the
// callee's inputs by the caller's value (slotOf("p4") = "the input that receives BuildLogLeaf's
// chain") and write their patterns over those names, so the same rule decides
// f(a, b, nil) and f(a, group{x: b}).
type callBinding struct {
	call  ssa.CallInstruction
	slots map[string]string // callee input -> caller origin term
	err   string            // why the binding is undecided ("" = resolved)
}

func zeroTerm(t types.Type) string {
	switch u := t.Underlying().(type) {
	case *types.Basic:
		switch {
		case u.Info()&types.IsString != 0:
			return `""`
		case u.Info()&types.IsBoolean != 0:
			return "false"
		case u.Info()&types.IsNumeric != 0:
			return "0"
		}
	case *types.Struct, *types.Array:
		return "zero:" + TypeName(t)
	}
	return "nil"
}

// bindCall resolves the inputs of a statically dispatched call.
func (r *Run) bindCall(call ssa.CallInstruction) *callBinding {
	b := &callBinding{call: call, slots: map[string]string{}}
	c := call.Common()
	if c.IsInvoke() || c.StaticCallee() == nil {
		b.err = "not a static call"
		return b
	}
	var read ssa.Instruction                  // where the struct built for the call is read (the load handed over, or the call)
	before := func(in ssa.Instruction) bool { // in executes before that read on every path to it
		if in.Block() == read.Block() {
			return instrIdx(in) < instrIdx(read)
		}
		return in.Block().Dominates(read.Block())
	}
	// fields of the struct at addr (a local built for this call), as inputs slot.f
	var fields func(addr ssa.Value, st *types.Struct, slot string, root bool)
	fields = func(addr ssa.Value, st *types.Struct, slot string, root bool) {
		byField := map[int][]*ssa.FieldAddr{}
		for _, ref := range *addr.Referrers() {
			switch x := ref.(type) {
			case *ssa.DebugRef:
			case *ssa.FieldAddr:
				byField[x.Field] = append(byField[x.Field], x)
			case *ssa.UnOp:
				if x.Op != token.MUL { // reads do not change what the call receives
					b.err = "the struct passed for " + slot + " is used in an unexpected way"
				}
			case *ssa.Call, *ssa.Defer, *ssa.Go:
				if !root || x != ssa.Instruction(call) {
					b.err = "the struct passed for " + slot + " is shared with another call"
				}
			default:
				b.err = "the struct passed for " + slot + " is not only built field by field"
			}
		}
		for i := 0; i < st.NumFields(); i++ {
			f := st.Field(i)
			name := slot + "." + f.Name()
			var stores []*ssa.Store
			var nested []*ssa.FieldAddr
			for _, fa := range byField[i] {
				for _, ref := range *fa.Referrers() {
					switch x := ref.(type) {
					case *ssa.DebugRef:
					case *ssa.UnOp:
						if x.Op != token.MUL {
							b.err = "field " + name + " is used in an unexpected way"
						}
					case *ssa.Store:
						if x.Addr != ssa.Value(fa) {
							b.err = "the address of " + name + " escapes"
						}
						stores = append(stores, x)
					case *ssa.FieldAddr:
						if len(nested) == 0 || nested[len(nested)-1] != fa {
							nested = append(nested, fa)
						}
					default:
						b.err = "field " + name + " is not only stored to before the call"
					}
				}
			}
			switch {
			case len(stores) == 1 && len(nested) == 0:
				if !before(stores[0]) {
					b.err = "the store to " + name + " does not precede the call on every path"
				}
				b.slots[name] = r.D.D(stores[0].Val)
			case len(stores) == 0 && len(nested) == 0:
				b.slots[name] = zeroTerm(f.Type())
			case len(stores) == 0 && len(nested) == 1:
				if fst, ok := f.Type().Underlying().(*types.Struct); ok {
					fields(nested[0], fst, name, false)
				} else {
					b.err = "field " + name + " is written in pieces"
				}
			default:
				b.err = "field " + name + " is written more than once"
			}
		}
	}
	for i, a := range c.Args {
		slot := fmt.Sprintf("p%d", i)
		b.slots[slot] = r.D.D(a)
		switch v := a.(type) {
		case *ssa.Const:
			if st, ok := v.Type().Underlying().(*types.Struct); ok && v.Value == nil {
				for j := 0; j < st.NumFields(); j++ {
					b.slots[slot+"."+st.Field(j).Name()] = zeroTerm(st.Field(j).Type())
				}
			}
		case *ssa.UnOp:
			al, isAlloc := v.X.(*ssa.Alloc)
			if v.Op != token.MUL || !isAlloc {
				continue
			}
			if st, ok := al.Type().(*types.Pointer).Elem().Underlying().(*types.Struct); ok && callLiteral(al) {
				read = v
				fields(al, st, slot, true)
			}
		case *ssa.Alloc:
			if st, ok := v.Type().(*types.Pointer).Elem().Underlying().(*types.Struct); ok && callLiteral(v) {
				read = call
				fields(v, st, slot, true)
			}
		}
	}
	return b
}

// callLiteral: the local is a composite literal — never stored to as a whole.
func callLiteral(al *ssa.Alloc) bool {
	for _, ref := range *al.Referrers() {
		if st, ok := ref.(*ssa.Store); ok && (st.Addr == ssa.Value(al) || st.Val == ssa.Value(al)) {
			return false
		}
	}
	return true
}

// slotOf names the one input of the callee that receives the caller's value callerTerm
// (the most specific one: a field of a struct built for the call rather than the struct).
func (b *callBinding) slotOf(callerTerm string) (string, string) {
	if b.err != "" {
		return "", "undecided: " + b.err
	}
	var hits []string
	for _, s := range keysOf(b.slots) {
		if b.slots[s] == callerTerm {
			hits = append(hits, s)
		}
	}
	switch len(hits) {
	case 1:
		return hits[0], ""
	case 0:
		return "", "no input of " + CalleeOf(b.call) + " receives " + callerTerm
	}
	return "", fmt.Sprintf("%s is handed to several inputs of %s: %v", callerTerm, CalleeOf(b.call), hits)
}

// roles resolves named inputs: want maps a role name to the caller's origin term; every role
// must bind exactly one input.  The result maps role -> callee input; failures are recorded
// under key+"["+role+"]".
func (r *Run) roles(b *callBinding, key string, order []string, want map[string]string) (map[string]string, bool) {
	out := map[string]string{}
	ok := true
	for _, role := range order {
		slot, why := b.slotOf(want[role])
		if why != "" {
			ok = false
			r.Fail(key+"["+role+"]", r.Where(b.call), why)
			continue
		}
		out[role] = slot
		r.Pass(key+"["+role+"]", r.Where(b.call), fmt.Sprintf("%s of %s receives %s", slot, CalleeOf(b.call), want[role]))
	}
	return out, ok
}

// inputsReadOnly: origin terms read a field of a parameter that lives in memory (a struct
// parameter whose fields are selected) as `pN.f` wherever it is read; that is the value the
// caller handed over only if the function never writes into the parameter.  The obligation fails
// (undecided) when a parameter of fn is written in pieces or its address leaves the function.
func (r *Run) inputsReadOnly(fn *ssa.Function, key string) bool {
	why := ""
	var visit func(addr ssa.Value, what string)
	visit = func(addr ssa.Value, what string) {
		for _, ref := range *addr.Referrers() {
			switch x := ref.(type) {
			case *ssa.DebugRef:
			case *ssa.UnOp:
				if x.Op != token.MUL {
					why = what + " is used by " + x.Op.String()
				}
			case *ssa.FieldAddr:
				visit(x, what)
			case *ssa.IndexAddr:
				visit(x, what)
			case *ssa.Store:
				if _, isParam := x.Val.(*ssa.Parameter); !(x.Addr == addr && isParam && x.Block().Index == 0) {
					why = what + " is written at " + r.Where(x)
				}
			default:
				why = what + " has its address taken at " + r.Where(ref)
			}
		}
	}
	for i, p := range fn.Params {
		for _, ref := range *p.Referrers() {
			if st, ok := ref.(*ssa.Store); ok && st.Val == ssa.Value(p) {
				if a, ok := st.Addr.(*ssa.Alloc); ok {
					visit(a, fmt.Sprintf("parameter p%d", i))
				}
			}
		}
	}
	return r.Check(key, why == "", r.FnPos(fn), "the inputs of "+FuncName(fn)+" are only read (a field of a parameter reads as the value the caller handed over) "+why)
}
