package main

// C13.R1 / R2 / R5 when the transport is written out in the retry loop.
//
// The retry rules speak about ONE HTTP POST ATTEMPT PER ITERATION.  The attempt used to be found as
// "the call of PostAndParse"; it is found here as the one instruction of the loop function that
// sends a request: a call of a module function that (transitively) reaches a transport call of
// net/http or ctxhttp, or such a transport call itself.  In the first form the loop is judged on
// the three results of PostAndParse and PostAndParse itself by R5 (rules_c13.go).  In the second
// form (c13LoopInline) the same clauses are established on the loop function:
//
//	iteration   every iteration starts at the loop header H; between H and the status dispatch D /
//	            the error test E nothing returns, waits, touches the back-off state or goes round;
//	            the request is made at most once per iteration;
//	gate        once a step of the attempt failed (an error result of a call made on the way, or
//	            the final method is not POST) D is not reached — the iteration ends in E;
//	dispatch    from D, per status: 200 and the body parses ⇒ return (response, body, nil);
//	            200 and the body does NOT parse ⇒ backoff.set(nil), wait, next attempt (the
//	            property retries unparsable 200 bodies; with PostAndParse this is its RspError
//	            taking the loop's error edge); 408 / 429 / 503 / other as in the call form; the
//	            body is decoded for status 200 only;
//	error edge  from E: the error compared with the context sentinels is returned when it is one
//	            of them; otherwise backoff.set(nil), wait, next attempt.

import (
	"fmt"
	"go/token"
	"go/types"
	"sort"
	"strings"

	"golang.org/x/tools/go/ssa"
)

// c13Att describes the attempt of the loop in origin terms.
type c13Att struct {
	rsp     string             // glob: the response of the attempt
	body    string             // globs (a || b): the body read from it
	err     string             // glob: the error of the attempt (call form)
	errVals map[ssa.Value]bool // written-out form: the value(s) the loop compares with the context sentinels
}

var c13CallAtt = &c13Att{rsp: c13Post + "(*)#0", body: c13Post + "(*)#1", err: c13Post + "(*)#2"}

func (w *c13WaitSite) attempt() *c13Att {
	if w == nil || w.att == nil {
		return c13CallAtt
	}
	return w.att
}

// c13Transport: the call sends an HTTP request — a function of net/http or ctxhttp that hands back
// a *http.Response.
func c13Transport(c ssa.CallInstruction) bool {
	f := c.Common().StaticCallee()
	if f == nil || c.Common().IsInvoke() {
		return false
	}
	if p := pkgPathOf(f); p != "net/http" && !strings.HasSuffix(p, "/ctxhttp") {
		return false
	}
	res := f.Signature.Results()
	for i := 0; i < res.Len(); i++ {
		if pt, ok := res.At(i).Type().(*types.Pointer); ok && TypeName(types.Unalias(pt.Elem())) == "http.Response" {
			return true
		}
	}
	return false
}

// c13Sends: f, or a module function it calls statically, contains a transport call.
func c13Sends(f *ssa.Function, seen map[*ssa.Function]bool) bool {
	if f == nil || seen[f] || len(f.Blocks) == 0 || !inModule(f) {
		return false
	}
	seen[f] = true
	found := false
	var scan func(g *ssa.Function)
	scan = func(g *ssa.Function) {
		eachInstr(g, func(in ssa.Instruction) {
			c, ok := in.(ssa.CallInstruction)
			if !ok || found {
				return
			}
			if c13Transport(c) || c13Sends(c.Common().StaticCallee(), seen) {
				found = true
			}
		})
		for _, af := range g.AnonFuncs {
			scan(af)
		}
	}
	scan(f)
	return found
}

// c13Attempts: the instructions of fn (function literals included) that send a request.
func c13Attempts(fn *ssa.Function) []ssa.CallInstruction {
	var out []ssa.CallInstruction
	var scan func(g *ssa.Function)
	scan = func(g *ssa.Function) {
		eachInstr(g, func(in ssa.Instruction) {
			c, ok := in.(ssa.CallInstruction)
			if !ok {
				return
			}
			if c13Transport(c) || c13Sends(c.Common().StaticCallee(), map[*ssa.Function]bool{fn: true}) {
				out = append(out, c)
			}
		})
		for _, af := range g.AnonFuncs {
			scan(af)
		}
	}
	scan(fn)
	return out
}

// c13WrittenOut: the one attempt of the retry loop fn is the transport call itself (the transport
// is written out in the loop); the clauses about the attempt are then decided by c13LoopInline.
func c13WrittenOut(fn *ssa.Function) bool {
	atts := c13Attempts(fn)
	return len(atts) == 1 && atts[0].Parent() == fn && c13Transport(atts[0])
}

// c13Dominator: the block of bs that dominates all the others (nil: none does).
func c13Dominator(bs []*ssa.BasicBlock) *ssa.BasicBlock {
	for _, d := range bs {
		all := true
		for _, b := range bs {
			all = all && d.Dominates(b)
		}
		if all {
			return d
		}
	}
	return nil
}

// c13GoesRound: the walk (made with H as a stop block unless it started there) may take an edge
// into H.  Walk does not record edges into stop blocks, so the last branch of each predecessor it
// visited is evaluated here.
func c13GoesRound(r *Run, reach *Reach, s Sigma, H *ssa.BasicBlock) bool {
	for _, p := range H.Preds {
		if !reach.Blocks[p] {
			continue
		}
		if reach.Edges[[2]int{p.Index, H.Index}] || len(p.Instrs) == 0 {
			return true
		}
		ifi, isIf := p.Instrs[len(p.Instrs)-1].(*ssa.If)
		if !isIf {
			return true
		}
		switch r.D.Eval(ifi.Cond, s, p, -1) {
		case T:
			if p.Succs[0] == H {
				return true
			}
		case F:
			if p.Succs[1] == H {
				return true
			}
		default:
			return true
		}
	}
	return false
}

// c13Sentinels finds the identity comparisons of an error with context.Canceled /
// context.DeadlineExceeded in fn: atom key per sentinel, the compared values, the blocks that test.
func c13Sentinels(r *Run, fn *ssa.Function) (keys map[string]string, vals map[ssa.Value]bool, blocks []*ssa.BasicBlock) {
	keys = map[string]string{}
	vals = map[ssa.Value]bool{}
	sentinel := func(v ssa.Value) string {
		ld, ok := v.(*ssa.UnOp)
		if !ok || ld.Op != token.MUL {
			return ""
		}
		g, ok := ld.X.(*ssa.Global)
		if !ok || g.Pkg == nil || g.Pkg.Pkg.Path() != "context" {
			return ""
		}
		if g.Name() == "Canceled" || g.Name() == "DeadlineExceeded" {
			return g.Name()
		}
		return ""
	}
	eachInstr(fn, func(in ssa.Instruction) {
		b, ok := in.(*ssa.BinOp)
		if !ok || b.Op != token.EQL && b.Op != token.NEQ {
			return
		}
		name, other := sentinel(b.X), b.Y
		if name == "" {
			name, other = sentinel(b.Y), b.X
		}
		if name == "" {
			return
		}
		k := r.D.Classify(b).Key
		if old, dup := keys[name]; dup && old != k {
			keys[name] = "" // compared twice with different values: undecided
			return
		}
		keys[name] = k
		vals[other] = true
	})
	isKey := map[string]bool{}
	for _, k := range keys {
		if k != "" {
			isKey[k] = true
		}
	}
	blocks = r.blocksTesting(fn, func(ci *CondInfo) bool { return isKey[ci.Key] })
	return
}

func c13LoopInline(r *Run, fn *ssa.Function, at ssa.CallInstruction) {
	const pfx = "retry:post"
	r.Rule("C13.R1")
	// ---- iteration structure --------------------------------------------------------
	H := LoopHeadOf(at.Block())
	once := H != nil && (at.Block() == H || !CycleAvoiding(at.Block(), map[*ssa.BasicBlock]bool{H: true}))
	if !r.Check("retry:loop", once, r.Where(at), "the request sits in the retry loop and is made at most once per iteration (no inner cycle passes it)") {
		return
	}
	if CalleeOf(at) != "ctxhttp.Do" {
		r.Fail("retry:attempt", r.Where(at), "undecided: the request is sent by "+CalleeOf(at)+"; only ctxhttp.Do (caller's context, the client's http.Client) is understood")
		return
	}
	att := &c13Att{
		rsp:  "ctxhttp.Do(*)#0",
		body: "io.ReadAll(ctxhttp.Do(*)#0.Body)#0 || phi(io.ReadAll(ctxhttp.Do(*)#0.Body)#0|nil)",
	}
	// the attempt is made for the caller: context, client, path, request and response parameters
	// (with PostAndParse: retry:attempt.arg0..4)
	r.Rule("C13.R5")
	c13TransportArgs(r, fn, pfx)
	r.ExpectArg(at, pfx+":do.request", 2, `http.NewRequest("POST", *)#0`)
	if c := CallsTo(fn, "http.NewRequest"); len(c) == 1 {
		c13URL(r, c[0], pfx+":request.url")
		r.ExpectArg(c[0], pfx+":request.body", 2, "bytes.NewReader(json.Marshal(*)#0) || bytes.NewBuffer(json.Marshal(*)#0)")
	}
	if c := r.OneCall(fn, pfx+":marshal", "json.Marshal"); c != nil {
		r.ExpectArg(c, pfx+":marshal.req", 0, "p3")
	}
	// the decode step(s): the JSON decoder itself or module helpers built on it (a body may be decoded
	// on several exclusive paths, e.g. into a scratch value when there is something to fill in)
	ums := c13DecodeSteps(fn)
	if r.Check(pfx+":unmarshal", len(ums) >= 1, r.FnPos(fn), fmt.Sprintf("%d calls in %s decode the body (json.Unmarshal or a helper built on it)", len(ums), FuncName(fn))) {
		c13DecodeFills(r, fn, ums, pfx, 4)
	}
	r.Rule("C13.R1")

	sets := asInstrs(CallsTo(fn, c13Set))
	w := c13FindWait(fn)
	var waits []ssa.Instruction
	if w != nil {
		waits = w.marks
		w.att = att
	}
	r.Check("retry:set-calls", len(sets) >= 2, r.FnPos(fn), fmt.Sprintf("%d calls of backoff.set in the loop (error edge and 429/503 expected)", len(sets)))
	r.Check("retry:wait-calls", len(waits) >= 1, r.FnPos(fn), fmt.Sprintf("%d calls of waitForBackoff in the loop", len(waits)))
	if len(sets) < 2 || len(waits) < 1 || len(ums) == 0 {
		return
	}

	// D: the status dispatch; E: the test of the attempt's error against the context sentinels
	statusG := att.rsp + ".StatusCode"
	D := c13Dominator(r.blocksTesting(fn, func(ci *CondInfo) bool {
		return ci.Kind == "ord" && (glob(statusG, ci.A) || glob(statusG, ci.B))
	}))
	if D == nil {
		r.Fail("retry:status-table", r.FnPos(fn), "undecided: no single place where the loop starts to dispatch on "+statusG)
		return
	}
	skeys, svals, sblocks := c13Sentinels(r, fn)
	E := c13Dominator(sblocks)
	if E == nil || skeys["Canceled"] == "" || skeys["DeadlineExceeded"] == "" || len(svals) != 1 {
		r.Rule("C13.R2")
		r.Fail("retry:error-test", r.FnPos(fn), fmt.Sprintf("undecided: the loop does not compare ONE error value of the attempt with both context.Canceled and context.DeadlineExceeded (identity) in one place: %d values, keys %v", len(svals), skeys))
		return
	}
	att.errVals = svals
	inLoop := func(b *ssa.BasicBlock) bool { return inNaturalLoop(H, b) }
	if !r.Check("retry:loop.parts", inLoop(D) && inLoop(E) && at.Block().Dominates(D), r.Where(at), "the status dispatch and the error test belong to the loop of the request, and the request comes before the dispatch") {
		return
	}
	stopDE := map[*ssa.BasicBlock]bool{D: true, E: true}
	stopH := map[*ssa.BasicBlock]bool{H: true}
	stopEH := map[*ssa.BasicBlock]bool{E: true, H: true}

	// iteration: from the head to D / E nothing observable happens
	pre := r.D.Walk(fn, Sigma{}, H, stopDE)
	r.Valuations++
	var seen []string
	for _, ret := range reachableReturns(fn, pre) {
		seen = append(seen, "return at "+r.Where(ret))
	}
	for _, in := range reachableIns(append(append([]ssa.Instruction{}, sets...), waits...), pre) {
		seen = append(seen, CalleeOf(in.(ssa.CallInstruction))+" at "+r.Where(in))
	}
	if D != H && E != H && ReachedAgain(pre, H) {
		seen = append(seen, "the next iteration begins")
	}
	r.Check("retry:iteration", len(seen) == 0 && D != H && E != H, r.Where(at),
		fmt.Sprintf("between the head of an iteration and the status dispatch / the error test nothing returns, waits, touches the back-off state or goes round the loop: %v", seen))

	// gate: a failed step of the attempt never reaches the dispatch (R5 on the loop)
	r.Rule("C13.R5")
	c13Gate(r, fn, pfx, att, pre, D, stopEH)

	// ---- R1: the status table, from the dispatch ----------------------------------
	r.Rule("C13.R1")
	cases, err := r.D.ConstTable(fn, statusG, D)
	if err != nil {
		r.Fail("retry:status-table", r.FnPos(fn), "undecided: "+err.Error())
		return
	}
	byCode := map[int64]*ConstCase{}
	var def *ConstCase
	for i := range cases {
		if cases[i].Default {
			def = &cases[i]
		} else {
			byCode[cases[i].Value] = &cases[i]
		}
	}
	with := func(a Sigma, k, v string) Sigma {
		s := Sigma{}
		for x, y := range a {
			s[x] = y
		}
		if k != "" {
			s[k] = v
		}
		return s
	}
	eval := func(s Sigma) (c13Outcome, *Reach) {
		reach := r.D.Walk(fn, s, D, stopH)
		r.Valuations++
		return c13ObserveL(r, w, fn, reach, sets, waits, c13GoesRound(r, reach, s, H)), reach
	}
	setsNil := func(o c13Outcome) string {
		for _, s := range o.sets {
			if a := r.D.D(CallArgs(s.(ssa.CallInstruction))[1]); a != "nil" {
				return "set(" + a + ")"
			}
		}
		return ""
	}
	var umKeys []string
	for _, um := range ums {
		ev, _ := c13StepErr(r, um)
		k := ""
		if ev != nil {
			k = "nil?" + r.D.D(ev)
		}
		if _, tested := r.D.AtomsOf(fn)[k]; !tested {
			r.Fail("retry:status=200,unparsable", r.Where(um), "undecided: the loop does not test the error of "+CalleeOf(um))
			return
		}
		umKeys = append(umKeys, k)
	}
	withAll := func(a Sigma, v string) Sigma {
		s := with(a, "", "")
		for _, k := range umKeys {
			s[k] = v
		}
		return s
	}
	hasUm := func(reach *Reach) bool {
		for _, um := range ums {
			if reach.Has(um) {
				return true
			}
		}
		return false
	}
	judge := func(code string, o c13Outcome) (bool, string) {
		switch code {
		case "200":
			return len(o.kinds) == 1 && o.kinds[0] == "success" && len(o.sets) == 0 && len(o.waits) == 0 && !o.loops,
				"200 and the body parses ⇒ return (response, body, nil) at once"
		case "200,unparsable":
			return c13OnlyKinds(o, "wait-error") && len(o.sets) > 0 && setsNil(o) == "" && len(o.waits) > 0 && o.loops,
				"200 with a body that does not parse ⇒ retried like a failed attempt: backoff.set(nil), wait, next attempt; only exit is the wait's error"
		case "408":
			noDelay, how := c13NoWaitSets(r, o.sets)
			return c13OnlyKinds(o, "wait-error") && noDelay && len(o.waits) > 0 && o.loops,
				"408 ⇒ next attempt without added delay (no set call, or only backoff.set(&d) with a constant d ≤ 0, which never adds delay: set[…override…] / set:no-wait-override-adds-no-delay), only exit is the wait's error" + how
		case "429", "503":
			return c13OnlyKinds(o, "wait-error") && len(o.sets) > 0 && len(o.waits) > 0 && o.loops,
				code + " ⇒ backoff.set, wait, next attempt; only exit is the wait's error"
		}
		return len(o.kinds) == 1 && o.kinds[0] == "rsp-error" && len(o.sets) == 0 && len(o.waits) == 0 && !o.loops,
			"any other status ⇒ immediate RspError, no retry"
	}
	parsedElsewhere := []string{}
	one := func(label, class string, s Sigma, is200 bool) c13Outcome {
		o, reach := eval(s)
		ok, want := judge(class, o)
		r.Check("retry:status="+label, ok, r.Where(at), want+"; found "+o.String())
		if !is200 && hasUm(reach) {
			parsedElsewhere = append(parsedElsewhere, label)
		}
		return o
	}
	for _, code := range []int64{200, 408, 429, 503} {
		label := fmt.Sprint(code)
		c := byCode[code]
		if c == nil {
			r.Fail("retry:status="+label, r.FnPos(fn), "status "+label+" is not distinguished by the loop (falls to the default)")
			continue
		}
		if code == 200 {
			one("200", "200", withAll(c.Sigma, "nil"), true)
			for _, k := range umKeys {
				// this decode fails (the others, where they run at all, succeed)
				one("200,unparsable", "200,unparsable", with(withAll(c.Sigma, "nil"), k, "non"), true)
			}
			if reach := r.D.Walk(fn, c.Sigma, D, stopH); !hasUm(reach) {
				r.Fail("retry:status=200", r.Where(ums[0]), "the body of a 200 response is not decoded")
			}
			continue
		}
		one(label, label, c.Sigma, false)
	}
	var codes []int64
	for c := range byCode {
		codes = append(codes, c)
	}
	sort.Slice(codes, func(i, j int) bool { return codes[i] < codes[j] })
	for _, c := range codes {
		if c == 200 || c == 408 || c == 429 || c == 503 {
			continue
		}
		one(fmt.Sprint(c), "other", byCode[c].Sigma, false)
	}
	if def == nil {
		r.Fail("retry:status=default", r.FnPos(fn), "undecided: no default case")
	} else {
		o := one("default", "other", def.Sigma, false)
		for _, ev := range o.rspErrs {
			r.ExpectFields(fn, "retry:default-error", ev, map[string]string{
				"StatusCode": statusG,
				"Body":       att.body,
				"Err":        "fmt.Errorf(*) || errors.New(*)",
			})
		}
	}
	r.Rule("C13.R5")
	r.Check(pfx+":parse-only-200", len(parsedElsewhere) == 0, r.Where(ums[0]), fmt.Sprintf("the body is decoded for status 200 only; also decoded for %v", parsedElsewhere))
	succ := successReturns(fn)
	r.Check(pfx+":success-returns", len(succ) >= 1, r.FnPos(fn), fmt.Sprintf("%d nil-error returns", len(succ)))

	// ---- R2a: the error edge, from the error test ------------------------------------
	r.Rule("C13.R2")
	bad := map[string]string{}
	hits := map[string]int{}
	for _, cv := range []string{"T", "F"} {
		for _, dv := range []string{"T", "F"} {
			s := Sigma{skeys["Canceled"]: cv, skeys["DeadlineExceeded"]: dv}
			reach := r.D.Walk(fn, s, E, stopH)
			r.Valuations++
			o := c13ObserveL(r, w, fn, reach, sets, waits, c13GoesRound(r, reach, s, H))
			class, msg := "other-error", ""
			if cv == "T" || dv == "T" {
				class = "context-ended"
				if !(len(o.kinds) == 1 && o.kinds[0] == "attempt-error" && len(o.sets) == 0 && len(o.waits) == 0 && !o.loops) {
					msg = "a context error must be returned at once; found " + o.String()
				}
			} else if !(c13OnlyKinds(o, "wait-error") && len(o.sets) > 0 && len(o.waits) > 0 && o.loops) {
				msg = "another error ⇒ backoff.set(nil), wait, next attempt; found " + o.String()
			} else if a := setsNil(o); a != "" {
				msg = "the error edge must call backoff.set(nil), found " + a
			}
			hits[class]++
			if msg != "" && bad[class] == "" {
				bad[class] = fmt.Sprintf("%s [valuation %s]", msg, s)
			}
		}
	}
	for _, class := range []string{"context-ended", "other-error"} {
		if bad[class] != "" {
			r.Fail("retry:error-edge["+class+"]", r.FnPos(fn), bad[class])
		} else {
			r.Pass("retry:error-edge["+class+"]", r.FnPos(fn), fmt.Sprintf("%d valuations of class %s all conform", hits[class], class))
		}
	}

	// R2b: the override on 429 / 503
	c13Overrides(r, fn, D, byCode, Sigma{}, sets, att.rsp, stopH)
	for _, sc := range sets {
		r.ExpectArg(sc.(ssa.CallInstruction), "retry:set.receiver", 0, "p0.backoff")
	}

	// R2c: no way round the loop avoids the wait; the wait's error ends the loop
	r.Check("retry:wait-on-every-round", !CycleAvoiding(H, BlocksOf(waits)), r.Where(waits[0]),
		"every path from one attempt to the next passes a waitForBackoff call")
	for _, wc := range w.calls {
		for i, a := range CallArgs(wc) {
			key, want := "retry:wait.client", "p0 || p0.backoff"
			if strings.HasSuffix(a.Type().String(), "context.Context") {
				key, want = "retry:wait.ctx", "p1"
			}
			r.ExpectArg(wc, key, i, want)
		}
	}
	r.FailEdge(fn, "retry", EdgeSpec{Name: "wait-error", Atom: w.errAtom(), Bad: "non",
		Want: func(r *Run, ret *ssa.Return) (bool, string) {
			var ks []string
			ok := true
			for _, k := range c13RetKinds(r, w, ret, nil) {
				ks = append(ks, k.kind)
				ok = ok && k.kind == "wait-error"
			}
			return ok, "return kind " + strings.Join(ks, ", ")
		},
		Unreach: append([]ssa.Instruction{at}, sets...)})
}

// c13URL: the request goes to the client's base URI followed by the caller's path.
func c13URL(r *Run, nr ssa.CallInstruction, key string) {
	u := CallArgs(nr)[1]
	got := r.D.D(u)
	ok := got == "(p0.uri + p2)"
	if c := callOfValue(u); !ok && c != nil && CalleeOf(c) == "fmt.Sprintf" && len(CallArgs(c)) == 2 {
		if f, isStr := StringConst(CallArgs(c)[0]); isStr && f == "%s%s" {
			el := ElemStores(AllocBehind(CallArgs(c)[1]))
			ok = len(el) == 2 && len(el[0]) == 1 && len(el[1]) == 1 && r.D.D(el[0][0]) == "p0.uri" && r.D.D(el[1][0]) == "p2"
			got = fmt.Sprintf(`fmt.Sprintf("%%s%%s", %v, %v)`, descAll(r, el[0]), descAll(r, el[1]))
		}
	}
	r.Check(key, ok, r.Where(nr), "URL of the request = "+got+" (expected the client's uri followed by the caller's path)")
}

func descAll(r *Run, vs []ssa.Value) []string {
	var out []string
	for _, v := range vs {
		out = append(out, r.D.D(v))
	}
	return out
}

// c13Gate: for every call made between the head of an iteration and the dispatch whose last result
// is an error — and for the test of the final request method — once the step failed the dispatch D
// is not reached (walk from the step, inside the iteration, up to the error test), and it is
// reached when the step succeeded (positive control).
func c13Gate(r *Run, fn *ssa.Function, pfx string, att *c13Att, pre *Reach, D *ssa.BasicBlock, stop map[*ssa.BasicBlock]bool) {
	errT := types.Universe.Lookup("error").Type()
	n := 0
	for _, b := range fn.Blocks {
		if !pre.Blocks[b] {
			continue
		}
	next:
		for _, in := range b.Instrs {
			c, isCall := in.(*ssa.Call)
			if !isCall {
				continue
			}
			name := CalleeOf(c)
			for _, ig := range errGateIgnore {
				if glob(ig, name) {
					continue next
				}
			}
			var ev ssa.Value
			if tup, ok := c.Type().(*types.Tuple); ok {
				if tup.Len() == 0 || !types.Identical(tup.At(tup.Len()-1).Type(), errT) {
					continue
				}
				if ev = CallResult(c, tup.Len()-1); ev == nil {
					n++
					r.Fail(pfx+":errors@"+name, r.Where(c), "error result of "+name+" is discarded")
					continue
				}
			} else if types.Identical(c.Type(), errT) {
				ev = c
			} else {
				continue
			}
			n++
			tested := ev
			if !hasNilTest(ev) {
				for _, ref := range *ev.Referrers() {
					if ph, ok := ref.(*ssa.Phi); ok && hasNilTest(ph) {
						tested = ph
					}
				}
			}
			key := "nil?" + r.D.D(tested)
			if _, ok := r.D.AtomsOf(fn)[key]; !ok {
				r.Fail(pfx+":errors@"+name, r.Where(c), "undecided: the error of "+name+" is not tested before the status dispatch")
				continue
			}
			badR := r.D.Walk(fn, Sigma{key: "non"}, b, stop)
			goodR := r.D.Walk(fn, Sigma{key: "nil"}, b, stop)
			r.Valuations += 2
			switch {
			case badR.Blocks[D]:
				r.Fail(pfx+":errors@"+name, r.Where(c), "the status dispatch is reachable in the same iteration after "+name+" failed ("+key+"=non): a failed attempt can be taken for a response")
			case !goodR.Blocks[D]:
				r.Fail(pfx+":errors@"+name, r.Where(c), "the status dispatch is unreachable even when "+name+" succeeded (positive control)")
			default:
				r.Pass(pfx+":errors@"+name, r.Where(c), "once "+name+" failed the iteration ends in the loop's error test; the status dispatch is not reached")
			}
		}
	}
	if n < 5 {
		r.Fail(pfx+":errors", r.FnPos(fn), fmt.Sprintf("expected >= 5 error-returning steps between the head of an iteration and the status dispatch, found %d", n))
	}
	// the method of the final request
	mG := att.rsp + ".Request.Method"
	var mkey string
	var flipped bool
	for _, k := range keysOf(r.D.AtomsOf(fn)) {
		ci := r.D.AtomsOf(fn)[k]
		if ci.Kind != "ord" {
			continue
		}
		if ci.A == `"POST"` && glob(mG, ci.B) {
			mkey = k
		} else if ci.B == `"POST"` && glob(mG, ci.A) {
			mkey, flipped = k, true
		}
	}
	_ = flipped // "<" and ">" are both bad: the orientation does not matter
	mblocks := r.blocksTesting(fn, func(ci *CondInfo) bool { return mkey != "" && ci.Key == mkey })
	if len(mblocks) == 0 {
		r.Fail(pfx+":method-still-POST", r.FnPos(fn), "undecided: no branch condition of "+FuncName(fn)+" compares "+mG+` with "POST"`)
		return
	}
	ok, detail := true, "the status dispatch is unreachable whenever the final request method is not POST; reachable otherwise"
	for _, mb := range mblocks {
		if !pre.Blocks[mb] {
			ok, detail = false, "the method test at "+r.Where(mb.Instrs[len(mb.Instrs)-1])+" does not stand between the head of an iteration and the status dispatch"
			continue
		}
		for _, v := range []string{"<", ">"} {
			if r.D.Walk(fn, Sigma{mkey: v}, mb, stop).Blocks[D] {
				ok, detail = false, "the status dispatch is reachable in the same iteration although the request was converted to another method ("+mkey+"="+v+")"
			}
		}
		if !r.D.Walk(fn, Sigma{mkey: "="}, mb, stop).Blocks[D] {
			ok, detail = false, "the status dispatch is unreachable even when the method is still POST (positive control)"
		}
		r.Valuations += 3
	}
	r.Check(pfx+":method-still-POST", ok, r.Where(mblocks[0].Instrs[len(mblocks[0].Instrs)-1]), detail)
}
