package main

import (
	"fmt"
	"go/constant"
	"go/token"
	"go/types"
	"math/big"
	"sort"
	"strings"

	"golang.org/x/tools/go/ssa"
)

// C13 round 8: facts decided path by path.
//
// (1) backoff.set (C13.R3).  rules_t6c13.go reads every branch condition as ONE sign atom and states
// the state set must leave as an exact form per case.  That cannot speak about a set whose override
// is first adjusted (a floor at the current exponential step for a positive Retry-After): one
// condition text then stands for different comparisons on different paths, and "not-before = now +
// override" is no longer the form although every clause of the property holds.  Here set is executed
// symbolically along every path of its (loop-free) body: φ-nodes take the value of the edge the path
// came by, loads read the last store of the path, every branch adds the sign of a linear form over
//
//	now (the clock)   N (notBefore on entry)   O (*override)   M (multiplier on entry, 0…8)
//
// to the path condition.  For every path, and every multiplier 0…8 its condition admits, the state at
// the return must satisfy the property's clauses — decided as implications between linear
// inequalities (Fourier–Motzkin elimination, exact arithmetic):
//
//	no override, back-off pending (N > now)      N' = N, M' = M                          kept-while-pending
//	no override, idle, M < 8                     M' = M+1, N' = now + 1 s·2^M             exponential-step
//	no override, idle, M = 8                     M' = 8,   N' = now + 128 s               cap
//	override                                     N' ≥ now + O                            override>=retry-after
//	override, pending                            N' ≥ N                                  override-never-shortens
//	override O ≤ 0 (408, Retry-After: 0, past)   N' ≤ max(N, now)                        no-wait-override-adds-no-delay
//	override O > 0                               N' ≤ max(N, now+O, now+128 s)           override<=max(asked,cap)
//
// A condition that is not the sign of such a form constrains nothing (both edges are walked with the
// weaker condition, so more states must satisfy the clauses); a value that is not such a form is a
// free unknown.  Both can only make a clause fail.

// ---- exact linear feasibility ---------------------------------------------------------

// c13Ineq: Σ coef·x + k ≥ 0
type c13Ineq struct {
	coef map[string]*big.Int
	k    *big.Int
}

func c13IneqOf(l LinForm) c13Ineq {
	q := c13Ineq{coef: map[string]*big.Int{}, k: big.NewInt(l.Const)}
	for s, c := range l.Coef {
		if c != 0 {
			q.coef[s] = big.NewInt(c)
		}
	}
	return q
}

// c13Feasible: do the inequalities have a common (rational) solution?
func c13Feasible(cs []c13Ineq) bool {
	for {
		// a variable to eliminate
		v := ""
		for _, c := range cs {
			for s := range c.coef {
				if v == "" || s < v {
					v = s
				}
			}
		}
		if v == "" {
			for _, c := range cs {
				if c.k.Sign() < 0 {
					return false
				}
			}
			return true
		}
		var pos, neg, rest []c13Ineq
		for _, c := range cs {
			switch a := c.coef[v]; {
			case a == nil:
				rest = append(rest, c)
			case a.Sign() > 0:
				pos = append(pos, c)
			default:
				neg = append(neg, c)
			}
		}
		for _, p := range pos {
			for _, n := range neg {
				a, b := p.coef[v], new(big.Int).Neg(n.coef[v]) // a, b > 0
				q := c13Ineq{coef: map[string]*big.Int{}, k: new(big.Int)}
				q.k.Add(new(big.Int).Mul(b, p.k), new(big.Int).Mul(a, n.k))
				add := func(src c13Ineq, f *big.Int) {
					for s, c := range src.coef {
						if s == v {
							continue
						}
						if q.coef[s] == nil {
							q.coef[s] = new(big.Int)
						}
						q.coef[s].Add(q.coef[s], new(big.Int).Mul(f, c))
					}
				}
				add(p, b)
				add(n, a)
				for s, c := range q.coef {
					if c.Sign() == 0 {
						delete(q.coef, s)
					}
				}
				if len(q.coef) == 0 && q.k.Sign() < 0 {
					return false
				}
				rest = append(rest, q)
			}
		}
		if len(rest) > 4000 {
			return true // give up: "feasible" makes the clause that asked fail
		}
		cs = rest
	}
}

// ---- path conditions ---------------------------------------------------------------------

// c13Rel: form (≥ 0 | = 0 | ≠ 0)
type c13Rel struct {
	form LinForm
	op   string // ">=", "==", "!="
	text string
}

func c13Ge(f LinForm) c13Rel { return c13Rel{form: f, op: ">="} }
func c13Gt(f LinForm) c13Rel { return c13Rel{form: f.add(c13K(1), -1), op: ">="} } // integers
func c13Eq(f LinForm) c13Rel { return c13Rel{form: f, op: "=="} }
func c13Ne(f LinForm) c13Rel { return c13Rel{form: f, op: "!="} }

func (c c13Rel) neg() c13Rel {
	switch c.op {
	case ">=": // f ≥ 0  ⇒  −f > 0
		return c13Gt(c.form.scale(-1))
	case "==":
		return c13Ne(c.form)
	}
	return c13Eq(c.form)
}

func (c c13Rel) String() string { return c.form.String() + " " + c.op + " 0" }

// c13Sat: is the conjunction satisfiable?  (≠ splits into < and >.)
func c13Sat(rels []c13Rel) bool {
	var base []c13Ineq
	var nes []LinForm
	for _, c := range rels {
		switch c.op {
		case ">=":
			base = append(base, c13IneqOf(c.form))
		case "==":
			base = append(base, c13IneqOf(c.form), c13IneqOf(c.form.scale(-1)))
		case "!=":
			if k, ok := c.form.isConst(); ok {
				if k == 0 {
					return false
				}
				continue
			}
			nes = append(nes, c.form)
		}
	}
	if len(nes) > 6 {
		nes = nes[:6] // dropping a condition only weakens the path condition
	}
	for mask := 0; mask < 1<<uint(len(nes)); mask++ {
		cs := append([]c13Ineq{}, base...)
		for i, f := range nes {
			if mask&(1<<uint(i)) != 0 {
				cs = append(cs, c13IneqOf(f.add(c13K(1), -1)))
			} else {
				cs = append(cs, c13IneqOf(f.scale(-1).add(c13K(1), -1)))
			}
		}
		if c13Feasible(cs) {
			return true
		}
	}
	return false
}

// ---- symbolic execution of one path ---------------------------------------------------------

type c13Path struct {
	s      *c13Sym
	blocks []*ssa.BasicBlock
	at     map[*ssa.BasicBlock]int
	cond   []c13Rel
	ovNil  int // 0 unknown, 1 override == nil, 2 override != nil
	ret    *ssa.Return
}

func (p *c13Path) clone() *c13Path {
	q := &c13Path{s: p.s, ovNil: p.ovNil, at: map[*ssa.BasicBlock]int{}}
	q.blocks = append(q.blocks, p.blocks...)
	q.cond = append(q.cond, p.cond...)
	for b, i := range p.at {
		q.at[b] = i
	}
	return q
}

// before: does instruction a execute before instruction b on the path?
func (p *c13Path) before(a, b ssa.Instruction) bool {
	ia, oka := p.at[a.Block()]
	ib, okb := p.at[b.Block()]
	if !oka || !okb {
		return false
	}
	if ia != ib {
		return ia < ib
	}
	return instrIndexOf(a) < instrIndexOf(b)
}

// phiEdge: the value a φ-node has on the path.
func (p *c13Path) phiEdge(x *ssa.Phi) ssa.Value {
	i, ok := p.at[x.Block()]
	if !ok || i == 0 {
		return nil
	}
	pred := p.blocks[i-1]
	for k, q := range x.Block().Preds {
		if q == pred {
			return x.Edges[k]
		}
	}
	return nil
}

// ptr resolves a pointer on the path: "O" (the override parameter), a state cell, a local, or "".
func (p *c13Path) ptr(v ssa.Value, depth int) (kind string, al *ssa.Alloc) {
	if depth > 12 {
		return "", nil
	}
	switch x := v.(type) {
	case *ssa.Parameter:
		if len(p.s.fn.Params) > 1 && x == p.s.fn.Params[1] {
			return "O", nil
		}
	case *ssa.Alloc:
		return "local", x
	case *ssa.Phi:
		if e := p.phiEdge(x); e != nil {
			return p.ptr(e, depth+1)
		}
	case *ssa.ChangeType:
		return p.ptr(x.X, depth+1)
	case *ssa.FieldAddr:
		switch p.s.r.D.D(x) {
		case c13CellN:
			return c13CellN, nil
		case c13CellM:
			return c13CellM, nil
		}
	case *ssa.Const:
		if x.Value == nil {
			return "nil", nil
		}
	}
	return "", nil
}

// load: what a read through addr sees at instruction at.
func (p *c13Path) load(addr ssa.Value, at ssa.Instruction, depth int) (LinForm, bool) {
	kind, al := p.ptr(addr, 0)
	switch kind {
	case "O":
		return linLeaf("O"), true
	case c13CellN, c13CellM:
		var last *ssa.Store
		for _, st := range p.s.stores[kind] {
			if p.before(st, at) && (last == nil || p.before(last, st)) {
				last = st
			}
		}
		if last == nil {
			if kind == c13CellN {
				return linLeaf("N"), true
			}
			return linLeaf("M"), true
		}
		return p.lin(last.Val, depth+1), true
	case "local":
		var last *ssa.Store
		for _, ref := range *al.Referrers() {
			st, ok := ref.(*ssa.Store)
			if !ok || st.Addr != ssa.Value(al) {
				continue
			}
			if p.before(st, at) && (last == nil || p.before(last, st)) {
				last = st
			}
		}
		if last != nil {
			return p.lin(last.Val, depth+1), true
		}
		if pt, ok := al.Type().Underlying().(*types.Pointer); ok && isNumeric(pt.Elem()) {
			return c13K(0), true // a local never stored to holds its zero value
		}
	}
	return LinForm{}, false
}

func (p *c13Path) lin(v ssa.Value, depth int) LinForm {
	d := p.s.r.D
	leaf := func() LinForm { return linLeaf("‹" + d.D(v) + "›") }
	if depth > 30 {
		return leaf()
	}
	switch x := v.(type) {
	case *ssa.Const:
		if x.Value != nil && x.Value.Kind() == constant.Int {
			if i, ok := constant.Int64Val(x.Value); ok {
				return c13K(i)
			}
		}
		if x.Value == nil && isNumeric(x.Type()) {
			return c13K(0)
		}
	case *ssa.Convert:
		if isNumeric(x.Type()) && isNumeric(x.X.Type()) {
			return p.lin(x.X, depth+1)
		}
	case *ssa.ChangeType:
		return p.lin(x.X, depth+1)
	case *ssa.Phi:
		if e := p.phiEdge(x); e != nil {
			return p.lin(e, depth+1)
		}
	case *ssa.UnOp:
		switch x.Op {
		case token.SUB:
			return p.lin(x.X, depth+1).scale(-1)
		case token.MUL:
			if f, ok := p.load(x.X, x, depth); ok {
				return f
			}
		}
	case *ssa.BinOp:
		if !isNumeric(x.Type()) {
			break
		}
		a, b := p.lin(x.X, depth+1), p.lin(x.Y, depth+1)
		switch x.Op {
		case token.ADD:
			return a.add(b, 1)
		case token.SUB:
			return a.add(b, -1)
		case token.MUL:
			if c, ok := a.isConst(); ok {
				return b.scale(c)
			}
			if c, ok := b.isConst(); ok {
				return a.scale(c)
			}
		case token.SHL:
			if c, ok := b.isConst(); ok && c >= 0 && c < 40 {
				return a.scale(1 << uint(c))
			}
			if c, ok := a.isConst(); ok {
				return p.s.pow2(c, b)
			}
		}
	case *ssa.Call:
		f := x.Call.StaticCallee()
		if f == nil {
			break
		}
		args := x.Call.Args
		switch FuncName(f) {
		case "time.Now":
			return linLeaf("now")
		case "(time.Time).Add":
			return p.lin(args[0], depth+1).add(p.lin(args[1], depth+1), 1)
		case "(time.Time).Sub":
			return p.lin(args[0], depth+1).add(p.lin(args[1], depth+1), -1)
		case "time.Until":
			return p.lin(args[0], depth+1).add(linLeaf("now"), -1)
		case "time.Since":
			return linLeaf("now").add(p.lin(args[0], depth+1), -1)
		}
	}
	return leaf()
}

// cond: the branch condition v as a relation on the path.  known: it is a constant on this path
// (val); rel == nil && !known: it constrains nothing.  nilTest: it is the test "override != nil"
// (val = the answer for a non-nil override).
func (p *c13Path) condOf(v ssa.Value, depth int) (rel *c13Rel, known, val, nilTest bool) {
	if depth > 8 {
		return
	}
	if b, ok := isBoolConst(v); ok {
		return nil, true, b, false
	}
	flip := func() (*c13Rel, bool, bool, bool) {
		if rel != nil {
			n := rel.neg()
			return &n, false, false, false
		}
		return nil, known, !val, nilTest
	}
	switch x := v.(type) {
	case *ssa.Phi:
		if e := p.phiEdge(x); e != nil {
			return p.condOf(e, depth+1)
		}
	case *ssa.UnOp:
		if x.Op == token.NOT {
			rel, known, val, nilTest = p.condOf(x.X, depth+1)
			return flip()
		}
	case *ssa.Call:
		f := x.Call.StaticCallee()
		if f == nil || len(x.Call.Args) != 2 {
			return
		}
		a, b := p.lin(x.Call.Args[0], 0), p.lin(x.Call.Args[1], 0)
		var c c13Rel
		switch FuncName(f) {
		case "(time.Time).After":
			c = c13Gt(a.add(b, -1))
		case "(time.Time).Before":
			c = c13Gt(b.add(a, -1))
		case "(time.Time).Equal":
			c = c13Eq(a.add(b, -1))
		default:
			return
		}
		return &c, false, false, false
	case *ssa.BinOp:
		xa, xb := x.X, x.Y
		// pointer comparisons: only "override ? nil" means something here
		ka, _ := p.ptr(xa, 0)
		kb, _ := p.ptr(xb, 0)
		if (ka == "nil" || kb == "nil") && (x.Op == token.EQL || x.Op == token.NEQ) {
			other := ka
			if ka == "nil" {
				other = kb
			}
			switch other {
			case "O":
				return nil, false, x.Op == token.NEQ, true
			case "local", c13CellN, c13CellM:
				return nil, true, x.Op == token.NEQ, false
			case "nil":
				return nil, true, x.Op == token.EQL, false
			}
			return
		}
		if !isNumeric(xa.Type()) || !isNumeric(xb.Type()) {
			return
		}
		// t.Compare(u) ? 0 is the sign of t − u
		for _, pr := range [][2]*ssa.Value{{&xa, &xb}, {&xb, &xa}} {
			if call, isCall := (*pr[0]).(*ssa.Call); isCall {
				if f := call.Call.StaticCallee(); f != nil && FuncName(f) == "(time.Time).Compare" && len(call.Call.Args) == 2 {
					if !isConstInt(*pr[1], 0) {
						return
					}
					diff := p.lin(call.Call.Args[0], 0).add(p.lin(call.Call.Args[1], 0), -1)
					zero := c13K(0)
					var fa, fb LinForm
					if pr[0] == &xa {
						fa, fb = diff, zero
					} else {
						fa, fb = zero, diff
					}
					return p.cmp(x.Op, fa, fb)
				}
			}
		}
		return p.cmp(x.Op, p.lin(xa, 0), p.lin(xb, 0))
	}
	return
}

func (p *c13Path) cmp(op token.Token, a, b LinForm) (*c13Rel, bool, bool, bool) {
	var c c13Rel
	switch op {
	case token.LSS:
		c = c13Gt(b.add(a, -1))
	case token.LEQ:
		c = c13Ge(b.add(a, -1))
	case token.GTR:
		c = c13Gt(a.add(b, -1))
	case token.GEQ:
		c = c13Ge(a.add(b, -1))
	case token.EQL:
		c = c13Eq(a.add(b, -1))
	case token.NEQ:
		c = c13Ne(a.add(b, -1))
	default:
		return nil, false, false, false
	}
	if k, ok := c.form.isConst(); ok {
		switch c.op {
		case ">=":
			return nil, true, k >= 0, false
		case "==":
			return nil, true, k == 0, false
		default:
			return nil, true, k != 0, false
		}
	}
	return &c, false, false, false
}

// c13Paths enumerates the paths of fn from its entry to a return.
func c13Paths(s *c13Sym) (paths []*c13Path, why string) {
	var walk func(p *c13Path, b *ssa.BasicBlock)
	walk = func(p *c13Path, b *ssa.BasicBlock) {
		if why != "" {
			return
		}
		if _, again := p.at[b]; again {
			why = "a loop in " + FuncName(s.fn) + " (block " + fmt.Sprint(b.Index) + " is entered twice)"
			return
		}
		if len(paths) > 5000 {
			why = "more than 5000 paths"
			return
		}
		p.at[b] = len(p.blocks)
		p.blocks = append(p.blocks, b)
		if len(b.Instrs) == 0 {
			return
		}
		switch last := b.Instrs[len(b.Instrs)-1].(type) {
		case *ssa.Return:
			p.ret = last
			paths = append(paths, p)
		case *ssa.Jump:
			walk(p, b.Succs[0])
		case *ssa.If:
			rel, known, val, nilTest := p.condOf(last.Cond, 0)
			for i, succ := range b.Succs[:2] {
				taken := i == 0 // the true edge
				q := p.clone()
				switch {
				case known:
					if val != taken {
						continue
					}
				case nilTest:
					// val: the answer when the override is not nil
					want := 1
					if val == taken {
						want = 2
					}
					if q.ovNil != 0 && q.ovNil != want {
						continue
					}
					q.ovNil = want
				case rel != nil:
					c := *rel
					if !taken {
						c = c.neg()
					}
					q.cond = append(q.cond, c)
				}
				walk(q, succ)
			}
		}
	}
	walk(&c13Path{s: s, at: map[*ssa.BasicBlock]int{}}, s.fn.Blocks[0])
	return
}

func (p *c13Path) String() string {
	var bs []string
	for _, b := range p.blocks {
		bs = append(bs, fmt.Sprint(b.Index))
	}
	var cs []string
	for _, c := range p.cond {
		cs = append(cs, c.String())
	}
	ov := "override ≠ nil"
	if p.ovNil == 1 {
		ov = "override = nil"
	}
	return "path b" + strings.Join(bs, "→b") + " [" + ov + "; " + strings.Join(cs, "; ") + "]"
}

// ---- the clauses ---------------------------------------------------------------------------

const c13CapNs = int64(128) * 1000000000

func c13SetPaths(r *Run, fn *ssa.Function) {
	r.Assume("every clock read inside one call of backoff.set (made under its lock) denotes the same instant 'now'")
	r.Assume("the multiplier is within 0…8 on entry of backoff.set (invariant kept by set:exponential-step / set:cap, who:backoff.multiplier and decreaseMultiplier:value)")
	s := c13NewSym(r, fn)
	pos := r.FnPos(fn)
	if len(s.opaq) > 0 {
		r.Fail("set", pos, "undecided: "+strings.Join(s.opaq, "; "))
		return
	}
	r.Check("set:stores", len(s.stores[c13CellN]) >= 1 && len(s.stores[c13CellM]) >= 1, pos,
		fmt.Sprintf("%d stores to notBefore, %d to multiplier (what they store is decided per path below)", len(s.stores[c13CellN]), len(s.stores[c13CellM])))
	paths, why := c13Paths(s)
	if why != "" {
		r.Fail("set", pos, "undecided: "+why)
		return
	}
	type clause struct{ key, text string }
	clauses := []clause{
		{"kept-while-pending", "no override while a back-off is pending (not-before > now): not-before and the multiplier are kept"},
		{"exponential-step", "no override, idle, multiplier M < 8: the multiplier becomes M+1 and not-before now + 1 s·2^M"},
		{"cap", "no override, idle, multiplier 8: the multiplier stays 8 and not-before becomes now + 128 s"},
		{"override>=retry-after", "with an override the new not-before is never earlier than now + override (never wait less than Retry-After)"},
		{"override-never-shortens", "an override never moves a pending not-before instant to an earlier one"},
		{"no-wait-override-adds-no-delay", "an override that asks for no wait (≤ 0: the 408 path, Retry-After: 0, a date already past) leaves not-before ≤ max(not-before, now): it never adds delay"},
		{"override<=max(asked,cap)", "with a positive override the new not-before is at most max(pending not-before, now + override, now + 128 s): never longer than what the server asked for or the exponential cap"},
	}
	hits := map[string]int{}
	bad := map[string]string{}
	N, now, O := linLeaf("N"), linLeaf("now"), linLeaf("O")
	n := N.add(now, -1) // the pending wait on entry
	for _, p := range paths {
		if p.ovNil == 0 {
			r.Fail("set:override-test", r.Where(p.ret), "undecided: "+p.String()+" returns without having tested the override pointer for nil")
			return
		}
		n1raw, _ := p.load(s.cellAddr(c13CellN), p.ret, 0)
		m1raw, _ := p.load(s.cellAddr(c13CellM), p.ret, 0)
		for m := int64(0); m <= c13Cap; m++ {
			var cond []c13Rel
			for _, c := range p.cond {
				cond = append(cond, c13Rel{form: s.subst(c.form, "M", m), op: c.op})
			}
			if !c13Sat(cond) {
				continue
			}
			r.Valuations++
			n1 := s.subst(n1raw, "M", m).add(now, -1) // the wait in force at the return
			m1 := s.subst(m1raw, "M", m)
			// holds: cond ∧ extra ⇒ every one of concl; reported under the clause otherwise
			judge := func(cl string, extra []c13Rel, concl ...c13Rel) {
				pre := append(append([]c13Rel{}, cond...), extra...)
				if !c13Sat(pre) {
					return
				}
				hits[cl]++
				for _, c := range concl {
					if c13Sat(append(append([]c13Rel{}, pre...), c.neg())) && bad[cl] == "" {
						bad[cl] = fmt.Sprintf("at the return %s, multiplier %d on entry: not-before − now = %s, multiplier = %s; %s does not follow on %s", r.Where(p.ret), m, n1.String(), m1.String(), c.text, p.String())
					}
				}
			}
			named := func(c c13Rel, text string) c13Rel { c.text = text; return c }
			if p.ovNil == 1 {
				judge("kept-while-pending", []c13Rel{c13Gt(n)},
					named(c13Eq(n1.add(n, -1)), "not-before' = not-before"), named(c13Eq(m1.add(c13K(m), -1)), "multiplier' = multiplier"))
				if m < c13Cap {
					judge("exponential-step", []c13Rel{c13Ge(n.scale(-1))},
						named(c13Eq(m1.add(c13K(m+1), -1)), fmt.Sprintf("multiplier' = %d", m+1)),
						named(c13Eq(n1.add(c13K(int64(1000000000)<<uint(m)), -1)), fmt.Sprintf("not-before' = now + %d s", int64(1)<<uint(m))))
				} else {
					judge("cap", []c13Rel{c13Ge(n.scale(-1))},
						named(c13Eq(m1.add(c13K(c13Cap), -1)), "multiplier' = 8"),
						named(c13Eq(n1.add(c13K(c13CapNs), -1)), "not-before' = now + 128 s"))
				}
				continue
			}
			judge("override>=retry-after", nil, named(c13Ge(n1.add(O, -1)), "not-before' ≥ now + override"))
			judge("override-never-shortens", []c13Rel{c13Gt(n)}, named(c13Ge(n1.add(n, -1)), "not-before' ≥ not-before"))
			// N' ≤ max(a, b, …) ⇔ N' > a ∧ N' > b ∧ … has no solution
			atMost := func(cl string, extra []c13Rel, text string, bounds ...LinForm) {
				pre := append(append([]c13Rel{}, cond...), extra...)
				if !c13Sat(pre) {
					return
				}
				hits[cl]++
				for _, b := range bounds {
					pre = append(pre, c13Gt(n1.add(b, -1)))
				}
				if c13Sat(pre) && bad[cl] == "" {
					bad[cl] = fmt.Sprintf("at the return %s, multiplier %d on entry: not-before − now = %s; %s does not follow on %s", r.Where(p.ret), m, n1.String(), text, p.String())
				}
			}
			atMost("no-wait-override-adds-no-delay", []c13Rel{c13Ge(O.scale(-1))}, "not-before' ≤ max(not-before, now)", n, c13K(0))
			atMost("override<=max(asked,cap)", []c13Rel{c13Gt(O)}, "not-before' ≤ max(not-before, now + override, now + 128 s)", n, O, c13K(c13CapNs))
		}
	}
	for _, c := range clauses {
		k := "set:" + c.key
		switch {
		case hits[c.key] == 0:
			r.Fail(k, pos, "undecided: no path of "+FuncName(fn)+" falls under the clause: "+c.text)
		case bad[c.key] != "":
			r.Fail(k, pos, c.text+"; "+bad[c.key])
		default:
			r.Pass(k, pos, fmt.Sprintf("%s (%d path×multiplier cases)", c.text, hits[c.key]))
		}
	}
}

// cellAddr: some address value of the state cell (any FieldAddr that renders as the cell).
func (s *c13Sym) cellAddr(cell string) ssa.Value {
	if sts := s.stores[cell]; len(sts) > 0 {
		return sts[0].Addr
	}
	var out ssa.Value
	eachInstr(s.fn, func(in ssa.Instruction) {
		if fa, ok := in.(*ssa.FieldAddr); ok && out == nil && s.r.D.D(fa) == cell {
			out = fa
		}
	})
	return out
}

var _ = sort.Strings

// ---- (2) the 408 path: no added delay ------------------------------------------------------

// c13NoWaitSets: every call of backoff.set among sets is handed a pointer to a constant ≤ 0 — an
// override that asks for no wait.  What set does with such an override is C13.R3.
func c13NoWaitSets(r *Run, sets []ssa.Instruction) (bool, string) {
	ok, how := true, ""
	for _, sc := range sets {
		args := CallArgs(sc.(ssa.CallInstruction))
		if len(args) < 2 {
			return false, "; set called without an override argument"
		}
		leaves := PhiLeaves(args[1], nil)
		if len(leaves) == 0 {
			ok = false
		}
		for _, l := range leaves {
			a, isAlloc := l.(*ssa.Alloc)
			if !isAlloc {
				ok, how = false, how+"; set("+r.D.D(l)+") is not a pointer to a constant ≤ 0"
				continue
			}
			// every use of the local is the hand-over itself, a load, or a store of a constant ≤ 0
			for _, ref := range *a.Referrers() {
				switch u := ref.(type) {
				case *ssa.Store:
					if u.Addr == ssa.Value(a) {
						if c, isC := u.Val.(*ssa.Const); isC && c.Value != nil && c.Value.Kind() == constant.Int && constant.Sign(c.Value) <= 0 {
							continue
						}
						ok, how = false, how+"; the override of set is "+r.D.D(u.Val)+", not a constant ≤ 0"
						continue
					}
				case *ssa.UnOp:
					if u.Op == token.MUL {
						continue
					}
				case *ssa.DebugRef, *ssa.Phi:
					continue
				case ssa.CallInstruction:
					if ssa.Instruction(u) == sc {
						continue
					}
				}
				ok, how = false, how+"; the override local of set is also used at "+r.Where(ref)
			}
		}
	}
	return ok, how
}

// ---- (3) the wait: returns that do not pass the select ------------------------------------------

// c13WaitEarlyReturns (C13.R4): the wait may end without arming the timer and listening — "nothing to
// wait for" — only where the not-before instant read from the back-off state is not after the clock
// (so no Retry-After and no back-off is cut short), and it then hands out ctx.Err() (nil while the
// context lives, the context's error once it ended) or nil.  Decided on the returns the walk from
// the entry reaches without entering the select: none of them may execute once the comparison of
// the instant with the clock came out "still in the future".
func c13WaitEarlyReturns(r *Run, w *c13WaitSite, sel *ssa.Select, nbTerm string) {
	fn := w.fn
	if w.inline() {
		return // written-out wait: the returns of the loop are the outcomes R1/R2 judge
	}
	stop := map[*ssa.BasicBlock]bool{sel.Block(): true}
	early := reachableReturns(fn, r.D.Walk(fn, Sigma{}, nil, stop))
	const key = "wait:early-return"
	if len(early) == 0 {
		r.Pass(key, r.FnPos(fn), "every return of "+FuncName(fn)+" passes the select (none ends the wait early)")
		return
	}
	if nbTerm == "" {
		r.Fail(key, r.Where(early[0]), "undecided: a return ends the wait before the select, and the not-before instant it could be guarded by was not identified (wait:deadline)")
		return
	}
	// the comparison "not-before ? now", spelled with After/Before/Compare or as the sign of time.Until
	var future []Sigma
	var tried []string
	for _, a := range []struct {
		atom RuleAtom
		val  string
	}{
		{ordAtomR(nbTerm, "time.Now()"), ">"},
		{ordAtomR("time.Until("+nbTerm+")", "0"), ">"},
		{ordAtomR("(time.Time).Sub("+nbTerm+", time.Now())", "0"), ">"},
		{ordAtomR("time.Since("+nbTerm+")", "0"), "<"},
	} {
		if s, err := r.BindSigma(fn, AtomVal{a.atom, a.val}); err == nil {
			future = append(future, s)
		} else {
			tried = append(tried, a.atom.OrdA+" ~ "+a.atom.OrdB)
		}
	}
	if len(future) == 0 {
		r.Fail(key, r.Where(early[0]), fmt.Sprintf("undecided: a return ends the wait before the select, and no branch condition of %s compares the not-before instant %s with the clock (tried %s)", FuncName(fn), nbTerm, strings.Join(tried, "; ")))
		return
	}
	for _, s := range future {
		r.Valuations++
		for _, ret := range reachableReturns(fn, r.D.Walk(fn, s, nil, stop)) {
			r.Fail(key, r.Where(ret), "a back-off still in force (not-before after the clock: "+s.String()+") must be waited for: this return ends the wait without arming the timer — a retry before the server's Retry-After / the back-off interval")
			return
		}
	}
	for _, ret := range early {
		v := RetVals(ret)
		for _, e := range PhiLeaves(v[len(v)-1], nil) {
			d, okL := w.inLoop(r, r.D.D(e))
			if !(errKind(e) == "nil" || okL && d == c13CtxErr) {
				r.Fail(key, r.Where(ret), "a wait that ends early (nothing to wait for) returns "+d+"; it must return ctx.Err() or nil")
				return
			}
		}
	}
	r.Pass(key, r.Where(early[0]), fmt.Sprintf("%d return(s) end the wait before the select; none executes while the not-before instant %s is after the clock, and they return ctx.Err() or nil", len(early), nbTerm))
}

// ---- (4) the error edge of the retry loop (C13.R2) --------------------------------------------

// c13ErrorEdge: an error of the attempt ends the loop at once only because the caller's context has
// ended, and what is returned is then that context's error:
//
//	the error IS context.Canceled / DeadlineExceeded (identity: ctxhttp.Do hands back ctx.Err() itself)
//	    ⇒ it is returned at once                                                    [context-ended]
//	ctx.Err() ≠ nil when the loop looks ⇒ ctx.Err() may be returned at once (or the error retried:
//	    the wait then ends with ctx.Err())                                         [context-ended-meanwhile]
//	every other error, while ctx.Err() = nil — whatever errors.Is / errors.As / a type test say about
//	    it: the per-attempt http.Client.Timeout wraps DeadlineExceeded too — ⇒ set(nil), wait, next
//	    attempt                                                                    [other-error]
//
// The identity tests and the ctx.Err() test are atoms of the table where the loop spells them; every
// other condition on the way is left open, so both of its edges must conform.
func c13ErrorEdge(r *Run, w *c13WaitSite, fn *ssa.Function, header *ssa.BasicBlock, errAtom RuleAtom, sets, waits []ssa.Instruction) {
	atoms := []RuleAtom{{Name: "err", Pat: errAtom.Pat, Dom: []string{"non"}}}
	binds := func(a RuleAtom, v string) bool {
		_, e := r.BindSigma(fn, AtomVal{a, v})
		return e == nil
	}
	idents := 0
	for _, a := range []RuleAtom{
		{Name: "canceled", Pat: "(*PostAndParse(*)#2 == *g:context.Canceled)"},
		{Name: "deadline", Pat: "(*PostAndParse(*)#2 == *g:context.DeadlineExceeded)"}} {
		if binds(a, "T") {
			atoms = append(atoms, a)
			idents++
		}
	}
	want := []string{"other-error"}
	if idents > 0 {
		want = append([]string{"context-ended"}, want...)
	} else {
		r.Assume("without an identity test in the loop a context error of the attempt takes the retry path, whose wait returns ctx.Err() (retry:wait-error, wait:ctx-done)")
	}
	ctx := RuleAtom{Name: "ctx", Pat: "nil?" + c13CtxErr}
	if binds(ctx, "non") {
		atoms = append(atoms, ctx)
		want = append(want, "context-ended-meanwhile")
	}
	const why = " (an error of the attempt may end the retries only by identity with context.Canceled / context.DeadlineExceeded or once ctx.Err() ≠ nil: errors.Is also matches the per-attempt http.Client.Timeout, a transport error to be retried while the caller's context lives)"
	r.ClassTable(fn, "retry:error-edge", header, atoms, want,
		func(val map[string]string) string {
			switch {
			case val["canceled"] == "T" || val["deadline"] == "T":
				return "context-ended"
			case val["ctx"] == "non":
				return "context-ended-meanwhile"
			}
			return "other-error"
		},
		func(class string, val map[string]string, reach *Reach) string {
			o := c13Observe(r, w, fn, header, reach, sets, waits)
			setNil := func() string {
				for _, s := range o.sets {
					if a := r.D.D(CallArgs(s.(ssa.CallInstruction))[1]); a != "nil" {
						return "the error edge must call backoff.set(nil), found set(" + a + ")"
					}
				}
				return ""
			}
			switch class {
			case "context-ended":
				if len(o.kinds) == 1 && o.kinds[0] == "attempt-error" && len(o.sets) == 0 && len(o.waits) == 0 && !o.loops {
					return ""
				}
				return "a context error must be returned at once; found " + o.String()
			case "context-ended-meanwhile":
				// ctx.Err() at once, or the retry path (whose wait ends with ctx.Err())
				retry := len(o.sets) > 0 && len(o.waits) > 0 && o.loops
				if !(c13OnlyKinds(o, "wait-error", "ctx-error") && (retry || !o.loops && len(o.kinds) > 0)) {
					return "once the caller's context has ended (ctx.Err() ≠ nil) another error ⇒ return ctx.Err() at once, or backoff.set(nil), wait, next attempt; found " + o.String()
				}
				return setNil()
			}
			if !(c13OnlyKinds(o, "wait-error") && len(o.sets) > 0 && len(o.waits) > 0 && o.loops) {
				return "another error ⇒ backoff.set(nil), wait, next attempt; found " + o.String() + why
			}
			return setNil()
		})
}

// c13ConstLocal: every whole store to the local is an integer constant (and there is one).
func c13ConstLocal(a *ssa.Alloc) bool {
	sts := WholeStores(a)
	for _, st := range sts {
		if c, ok := st.Val.(*ssa.Const); !ok || c.Value == nil || c.Value.Kind() != constant.Int {
			return false
		}
	}
	return len(sts) > 0
}
