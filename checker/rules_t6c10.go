package main

import (
	"fmt"
	"go/ast"
	"go/constant"
	"go/token"
	"go/types"
	"sort"
	"strings"
)

// C10.R3 — decision tables (round 6).
//
// The comparison of engine_forkdiff_c10.go is one of normal forms: a condition written
// differently on the two sides is a difference even when it decides the same thing.  Where a
// run of statements does nothing but test integer variables for equality (with constants or
// with each other) and copy integer variables / constants around — the "tag family" code of
// the decoder: which universal tags stand for the same Go type — what the run *does* is a
// function from the values its variables hold before it to the values they hold after it,
// over a finite abstract domain, and that function is decided exactly:
//
//   cell       an integer or boolean local / parameter / named result, or such a field reached
//              from one through struct values only (no pointer, no index: nothing else names
//              it), not address-taken and not captured
//   term       a cell, an integer / boolean constant, or a call f(terms) of a pure helper: a
//              function without receiver that only one side has and whose whole body is
//              statements of this kind over its integer / boolean parameters and locals,
//              ending in `return term` / `return test` (so that where the helper boundary is
//              drawn — expanded by the source normaliser or called inside a condition —
//              does not matter)
//   test       term == term, term != term, a boolean term, &&, ||, !
//   statement  var / := / = of terms (n:n) or of a test (1:1), `_ = term`, if / else, switch
//              with or without a tag (no fallthrough), blocks, the run-once block
//              `L: for { …; break L }` the source normaliser leaves for an expanded helper,
//              break out of those
//
// Anything else (any other call, a return, arithmetic, an ordering test, a pointer) ends the
// run.  Booleans range over {false, true}.  A run with at least one decision is a *decision table*.  Its
// locals that are declared inside it and used nowhere else are internal; every other cell it
// mentions is an input, every one it writes an output.
//
// Two tables are the same function iff they agree on every valuation of the inputs over
// D = the constants either side mentions + one further distinct value per input: tests are
// equalities and values are only copied, so the behaviour is invariant under every
// permutation of the integers that fixes the constants, and any valuation is the image of
// one over D.  The enumeration is exhaustive (bounded by fdTableCap, beyond that:
// undecided = different).
//
// Use: when the normal forms of a function differ, both sides are walked once more with
// every decision table taken as ONE item (in place of the condition / assignment items of
// its statements); tables of the two sides that are the same function get the same text.
// That reading is adopted when it leaves fewer differences (or as many, one of them a
// table).  A table without an equal partner is reported with an input on which the two
// sides end differently — the clause "strict mode accepts what encoding/asn1 accepts and
// yields an equal value" stated for that input.
//
// Cells are identified across the sides by parameter position (upstream's), result index,
// field names, and local names; locals whose names occur on one side only may be paired
// with each other in any type-preserving way (a renamed local), locals with a namesake on
// the other side are that namesake (so that using the wrong one of two variables shows).

const fdTableCap = 4_000_000

type dtTerm struct {
	cell int // < 0: the constant k, or the call fn(args)
	k    int64
	fn   *dtFunc
	args []dtTerm
}

// dtFunc: a pure helper, compiled.  Its cells are its own; the last one holds the result.
type dtFunc struct {
	name   string
	ncells int
	params []int
	body   []dtStmt
}

type dtCond struct {
	op   byte // '=' a == b, '~' a != b, '!' not l, '&' l && r, '|' l || r, 'e' l == r, 'c' constant v
	a, b dtTerm
	l, r *dtCond
	v    bool
}

type dtStmt struct {
	kind byte // 'a' parallel assignment, 'i' if, 'b' breakable block, 'k' break to block id, 'r' return src[0] / cond, 'l' label id, 'g' goto label id
	dst  []int
	src  []dtTerm
	cond *dtCond
	then []dtStmt
	els  []dtStmt
	id   int
}

type dtCell struct {
	key    string // identity across the sides
	disp   string // as written in the source
	typ    string
	isBool bool
	base   string       // key of the base variable
	obj    types.Object // base variable
	local  bool         // the base is a local variable (not a parameter / result)
	plain  bool         // the cell is the base variable itself
	decl   bool         // declared inside the run
	temp   bool         // internal: declared inside and used nowhere else
}

type fdTable struct {
	fn        string
	fork      bool
	cells     []dtCell
	idx       map[string]int
	consts    map[int64]bool
	names     map[string]map[int64]string // cell key -> value -> constant name it was compared with / assigned
	body      []dtStmt
	written   map[int]bool
	read      map[int]bool
	decisions int
	pos       token.Pos
	where     string
}

type dtComp struct {
	w     *fdWalker
	c     *fdCtx
	t     *fdTable
	bad   bool
	stack []dtBrk
	nblk  int
	ntmp  int
	bases map[string]types.Object
	// compiling the body of a pure helper: its result cell; depth of helper calls
	inFunc  bool
	result  int
	resBool bool
	depth   int
	// forward gotos (the source normaliser threads a boolean helper in an if condition so)
	labels   map[string]int
	labelPos map[string]token.Pos
	gotos    []*ast.BranchStmt
}

func (dc *dtComp) labelID(name string) int {
	if id, ok := dc.labels[name]; ok {
		return id
	}
	if dc.labels == nil {
		dc.labels, dc.labelPos = map[string]int{}, map[string]token.Pos{}
	}
	dc.labels[name] = dtLabelBase + len(dc.labels)
	return dc.labels[name]
}

const dtLabelBase = 1 << 20

// gotosOK: every goto of the compiled statements jumps forward to a label among them, and
// nothing outside them jumps to one of their labels.
func (dc *dtComp) gotosOK(body ast.Node, start, end token.Pos) bool {
	for _, g := range dc.gotos {
		p, ok := dc.labelPos[g.Label.Name]
		if !ok || p <= g.Pos() {
			return false
		}
	}
	if len(dc.labelPos) == 0 || body == nil {
		return true
	}
	ok := true
	ast.Inspect(body, func(n ast.Node) bool {
		if b, isBranch := n.(*ast.BranchStmt); isBranch && b.Label != nil && (b.Pos() < start || b.Pos() >= end) {
			if _, mine := dc.labelPos[b.Label.Name]; mine {
				ok = false
			}
		}
		return ok
	})
	return ok
}

type dtBrk struct {
	label    string
	id       int
	isSwitch bool
}

func (dc *dtComp) fail() { dc.bad = true }

func dtIsInt(t types.Type) bool {
	if t == nil {
		return false
	}
	b, ok := t.Underlying().(*types.Basic)
	return ok && b.Info()&types.IsInteger != 0
}

func dtIsBool(t types.Type) bool {
	if t == nil {
		return false
	}
	b, ok := t.Underlying().(*types.Basic)
	return ok && b.Info()&types.IsBoolean != 0
}

func dtIsScalar(t types.Type) bool { return dtIsInt(t) || dtIsBool(t) }

// cell resolves a variable / field path to a cell index (-1: not a cell).
func (dc *dtComp) cell(e ast.Expr, depth int) int {
	if depth > 8 {
		return -1
	}
	key, disp, base, obj, local, ok := dc.path(e, depth)
	if !ok {
		return -1
	}
	info := dc.w.s.pkg.TypesInfo
	t := info.TypeOf(e)
	if !dtIsScalar(t) {
		return -1
	}
	if i, ok := dc.t.idx[key]; ok {
		return i
	}
	dc.t.cells = append(dc.t.cells, dtCell{key: key, disp: disp, typ: fdTypeStr(t), isBool: dtIsBool(t), base: base, obj: obj, local: local, plain: key == base})
	dc.t.idx[key] = len(dc.t.cells) - 1
	return len(dc.t.cells) - 1
}

func (dc *dtComp) path(e ast.Expr, depth int) (key, disp, base string, obj types.Object, local, ok bool) {
	if depth > 8 {
		return
	}
	w := dc.w
	info := w.s.pkg.TypesInfo
	switch x := fdUnparen(e).(type) {
	case *ast.Ident:
		if x.Name == "_" {
			return
		}
		o := dc.c.obj(x)
		v, isVar := o.(*types.Var)
		if !isVar || v.IsField() || v.Pkg() == nil || v.Parent() == v.Pkg().Scope() || w.noFacts[v] || w.s.laxObjs[o] {
			return
		}
		if a, has := w.alias[o]; has {
			return dc.path(a, depth+1)
		}
		if p, has := dc.c.params[o]; has {
			if strings.Contains(p, "⊘") || strings.Contains(p, "(") {
				return // a parameter upstream does not have, or one read as a method of another
			}
			key = p
		} else {
			key, local = "·"+v.Name(), true
		}
		if prev, seen := dc.bases[key]; seen && prev != o {
			return // two variables of the same name (shadowing): not told apart by name
		}
		dc.bases[key] = o
		return key, v.Name(), key, o, local, true
	case *ast.SelectorExpr:
		f, isField := info.Uses[x.Sel].(*types.Var)
		if !isField || !f.IsField() || w.s.extraFields[f] {
			return
		}
		if sl := info.Selections[x]; sl == nil || sl.Indirect() || len(sl.Index()) != 1 {
			return
		}
		if t := info.TypeOf(x.X); t == nil {
			return
		} else if _, isStruct := t.Underlying().(*types.Struct); !isStruct {
			return
		}
		k, d, b, o, l, ok2 := dc.path(x.X, depth+1)
		if !ok2 {
			return
		}
		return k + "." + f.Name(), d + "." + f.Name(), b, o, l, true
	}
	return
}

func (dc *dtComp) term(e ast.Expr) (dtTerm, string, bool) {
	info := dc.w.s.pkg.TypesInfo
	e = fdUnparen(e)
	if tv, ok := info.Types[e]; ok && tv.Value != nil {
		if tv.Value.Kind() == constant.Bool {
			if constant.BoolVal(tv.Value) {
				return dtTerm{cell: -1, k: 1}, "", true
			}
			return dtTerm{cell: -1, k: 0}, "", true
		}
		if tv.Value.Kind() != constant.Int {
			return dtTerm{}, "", false
		}
		k, exact := constant.Int64Val(tv.Value)
		if !exact {
			return dtTerm{}, "", false
		}
		name := ""
		switch x := e.(type) {
		case *ast.Ident:
			name = x.Name
		case *ast.SelectorExpr:
			name = x.Sel.Name
		}
		dc.t.consts[k] = true
		return dtTerm{cell: -1, k: k}, name, true
	}
	switch x := e.(type) {
	case *ast.Ident, *ast.SelectorExpr:
		if i := dc.cell(e, 0); i >= 0 {
			dc.t.read[i] = true
			return dtTerm{cell: i}, "", true
		}
	case *ast.CallExpr:
		if fn := dc.helper(x); fn != nil {
			t := dtTerm{cell: -1, fn: fn}
			for _, a := range x.Args {
				at, _, ok := dc.term(a)
				if !ok {
					return dtTerm{}, "", false
				}
				t.args = append(t.args, at)
			}
			return t, "", true
		}
	}
	return dtTerm{}, "", false
}

// helper: the pure helper a call refers to, compiled (nil: the callee is not one).
func (dc *dtComp) helper(call *ast.CallExpr) *dtFunc {
	if dc.depth > 3 || call.Ellipsis.IsValid() {
		return nil
	}
	s := dc.w.s
	fo, ok := dc.c.calleeObj(call).(*types.Func)
	if !ok || !s.onlyHere[fo] && !s.pureFns[fo] {
		return nil
	}
	return fdPureHelper(s, fo, dc.t.consts, dc.depth+1)
}

// fdPureHelper compiles fo as a pure helper (nil: it is none).  The constants it mentions
// are added to consts.
func fdPureHelper(s *fdSide, fo *types.Func, consts map[int64]bool, depth int) *dtFunc {
	var fd *ast.FuncDecl
	for _, d := range s.funcs {
		if s.pkg.TypesInfo.Defs[d.Name] == types.Object(fo) {
			fd = d
		}
	}
	sig, _ := fo.Type().(*types.Signature)
	if fd == nil || fd.Body == nil || sig == nil || sig.Recv() != nil || sig.Variadic() || sig.Results().Len() != 1 || !dtIsScalar(sig.Results().At(0).Type()) || sig.TypeParams().Len() > 0 {
		return nil
	}
	info := s.pkg.TypesInfo
	w := &fdWalker{s: s, fd: fd, fn: fo.Name(), noFacts: map[types.Object]bool{}}
	for o := range fdWrittenIn(fd.Body, info).addr {
		w.noFacts[o] = true
	}
	impure := false
	ast.Inspect(fd.Body, func(n ast.Node) bool {
		switch n.(type) {
		case *ast.FuncLit, *ast.GoStmt, *ast.DeferStmt:
			impure = true
		}
		return !impure
	})
	if impure {
		return nil
	}
	params := map[types.Object]string{}
	for i := 0; i < sig.Params().Len(); i++ {
		p := sig.Params().At(i)
		if !dtIsScalar(p.Type()) {
			return nil
		}
		params[p] = fmt.Sprintf("P%d", i)
	}
	if r := sig.Results().At(0); r.Name() != "" && r.Name() != "_" {
		params[r] = "R0"
	}
	w.ctx = func() *fdCtx {
		return &fdCtx{s: s, params: params, locals: map[types.Object]string{}, inline: map[types.Object]ast.Expr{}, busy: map[types.Object]bool{}, w: w}
	}
	dc := w.newComp()
	dc.t.consts = consts
	dc.inFunc, dc.depth, dc.resBool = true, depth, dtIsBool(sig.Results().At(0).Type())
	fn := &dtFunc{name: fo.Name()}
	// the parameters first, then the result
	for i := 0; i < sig.Params().Len(); i++ {
		p := sig.Params().At(i)
		key := fmt.Sprintf("P%d", i)
		dc.t.cells = append(dc.t.cells, dtCell{key: key, disp: p.Name(), typ: fdTypeStr(p.Type()), isBool: dtIsBool(p.Type()), base: key, obj: p, plain: true})
		dc.t.idx[key] = i
		dc.bases[key] = p
		fn.params = append(fn.params, i)
	}
	if r := sig.Results().At(0); r.Name() != "" && r.Name() != "_" {
		dc.t.cells = append(dc.t.cells, dtCell{key: "R0", disp: r.Name(), typ: fdTypeStr(r.Type()), isBool: dc.resBool, base: "R0", obj: r, plain: true})
		dc.t.idx["R0"] = len(dc.t.cells) - 1
		dc.bases["R0"] = r
		dc.result = len(dc.t.cells) - 1
	} else {
		dc.t.cells = append(dc.t.cells, dtCell{key: "·result", disp: "result", typ: fdTypeStr(r.Type()), isBool: dc.resBool, base: "·result", plain: true})
		dc.t.idx["·result"] = len(dc.t.cells) - 1
		dc.result = len(dc.t.cells) - 1
	}
	fn.body = dc.list(fd.Body.List)
	if dc.bad || !fdTerminates(fd.Body.List) || !dc.gotosOK(nil, 0, 0) {
		return nil
	}
	// the result is read from the last cell
	fn.ncells = len(dc.t.cells) + 1
	fn.body = append(fn.body, dtStmt{kind: 'r', src: []dtTerm{{cell: dc.result}}})
	dtPatchReturns(fn.body, fn.ncells-1)
	return fn
}

// dtPatchReturns: every return stores into the result slot.
func dtPatchReturns(l []dtStmt, slot int) {
	for i := range l {
		s := &l[i]
		if s.kind == 'r' {
			s.dst = []int{slot}
		}
		dtPatchReturns(s.then, slot)
		dtPatchReturns(s.els, slot)
	}
}

func (dc *dtComp) note(cell int, k int64, name string) {
	if cell < 0 || name == "" {
		return
	}
	key := dc.t.cells[cell].key
	if dc.t.names[key] == nil {
		dc.t.names[key] = map[int64]string{}
	}
	if _, has := dc.t.names[key][k]; !has {
		dc.t.names[key][k] = name
	}
}

func (dc *dtComp) eq(a, b ast.Expr, neg bool) *dtCond {
	ta, na, ok1 := dc.term(a)
	tb, nb, ok2 := dc.term(b)
	if !ok1 || !ok2 {
		dc.fail()
		return nil
	}
	if ta.cell >= 0 && tb.cell < 0 {
		dc.note(ta.cell, tb.k, nb)
	}
	if tb.cell >= 0 && ta.cell < 0 {
		dc.note(tb.cell, ta.k, na)
	}
	op := byte('=')
	if neg {
		op = '~'
	}
	return &dtCond{op: op, a: ta, b: tb}
}

func (dc *dtComp) cond(e ast.Expr) *dtCond {
	if dc.bad {
		return nil
	}
	info := dc.w.s.pkg.TypesInfo
	e = fdUnparen(e)
	if tv, ok := info.Types[e]; ok && tv.Value != nil && tv.Value.Kind() == constant.Bool {
		return &dtCond{op: 'c', v: constant.BoolVal(tv.Value)}
	}
	switch x := e.(type) {
	case *ast.Ident, *ast.SelectorExpr, *ast.CallExpr:
		if dtIsBool(info.TypeOf(e)) {
			if t, _, ok := dc.term(e); ok {
				return &dtCond{op: '=', a: t, b: dtTerm{cell: -1, k: 1}}
			}
		}
	case *ast.BinaryExpr:
		switch x.Op {
		case token.EQL, token.NEQ:
			if dtIsBool(info.TypeOf(x.X)) && dtIsBool(info.TypeOf(x.Y)) {
				c := &dtCond{op: 'e', l: dc.cond(x.X), r: dc.cond(x.Y)}
				if x.Op == token.NEQ {
					c = &dtCond{op: '!', l: c}
				}
				return c
			}
			if !dtIsInt(info.TypeOf(x.X)) || !dtIsInt(info.TypeOf(x.Y)) {
				dc.fail()
				return nil
			}
			return dc.eq(x.X, x.Y, x.Op == token.NEQ)
		case token.LAND, token.LOR:
			l, r := dc.cond(x.X), dc.cond(x.Y)
			op := byte('&')
			if x.Op == token.LOR {
				op = '|'
			}
			return &dtCond{op: op, l: l, r: r}
		}
	case *ast.UnaryExpr:
		if x.Op == token.NOT {
			return &dtCond{op: '!', l: dc.cond(x.X)}
		}
	}
	dc.fail()
	return nil
}

// target resolves an assignment target; -2: the blank identifier.
func (dc *dtComp) target(e ast.Expr, declares bool) int {
	if id, ok := fdUnparen(e).(*ast.Ident); ok && id.Name == "_" {
		return -2
	}
	i := dc.cell(e, 0)
	if i < 0 {
		dc.fail()
		return -1
	}
	dc.t.written[i] = true
	if declares && dc.t.cells[i].plain && dc.t.cells[i].local {
		dc.t.cells[i].decl = true
	}
	return i
}

func (dc *dtComp) assign(lhs, rhs []ast.Expr, define bool) []dtStmt {
	if len(lhs) != len(rhs) || len(lhs) == 0 {
		dc.fail()
		return nil
	}
	info := dc.w.s.pkg.TypesInfo
	st := dtStmt{kind: 'a'}
	// the values are read before any target is written
	var srcs []dtTerm
	var names []string
	for _, r := range rhs {
		t, n, ok := dc.term(r)
		if !ok {
			// a boolean variable set to the outcome of a test
			if len(rhs) == 1 && dtIsBool(info.TypeOf(r)) {
				c := dc.cond(r)
				declares := false
				if id, ok := lhs[0].(*ast.Ident); ok && define && info.Defs[id] != nil {
					declares = true
				}
				d := dc.target(lhs[0], declares)
				if dc.bad {
					return nil
				}
				if d == -2 {
					return nil
				}
				return []dtStmt{{kind: 'i', cond: c,
					then: []dtStmt{{kind: 'a', dst: []int{d}, src: []dtTerm{{cell: -1, k: 1}}}},
					els:  []dtStmt{{kind: 'a', dst: []int{d}, src: []dtTerm{{cell: -1, k: 0}}}}}}
			}
			dc.fail()
			return nil
		}
		srcs, names = append(srcs, t), append(names, n)
	}
	for i, l := range lhs {
		declares := false
		if id, ok := l.(*ast.Ident); ok && define && info.Defs[id] != nil {
			declares = true
		}
		d := dc.target(l, declares)
		if dc.bad {
			return nil
		}
		if d == -2 {
			continue
		}
		st.dst, st.src = append(st.dst, d), append(st.src, srcs[i])
		if srcs[i].cell < 0 {
			dc.note(d, srcs[i].k, names[i])
		}
	}
	if len(st.dst) == 0 {
		return nil
	}
	return []dtStmt{st}
}

func (dc *dtComp) list(l []ast.Stmt) []dtStmt {
	var out []dtStmt
	for _, s := range l {
		out = append(out, dc.stmt(s, "")...)
		if dc.bad {
			return nil
		}
	}
	return out
}

func (dc *dtComp) stmt(s ast.Stmt, label string) []dtStmt {
	if dc.bad {
		return nil
	}
	w := dc.w
	info := w.s.pkg.TypesInfo
	switch x := s.(type) {
	case nil, *ast.EmptyStmt:
		return nil
	case *ast.BlockStmt:
		return dc.list(x.List)
	case *ast.DeclStmt:
		gd, ok := x.Decl.(*ast.GenDecl)
		if !ok || gd.Tok != token.VAR {
			dc.fail()
			return nil
		}
		var out []dtStmt
		for _, sp := range gd.Specs {
			vs := sp.(*ast.ValueSpec)
			var lhs []ast.Expr
			for _, id := range vs.Names {
				lhs = append(lhs, id)
			}
			if len(vs.Values) == 0 {
				st := dtStmt{kind: 'a'}
				for _, id := range vs.Names {
					if id.Name == "_" {
						continue
					}
					d := dc.target(id, true)
					if dc.bad {
						return nil
					}
					if !dc.t.cells[d].isBool {
						dc.t.consts[0] = true
					}
					st.dst, st.src = append(st.dst, d), append(st.src, dtTerm{cell: -1, k: 0})
				}
				if len(st.dst) > 0 {
					out = append(out, st)
				}
				continue
			}
			out = append(out, dc.assign(lhs, vs.Values, true)...)
			if dc.bad {
				return nil
			}
		}
		return out
	case *ast.AssignStmt:
		if x.Tok != token.ASSIGN && x.Tok != token.DEFINE {
			dc.fail()
			return nil
		}
		if rg := w.cbOf[x]; rg != nil && rg.entered {
			dc.fail()
			return nil
		}
		if rg := w.exitOf[x]; rg != nil && rg.entered {
			dc.fail()
			return nil
		}
		return dc.assign(x.Lhs, x.Rhs, x.Tok == token.DEFINE)
	case *ast.IfStmt:
		var out []dtStmt
		if x.Init != nil {
			switch x.Init.(type) {
			case *ast.AssignStmt, *ast.DeclStmt:
				out = dc.stmt(x.Init, "")
			default:
				dc.fail()
				return nil
			}
		}
		st := dtStmt{kind: 'i', cond: dc.cond(x.Cond)}
		st.then = dc.list(x.Body.List)
		if x.Else != nil {
			st.els = dc.stmt(x.Else, "")
		}
		dc.t.decisions++
		return append(out, st)
	case *ast.SwitchStmt:
		var out []dtStmt
		if x.Init != nil {
			switch x.Init.(type) {
			case *ast.AssignStmt, *ast.DeclStmt:
				out = dc.stmt(x.Init, "")
			default:
				dc.fail()
				return nil
			}
		}
		dc.nblk++
		blk := dtStmt{kind: 'b', id: dc.nblk}
		var tag dtTerm // what the case values are compared with
		nameCell := -1 // the variable the switch is over, if it is one
		hasTag := x.Tag != nil
		if hasTag {
			t, _, ok := dc.term(x.Tag)
			if !ok || !dtIsInt(info.TypeOf(x.Tag)) {
				dc.fail()
				return nil
			}
			tag = t
			if t.cell >= 0 {
				// evaluated once, before any clause runs
				dc.ntmp++
				key := fmt.Sprintf("·sw#%d", dc.ntmp)
				dc.t.cells = append(dc.t.cells, dtCell{key: key, disp: key, typ: "int", base: key, local: true, plain: true, decl: true, temp: true})
				tmp := len(dc.t.cells) - 1
				dc.t.idx[key] = tmp
				blk.then = append(blk.then, dtStmt{kind: 'a', dst: []int{tmp}, src: []dtTerm{t}})
				tag, nameCell = dtTerm{cell: tmp}, t.cell
			}
		}
		dc.stack = append(dc.stack, dtBrk{label: label, id: blk.id, isSwitch: true})
		var def *ast.CaseClause
		for _, cl := range x.Body.List {
			cc, ok := cl.(*ast.CaseClause)
			if !ok {
				dc.fail()
				return nil
			}
			if cc.List == nil {
				def = cc
				continue
			}
			var c *dtCond
			for _, e := range cc.List {
				var one *dtCond
				if hasTag {
					t, n, ok := dc.term(e)
					if !ok || !dtIsInt(info.TypeOf(e)) {
						dc.fail()
						return nil
					}
					if t.cell < 0 {
						dc.note(nameCell, t.k, n)
					}
					one = &dtCond{op: '=', a: tag, b: t}
				} else {
					one = dc.cond(e)
				}
				if c == nil {
					c = one
				} else {
					c = &dtCond{op: '|', l: c, r: one}
				}
			}
			body := dc.list(cc.Body)
			if dc.bad {
				return nil
			}
			body = append(body, dtStmt{kind: 'k', id: blk.id})
			blk.then = append(blk.then, dtStmt{kind: 'i', cond: c, then: body})
		}
		if def != nil {
			blk.then = append(blk.then, dc.list(def.Body)...)
		}
		dc.stack = dc.stack[:len(dc.stack)-1]
		dc.t.decisions++
		return append(out, blk)
	case *ast.LabeledStmt:
		switch in := x.Stmt.(type) {
		case *ast.SwitchStmt:
			return dc.stmt(in, x.Label.Name)
		case *ast.ForStmt:
			ob := fdOnceBlock(x)
			if ob == nil {
				dc.fail()
				return nil
			}
			dc.nblk++
			blk := dtStmt{kind: 'b', id: dc.nblk}
			dc.stack = append(dc.stack, dtBrk{label: ob.label, id: blk.id})
			blk.then = dc.list(ob.body)
			dc.stack = dc.stack[:len(dc.stack)-1]
			return []dtStmt{blk}
		default:
			// the target of forward gotos
			id := dc.labelID(x.Label.Name)
			dc.labelPos[x.Label.Name] = x.Pos()
			return append([]dtStmt{{kind: 'l', id: id}}, dc.stmt(x.Stmt, "")...)
		}
	case *ast.ReturnStmt:
		if !dc.inFunc {
			break
		}
		switch len(x.Results) {
		case 0: // the named result
			return []dtStmt{{kind: 'r', src: []dtTerm{{cell: dc.result}}}}
		case 1:
			if t, _, ok := dc.term(x.Results[0]); ok {
				return []dtStmt{{kind: 'r', src: []dtTerm{t}}}
			}
			if dc.resBool {
				return []dtStmt{{kind: 'r', cond: dc.cond(x.Results[0])}}
			}
		}
	case *ast.BranchStmt:
		if x.Tok == token.GOTO && x.Label != nil {
			dc.gotos = append(dc.gotos, x)
			return []dtStmt{{kind: 'g', id: dc.labelID(x.Label.Name)}}
		}
		if x.Tok != token.BREAK {
			break
		}
		for k := len(dc.stack) - 1; k >= 0; k-- {
			b := dc.stack[k]
			if x.Label == nil {
				if !b.isSwitch {
					break // refers to a loop: not ours
				}
				return []dtStmt{{kind: 'k', id: b.id}}
			}
			if b.label == x.Label.Name {
				return []dtStmt{{kind: 'k', id: b.id}}
			}
		}
	}
	dc.fail()
	return nil
}

// ---- running a table ---------------------------------------------------------------------------

func dtVal(t dtTerm, env []int64) int64 {
	if t.fn != nil {
		var buf [16]int64
		var e []int64
		if t.fn.ncells <= len(buf) {
			e = buf[:t.fn.ncells]
		} else {
			e = make([]int64, t.fn.ncells)
		}
		for i, a := range t.args {
			e[t.fn.params[i]] = dtVal(a, env)
		}
		dtRun(t.fn.body, e)
		return e[t.fn.ncells-1]
	}
	if t.cell < 0 {
		return t.k
	}
	return env[t.cell]
}

func dtEval(c *dtCond, env []int64) bool {
	switch c.op {
	case '=':
		return dtVal(c.a, env) == dtVal(c.b, env)
	case '~':
		return dtVal(c.a, env) != dtVal(c.b, env)
	case '!':
		return !dtEval(c.l, env)
	case '&':
		return dtEval(c.l, env) && dtEval(c.r, env)
	case '|':
		return dtEval(c.l, env) || dtEval(c.r, env)
	case 'e':
		return dtEval(c.l, env) == dtEval(c.r, env)
	}
	return c.v
}

// dtRun executes the statements; 0: reached the end, n > 0: breaking out to block n, -1: returned.
func dtRun(l []dtStmt, env []int64) int {
	var tmp [8]int64
	for i := 0; i < len(l); i++ {
		s := &l[i]
		r := 0
		switch s.kind {
		case 'a':
			vals := tmp[:0]
			for _, t := range s.src {
				vals = append(vals, dtVal(t, env))
			}
			for j, d := range s.dst {
				env[d] = vals[j]
			}
		case 'i':
			if dtEval(s.cond, env) {
				r = dtRun(s.then, env)
			} else {
				r = dtRun(s.els, env)
			}
		case 'b':
			if r = dtRun(s.then, env); r == s.id {
				r = 0
			}
		case 'k', 'g':
			r = s.id
		case 'r':
			v := int64(0)
			if s.cond != nil {
				if dtEval(s.cond, env) {
					v = 1
				}
			} else {
				v = dtVal(s.src[0], env)
			}
			env[s.dst[0]] = v
			return -1
		}
		if r == 0 {
			continue
		}
		if r < dtLabelBase {
			return r
		}
		// a goto: on with the statement that carries the label, if it is further on in this list
		found := false
		for j := i + 1; j < len(l); j++ {
			if l[j].kind == 'l' && l[j].id == r {
				i, found = j, true
				break
			}
		}
		if !found {
			return r
		}
	}
	return 0
}

// ---- finding the tables of a statement list ------------------------------------------------

func (w *fdWalker) newComp() *dtComp {
	return &dtComp{w: w, c: w.ctx(), bases: map[string]types.Object{},
		t: &fdTable{fn: w.fn, fork: w.s.fork, idx: map[string]int{}, consts: map[int64]bool{}, names: map[string]map[int64]string{}, written: map[int]bool{}, read: map[int]bool{}}}
}

type dtTrial struct {
	ok       bool
	decision bool
	reads    map[string]bool
	writes   map[string]bool
}

func (w *fdWalker) tryStmt(s ast.Stmt) dtTrial {
	dc := w.newComp()
	dc.stmt(s, "")
	if dc.bad {
		return dtTrial{}
	}
	// (a statement that carries a label or a goto stays with the rest, like a decision)
	tr := dtTrial{ok: true, decision: dc.t.decisions > 0 || len(dc.labels) > 0, reads: map[string]bool{}, writes: map[string]bool{}}
	for i, c := range dc.t.cells {
		if dc.t.read[i] {
			tr.reads[c.key] = true
		}
		if dc.t.written[i] {
			tr.writes[c.key] = true
		}
	}
	return tr
}

// decisionTable: the decision table that starts at list[i], as one item.  Returns the number
// of statements it covers (0: none starts here).
func (w *fdWalker) decisionTable(list []ast.Stmt, i int, chain []fdCond) int {
	n := w.decisionTable0(list, i)
	if want, ok := w.gotoRuns[list[i].Pos()]; ok && want != n && w.dry == 0 {
		// prepare counted on this run being read as a table (its gotos were passed over)
		w.items = append(w.items, fdSite{Fn: w.fn, Text: "cond ·undecided: a goto is walked as if it were no statement", Pos: list[i].Pos(), Fork: w.s.fork})
	}
	return n
}

// gotosOutsideTables: some goto of fd is not part of a run that the walk will read as a
// decision table.  The runs with gotos / labels are remembered: the walk must find them again.
func (w *fdWalker) gotosOutsideTables(fd *ast.FuncDecl, gotos []token.Pos) bool {
	if len(gotos) == 0 {
		return false
	}
	if !w.s.tables || w.ctx == nil {
		return true
	}
	w.gotoRuns = map[token.Pos]int{}
	var spans [][2]token.Pos
	w.dry++
	fdEachList(fd.Body, func(list []ast.Stmt) {
		for i := 0; i < len(list); {
			n := w.decisionTable0(list, i)
			if n == 0 {
				i++
				continue
			}
			lo, hi := list[i].Pos(), list[i+n-1].End()
			for _, g := range gotos {
				if g >= lo && g < hi {
					w.gotoRuns[lo] = n
					spans = append(spans, [2]token.Pos{lo, hi})
					break
				}
			}
			i += n
		}
	})
	w.dry--
	for _, g := range gotos {
		in := false
		for _, sp := range spans {
			in = in || g >= sp[0] && g < sp[1]
		}
		if !in {
			w.gotoRuns = nil
			return true
		}
	}
	return false
}

func (w *fdWalker) decisionTable0(list []ast.Stmt, i int) int {
	if !w.s.tables || w.s.noTableAt[list[i].Pos()] {
		return 0
	}
	// the maximal run of pure statements from i
	var trials []dtTrial
	for j := i; j < len(list); j++ {
		tr := w.tryStmt(list[j])
		if !tr.ok {
			break
		}
		trials = append(trials, tr)
	}
	lo, hi := 0, len(trials)
	// statements at either end that decide nothing and have nothing to do with the rest (the
	// last ones touch nothing the rest writes, the first one writes nothing the rest
	// mentions) are not part of the table
	trailing := func(tr dtTrial, from, to int) bool {
		for j := from; j < to; j++ {
			for k := range trials[j].writes {
				if tr.reads[k] || tr.writes[k] {
					return true
				}
			}
		}
		return false
	}
	leading := func(tr dtTrial, from, to int) bool {
		for j := from; j < to; j++ {
			for k := range tr.writes {
				if trials[j].reads[k] || trials[j].writes[k] {
					return true
				}
			}
		}
		return false
	}
	for hi > lo && !trials[hi-1].decision && !trailing(trials[hi-1], lo, hi-1) {
		hi--
	}
	if hi > lo && !trials[lo].decision && !leading(trials[lo], lo+1, hi) {
		return 0 // (the table, if any, starts further on)
	}
	n := hi - lo
	any := false
	for _, tr := range trials[lo:hi] {
		any = any || tr.decision
	}
	if n == 0 || !any {
		return 0
	}
	run := list[i : i+n]
	if w.s.noTableAt[run[0].Pos()] {
		return 0
	}
	dc := w.newComp()
	dc.t.body = dc.list(run)
	if dc.bad || !dc.gotosOK(w.fd.Body, run[0].Pos(), run[n-1].End()) {
		return 0
	}
	t := dc.t
	t.pos = run[0].Pos()
	// internal variables: declared in the run, used nowhere else in the function
	start, end := run[0].Pos(), run[n-1].End()
	used := map[types.Object]bool{}
	ast.Inspect(w.fd.Body, func(x ast.Node) bool {
		if id, ok := x.(*ast.Ident); ok && (id.Pos() < start || id.Pos() >= end) {
			if o := dc.c.obj(id); o != nil {
				used[o] = true
			}
		}
		return true
	})
	outs := 0
	for k := range t.cells {
		c := &t.cells[k]
		if c.decl && c.plain && c.local && c.obj != nil && !used[c.obj] {
			c.temp = true
		}
		if t.written[k] && !c.temp {
			outs++
		}
	}
	_ = outs // (a run that writes nothing anybody reads is the table that changes nothing)
	for _, x := range run {
		w.facts.killWritten(w, x)
	}
	if w.dry == 0 {
		w.items = append(w.items, fdSite{Fn: w.fn, Text: "table " + t.signature(nil), Pos: t.pos, Fork: w.s.fork, tab: t})
	}
	return n
}

func (t *fdTable) ins() []int {
	var out []int
	for k, c := range t.cells {
		if !c.temp {
			out = append(out, k)
		}
	}
	sort.Slice(out, func(a, b int) bool { return t.cells[out[a]].disp < t.cells[out[b]].disp })
	return out
}

// signature: "outputs ← f(inputs)" with the names of the source.
func (t *fdTable) signature(disp func(c dtCell) string) string {
	if disp == nil {
		disp = func(c dtCell) string { return c.disp }
	}
	var outs, ins []string
	for _, k := range t.ins() {
		if !t.cells[k].decl {
			ins = append(ins, disp(t.cells[k]))
		}
		if t.written[k] {
			outs = append(outs, disp(t.cells[k]))
		}
	}
	if len(outs) == 0 {
		outs = []string{"(nothing)"}
	}
	return strings.Join(outs, ", ") + " ← f(" + strings.Join(ins, ", ") + ")"
}

// ---- comparing the tables of the two sides -----------------------------------------------------

type dtVerdict struct {
	equal     bool
	undecided string
	differ    int
	total     int
	witness   string // the input and the two outcomes
}

// dtCompare decides whether the fork's table f and upstream's table u are the same function.
// ren maps base keys of fork locals to base keys of upstream locals.
func dtCompare(f, u *fdTable, ren map[string]string) dtVerdict {
	ukey := func(c dtCell) string {
		if r, ok := ren[c.base]; ok {
			return r + strings.TrimPrefix(c.key, c.base)
		}
		return c.key
	}
	type ucell struct {
		key, disp, typ string
		fi, ui         int
		isBool, input  bool
		dom            []int64
	}
	var cells []ucell
	at := map[string]int{}
	for k, c := range u.cells {
		if c.temp {
			continue
		}
		at[c.key] = len(cells)
		cells = append(cells, ucell{key: c.key, disp: c.disp, typ: c.typ, fi: -1, ui: k, isBool: c.isBool, input: !c.decl})
	}
	for k, c := range f.cells {
		if c.temp {
			continue
		}
		key := ukey(c)
		if j, ok := at[key]; ok {
			if cells[j].typ != c.typ {
				return dtVerdict{undecided: "the variable " + c.disp + " has type " + c.typ + " in the fork and " + cells[j].typ + " upstream"}
			}
			cells[j].fi = k
			cells[j].disp = c.disp
			cells[j].input = cells[j].input || !c.decl
			continue
		}
		at[key] = len(cells)
		cells = append(cells, ucell{key: key, disp: c.disp, typ: c.typ, fi: k, ui: -1, isBool: c.isBool, input: !c.decl})
	}
	sort.Slice(cells, func(a, b int) bool { return cells[a].disp < cells[b].disp })
	// the abstract domain
	cs := map[int64]bool{}
	for k := range f.consts {
		cs[k] = true
	}
	for k := range u.consts {
		cs[k] = true
	}
	var dom []int64
	for k := range cs {
		dom = append(dom, k)
	}
	sort.Slice(dom, func(a, b int) bool { return dom[a] < dom[b] })
	// one further value per integer input; a variable declared in the run (on every side
	// that has it) is no input: it starts out zero
	next := int64(1 << 40)
	for _, c := range cells {
		if c.input && !c.isBool {
			for cs[next] {
				next++
			}
			dom = append(dom, next)
			next++
		}
	}
	total := 1
	for j := range cells {
		switch c := &cells[j]; {
		case !c.input:
			c.dom = []int64{0}
		case c.isBool:
			c.dom = []int64{0, 1}
		default:
			c.dom = dom
		}
		total *= len(cells[j].dom)
		if total > fdTableCap {
			return dtVerdict{undecided: fmt.Sprintf("more than %d abstract inputs (%d variables, %d values per integer)", fdTableCap, len(cells), len(dom))}
		}
	}
	envF, envU := make([]int64, len(f.cells)), make([]int64, len(u.cells))
	val := make([]int, len(cells)) // index into dom per union cell
	outF, outU := make([]int64, len(cells)), make([]int64, len(cells))
	run := func() bool { // true: same outcome
		for k := range envF {
			envF[k] = 0
		}
		for k := range envU {
			envU[k] = 0
		}
		for j, c := range cells {
			if c.fi >= 0 {
				envF[c.fi] = c.dom[val[j]]
			}
			if c.ui >= 0 {
				envU[c.ui] = c.dom[val[j]]
			}
		}
		dtRun(f.body, envF)
		dtRun(u.body, envU)
		same := true
		for j, c := range cells {
			outF[j], outU[j] = c.dom[val[j]], c.dom[val[j]]
			if c.fi >= 0 {
				outF[j] = envF[c.fi]
			}
			if c.ui >= 0 {
				outU[j] = envU[c.ui]
			}
			same = same && outF[j] == outU[j]
		}
		return same
	}
	v := dtVerdict{total: total}
	var best []int
	bestFresh := 1 << 30
	for n := 0; n < total; n++ {
		if !run() {
			v.differ++
			fresh := 0
			for j, d := range val {
				if c := cells[j]; !c.isBool && !cs[c.dom[d]] {
					fresh++
				}
			}
			if fresh < bestFresh {
				bestFresh, best = fresh, append([]int{}, val...)
			}
		}
		for j := len(val) - 1; j >= 0; j-- {
			val[j]++
			if val[j] < len(cells[j].dom) {
				break
			}
			val[j] = 0
		}
	}
	if v.differ == 0 {
		v.equal = true
		return v
	}
	// the witness: variables whose value does not matter for the difference are left out
	copy(val, best)
	name := func(j int, k int64, out bool) string {
		if cells[j].isBool {
			return fmt.Sprint(k == 1)
		}
		for _, t := range []*fdTable{u, f} {
			for _, c := range t.cells {
				key := c.key
				if t == f {
					key = ukey(c)
				}
				if key == cells[j].key {
					if n, ok := t.names[c.key][k]; ok {
						return fmt.Sprintf("%d (%s)", k, n)
					}
				}
			}
		}
		if !cs[k] {
			return "some other value"
		}
		// a value copied from another variable: the name it has there
		for j2 := range cells {
			if out && j2 != j && !cells[j2].isBool && cells[j2].dom[best[j2]] == k {
				for _, t := range []*fdTable{u, f} {
					for _, c := range t.cells {
						key := c.key
						if t == f {
							key = ukey(c)
						}
						if key == cells[j2].key {
							if n, ok := t.names[c.key][k]; ok {
								return fmt.Sprintf("%d (%s)", k, n)
							}
						}
					}
				}
			}
		}
		return fmt.Sprint(k)
	}
	var ins []string
	for j := range cells {
		matters := false
		keep := val[j]
		for d := range cells[j].dom {
			val[j] = d
			if run() {
				matters = true
				break
			}
		}
		val[j] = keep
		if matters && cells[j].input {
			ins = append(ins, cells[j].disp+" = "+name(j, cells[j].dom[val[j]], false))
		}
	}
	run()
	var ou, of []string
	for j := range cells {
		if outF[j] != outU[j] {
			ou = append(ou, cells[j].disp+" = "+name(j, outU[j], true))
			of = append(of, cells[j].disp+" = "+name(j, outF[j], true))
		}
	}
	if len(ins) == 0 {
		ins = []string{"any input"}
	}
	v.witness = fmt.Sprintf("when %s: encoding/asn1 goes on with %s, the fork with %s", strings.Join(ins, ", "), strings.Join(ou, ", "), strings.Join(of, ", "))
	return v
}

// dtRenamings: the ways to pair the locals that have no namesake on the other side.
func dtRenamings(f, u *fdTable) []map[string]string {
	bases := func(t *fdTable) (map[string]string, []string) {
		m := map[string]string{} // base key -> type of the base variable
		for _, c := range t.cells {
			if c.local && !c.temp && c.obj != nil {
				m[c.base] = fdTypeStr(c.obj.Type())
			}
		}
		return m, keysOf(m)
	}
	fm, fk := bases(f)
	um, uk := bases(u)
	var ff, uf []string
	for _, k := range fk {
		if _, ok := um[k]; !ok {
			ff = append(ff, k)
		}
	}
	for _, k := range uk {
		if _, ok := fm[k]; !ok {
			uf = append(uf, k)
		}
	}
	out := []map[string]string{{}}
	if len(ff) == 0 || len(uf) == 0 || len(ff) > 4 || len(uf) > 4 {
		return out
	}
	var rec func(i int, cur map[string]string, taken map[string]bool)
	rec = func(i int, cur map[string]string, taken map[string]bool) {
		if i == len(ff) {
			if len(cur) > 0 {
				m := map[string]string{}
				for k, v := range cur {
					m[k] = v
				}
				out = append(out, m)
			}
			return
		}
		rec(i+1, cur, taken) // left unpaired
		for _, k := range uf {
			if taken[k] || um[k] != fm[ff[i]] {
				continue
			}
			cur[ff[i]], taken[k] = k, true
			rec(i+1, cur, taken)
			delete(cur, ff[i])
			delete(taken, k)
		}
	}
	rec(0, map[string]string{}, map[string]bool{})
	return out
}

func fdHasTables(items []fdSite) bool {
	for _, s := range items {
		if s.tab != nil {
			return true
		}
	}
	return false
}

// fdPairTables gives the tables of the two sides that are the same function the same text
// and the others a text that says where they differ.  Returns the numbers of equal pairs and
// of fork tables without an equal partner.
func fdPairTables(fi, ui []fdSite) (equal, unequal int, lone []token.Pos) {
	usedU := map[int]bool{}
	defer func() {
		for j := range ui {
			if ui[j].tab != nil && !usedU[j] {
				lone = append(lone, ui[j].tab.pos)
			}
		}
	}()
	for i := range fi {
		f := fi[i].tab
		if f == nil {
			continue
		}
		found := false
		for j := range ui {
			u := ui[j].tab
			if u == nil || usedU[j] {
				continue
			}
			for _, ren := range dtRenamings(f, u) {
				if v := dtCompare(f, u, ren); v.equal {
					usedU[j], found = true, true
					fi[i].Text = fmt.Sprintf("table %s [%d abstract inputs]", u.signature(nil), v.total)
					ui[j].Text = fi[i].Text
					equal++
					break
				}
			}
			if found {
				break
			}
		}
		if found {
			continue
		}
		unequal++
		// the nearest upstream table: the one with most outputs in common
		outs := func(t *fdTable) map[string]bool {
			m := map[string]bool{}
			for k, c := range t.cells {
				if t.written[k] && !c.temp {
					m[c.key] = true
				}
			}
			return m
		}
		fo := outs(f)
		best, bestN := -1, 0
		for j := range ui {
			if u := ui[j].tab; u != nil && !usedU[j] {
				n := 0
				for k := range outs(u) {
					if fo[k] {
						n++
					}
				}
				if n > bestN {
					best, bestN = j, n
				}
			}
		}
		if best < 0 {
			// the only table left on the other side
			for j := range ui {
				if ui[j].tab != nil && !usedU[j] {
					if best >= 0 {
						best = -1
						break
					}
					best = j
				}
			}
		}
		if best < 0 {
			fi[i].Text = "table " + f.signature(nil) + " — encoding/asn1 has no run of equality tests over these variables to compare it with"
			lone = append(lone, f.pos)
			continue
		}
		usedU[best] = true
		u := ui[best].tab
		v := dtCompare(f, u, nil)
		switch {
		case v.undecided != "":
			fi[i].Text = "table " + f.signature(nil) + " — undecided against encoding/asn1's " + u.signature(nil) + ": " + v.undecided
		default:
			fi[i].Text = fmt.Sprintf("table %s — not the function encoding/asn1 computes (%s): they differ on %d of %d abstract inputs, e.g. %s", f.signature(nil), u.signature(nil), v.differ, v.total, v.witness)
		}
		ui[best].Text = "table " + u.signature(nil) + " (the table the fork's is compared with)"
	}
	return equal, unequal, lone
}
