package main

import (
	"fmt"
	"go/types"
	"sort"
	"strconv"
	"strings"

	"golang.org/x/tools/go/ssa"
)

// C05.R1 / R2 restated on the fact they establish (round 6).
//
// The clause: "verifies if and only if the signature value is cryptographically valid for the given
// key, under the declared … signature algorithm …; a mismatch between declared algorithm and key type
// is reported as an error, never a pass or a panic" — quantified over all keys and algorithm codes
// 0..255.  Acceptance of tls.VerifySignature is therefore a predicate over the PAIR
//
//	(declared signature-algorithm code x ∈ 0..255,  dynamic type of the key k ∈ {*rsa.PublicKey,
//	 *dsa.PublicKey, *ecdsa.PublicKey, any other type (ed25519, value-typed keys, nil, …)})
//
// and R1 decides it on that product, whatever way the code arrives at the pair: a switch on the code
// with a key-type assertion per case, a type switch on the key with a test of the code per case, or
// one agreement test "code == algorithmOf(key)" followed by a type switch.  For every pair the
// valuation σ(x,k) fixes
//
//   - every comparison whose two operands are known under (x,k): the declared code (= x), an integer
//     constant, or the result of a module function applied to the key whose result is decided by the
//     dynamic type of its argument alone (its value for k is read off that function's own decision
//     table — a function that cannot be summarised leaves the comparison open, i.e. both edges),
//   - every comma-ok assertion of the key to a concrete type (true exactly for the type of k; for
//     k = "other" the three known types are false, anything else stays open),
//
// and the walk under σ(x,k) says what may execute.  Obligations:
//
//	(1,rsa) (2,dsa) (3,ecdsa)   the accepting return is reachable, only this pair's library verifier is,
//	                            and it is gated by hash error / DER parse / r,s > 0 / the verifier's verdict;
//	(x∈{1,2,3}, k ≠ type of x)  mismatch: no accepting return, and the verifier of x does not run (it
//	                            would run on a key of the wrong type: nil dereference / panic);
//	(x∉{1,2,3}, every k)        no accepting return and no verifier at all.

type c05Class struct{ name, typ string }

var c05Classes = []c05Class{{"rsa", "*rsa.PublicKey"}, {"dsa", "*dsa.PublicKey"}, {"ecdsa", "*ecdsa.PublicKey"}, {"other", ""}}

func (c c05Class) String() string {
	if c.typ == "" {
		return "a key of a type the package does not know (neither *rsa, *dsa nor *ecdsa.PublicKey: ed25519, a value-typed key, nil, …)"
	}
	return "a " + c.typ + " key"
}

// c05Pairs holds what is needed to build σ(x,k) for one function.
type c05Pairs struct {
	r       *Run
	fn      *ssa.Function
	keyTerm string // origin term of the key
	scrut   string // origin term of the declared signature-algorithm code
	atoms   map[string]*CondInfo
	asserts map[string]types.Type // atom key of a comma-ok assertion of the key → asserted type
	calls   map[string]*ssa.Call  // origin term → call of a module function on the key
	memo    map[string]c05Summary // callee|param|class → summary
}

type c05Summary struct {
	val int64
	ok  bool
}

// keyAsserts: the comma-ok assertions of the value `subj` to a concrete type whose outcome is a
// branch condition of fn (atom key → asserted type).
func (r *Run) keyAsserts(fn *ssa.Function, subj string, atoms map[string]*CondInfo) map[string]types.Type {
	out := map[string]types.Type{}
	eachInstr(fn, func(in ssa.Instruction) {
		ex, ok := in.(*ssa.Extract)
		if !ok || ex.Index != 1 {
			return
		}
		ta, ok := ex.Tuple.(*ssa.TypeAssert)
		if !ok || !ta.CommaOk || types.IsInterface(ta.AssertedType) || r.D.D(ta.X) != subj {
			return
		}
		k := r.D.Classify(ex).Key
		if _, isAtom := atoms[k]; isAtom {
			out[k] = ta.AssertedType
		}
	})
	return out
}

// classSigma fixes the assertions of the key for class cl.
func classSigma(asserts map[string]types.Type, cl c05Class, into Sigma) int {
	n := 0
	for k, t := range asserts {
		tn := TypeName(t)
		switch {
		case cl.typ != "" && tn == cl.typ:
			into[k] = "T"
		case cl.typ != "":
			into[k] = "F"
		default:
			known := false
			for _, c := range c05Classes {
				if c.typ == tn {
					known = true
				}
			}
			if !known {
				continue // another concrete type: a key of class "other" may or may not have it
			}
			into[k] = "F"
		}
		n++
	}
	return n
}

func newC05Pairs(r *Run, fn *ssa.Function, keyTerm, scrut string) *c05Pairs {
	p := &c05Pairs{r: r, fn: fn, keyTerm: keyTerm, scrut: scrut, atoms: r.D.AtomsOf(fn), calls: map[string]*ssa.Call{}, memo: map[string]c05Summary{}}
	p.asserts = r.keyAsserts(fn, keyTerm, p.atoms)
	eachInstr(fn, func(in ssa.Instruction) {
		c, ok := in.(*ssa.Call)
		if !ok {
			return
		}
		f := c.Call.StaticCallee()
		if f == nil || len(f.Blocks) == 0 || c.Call.IsInvoke() {
			return
		}
		for _, a := range c.Call.Args {
			if r.D.D(a) == keyTerm {
				p.calls[r.D.D(c)] = c
				return
			}
		}
	})
	return p
}

// summary: the integer a module function returns when the argument that carries the key has the
// dynamic type of class cl — decided on the function's own table of type tests; ok=false when the
// result is not one integer constant for that class (then nothing is assumed about it).
func (p *c05Pairs) summary(c *ssa.Call, cl c05Class) (int64, bool) {
	r := p.r
	f := c.Call.StaticCallee()
	pi := -1
	for i, a := range c.Call.Args {
		if r.D.D(a) == p.keyTerm {
			if pi >= 0 {
				return 0, false
			}
			pi = i
		}
	}
	if f == nil || pi < 0 || pi >= len(f.Params) || f.Signature.Results().Len() != 1 {
		return 0, false
	}
	if b, ok := f.Signature.Results().At(0).Type().Underlying().(*types.Basic); !ok || b.Info()&types.IsInteger == 0 {
		return 0, false
	}
	mk := FuncName(f) + "|" + strconv.Itoa(pi) + "|" + cl.name
	if s, done := p.memo[mk]; done {
		return s.val, s.ok
	}
	res := c05Summary{}
	defer func() { p.memo[mk] = res }()
	subj := "p" + strconv.Itoa(pi)
	s := Sigma{}
	classSigma(r.keyAsserts(f, subj, r.D.AtomsOf(f)), cl, s)
	reach := r.D.Walk(f, s, nil, nil)
	r.Valuations++
	rets := reachableReturns(f, reach)
	if len(rets) == 0 {
		return 0, false
	}
	for i, ret := range rets {
		v, err := strconv.ParseInt(r.D.DUnder(ret.Results[0], reach), 10, 64)
		if err != nil || (i > 0 && v != res.val) {
			res = c05Summary{}
			return 0, false
		}
		res.val = v
	}
	res.ok = true
	return res.val, true
}

// operand evaluates one side of a comparison under (x, cl).
func (p *c05Pairs) operand(term string, x int64, cl c05Class) (int64, bool) {
	if v, err := strconv.ParseInt(term, 10, 64); err == nil {
		return v, true
	}
	if term == p.scrut {
		return x, true
	}
	if c := p.calls[term]; c != nil {
		return p.summary(c, cl)
	}
	return 0, false
}

// sigma is σ(x,k); onCode counts the comparisons fixed that look at the declared code, onKey the
// conditions fixed that look at the type of the key (directly or through a summarised function).
func (p *c05Pairs) sigma(x int64, cl c05Class) (s Sigma, onCode, onKey int) {
	s = Sigma{}
	onKey = classSigma(p.asserts, cl, s)
	rel := func(a, b int64) string {
		switch {
		case a < b:
			return "<"
		case a == b:
			return "="
		}
		return ">"
	}
	for k, ci := range p.atoms {
		if ci.Kind != "ord" {
			continue
		}
		a, okA := p.operand(ci.A, x, cl)
		b, okB := p.operand(ci.B, x, cl)
		if !okA || !okB {
			continue
		}
		s[k] = rel(a, b)
		if ci.A == p.scrut || ci.B == p.scrut {
			onCode++
		}
		if p.calls[ci.A] != nil || p.calls[ci.B] != nil {
			onKey++
		}
	}
	return s, onCode, onKey
}

// c05ParamOfType: the origin term of the one parameter of fn whose type prints as typ.
func c05ParamOfType(fn *ssa.Function, typ string) string {
	term := ""
	for i, p := range fn.Params {
		if TypeName(p.Type()) == typ {
			if term != "" {
				return ""
			}
			term = "p" + strconv.Itoa(i)
		}
	}
	return term
}

func c05VerifySignature(r *Run) {
	r.Rule("C05.R1")
	fn := r.Fn("tls.VerifySignature")
	if fn == nil {
		return
	}
	keyP, sigP, dataP := c05ParamOfType(fn, "crypto.PublicKey"), c05ParamOfType(fn, "tls.DigitallySigned"), c05ParamOfType(fn, "[]byte")
	if keyP == "" || sigP == "" || dataP == "" {
		r.Fail("VerifySignature:operands", r.FnPos(fn), "undecided: tls.VerifySignature does not take one crypto.PublicKey, one []byte and one tls.DigitallySigned")
		return
	}
	// every return is the nil constant (accept), a constructed error, or a guarded non-nil error
	r.VerdictShape(fn, "VerifySignature:shape", "-", func(ret *ssa.Return) (bool, string) { return true, "accepting return (gated below)" })
	accept := nilErrReturns(fn)
	r.Floor("accepting returns of VerifySignature", len(accept), 1)
	verifierCalls := map[int64][]ssa.Instruction{}
	var allVerifiers []ssa.Instruction
	for k, v := range c05Verifiers {
		verifierCalls[k] = asInstrs(CallsTo(fn, v))
		allVerifiers = append(allVerifiers, verifierCalls[k]...)
	}
	scrut := sigP + ".Algorithm.Signature"
	pairs := newC05Pairs(r, fn, keyP, scrut)
	if _, n, _ := pairs.sigma(0, c05Classes[3]); n == 0 {
		r.Fail("VerifySignature:scrutinee", r.FnPos(fn), "undecided: no comparison of sig.Algorithm.Signature with a constant or with the algorithm that goes with the key")
		return
	}
	classOf := func(x int64) c05Class {
		for _, c := range c05Classes {
			if c.typ == c05KeyType[x] {
				return c
			}
		}
		return c05Classes[3]
	}
	hashErr := nilAtom("tls.generateHash(*)#2")
	reachesAny := func(reach *Reach, ins []ssa.Instruction) ssa.Instruction {
		for _, v := range ins {
			if reach.Has(v) {
				return v
			}
		}
		return nil
	}
	// all 256 codes × 4 key classes
	badCodes := 0
	for x := int64(0); x < 256; x++ {
		want, known := c05Verifiers[x]
		if !known {
			var badCl []string
			detail := ""
			for _, cl := range c05Classes {
				s, _, _ := pairs.sigma(x, cl)
				reach := r.D.Walk(fn, s, nil, nil)
				r.Valuations++
				if ret := anyReach(reach, accept); ret != nil {
					badCl = append(badCl, cl.name)
					how := "no cryptographic check lies on the way"
					if v := reachesAny(reach, allVerifiers); v != nil {
						how = "a signature that " + instrName(v)[len("call "):] + " accepts is reported valid under an algorithm identifier that is none of RSA/DSA/ECDSA"
					}
					detail = fmt.Sprintf("the declared signature algorithm code %d (not RSA/DSA/ECDSA) with %s reaches the accepting return at %s: %s (this algorithm / key type pair must be refused with an error)", x, cl, r.Where(ret), how)
				} else if v := reachesAny(reach, allVerifiers); v != nil {
					badCl = append(badCl, cl.name)
					detail = fmt.Sprintf("the declared signature algorithm code %d (not RSA/DSA/ECDSA) with %s reaches %s at %s", x, cl, instrName(v), r.Where(v))
				}
			}
			if len(badCl) > 0 {
				badCodes++
				key := fmt.Sprintf("VerifySignature:alg=%d-refused", x)
				if len(badCl) < len(c05Classes) {
					key += "[key:" + strings.Join(badCl, ",") + "]"
				}
				r.Fail(key, r.FnPos(fn), detail)
			}
			continue
		}
		alg := c05AlgName[x]
		key := "VerifySignature:" + alg
		kt := c05KeyType[x]
		sx, _, _ := pairs.sigma(x, classOf(x))
		reach := r.D.Walk(fn, sx, nil, nil)
		r.Valuations++
		// exactly this pair's verifier
		var own []ssa.Instruction
		for _, c := range verifierCalls[x] {
			if reach.Has(c) {
				own = append(own, c)
			}
		}
		var foreign ssa.Instruction
		for k, cs := range verifierCalls {
			if k != x {
				if v := reachesAny(reach, cs); v != nil {
					foreign = v
				}
			}
		}
		r.Check(key+":verifier", len(own) >= 1 && foreign == nil, r.FnPos(fn), fmt.Sprintf("code %d with a %s key reaches %s and no other library verifier (own call sites reachable: %d, foreign verifier reachable=%v)", x, kt, want, len(own), foreign != nil))
		r.Check(key+":accepts-valid", anyReach(reach, accept) != nil, r.FnPos(fn), "positive control: the accepting return is reachable for "+alg+" with a "+kt+" key")
		// mismatch between declared algorithm and key type: an error, no verification attempt
		mmOK, mmDetail := true, ""
		for _, cl := range c05Classes {
			if cl.typ == kt {
				continue
			}
			s, _, _ := pairs.sigma(x, cl)
			rm := r.D.Walk(fn, s, nil, nil)
			r.Valuations++
			if ret := anyReach(rm, accept); ret != nil {
				mmOK, mmDetail = false, fmt.Sprintf("declared algorithm %s with %s (not a %s): the accepting return at %s may execute under %s", alg, cl, kt, r.Where(ret), s)
			} else if v := reachesAny(rm, verifierCalls[x]); v != nil {
				mmOK, mmDetail = false, fmt.Sprintf("declared algorithm %s with %s (not a %s): %s at %s may still execute (on a key of the wrong type: nil key or panic) under %s", alg, cl, kt, instrName(v), r.Where(v), s)
			}
		}
		if mmOK {
			mmDetail = fmt.Sprintf("declared algorithm %s with a key of any type other than %s ⇒ no accepting return and no call of %s (3 key classes)", alg, kt, want)
		}
		r.Check(key+":key-type-mismatch", mmOK, r.FnPos(fn), mmDetail)
		if len(own) == 0 {
			continue
		}
		r.Gate(fn, key+":hash-error", sx, reach, hashErr, "non", accept, own, "hash cannot be computed")
		if x == 1 {
			r.Gate(fn, key+":verifier-rejects", sx, reach, nilAtom(want+"(*)"), "non", accept, nil, "rsa.VerifyPKCS1v15 returns an error")
			continue
		}
		r.Gate(fn, key+":verifier-rejects", sx, reach, boolAtom(want+"(*)"), "F", accept, nil, want+" returns false")
		r.Gate(fn, key+":der-unparsable", sx, reach, nilAtom("asn1.Unmarshal("+sigP+".Signature, *)#1"), "non", accept, own, "DER (r,s) does not parse")
		r.Gate(fn, key+":r-not-positive", sx, reach, ordAtomR("(*big.Int).Sign(*.R)", "0"), "<,=", accept, own, "r ≤ 0")
		r.Gate(fn, key+":s-not-positive", sx, reach, ordAtomR("(*big.Int).Sign(*.S)", "0"), "<,=", accept, own, "s ≤ 0")
		// trailing bytes after the DER value are ignored (only if the code looks at them at all)
		if s, _, err := r.bindSets(fn, sx, reach, AtomSet{ordAtomR("len(asn1.Unmarshal(*)#0)", "0"), ">"}); err == nil {
			r.Valuations++
			r.Check(key+":trailing-bytes-ignored", anyReach(r.D.Walk(fn, s, nil, nil), accept) != nil, r.FnPos(fn), "bytes after a complete DER (r,s) do not block acceptance")
		} else {
			r.Pass(key+":trailing-bytes-ignored", r.FnPos(fn), "the remainder returned by asn1.Unmarshal is not tested")
		}
	}
	r.Check("VerifySignature:other-253-codes-refused", badCodes == 0, r.FnPos(fn), fmt.Sprintf("%d of the 253 codes outside {1,2,3} can reach acceptance or a verifier with a key of some type", badCodes))

	// ---- R2 operands
	r.Rule("C05.R2")
	if c := r.OneCall(fn, "VerifySignature:generateHash", "tls.generateHash"); c != nil {
		r.ExpectArg(c, "VerifySignature:hash.algo", 0, sigP+".Algorithm.Hash")
		r.ExpectArg(c, "VerifySignature:hash.data", 1, dataP)
	}
	for x := int64(1); x <= 3; x++ {
		key := "VerifySignature:" + c05AlgName[x] + ":operand"
		sx, _, _ := pairs.sigma(x, classOf(x))
		reach := r.D.Walk(fn, sx, nil, nil)
		r.Valuations++
		var cs []ssa.CallInstruction
		for _, c := range CallsTo(fn, c05Verifiers[x]) {
			if reach.Has(c) {
				cs = append(cs, c)
			}
		}
		if len(cs) == 0 {
			continue // reported by R1 (:verifier)
		}
		sort.Slice(cs, func(i, j int) bool { return r.Where(cs[i]) < r.Where(cs[j]) })
		// the (r,s) decoded on this pair's path
		var um []ssa.CallInstruction
		for _, u := range CallsTo(fn, "asn1.Unmarshal") {
			if reach.Has(u) {
				um = append(um, u)
			}
		}
		// the values the verifier receives are read where it runs: after the DER value parsed and r,s
		// tested positive (R1 decides that it runs only then)
		okSets := []AtomSet{{nilAtom("asn1.Unmarshal(" + sigP + ".Signature, *)#1"), "nil"}, {ordAtomR("(*big.Int).Sign(*.R)", "0"), ">"}, {ordAtomR("(*big.Int).Sign(*.S)", "0"), ">"}}
		for _, c := range cs {
			r.ExpectArg(c, key+".key", 0, keyP+".("+c05KeyType[x]+")#0")
			if x == 1 {
				r.ExpectArg(c, key+".hashType", 1, "tls.generateHash(*)#1")
				r.ExpectArg(c, key+".hash", 2, "tls.generateHash(*)#0")
				r.ExpectArg(c, key+".sig", 3, sigP+".Signature")
				continue
			}
			r.ExpectArg(c, key+".hash", 1, "tls.generateHash(*)#0")
			if len(um) != 1 {
				r.Fail(key+".rs", r.Where(c), fmt.Sprintf("expected one asn1.Unmarshal on the path of %s with a %s key, found %d", c05AlgName[x], c05KeyType[x], len(um)))
				continue
			}
			r.ExpectArg(um[0], key+".der", 0, sigP+".Signature")
			a := baseAlloc(CallArgs(um[0])[1])
			if a == nil {
				r.Fail(key+".rs", r.Where(um[0]), "undecided: decode target of asn1.Unmarshal is not a local")
				continue
			}
			name := r.D.allocName(a)
			at := reach
			if s, _, err := r.bindSets(fn, sx, reach, okSets...); err == nil {
				at = r.walkR(fn, s, nil, -1)
				r.Valuations++
			}
			args := CallArgs(c)
			for i, f := range map[int]string{2: "R", 3: "S"} {
				got := "-"
				if i < len(args) {
					got = r.D.DUnder(args[i], at)
				}
				r.Check(key+"."+strings.ToLower(f), got == name+"."+f, r.Where(c), fmt.Sprintf("arg %d of %s = %s where it runs (expected %s.%s, decoded from the carried signature bytes)", i, CalleeOf(c), got, name, f))
			}
			// and the positivity tests look at that same struct
			for _, sc := range CallsTo(fn, "(*big.Int).Sign") {
				if reach.Has(sc) {
					r.ExpectArg(sc, key+".positivity-subject", 0, name+".R || "+name+".S")
				}
			}
		}
	}
}
