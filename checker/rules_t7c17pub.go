package main

import (
	"fmt"
	"go/token"
	"go/types"
	"os"
	"sort"
	"strings"

	"golang.org/x/tools/go/ssa"
)

// E3 LOCK, publication discipline (round 7).
//
// The guarded-by discipline of lock.go decides that every access to a guarded FIELD is made
// under the mutex.  When the field holds a reference (pointer, map, slice, channel, interface,
// or a struct made of such), that is not enough: the lock protects the word in the field, the
// race is on the OBJECT behind it.  The clause decided here:
//
//	a guarded reference field protects the object it refers to: either
//	(i)  the object is CONFINED to the critical sections — a reference loaded from the field is
//	     not used after the lock is released, not returned, not stored elsewhere, not sent, not
//	     handed to a goroutine or to a function value that outlives the section — or
//	(ii) the object is IMMUTABLE AFTER PUBLICATION — no function of the module writes into it
//	     through a reference loaded from the field (a store through it, a map store / delete,
//	     an append / copy into it, a call of a function that writes through that parameter or
//	     receiver), nor through the local it was stored from once the critical section that
//	     published it is over; writers replace the field by a fresh object (copy-on-write).
//
// A violation is a field for which BOTH an escaping use and an in-place mutation exist.  Each
// alone is a legitimate design (confinement: safeSubmissionState's maps, LogGroupInfo.LogWeights;
// copy-on-write: LogInfo.lastSTH, Proxy.dist, LogListManager.latestLL, Distributor.rootPool).
//
// How it is decided: from every load of the field a forward taint over go/ssa follows the
// reference (φ, conversions, interface boxing, slicing, locals and captured variables, struct
// containers it is put into, results of module functions that return it); uses are judged
// against the must-held lock set of lock.go; calls are decided by per-(function, parameter)
// summaries computed on the callee's body (module functions in full; functions outside the
// module for direct writes only, three levels deep); interface calls are resolved over the
// module's types.  A mutation of an object that was stored into the field as a fresh object in
// the same, still open, write-locked section is a mutation BEFORE publication and does not count.

type pubTaint struct {
	box  bool   // a container (struct value, local variable, local struct, local slice / map), or the address of one, that holds the reference
	deep bool   // reached through the object (an element, a field of it): relevant for in-place mutation only
	path string // box: where in the container the reference sits (".f", "[]" components; "" = the cell itself; "*" = anywhere)
}

func pubMerge(a, b pubTaint) pubTaint {
	switch {
	case a == b:
		return a
	case !a.box && !a.deep:
		return a
	case !b.box && !b.deep:
		return b
	case a.box && b.box:
		return pubTaint{box: true, path: "*"}
	case a.box:
		return a
	case b.box:
		return b
	}
	return pubTaint{deep: true}
}

type pubEvent struct {
	kind byte // 'u' use (reads the object), 'k' kept beyond the call, 'm' mutated in place, 'r' returned, '?' handed to code that cannot be resolved
	in   ssa.Instruction
	t    pubTaint
	idx  int // result index of an 'r' event
	why  string
}

type pubSumKey struct {
	fn   *ssa.Function
	slot int // parameter index (receiver = 0); free variable i is -(i+1)
	t    pubTaint
	ext  int // levels outside the module (the walk stops three levels out)
}

type pubSum struct {
	mut, keep string // "" = no
	unknown   string
	returns   map[int]pubTaint
}

type pubSite struct {
	fn   *ssa.Function
	call ssa.CallInstruction
}

type pubEngine struct {
	r        *Run
	sums     map[pubSumKey]*pubSum
	guarded  map[*types.Var]bool // guarded fields of all lock tables: objects with their own discipline
	impls    map[string][]*ssa.Function
	callers  map[*ssa.Function][]pubSite // static and module-resolved interface call sites
	asValue  map[*ssa.Function]bool      // function used as a value somewhere (callers not enumerable)
	freshFn  map[*ssa.Function]map[int]int8
	helds    map[*ssa.Function]map[ssa.Instruction]held
	modTypes []types.Type
}

type pubStat struct {
	fields, loads, stores, escaping, mutated, confinedOrCow int
}

var pubEngines = map[*Prog]*pubEngine{}
var pubStats = map[*Run]*pubStat{}

func (r *Run) pubEngine() *pubEngine {
	if e, ok := pubEngines[r.P]; ok {
		e.r = r
		return e
	}
	e := &pubEngine{r: r, sums: map[pubSumKey]*pubSum{}, guarded: map[*types.Var]bool{}, impls: map[string][]*ssa.Function{},
		callers: map[*ssa.Function][]pubSite{}, asValue: map[*ssa.Function]bool{}, freshFn: map[*ssa.Function]map[int]int8{}, helds: map[*ssa.Function]map[ssa.Instruction]held{}}
	pubEngines[r.P] = e
	for _, k := range keysOf(lockTable) {
		sp := lockTable[k]
		named := r.P.LookupType(sp.Struct)
		if named == nil {
			continue
		}
		st, ok := named.Underlying().(*types.Struct)
		if !ok {
			continue
		}
		for i := 0; i < st.NumFields(); i++ {
			for _, f := range sp.Fields {
				if st.Field(i).Name() == f {
					e.guarded[st.Field(i)] = true
				}
			}
		}
	}
	for _, pk := range r.P.Pkgs {
		if pk.Types == nil {
			continue
		}
		sc := pk.Types.Scope()
		for _, n := range sc.Names() {
			if tn, ok := sc.Lookup(n).(*types.TypeName); ok && !tn.IsAlias() {
				if _, isIface := tn.Type().Underlying().(*types.Interface); !isIface {
					e.modTypes = append(e.modTypes, tn.Type(), types.NewPointer(tn.Type()))
				}
			}
		}
	}
	for _, fn := range r.P.ModFuncs {
		eachInstr(fn, func(in ssa.Instruction) {
			if ci, ok := in.(ssa.CallInstruction); ok {
				c := ci.Common()
				if cal := c.StaticCallee(); cal != nil {
					e.callers[cal] = append(e.callers[cal], pubSite{fn, ci})
				} else if c.IsInvoke() {
					for _, cal := range e.implementations(c) {
						e.callers[cal] = append(e.callers[cal], pubSite{fn, ci})
					}
				}
			}
			for _, op := range in.Operands(nil) {
				if f, ok := (*op).(*ssa.Function); ok {
					if ci, isCall := in.(ssa.CallInstruction); !isCall || ci.Common().Value != f {
						e.asValue[f] = true
					}
				}
			}
		})
	}
	return e
}

// ---- types -------------------------------------------------------------------------------------

func pubHoldsRef(t types.Type) bool { return pubHoldsRefSeen(t, map[types.Type]bool{}) }

func pubHoldsRefSeen(t types.Type, seen map[types.Type]bool) bool {
	if t == nil {
		return false
	}
	switch u := t.Underlying().(type) {
	case *types.Pointer, *types.Map, *types.Slice, *types.Chan, *types.Interface:
		return true
	case *types.Struct:
		if seen[t] {
			return false
		}
		seen[t] = true
		for i := 0; i < u.NumFields(); i++ {
			if pubHoldsRefSeen(u.Field(i).Type(), seen) {
				return true
			}
		}
	case *types.Array:
		return pubHoldsRefSeen(u.Elem(), seen)
	}
	return false
}

func pubAggregate(t types.Type) bool {
	switch t.Underlying().(type) {
	case *types.Struct, *types.Array:
		return true
	}
	return false
}

// pubSyncType: a type of sync or sync/atomic — memory that is synchronised by itself.
func pubSyncType(t types.Type) bool {
	if p, ok := t.Underlying().(*types.Pointer); ok {
		t = p.Elem()
	}
	if n, ok := t.(*types.Named); ok && n.Obj().Pkg() != nil {
		p := n.Obj().Pkg().Path()
		return p == "sync" || p == "sync/atomic"
	}
	return false
}

func pubSyncFunc(fn *ssa.Function) bool {
	if pk := fnPkg(fn); pk != nil {
		return pk.Path() == "sync" || pk.Path() == "sync/atomic" || pk.Path() == "internal/sync"
	}
	return false
}

// ---- interface calls -----------------------------------------------------------------------------

func (e *pubEngine) implementations(c *ssa.CallCommon) []*ssa.Function {
	iface, ok := c.Value.Type().Underlying().(*types.Interface)
	if !ok || c.Method == nil {
		return nil
	}
	key := types.TypeString(c.Value.Type(), nil) + "#" + c.Method.Name()
	if fs, ok := e.impls[key]; ok {
		return fs
	}
	var out []*ssa.Function
	seen := map[*ssa.Function]bool{}
	for _, t := range e.modTypes {
		if !types.Implements(t, iface) {
			continue
		}
		if fn := e.r.P.SSA.LookupMethod(t, c.Method.Pkg(), c.Method.Name()); fn != nil && len(fn.Blocks) > 0 {
			// a pointer method set includes the promoted value methods: analyse the declared one
			if fn.Synthetic != "" {
				for _, b := range fn.Blocks {
					for _, in := range b.Instrs {
						if ci, ok := in.(ssa.CallInstruction); ok {
							if cal := ci.Common().StaticCallee(); cal != nil && cal.Name() == fn.Name() && len(cal.Blocks) > 0 {
								fn = cal
							}
						}
					}
				}
			}
			if !seen[fn] {
				seen[fn] = true
				out = append(out, fn)
			}
		}
	}
	sort.Slice(out, func(i, j int) bool { return FuncName(out[i]) < FuncName(out[j]) })
	e.impls[key] = out
	return out
}

// ---- the taint walk ------------------------------------------------------------------------------

// pubPathOf: the local allocation an address lies in and the selection path down to it
// (".field" and "[]" components); nil when the address is not inside a local.
func pubPathOf(addr ssa.Value) (ssa.Value, string) {
	path := ""
	for i := 0; i < 8; i++ {
		switch x := addr.(type) {
		case *ssa.Alloc:
			return x, path
		case *ssa.FieldAddr:
			if f := fieldOf(x); f != nil {
				path = "." + f.Name() + path
			} else {
				path = "*"
			}
			addr = x.X
		case *ssa.IndexAddr:
			path = "[]" + path
			addr = x.X
		default:
			return addr, path
		}
	}
	return nil, ""
}

func pubJoin(a, b string) string {
	if strings.Contains(a, "*") || strings.Contains(b, "*") || strings.Count(a+b, ".")+strings.Count(a+b, "[") > 6 {
		return "*"
	}
	return a + b
}

// pubSelect: selecting component comp of a container that holds the reference at path.
// ok = the selected part (still) holds it; rest = where inside the selected part.
func pubSelect(path, comp string) (rest string, ok bool) {
	if path == "*" {
		return "*", true
	}
	if strings.HasPrefix(path, comp) {
		r := path[len(comp):]
		if r == "" || r[0] == '.' || r[0] == '[' {
			return r, true
		}
	}
	return "", false
}

// track follows the values in roots through fn and reports what happens to the object.
// ext = how many levels outside the module the walk already is (0 = module function).
func (e *pubEngine) track(fn *ssa.Function, roots map[ssa.Value]pubTaint, ext int) []pubEvent {
	taint := map[ssa.Value]pubTaint{}
	var work []ssa.Value
	var evs []pubEvent
	seenEv := map[string]bool{}
	// mutexes that are part of the object itself (a monitor inside it): a write made while one of
	// them is write-locked is synchronised by the object, whatever became of the reference
	ownMu := map[string]bool{}
	ev := func(kind byte, in ssa.Instruction, t pubTaint, idx int, why string) {
		k := fmt.Sprintf("%c|%p|%d|%v", kind, in, idx, t)
		if seenEv[k] {
			return
		}
		seenEv[k] = true
		evs = append(evs, pubEvent{kind, in, t, idx, why})
	}
	add := func(v ssa.Value, t pubTaint) {
		if old, ok := taint[v]; ok {
			m := pubMerge(old, t)
			if m == old {
				return
			}
			t = m
		}
		taint[v] = t
		work = append(work, v)
	}
	extract := func(tuple ssa.Value, idx int, t pubTaint) {
		if tuple.Referrers() == nil {
			return
		}
		for _, ref := range *tuple.Referrers() {
			if x, ok := ref.(*ssa.Extract); ok && x.Index == idx {
				add(x, t)
			}
		}
	}
	// part of a container VALUE selected by comp: the reference itself, a smaller container, or nothing
	valuePart := func(t pubTaint, comp string, typ types.Type) (pubTaint, bool) {
		rest, ok := pubSelect(t.path, comp)
		if !ok || !pubHoldsRef(typ) {
			return pubTaint{}, false
		}
		if rest == "" {
			return pubTaint{}, true
		}
		if rest == "*" && !pubAggregate(typ) {
			return pubTaint{}, true
		}
		return pubTaint{box: true, path: rest}, true
	}
	// roots in a deterministic order
	var rs []ssa.Value
	for v := range roots {
		rs = append(rs, v)
	}
	sort.Slice(rs, func(i, j int) bool { return rs[i].Name() < rs[j].Name() })
	for _, v := range rs {
		add(v, roots[v])
	}
	for len(work) > 0 {
		v := work[0]
		work = work[1:]
		t := taint[v]
		refs := v.Referrers()
		if refs == nil {
			continue
		}
		for _, in := range *refs {
			switch x := in.(type) {
			case *ssa.DebugRef, *ssa.BinOp, *ssa.If:
			case *ssa.Phi, *ssa.ChangeType, *ssa.ChangeInterface, *ssa.MakeInterface, *ssa.SliceToArrayPointer:
				add(x.(ssa.Value), t)
			case *ssa.Convert:
				if pubHoldsRef(x.Type()) {
					add(x, t)
				} else if !t.box && !t.deep {
					ev('u', in, t, 0, "converted (copied)")
				}
			case *ssa.Slice:
				if x.X == v {
					add(x, t)
				}
			case *ssa.TypeAssert:
				if x.CommaOk {
					extract(x, 0, t)
				} else {
					add(x, t)
				}
			case *ssa.UnOp:
				switch x.Op {
				case token.MUL:
					if t.box {
						// load from a cell of a container
						switch {
						case !pubHoldsRef(x.Type()):
						case t.path == "" || (t.path == "*" && !pubAggregate(x.Type())):
							add(x, pubTaint{})
						default:
							add(x, t)
						}
					} else {
						ev('u', in, t, 0, "read through the reference")
						if pubHoldsRef(x.Type()) {
							add(x, pubTaint{deep: true})
						}
					}
				case token.ARROW:
					ev('u', in, t, 0, "received from")
					if pubHoldsRef(x.Type()) {
						if x.CommaOk {
							extract(x, 0, pubTaint{deep: true})
						} else {
							add(x, pubTaint{deep: true})
						}
					}
				}
			case *ssa.FieldAddr:
				f := fieldOf(x)
				if t.box {
					if f == nil {
						add(x, pubTaint{box: true, path: "*"})
					} else if rest, ok := pubSelect(t.path, "."+f.Name()); ok {
						add(x, pubTaint{box: true, path: rest})
					}
					break
				}
				if f != nil && (pubSyncType(f.Type()) || e.guarded[f]) {
					// memory with its own synchronisation / its own lock-table entry
					if n := TypeName(f.Type()); n == "sync.Mutex" || n == "sync.RWMutex" {
						ownMu[e.r.D.D(x)] = true
					}
					break
				}
				add(x, t)
			case *ssa.IndexAddr:
				if x.X != v {
					break
				}
				if t.box {
					if rest, ok := pubSelect(t.path, "[]"); ok {
						add(x, pubTaint{box: true, path: rest})
					}
				} else {
					add(x, t)
				}
			case *ssa.Field:
				if t.box {
					name := "?"
					if f := fieldOfVal(x); f != nil {
						name = f.Name()
					}
					if nt, ok := valuePart(t, "."+name, x.Type()); ok {
						add(x, nt)
					}
				} else if pubHoldsRef(x.Type()) {
					add(x, pubTaint{deep: true})
				}
			case *ssa.Index:
				if x.X == v {
					if t.box {
						if nt, ok := valuePart(t, "[]", x.Type()); ok {
							add(x, nt)
						}
					} else if pubHoldsRef(x.Type()) {
						add(x, pubTaint{deep: true})
					}
				}
			case *ssa.Lookup:
				if x.X != v {
					break
				}
				et := x.Type()
				if x.CommaOk {
					et = x.Type().(*types.Tuple).At(0).Type()
				}
				var nt pubTaint
				ok := false
				if t.box {
					nt, ok = valuePart(t, "[]", et)
				} else {
					ev('u', in, t, 0, "looked up")
					nt, ok = pubTaint{deep: true}, pubHoldsRef(et)
				}
				if ok {
					if x.CommaOk {
						extract(x, 0, nt)
					} else {
						add(x, nt)
					}
				}
			case *ssa.Range:
				if !t.box {
					ev('u', in, t, 0, "ranged over")
					add(x, pubTaint{deep: true})
				} else {
					add(x, t)
				}
			case *ssa.Next:
				if x.Iter != v || x.Referrers() == nil {
					break
				}
				for _, ref := range *x.Referrers() {
					if ex, ok := ref.(*ssa.Extract); ok && ex.Index == 2 {
						if t.box {
							if nt, ok := valuePart(t, "[]", ex.Type()); ok {
								add(ex, nt)
							}
						} else if pubHoldsRef(ex.Type()) {
							add(ex, pubTaint{deep: true})
						}
					}
				}
			case *ssa.Extract:
				// results of calls are tainted explicitly (extract above)
			case *ssa.Store:
				if x.Addr == v && !t.box {
					ev('m', in, t, 0, "a store through the reference")
				}
				if x.Val == v && !t.deep {
					base, p := pubPathOf(x.Addr)
					vp := ""
					if t.box {
						vp = t.path
					}
					if a, ok := base.(*ssa.Alloc); ok {
						add(a, pubTaint{box: true, path: pubJoin(p, vp)})
					} else if at, ok := taint[base]; ok && at.box {
						// into a container that already holds it
					} else {
						ev('k', in, t, 0, "stored to "+e.r.D.D(x.Addr))
					}
				}
			case *ssa.MapUpdate:
				if x.Map == v && !t.box {
					ev('m', in, t, 0, "a map store")
				} else if x.Value == v && !t.deep {
					vp := ""
					if t.box {
						vp = t.path
					}
					if mm, ok := x.Map.(*ssa.MakeMap); ok {
						add(mm, pubTaint{box: true, path: pubJoin("[]", vp)})
					} else if at, ok := taint[x.Map]; ok && at.box {
					} else {
						ev('k', in, t, 0, "stored into the map "+e.r.D.D(x.Map))
					}
				}
			case *ssa.Send:
				if x.X == v && !t.deep {
					ev('k', in, t, 0, "sent on a channel")
				} else if x.Chan == v {
					ev('u', in, t, 0, "sent to")
				}
			case *ssa.Select:
				for _, s := range x.States {
					if s.Send == v && !t.deep {
						ev('k', in, t, 0, "sent on a channel")
					}
				}
			case *ssa.Return:
				for i, res := range x.Results {
					if res == v {
						ev('r', in, t, i, "returned")
					}
				}
			case *ssa.MakeClosure:
				for i, b := range x.Bindings {
					if b == v {
						e.closure(x, i, t, ext, ev, add, extract)
					}
				}
			case ssa.CallInstruction:
				e.call(x, v, t, ext, ev, add, extract)
			case *ssa.MakeSlice, *ssa.MakeMap, *ssa.MakeChan, *ssa.Alloc, *ssa.Jump, *ssa.Panic, *ssa.RunDefers:
			default:
				if !t.box {
					ev('u', in, t, 0, "used")
				}
			}
		}
	}
	if len(ownMu) > 0 {
		h := e.heldOf(fn)
		kept := evs[:0]
		for _, v := range evs {
			own := false
			if v.kind == 'm' {
				for mu, mode := range h[v.in] {
					if mode == 'W' && ownMu[mu] {
						own = true
					}
				}
			}
			if !own {
				kept = append(kept, v)
			}
		}
		evs = kept
	}
	return evs
}

// closure: the reference (or the variable holding it) is captured by a function literal.
func (e *pubEngine) closure(mc *ssa.MakeClosure, i int, t pubTaint, ext int,
	ev func(byte, ssa.Instruction, pubTaint, int, string), add func(ssa.Value, pubTaint), extract func(ssa.Value, int, pubTaint)) {
	clo, _ := mc.Fn.(*ssa.Function)
	if clo == nil {
		ev('?', mc, t, 0, "captured by an unresolved function value")
		return
	}
	// (a captured variable is bound by address: the binding is the local that holds the reference, a container)
	sum := e.summary(clo, -(i + 1), t, ext)
	if sum.mut != "" {
		ev('m', mc, t, 0, "in the function literal "+FuncName(clo)+": "+sum.mut)
	}
	if t.deep {
		return
	}
	if sum.keep != "" {
		ev('k', mc, t, 0, "in the function literal "+FuncName(clo)+": "+sum.keep)
	}
	if sum.unknown != "" {
		ev('?', mc, t, 0, "in the function literal "+FuncName(clo)+": "+sum.unknown)
	}
	if mc.Referrers() != nil {
		for _, ref := range *mc.Referrers() {
			switch x := ref.(type) {
			case *ssa.Go:
				ev('k', mc, t, 0, "captured by the goroutine "+FuncName(clo))
			case *ssa.Call:
				if x.Call.Value == mc {
					// called in place: the body runs where it is called
					ev('u', x, t, 0, "used in the function literal "+FuncName(clo))
					for _, idx := range sortedInts(sum.returns) {
						if clo.Signature.Results().Len() == 1 {
							add(x, sum.returns[idx])
						} else {
							extract(x, idx, sum.returns[idx])
						}
					}
				}
			case *ssa.Defer:
				if x.Call.Value == mc {
					ev('u', x, t, 0, "used in the deferred function literal "+FuncName(clo))
				}
			}
		}
	}
	// wherever else the function value goes, it carries the reference with it
	add(mc, pubTaint{box: true, path: "*"})
}

func (e *pubEngine) call(ci ssa.CallInstruction, v ssa.Value, t pubTaint, ext int,
	ev func(byte, ssa.Instruction, pubTaint, int, string), add func(ssa.Value, pubTaint), extract func(ssa.Value, int, pubTaint)) {
	c := ci.Common()
	in := ci.(ssa.Instruction)
	_, isGo := ci.(*ssa.Go)
	if b, ok := c.Value.(*ssa.Builtin); ok {
		res, _ := ci.(*ssa.Call)
		switch b.Name() {
		case "append":
			if len(c.Args) > 0 && c.Args[0] == v {
				if !t.box {
					ev('m', in, t, 0, "an append through the reference")
				}
				if res != nil {
					add(res, t)
				}
			} else if t.box && res != nil {
				add(res, t) // elements that hold the reference are appended: the result holds it too
			} else if !t.box {
				ev('u', in, t, 0, "copied from")
			}
		case "copy":
			if len(c.Args) > 0 && c.Args[0] == v && !t.box {
				ev('m', in, t, 0, "a copy into the reference")
			} else if !t.box {
				ev('u', in, t, 0, "copied from")
			}
		case "delete":
			if len(c.Args) > 0 && c.Args[0] == v && !t.box {
				ev('m', in, t, 0, "a map delete")
			}
		case "close":
			if !t.box {
				ev('m', in, t, 0, "closed")
			}
		default:
			if !t.box {
				ev('u', in, t, 0, b.Name())
			}
		}
		return
	}
	if c.Value == v && !c.IsInvoke() {
		// the object itself is a function value that is called: code is immutable; a function value that
		// carries the reference and is started as a goroutine takes it along
		if isGo && t.box {
			ev('k', in, t, 0, "carried by a function value that is started as a goroutine")
		}
		return
	}
	ev('u', in, t, 0, "handed to "+CalleeOf(ci))
	var slots []int
	if c.IsInvoke() {
		if c.Value == v {
			slots = append(slots, 0)
		}
		for i, a := range c.Args {
			if a == v {
				slots = append(slots, i+1)
			}
		}
	} else {
		for i, a := range c.Args {
			if a == v {
				slots = append(slots, i)
			}
		}
	}
	var callees []*ssa.Function
	if cal := c.StaticCallee(); cal != nil {
		callees = []*ssa.Function{cal}
	} else if c.IsInvoke() {
		callees = e.implementations(c)
	}
	if len(callees) == 0 {
		ev('?', in, t, 0, "handed to "+CalleeOf(ci)+", which cannot be resolved")
		return
	}
	if isGo && !t.deep {
		ev('k', in, t, 0, "handed to the goroutine "+CalleeOf(ci))
	}
	for _, cal := range callees {
		if pubSyncFunc(cal) {
			continue
		}
		for _, slot := range slots {
			if slot >= len(cal.Params) {
				continue
			}
			sum := e.summary(cal, slot, t, ext)
			if sum.mut != "" {
				ev('m', in, t, 0, "the call of "+FuncName(cal)+", which writes through that argument ("+sum.mut+")")
			}
			if sum.keep != "" && !t.deep {
				ev('k', in, t, 0, "the call of "+FuncName(cal)+", which keeps that argument ("+sum.keep+")")
			}
			if sum.unknown != "" && !t.deep {
				ev('?', in, t, 0, "the call of "+FuncName(cal)+": "+sum.unknown)
			}
			if res, ok := ci.(*ssa.Call); ok {
				for _, idx := range sortedInts(sum.returns) {
					rt := sum.returns[idx]
					if t.deep {
						rt.deep = true
					}
					if cal.Signature.Results().Len() == 1 {
						add(res, rt)
					} else {
						extract(res, idx, rt)
					}
				}
			}
		}
	}
}

func sortedInts(m map[int]pubTaint) []int {
	var ks []int
	for k := range m {
		ks = append(ks, k)
	}
	sort.Ints(ks)
	return ks
}

func (e *pubEngine) heldOf(fn *ssa.Function) map[ssa.Instruction]held {
	if h, ok := e.helds[fn]; ok {
		return h
	}
	h := e.r.heldAt(fn)
	e.helds[fn] = h
	return h
}

func (e *pubEngine) where(in ssa.Instruction) string {
	return e.r.Where(in)
}

// summary: what fn does to the object it receives in the given parameter / free variable.
func (e *pubEngine) summary(fn *ssa.Function, slot int, t pubTaint, ext int) *pubSum {
	t.deep = false // what the callee does to it does not depend on how the caller reached it
	isMod := c17InModule(fn)
	if !isMod {
		ext++
	}
	key := pubSumKey{fn, slot, t, ext}
	if s, ok := e.sums[key]; ok {
		return s
	}
	s := &pubSum{returns: map[int]pubTaint{}}
	e.sums[key] = s
	if len(fn.Blocks) == 0 || ext > 3 {
		return s
	}
	var root ssa.Value
	if slot >= 0 {
		if slot >= len(fn.Params) {
			return s
		}
		root = fn.Params[slot]
	} else {
		if -(slot + 1) >= len(fn.FreeVars) {
			return s
		}
		root = fn.FreeVars[-(slot + 1)]
	}
	for _, v := range e.track(fn, map[ssa.Value]pubTaint{root: t}, ext) {
		switch v.kind {
		case 'm':
			if s.mut == "" {
				s.mut = v.why + " at " + e.where(v.in)
			}
		case 'k':
			if isMod && s.keep == "" {
				s.keep = v.why + " at " + e.where(v.in)
			}
		case 'r':
			if old, ok := s.returns[v.idx]; ok {
				s.returns[v.idx] = pubMerge(old, v.t)
			} else {
				s.returns[v.idx] = v.t
			}
		case '?':
			if isMod && s.unknown == "" {
				s.unknown = v.why + " at " + e.where(v.in)
			}
		}
	}
	return s
}

// ---- fresh objects ------------------------------------------------------------------------------------

// fresh: v is an object created here and now (allocation, make, composite literal, a copy made by
// append to nil, the result of a function that returns such an object on every path), or nil.
func (e *pubEngine) fresh(v ssa.Value, depth int, seen map[ssa.Value]bool) bool {
	if seen[v] {
		return true
	}
	seen[v] = true
	switch x := v.(type) {
	case *ssa.Alloc, *ssa.MakeMap, *ssa.MakeSlice, *ssa.MakeChan:
		return true
	case *ssa.Const:
		return x.IsNil()
	case *ssa.ChangeType:
		return e.fresh(x.X, depth, seen)
	case *ssa.MakeInterface:
		return e.fresh(x.X, depth, seen)
	case *ssa.ChangeInterface:
		return e.fresh(x.X, depth, seen)
	case *ssa.Slice:
		return e.fresh(x.X, depth, seen)
	case *ssa.Phi:
		for _, ed := range x.Edges {
			if !e.fresh(ed, depth, seen) {
				return false
			}
		}
		return true
	case *ssa.Extract:
		if c, ok := x.Tuple.(*ssa.Call); ok {
			return e.freshResult(c, x.Index, depth)
		}
	case *ssa.Call:
		if b, ok := x.Call.Value.(*ssa.Builtin); ok {
			return b.Name() == "append" && len(x.Call.Args) > 0 && e.fresh(x.Call.Args[0], depth, seen)
		}
		return e.freshResult(x, 0, depth)
	}
	return false
}

func (e *pubEngine) freshResult(c *ssa.Call, idx, depth int) bool {
	cal := c.Call.StaticCallee()
	if cal == nil || len(cal.Blocks) == 0 || depth > 3 {
		return false
	}
	if m, ok := e.freshFn[cal]; ok {
		if v, ok := m[idx]; ok {
			return v > 0
		}
	} else {
		e.freshFn[cal] = map[int]int8{}
	}
	e.freshFn[cal][idx] = 1 // recursion: optimistic
	ok := true
	n := 0
	for _, ret := range Returns(cal) {
		if ret.Block().Comment == "recover" {
			continue
		}
		rv := RetVals(ret)
		if idx >= len(rv) {
			ok = false
			break
		}
		n++
		if !e.fresh(rv[idx], depth+1, map[ssa.Value]bool{}) {
			ok = false
		}
	}
	if n == 0 {
		ok = false
	}
	if ok {
		e.freshFn[cal][idx] = 1
	} else {
		e.freshFn[cal][idx] = -1
	}
	return ok
}

// pubFreshAt: forward must-analysis.  At each instruction, the set of guarded-field addresses
// (origin terms) that hold an object stored as fresh since the write lock named in the value
// was taken and not released: that object has not been published yet.
func (e *pubEngine) freshAt(fn *ssa.Function, isField func(*ssa.FieldAddr) bool, mutexOf func(*ssa.FieldAddr) string, h map[ssa.Instruction]held, callersHoldW func(*ssa.FieldAddr) bool) map[ssa.Instruction]map[string]string {
	type state map[string]string // field address term -> mutex term
	clone := func(s state) state {
		n := state{}
		for k, v := range s {
			n[k] = v
		}
		return n
	}
	meetS := func(a, b state) state {
		n := state{}
		for k, v := range a {
			if b[k] == v {
				n[k] = v
			}
		}
		return n
	}
	eq := func(a, b state) bool {
		if len(a) != len(b) {
			return false
		}
		for k, v := range a {
			if b[k] != v {
				return false
			}
		}
		return true
	}
	res := map[ssa.Instruction]map[string]string{}
	if len(fn.Blocks) == 0 {
		return res
	}
	in := map[*ssa.BasicBlock]state{fn.Blocks[0]: {}}
	out := map[*ssa.BasicBlock]state{}
	visited := map[*ssa.BasicBlock]bool{}
	work := []*ssa.BasicBlock{fn.Blocks[0]}
	for len(work) > 0 {
		b := work[0]
		work = work[1:]
		cur := clone(in[b])
		for _, ins := range b.Instrs {
			res[ins] = clone(cur)
			switch x := ins.(type) {
			case *ssa.Store:
				if fa, ok := x.Addr.(*ssa.FieldAddr); ok && isField(fa) {
					k := e.r.D.D(fa)
					mu := mutexOf(fa)
					if (h[ins][mu] == 'W' || callersHoldW(fa)) && e.fresh(x.Val, 0, map[ssa.Value]bool{}) {
						cur[k] = mu
					} else {
						delete(cur, k)
					}
				}
			case *ssa.Call:
				if lockOp(&x.Call) == "-" {
					mu := e.r.D.D(x.Call.Args[0])
					for k, v := range cur {
						if v == mu {
							delete(cur, k)
						}
					}
				}
			}
		}
		if old, ok := out[b]; ok && visited[b] && eq(old, cur) {
			continue
		}
		visited[b] = true
		out[b] = cur
		for _, s := range b.Succs {
			if prev, ok := in[s]; ok {
				m := meetS(prev, cur)
				if !eq(m, prev) || !visited[s] {
					in[s] = m
					work = append(work, s)
				}
			} else {
				in[s] = clone(cur)
				work = append(work, s)
			}
		}
	}
	return res
}

// pubReachableAfter: instruction b may execute after instruction a (same function) without the
// instruction that creates the object (barrier, may be nil) executing in between — past the barrier
// the same SSA value names a new object.
func pubReachableAfter(a, b, barrier ssa.Instruction) bool {
	// within a's block, after a
	for _, in := range a.Block().Instrs[instrIdx(a)+1:] {
		if in == barrier {
			return false
		}
		if in == b {
			return true
		}
	}
	seen := map[*ssa.BasicBlock]bool{}
	work := append([]*ssa.BasicBlock{}, a.Block().Succs...)
	for len(work) > 0 {
		x := work[len(work)-1]
		work = work[:len(work)-1]
		if seen[x] {
			continue
		}
		seen[x] = true
		blocked := false
		for _, in := range x.Instrs {
			if in == barrier {
				blocked = true
				break
			}
			if in == b {
				return true
			}
		}
		if !blocked {
			work = append(work, x.Succs...)
		}
	}
	return false
}

// ---- the rule -------------------------------------------------------------------------------------------

type pubWitness struct {
	fn    string
	where string
	text  string
}

func pubFirst(ws []pubWitness) pubWitness {
	sort.SliceStable(ws, func(i, j int) bool {
		if ws[i].fn != ws[j].fn {
			return ws[i].fn < ws[j].fn
		}
		return ws[i].text < ws[j].text
	})
	return ws[0]
}

// lockPublication decides the publication discipline for one lock table entry.
// accs are the guarded accesses LockCheck judged (mode: how each was found to be protected).
func (r *Run) lockPublication(sp LockSpec, named *types.Named, st *types.Struct, accs []lockAccess, heldOf func(*ssa.Function) map[ssa.Instruction]held) {
	e := r.pubEngine()
	short := sp.Struct[strings.LastIndex(sp.Struct, ".")+1:]
	stat := pubStats[r]
	if stat == nil {
		stat = &pubStat{}
		pubStats[r] = stat
	}
	r.Assume("publication discipline: an object reachable from a guarded reference field is one object with everything it owns; a reference to one of its elements that leaves the critical section is not followed (only the reference held in the field itself is)")
	r.Assume("publication discipline: functions outside the module are followed three calls deep for writes through their arguments and are assumed not to keep an argument beyond the call; functions without a Go body (assembly) are assumed to do neither; memory of package sync / sync/atomic types and fields that have their own lock-table entry are synchronised by themselves, and so is a write made while a mutex that is part of the written object is write-locked")
	r.Assume("publication discipline: interface calls are resolved over the types declared in the module; a function value called dynamically is reported as undecided only when the object itself (not an element of it) is handed to it")

	refField := map[string]bool{}
	fieldIdx := map[string]int{}
	var refNames []string
	for i := 0; i < st.NumFields(); i++ {
		f := st.Field(i)
		for _, g := range sp.Fields {
			if f.Name() == g {
				fieldIdx[g] = i
				if pubHoldsRef(f.Type()) {
					refField[g] = true
					refNames = append(refNames, g)
				}
			}
		}
	}
	sort.Strings(refNames)
	if len(refNames) == 0 {
		r.Pass("published-object:table:"+short, "-", "no guarded field of "+sp.Struct+" holds a reference: nothing is published through it")
		return
	}
	accOf := map[ssa.Instruction]*lockAccess{}
	for i := range accs {
		accOf[accs[i].instr] = &accs[i]
	}
	isField := func(fa *ssa.FieldAddr) bool {
		pt, ok := fa.X.Type().Underlying().(*types.Pointer)
		if !ok {
			return false
		}
		nt, ok := pt.Elem().(*types.Named)
		return ok && nt.Obj() == named.Obj() && refField[st.Field(fa.Field).Name()]
	}
	mutexOf := func(fa *ssa.FieldAddr) string {
		return "&(" + selBase(r.D.D(fa.X)) + "." + sp.Mutex + ")"
	}

	// alias classes of fields (an object moved from one guarded field to another under the same lock)
	parent := map[string]string{}
	var find func(string) string
	find = func(x string) string {
		if p, ok := parent[x]; ok && p != x {
			parent[x] = find(p)
			return parent[x]
		}
		return x
	}
	union := func(a, b string) {
		a, b = find(a), find(b)
		if a != b {
			if b < a {
				a, b = b, a
			}
			parent[b] = a
		}
	}
	esc := map[string][]pubWitness{}
	mut := map[string][]pubWitness{}
	pre := map[string]int{} // mutations before publication (fresh object, same write-locked section)
	loads := map[string]int{}
	stores := map[string]int{}
	undecided := map[string][]pubWitness{}
	readLockMut := map[string][]pubWitness{}
	wit := func(fn *ssa.Function, in ssa.Instruction, text string) pubWitness {
		return pubWitness{FuncName(fn), r.Where(in), text}
	}

	// results of getters are followed into their callers
	type prop struct {
		fn      *ssa.Function
		idx     int
		t       pubTaint
		escaped bool
		basePar int // parameter of fn that carries the struct (callers-hold mode); -1 when escaped
		field   string
		depth   int
	}
	var queue []prop
	seenProp := map[string]bool{}
	push := func(p prop) {
		k := fmt.Sprintf("%p|%d|%v|%v|%s", p.fn, p.idx, p.t, p.escaped, p.field)
		if seenProp[k] || p.depth > 4 {
			return
		}
		seenProp[k] = true
		queue = append(queue, p)
	}

	// judge: interpret the events of one walk.  mode 'o' = this function holds the lock itself at the
	// load, 'c' = its callers hold it (lock-required summary of LockCheck), 'e' = the reference had
	// already escaped (only mutations matter).
	judge := func(fn *ssa.Function, field string, evs []pubEvent, mode byte, mu string, base string, basePar int,
		exempt func(in ssa.Instruction) bool, depth int) {
		var h map[ssa.Instruction]held
		if mode == 'o' {
			h = heldOf(fn)
		}
		for _, v := range evs {
			heldHere := byte(0)
			if mode == 'o' {
				heldHere = h[v.in][mu]
			}
			switch v.kind {
			case 'u':
				if mode == 'o' && heldHere == 0 && !v.t.deep {
					esc[field] = append(esc[field], wit(fn, v.in, "used after "+mu+" is released ("+v.why+")"))
				}
			case 'k':
				if st2, ok := v.in.(*ssa.Store); ok && mode != 'e' {
					if fa2, ok := st2.Addr.(*ssa.FieldAddr); ok && isField(fa2) && selBase(r.D.D(fa2.X)) == base {
						union(field, st.Field(fa2.Field).Name()) // moved to a field guarded by the same lock
						continue
					}
				}
				if mode != 'e' {
					esc[field] = append(esc[field], wit(fn, v.in, v.why))
				}
			case 'r':
				if v.t.deep {
					// an element of the object leaves: not followed as an escape of the object; writes through it still count
					push(prop{fn, v.idx, v.t, true, -1, field, depth + 1})
					continue
				}
				switch mode {
				case 'o':
					esc[field] = append(esc[field], wit(fn, v.in, "returned to the caller (the lock is released on return)"))
					push(prop{fn, v.idx, v.t, true, -1, field, depth + 1})
				case 'c':
					push(prop{fn, v.idx, v.t, false, basePar, field, depth + 1})
				case 'e':
					push(prop{fn, v.idx, v.t, true, -1, field, depth + 1})
				}
			case 'm':
				if exempt != nil && exempt(v.in) {
					pre[field]++
					continue
				}
				mut[field] = append(mut[field], wit(fn, v.in, v.why))
				if mode == 'o' && heldHere == 'R' {
					readLockMut[field] = append(readLockMut[field], wit(fn, v.in, v.why+" while only the read lock "+mu+" is held"))
				}
				if mode == 'o' && heldHere == 0 {
					esc[field] = append(esc[field], wit(fn, v.in, "used after "+mu+" is released ("+v.why+")"))
				}
			case '?':
				if !v.t.deep {
					undecided[field] = append(undecided[field], wit(fn, v.in, v.why))
				}
			}
		}
	}

	for _, fn := range r.P.ModFuncs {
		var fas []*ssa.FieldAddr
		eachInstr(fn, func(in ssa.Instruction) {
			if fa, ok := in.(*ssa.FieldAddr); ok && isField(fa) {
				fas = append(fas, fa)
			}
		})
		if len(fas) == 0 {
			continue
		}
		var fresh map[ssa.Instruction]map[string]string
		freshAt := func() map[ssa.Instruction]map[string]string {
			if fresh == nil {
				fresh = e.freshAt(fn, isField, mutexOf, heldOf(fn), func(fa *ssa.FieldAddr) bool {
					// a write that LockCheck accepted because every caller holds the (write) lock
					a := accOf[fa]
					return a != nil && a.ok && a.write && a.mode == 'c'
				})
			}
			return fresh
		}
		for _, fa := range fas {
			field := st.Field(fa.Field).Name()
			acc := accOf[fa]
			if acc == nil {
				continue
			}
			mode := byte(0)
			switch {
			case !acc.ok:
				continue // the guarded-by obligation already fails
			case acc.mode == 'h':
				mode = 'o'
			case acc.mode == 'c':
				mode = 'c'
			default:
				continue // construction / init phase: the object is not shared yet
			}
			base := acc.base
			mu := mutexOf(fa)
			basePar := -1
			if p, ok := fa.X.(*ssa.Parameter); ok {
				basePar = paramIndex(p)
			}
			term := r.D.D(fa)
			if fa.Referrers() == nil {
				continue
			}
			for _, ref := range *fa.Referrers() {
				switch x := ref.(type) {
				case *ssa.DebugRef:
				case *ssa.UnOp:
					if x.Op != token.MUL {
						continue
					}
					loads[field]++
					rt := pubTaint{}
					if pubAggregate(x.Type()) {
						rt = pubTaint{box: true, path: "*"}
					}
					evs := e.track(fn, map[ssa.Value]pubTaint{x: rt}, 0)
					load := x
					exempt := func(in ssa.Instruction) bool {
						f := freshAt()
						return f[load][term] == mu && f[in][term] == mu
					}
					judge(fn, field, evs, mode, mu, base, basePar, exempt, 0)
				case *ssa.Store:
					if x.Addr != fa {
						// &X.f stored somewhere: the address of the guarded word escapes
						undecided[field] = append(undecided[field], wit(fn, x, "the address of the guarded field is stored"))
						continue
					}
					stores[field]++
					// the local the object is published from: mutating it once the section is over is a
					// mutation after publication
					src := x.Val
					if c, ok := src.(*ssa.Const); ok && c.IsNil() {
						continue
					}
					if _, isLoad := accOf[pubLoadOfField(src)]; isLoad {
						continue // d.f = d.g / d.f = d.f: followed from the load
					}
					pub := x
					var barrier ssa.Instruction
					if in, ok := src.(ssa.Instruction); ok && e.fresh(src, 0, map[ssa.Value]bool{}) {
						if _, isPhi := src.(*ssa.Phi); !isPhi {
							barrier = in // each execution of it makes a new object
						}
					}
					srcT := pubTaint{}
					if pubAggregate(src.Type()) {
						srcT = pubTaint{box: true, path: "*"}
					}
					evs := e.track(fn, map[ssa.Value]pubTaint{src: srcT}, 0)
					for _, v := range evs {
						if v.kind != 'm' || !pubReachableAfter(pub, v.in, barrier) {
							continue
						}
						if freshAt()[v.in][term] == mu {
							pre[field]++
							continue
						}
						mut[field] = append(mut[field], wit(fn, v.in, v.why+" — through the value that was stored into the field, after the critical section that published it"))
					}
				case *ssa.FieldAddr, *ssa.IndexAddr:
					// a struct / array kept by value in the guarded field: its parts are loaded through nested addresses
					loads[field]++
					evs := e.track(fn, map[ssa.Value]pubTaint{x.(ssa.Value): {box: true, path: "*"}}, 0)
					judge(fn, field, evs, mode, mu, base, basePar, nil, 0)
				default:
					undecided[field] = append(undecided[field], wit(fn, ref, "the address of the guarded field is taken"))
				}
			}
		}
	}
	// follow returned references into the callers
	for len(queue) > 0 {
		p := queue[0]
		queue = queue[1:]
		if e.asValue[p.fn] && !p.escaped {
			esc[p.field] = append(esc[p.field], pubWitness{FuncName(p.fn), r.FnPos(p.fn), "returned by a function that is also used as a value (callers not enumerable)"})
		}
		for _, s := range e.callers[p.fn] {
			call, ok := s.call.(*ssa.Call)
			if !ok {
				continue
			}
			roots := map[ssa.Value]pubTaint{}
			if p.fn.Signature.Results().Len() == 1 {
				roots[call] = p.t
			} else if call.Referrers() != nil {
				for _, ref := range *call.Referrers() {
					if ex, ok := ref.(*ssa.Extract); ok && ex.Index == p.idx {
						roots[ex] = p.t
					}
				}
			}
			if len(roots) == 0 {
				continue
			}
			evs := e.track(s.fn, roots, 0)
			if p.escaped {
				judge(s.fn, p.field, evs, 'e', "", "", -1, nil, p.depth)
				continue
			}
			args := CallArgs(s.call)
			if p.basePar < 0 || p.basePar >= len(args) {
				esc[p.field] = append(esc[p.field], wit(s.fn, call, "returned by "+FuncName(p.fn)+" to a caller whose lock cannot be matched"))
				judge(s.fn, p.field, evs, 'e', "", "", -1, nil, p.depth)
				continue
			}
			base := selBase(r.D.D(args[p.basePar]))
			mu := "&(" + base + "." + sp.Mutex + ")"
			if _, holds := heldOf(s.fn)[call][mu]; holds {
				judge(s.fn, p.field, evs, 'o', mu, base, -1, nil, p.depth)
			} else {
				bp := -1
				if q, ok := args[p.basePar].(*ssa.Parameter); ok {
					bp = paramIndex(q)
				}
				judge(s.fn, p.field, evs, 'c', mu, base, bp, nil, p.depth)
			}
		}
	}

	// verdicts per alias class
	nLoads, nStores := 0, 0
	for _, f := range refNames {
		nLoads += loads[f]
		nStores += stores[f]
	}
	classEsc := map[string][]pubWitness{}
	classMut := map[string][]pubWitness{}
	for _, f := range refNames {
		c := find(f)
		classEsc[c] = append(classEsc[c], esc[f]...)
		classMut[c] = append(classMut[c], mut[f]...)
	}
	for c := range classEsc {
		classEsc[c] = pubUniq(classEsc[c])
	}
	for c := range classMut {
		classMut[c] = pubUniq(classMut[c])
	}
	for _, f := range refNames {
		c := find(f)
		es, ms := classEsc[c], classMut[c]
		stat.fields++
		stat.loads += loads[f]
		stat.stores += stores[f]
		alias := ""
		if c != f || func() bool {
			for _, g := range refNames {
				if g != f && find(g) == c {
					return true
				}
			}
			return false
		}() {
			var gs []string
			for _, g := range refNames {
				if g != f && find(g) == c {
					gs = append(gs, g)
				}
			}
			alias = " (objects move between this field and " + strings.Join(gs, ", ") + " under the same lock)"
		}
		key := "published-object:" + short + "." + f
		if os.Getenv("CTVERIF_PUB_DEBUG") != "" { // dev aid: every witness
			fmt.Fprintf(os.Stderr, "PUB %s.%s: loads=%d stores=%d pre=%d\n", short, f, loads[f], stores[f], pre[f])
			for _, w := range es {
				fmt.Fprintf(os.Stderr, "   E %s %s: %s\n", w.fn, w.where, w.text)
			}
			for _, w := range ms {
				fmt.Fprintf(os.Stderr, "   M %s %s: %s\n", w.fn, w.where, w.text)
			}
			for _, w := range undecided[f] {
				fmt.Fprintf(os.Stderr, "   ? %s %s: %s\n", w.fn, w.where, w.text)
			}
		}
		switch {
		case len(es) > 0 && len(ms) > 0:
			ew, mw := pubFirst(es), pubFirst(ms)
			stat.escaping++
			stat.mutated++
			r.Fail(key, mw.where, fmt.Sprintf("the object published through %s.%s (guarded by %s) is neither confined to the critical sections nor immutable after publication%s: a reference loaded from the field escapes — in %s at %s: %s — and the object is mutated in place — in %s at %s: %s. A reader that still holds the reference races with that write; either keep every use under the lock or replace the field by a fresh object instead of writing into the published one (%d escaping uses, %d in-place mutations)",
				sp.Struct, f, sp.Mutex, alias, ew.fn, ew.where, ew.text, mw.fn, mw.where, mw.text, len(es), len(ms)))
		case len(es) > 0:
			ew := pubFirst(es)
			stat.escaping++
			stat.confinedOrCow++
			r.Pass(key, ew.where, fmt.Sprintf("%s.%s%s: references escape the critical section (%d, e.g. in %s: %s) and no function of the module writes into the published object (copy-on-write; %d writes to the field, %d loads, %d mutations before publication)", sp.Struct, f, alias, len(es), ew.fn, ew.text, stores[f], loads[f], pre[f]))
		case len(ms) > 0:
			mw := pubFirst(ms)
			stat.mutated++
			stat.confinedOrCow++
			r.Pass(key, mw.where, fmt.Sprintf("%s.%s%s: the object is mutated in place (%d, e.g. in %s: %s) and no reference loaded from the field outlives its critical section (confined; %d loads)", sp.Struct, f, alias, len(ms), mw.fn, mw.text, loads[f]))
		default:
			stat.confinedOrCow++
			r.Pass(key, "-", fmt.Sprintf("%s.%s%s: references stay inside the critical sections and the published object is never written (%d loads, %d writes to the field, %d mutations before publication)", sp.Struct, f, alias, loads[f], stores[f], pre[f]))
		}
		for _, w := range dedupWitness(readLockMut[f]) {
			r.Fail("published-object:write-mode:"+short+"."+f+"@"+w.fn, w.where, fmt.Sprintf("in-place mutation of the object behind %s.%s under the read lock only: %s (two readers may run this at once)", sp.Struct, f, w.text))
		}
		for _, w := range dedupWitness(undecided[f]) {
			r.Fail("published-object:undecided:"+short+"."+f+"@"+w.fn, w.where, fmt.Sprintf("undecided: the object behind %s.%s is %s — what that code does with it cannot be seen", sp.Struct, f, w.text))
		}
	}
	r.Check("published-object:table:"+short, nLoads+nStores > 0, "-", fmt.Sprintf("%d guarded reference fields of %s (%s): %d loads and %d stores followed", len(refNames), sp.Struct, strings.Join(refNames, ", "), nLoads, nStores))
}

func pubUniq(ws []pubWitness) []pubWitness {
	seen := map[pubWitness]bool{}
	var out []pubWitness
	for _, w := range ws {
		if !seen[w] {
			seen[w] = true
			out = append(out, w)
		}
	}
	return out
}

func dedupWitness(ws []pubWitness) []pubWitness {
	seen := map[string]bool{}
	var out []pubWitness
	sort.SliceStable(ws, func(i, j int) bool {
		if ws[i].fn != ws[j].fn {
			return ws[i].fn < ws[j].fn
		}
		return ws[i].text < ws[j].text
	})
	for _, w := range ws {
		if !seen[w.fn] {
			seen[w.fn] = true
			out = append(out, w)
		}
	}
	return out
}

// pubLoadOfField: the FieldAddr a value was loaded from (through conversions), if any.
func pubLoadOfField(v ssa.Value) ssa.Instruction {
	for i := 0; i < 4; i++ {
		switch x := v.(type) {
		case *ssa.ChangeType:
			v = x.X
		case *ssa.MakeInterface:
			v = x.X
		case *ssa.UnOp:
			if fa, ok := x.X.(*ssa.FieldAddr); ok && x.Op == token.MUL {
				return fa
			}
			return nil
		default:
			return nil
		}
	}
	return nil
}

// pubReset forgets the counts of earlier passes over the same run (build configurations).
func (r *Run) pubReset() { delete(pubStats, r) }

// pubFloors: positive controls of the publication discipline over the tables a property ran.
func (r *Run) pubFloors(fields int) {
	s := pubStats[r]
	if s == nil {
		s = &pubStat{}
	}
	r.Floor("guarded reference fields examined", s.fields, fields)
	r.Floor("fields whose references escape the critical section (copy-on-write side seen)", s.escaping, 1)
	r.Floor("fields whose object is mutated in place (confinement side seen)", s.mutated, 1)
	r.Check("publication:loads-followed", s.loads >= s.fields && s.stores >= 1, "-", fmt.Sprintf("%d loads and %d stores of %d guarded reference fields followed", s.loads, s.stores, s.fields))
}
