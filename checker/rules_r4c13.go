package main

// "The attempt opens every iteration" (C13.R1 retry:loop) and what may stand before it.
//
// The per-status / per-error judgements of the retry rules are walks that start at the attempt and
// follow the code until the attempt is reached again: they describe ONE ITERATION, provided that
// every iteration starts with the attempt.  The fact wanted is therefore:
//
//	every time control enters the innermost loop around the attempt — from outside or round the
//	loop — it reaches the attempt after finitely many steps, and nothing that happens on the
//	way can be observed by the mechanism: no wait, no exit (return / panic), no other attempt,
//	no write to memory that the program reads for anything but reporting.
//
// It used to be established by demanding that the attempt's block IS the loop header.  Here it is
// established on the region between the loop header and the attempt: the region is acyclic, closed
// (its only way out is the attempt) and made of effect-free instructions.  Effect-free is decided
// structurally: value computations, stores into memory allocated by the same function, pure library
// calls, reporting sinks (library loggers; interface methods without results that take a variadic
// ...interface{}), module functions whose bodies are effect-free in the same sense, and atomic
// updates of a field that the whole module reads for reporting only (each value read from it ends
// in a reporting sink, in a caller that does the same, or nowhere).

import (
	"fmt"
	"go/token"
	"go/types"
	"strings"

	"golang.org/x/tools/go/ssa"
)

// HeadOfIteration decides the fact above for the instruction at.
func (r *Run) HeadOfIteration(at ssa.Instruction) (bool, string) {
	a := at.Block()
	h := LoopHeadOf(a)
	if h == nil {
		return false, "it is not inside a loop"
	}
	ef := &effectFree{r: r, busy: map[*ssa.Function]bool{}, memo: map[*ssa.Function]string{}}
	pre := PrefixBlocks(h, a)
	inPre := map[*ssa.BasicBlock]bool{}
	for _, b := range pre {
		inPre[b] = true
	}
	// acyclic: from no block of the region can control come back to it without passing the attempt
	for _, b := range pre {
		if CycleAvoiding(b, map[*ssa.BasicBlock]bool{a: true}) {
			return false, "control can go round the loop without making the attempt (" + r.P.InstrPos(firstPosInstr(b)) + ")"
		}
	}
	for _, b := range pre {
		for _, in := range b.Instrs {
			if why := ef.instr(in, 0); why != "" {
				return false, "before the attempt of an iteration: " + why + " at " + r.Where(in)
			}
		}
	}
	for _, in := range a.Instrs {
		if in == at {
			break
		}
		if why := ef.instr(in, 0); why != "" {
			return false, "before the attempt of an iteration: " + why + " at " + r.Where(in)
		}
	}
	return true, ""
}

// localCell: addr is a local allocation or a field / element inside one (no load on the way).
func localCell(addr ssa.Value) *ssa.Alloc {
	for i := 0; i < 8 && addr != nil; i++ {
		switch x := addr.(type) {
		case *ssa.Alloc:
			return x
		case *ssa.FieldAddr:
			addr = x.X
		case *ssa.IndexAddr:
			addr = x.X
		default:
			return nil
		}
	}
	return nil
}

func firstPosInstr(b *ssa.BasicBlock) ssa.Instruction {
	for _, in := range b.Instrs {
		if in.Pos().IsValid() {
			return in
		}
	}
	if len(b.Instrs) > 0 {
		return b.Instrs[0]
	}
	return nil
}

// ---- effect-free instructions ---------------------------------------------------------

type effectFree struct {
	r    *Run
	busy map[*ssa.Function]bool
	memo map[*ssa.Function]string
	// counters: field -> "" (reporting only) or the reason why not
	counters map[types.Object]string
}

const effectFreeDepth = 3

// instr returns "" when the instruction has no effect the mechanism can observe, else what it is.
func (e *effectFree) instr(in ssa.Instruction, depth int) string {
	switch x := in.(type) {
	case *ssa.Phi, *ssa.FieldAddr, *ssa.Field, *ssa.IndexAddr, *ssa.Index, *ssa.Slice, *ssa.Convert,
		*ssa.ChangeType, *ssa.ChangeInterface, *ssa.MakeInterface, *ssa.Extract, *ssa.Alloc, *ssa.Lookup,
		*ssa.DebugRef, *ssa.If, *ssa.Jump, *ssa.MakeSlice, *ssa.MakeMap:
		return ""
	case *ssa.BinOp:
		if x.Op == token.QUO || x.Op == token.REM {
			if c, ok := x.Y.(*ssa.Const); !ok || c.Value == nil || c.Value.ExactString() == "0" {
				return "a division that may panic"
			}
		}
		return ""
	case *ssa.UnOp:
		if x.Op == token.ARROW {
			return "a channel receive (may wait)"
		}
		return ""
	case *ssa.TypeAssert:
		if x.CommaOk {
			return ""
		}
		return "a type assertion that may panic"
	case *ssa.Store:
		if al := localCell(x.Addr); al != nil && al.Parent() == in.Parent() {
			return ""
		}
		return "a store to " + e.r.D.D(x.Addr)
	case *ssa.Return:
		return "a return"
	case *ssa.Panic:
		return "a panic"
	case *ssa.Select:
		return "a select (may wait)"
	case *ssa.Send:
		return "a channel send (may wait)"
	case *ssa.Go:
		return "a go statement"
	case *ssa.Defer, *ssa.RunDefers:
		return "a deferred call"
	case *ssa.MapUpdate:
		return "a map update"
	case *ssa.Call:
		return e.call(x, depth)
	}
	return fmt.Sprintf("a %T instruction", in)
}

// body: every instruction of fn is effect-free (returns apart).
func (e *effectFree) body(fn *ssa.Function, depth int) string {
	if why, ok := e.memo[fn]; ok {
		return why
	}
	if e.busy[fn] {
		return "recursion through " + FuncName(fn)
	}
	if depth > effectFreeDepth {
		return "calls nested too deeply at " + FuncName(fn)
	}
	if fn.Recover != nil {
		return FuncName(fn) + " recovers"
	}
	e.busy[fn] = true
	why := ""
	for _, b := range fn.Blocks {
		for _, in := range b.Instrs {
			if _, isRet := in.(*ssa.Return); isRet {
				continue
			}
			if w := e.instr(in, depth); w != "" {
				why = FuncName(fn) + ": " + w
				break
			}
		}
		if why != "" {
			break
		}
	}
	delete(e.busy, fn)
	e.memo[fn] = why
	return why
}

func pkgPathOf(fn *ssa.Function) string {
	if pk := fnPkg(fn); pk != nil {
		return pk.Path()
	}
	return ""
}

func inModule(fn *ssa.Function) bool {
	p := pkgPathOf(fn)
	return p == ModPath || strings.HasPrefix(p, ModPath+"/")
}

// reportingSink: a call that only reports its arguments (library loggers that return; an interface
// method without results whose last parameter is a variadic ...interface{}).
func reportingSink(c *ssa.CallCommon) bool {
	if c.IsInvoke() {
		return printfLikeIface(c.Value.Type())
	}
	f := c.StaticCallee()
	if f == nil {
		return false
	}
	n := f.Name()
	switch path := pkgPathOf(f); {
	case strings.HasSuffix(path, "/klog") || strings.HasSuffix(path, "/klog/v2") || strings.HasSuffix(path, "/glog"):
		for _, p := range []string{"Info", "Warning", "Error"} {
			if strings.HasPrefix(n, p) {
				return true
			}
		}
	case path == "log":
		return strings.HasPrefix(n, "Print")
	}
	return false
}

// printfLikeIface: every method of the interface has no result and ends in a variadic
// ...interface{} parameter: calling it can hand nothing back to the caller.
func printfLikeIface(t types.Type) bool {
	it, ok := t.Underlying().(*types.Interface)
	if !ok || it.NumMethods() == 0 {
		return false
	}
	for i := 0; i < it.NumMethods(); i++ {
		sig, ok := it.Method(i).Type().(*types.Signature)
		if !ok || sig.Results().Len() != 0 || !sig.Variadic() {
			return false
		}
		last := sig.Params().At(sig.Params().Len() - 1).Type()
		sl, ok := last.(*types.Slice)
		if !ok {
			return false
		}
		el, ok := sl.Elem().Underlying().(*types.Interface)
		if !ok || el.NumMethods() != 0 {
			return false
		}
	}
	return true
}

// pureLibrary: library functions that compute a value from their arguments (or read the clock /
// a verbosity flag) and do nothing else.
func pureLibrary(f *ssa.Function) bool {
	n := f.Name()
	switch path := pkgPathOf(f); {
	case path == "fmt":
		return strings.HasPrefix(n, "Sprint") || n == "Errorf"
	case path == "errors":
		return n == "New"
	case path == "strconv":
		return strings.HasPrefix(n, "Itoa") || strings.HasPrefix(n, "Format") || strings.HasPrefix(n, "Quote")
	case path == "strings":
		switch n {
		case "TrimSuffix", "TrimPrefix", "TrimSpace", "HasPrefix", "HasSuffix", "Contains", "ToLower", "ToUpper", "Join":
			return true
		}
	case path == "time":
		switch n {
		case "Now", "Since", "Sub", "String", "Seconds", "Milliseconds", "Round", "Truncate":
			return true
		}
	case strings.HasSuffix(path, "/klog") || strings.HasSuffix(path, "/klog/v2") || strings.HasSuffix(path, "/glog"):
		return n == "V" || n == "Enabled"
	}
	return false
}

// atomicOp classifies a call of sync/atomic: "read" (Load*), "write" (everything else), "" (not atomic).
func atomicOp(c *ssa.CallCommon) string {
	f := c.StaticCallee()
	if f == nil || c.IsInvoke() || pkgPathOf(f) != "sync/atomic" || len(c.Args) == 0 {
		return ""
	}
	if strings.HasPrefix(f.Name(), "Load") {
		return "read"
	}
	return "write"
}

func (e *effectFree) call(x *ssa.Call, depth int) string {
	c := x.Common()
	if b, ok := c.Value.(*ssa.Builtin); ok {
		switch b.Name() {
		case "len", "cap", "min", "max", "append", "real", "imag", "complex":
			return ""
		}
		return "a call of " + b.Name()
	}
	if reportingSink(c) {
		return ""
	}
	if c.IsInvoke() {
		return "a call of " + CalleeOf(x)
	}
	f := c.StaticCallee()
	if f == nil {
		return "a dynamic call " + CalleeOf(x)
	}
	switch atomicOp(c) {
	case "read":
		return ""
	case "write":
		if why := e.reportingOnly(c.Args[0]); why != "" {
			return "an atomic update of " + e.r.D.D(c.Args[0]) + ", which is not read for reporting only (" + why + ")"
		}
		return ""
	}
	if pureLibrary(f) {
		return ""
	}
	if inModule(f) && len(f.Blocks) > 0 {
		if why := e.body(f, depth+1); why != "" {
			return "a call of " + why
		}
		return ""
	}
	return "a call of " + CalleeOf(x)
}

// ---- fields read for reporting only ---------------------------------------------------

// reportingOnly: the variable addressed by addr — a struct field or a package-level variable — is,
// in the whole module, touched by sync/atomic calls and plain loads only, and every value read
// from it is observed by reporting sinks alone.
func (e *effectFree) reportingOnly(addr ssa.Value) string {
	var key types.Object
	switch x := addr.(type) {
	case *ssa.FieldAddr:
		if fv := fieldOf(x); fv != nil {
			key = fv
		}
	case *ssa.Global:
		key = x.Object()
	}
	if key == nil {
		return "neither a field nor a package-level variable"
	}
	if e.counters == nil {
		e.counters = map[types.Object]string{}
	}
	if why, ok := e.counters[key]; ok {
		return why
	}
	e.counters[key] = "" // a cycle through the variable itself adds nothing
	why := e.reportingOnly1(key, addr)
	e.counters[key] = why
	return why
}

func (e *effectFree) reportingOnly1(key types.Object, addr0 ssa.Value) string {
	ob := &observed{e: e, seen: map[ssa.Value]bool{}}
	// use: instruction ref uses the address x of the variable
	use := func(fn *ssa.Function, x ssa.Value, ref ssa.Instruction) string {
		switch u := ref.(type) {
		case *ssa.Call:
			op := atomicOp(u.Common())
			if op == "" || u.Common().Args[0] != x {
				return "handed to " + CalleeOf(u) + " in " + FuncName(fn)
			}
			for _, a := range u.Common().Args[1:] {
				if a == x {
					return "handed to " + CalleeOf(u) + " in " + FuncName(fn)
				}
			}
			return ob.value(u, 0)
		case *ssa.UnOp:
			if u.Op != token.MUL {
				return "used by " + u.String() + " in " + FuncName(fn)
			}
			return ob.value(u, 0)
		case *ssa.Store:
			if u.Addr == x && u.Val != x {
				return "" // a write: nothing is read
			}
		case *ssa.DebugRef:
			return ""
		}
		return fmt.Sprintf("used by a %T in %s", ref, FuncName(fn))
	}
	for _, fn := range e.r.P.ModFuncs {
		for _, b := range fn.Blocks {
			for _, in := range b.Instrs {
				if g, isGlobal := addr0.(*ssa.Global); isGlobal {
					for _, op := range in.Operands(nil) {
						if op != nil && *op == ssa.Value(g) {
							if why := use(fn, g, in); why != "" {
								return why
							}
							break
						}
					}
					continue
				}
				switch x := in.(type) {
				case *ssa.FieldAddr:
					if types.Object(fieldOf(x)) != key || fieldOf(x) == nil {
						continue
					}
					for _, ref := range *x.Referrers() {
						if why := use(fn, x, ref); why != "" {
							return why
						}
					}
				case *ssa.Field:
					// read out of a copy of the struct: a read of the same variable
					if fv := fieldOfVal(x); fv != nil && types.Object(fv) == key {
						if why := ob.value(x, 0); why != "" {
							return why
						}
					}
				}
			}
		}
	}
	return ""
}

// observed decides that a value ends in reporting sinks only.
type observed struct {
	e    *effectFree
	seen map[ssa.Value]bool
}

const observedDepth = 12

func (o *observed) value(v ssa.Value, depth int) string {
	if o.seen[v] {
		return ""
	}
	o.seen[v] = true
	if depth > observedDepth {
		return "value followed too far: " + v.String()
	}
	refs := v.Referrers()
	if refs == nil {
		return ""
	}
	where := func(in ssa.Instruction) string {
		return fmt.Sprintf("%s in %s", o.e.r.P.InstrPos(in), FuncName(in.Parent()))
	}
	for _, ref := range *refs {
		switch u := ref.(type) {
		case *ssa.DebugRef:
		case *ssa.MakeInterface, *ssa.Convert, *ssa.ChangeType, *ssa.ChangeInterface, *ssa.Phi, *ssa.Extract, *ssa.Field, *ssa.Slice:
			if why := o.value(u.(ssa.Value), depth+1); why != "" {
				return why
			}
		case *ssa.FieldAddr, *ssa.IndexAddr:
			// v points to (or is a slice of) memory that holds the value
			if why := o.cell(u.(ssa.Value), depth+1); why != "" {
				return why
			}
		case *ssa.UnOp:
			if u.Op != token.MUL {
				return "computed with at " + where(u)
			}
			if why := o.value(u, depth+1); why != "" {
				return why
			}
		case *ssa.Store:
			if u.Val != v {
				continue // v is the address: a store INTO the container
			}
			al := localCell(u.Addr)
			if al == nil || al.Parent() != u.Parent() {
				return "stored to " + o.e.r.D.D(u.Addr) + " at " + where(u)
			}
			if why := o.container(al, depth+1); why != "" {
				return why
			}
		case *ssa.Return:
			if why := o.callers(u.Parent(), u, v, depth+1); why != "" {
				return why
			}
		case *ssa.Call:
			c := u.Common()
			if reportingSink(c) {
				continue
			}
			f := c.StaticCallee()
			if f != nil && !c.IsInvoke() && pureLibrary(f) {
				if why := o.value(u, depth+1); why != "" {
					return why
				}
				continue
			}
			if f != nil && inModule(f) && len(f.Blocks) > 0 {
				for i, a := range c.Args {
					if a == v && i < len(f.Params) {
						if why := o.value(f.Params[i], depth+1); why != "" {
							return why
						}
					}
				}
				continue
			}
			return "handed to " + CalleeOf(u) + " at " + where(u)
		default:
			return fmt.Sprintf("used by a %T at %s", ref, where(ref))
		}
	}
	return ""
}

// cell: addr points into a container that holds an observed value: what is loaded through it is
// observed too; stores through it put something in, which is nobody's observation.
func (o *observed) cell(addr ssa.Value, depth int) string {
	if o.seen[addr] {
		return ""
	}
	o.seen[addr] = true
	refs := addr.Referrers()
	if refs == nil {
		return ""
	}
	for _, ref := range *refs {
		switch u := ref.(type) {
		case *ssa.DebugRef:
		case *ssa.Store:
			if u.Addr != addr {
				return "address kept at " + o.e.r.P.InstrPos(u)
			}
		case *ssa.UnOp:
			if u.Op != token.MUL {
				return "used at " + o.e.r.P.InstrPos(u)
			}
			if why := o.value(u, depth+1); why != "" {
				return why
			}
		case *ssa.FieldAddr, *ssa.IndexAddr:
			if why := o.cell(u.(ssa.Value), depth+1); why != "" {
				return why
			}
		default:
			return fmt.Sprintf("its address is used by a %T at %s", ref, o.e.r.P.InstrPos(ref))
		}
	}
	return ""
}

// container: a local of the function (struct being filled, argument array of a variadic call) now
// holds the value: everything read out of it is observed.
func (o *observed) container(al *ssa.Alloc, depth int) string {
	if o.seen[al] {
		return ""
	}
	o.seen[al] = true
	for _, ref := range *al.Referrers() {
		switch u := ref.(type) {
		case *ssa.DebugRef:
		case *ssa.Store:
			if u.Addr != ssa.Value(al) {
				return "address of the local kept at " + o.e.r.P.InstrPos(u)
			}
		case *ssa.UnOp:
			if u.Op != token.MUL {
				return "used at " + o.e.r.P.InstrPos(u)
			}
			if why := o.value(u, depth+1); why != "" {
				return why
			}
		case *ssa.FieldAddr, *ssa.IndexAddr:
			if why := o.cell(u.(ssa.Value), depth+1); why != "" {
				return why
			}
		case *ssa.Slice:
			if why := o.value(u, depth+1); why != "" {
				return why
			}
		default:
			return fmt.Sprintf("local holding it is used by a %T at %s", ref, o.e.r.P.InstrPos(ref))
		}
	}
	return ""
}

// callers: fn returns the value (as result number idx of ret): every call of fn in the module is
// followed; fn must not be used as a value (method value, closure, interface satisfaction is not
// visible here — so the holder of the method must not be converted to an interface that has it).
func (o *observed) callers(fn *ssa.Function, ret *ssa.Return, v ssa.Value, depth int) string {
	var idxs []int
	for i, rv := range ret.Results {
		if rv == v {
			idxs = append(idxs, i)
		}
	}
	if fn.Parent() != nil {
		return "returned by the function literal " + FuncName(fn)
	}
	for _, g := range o.e.r.P.ModFuncs {
		for _, b := range g.Blocks {
			for _, in := range b.Instrs {
				ci, isCall := in.(ssa.CallInstruction)
				if isCall && ci.Common().StaticCallee() == fn {
					for _, a := range ci.Common().Args {
						if a == ssa.Value(fn) {
							return FuncName(fn) + " is used as a value in " + FuncName(g)
						}
					}
					call, plain := in.(*ssa.Call)
					if !plain {
						continue // go / defer: results dropped
					}
					if len(ret.Results) == 1 {
						if why := o.value(call, depth+1); why != "" {
							return why
						}
						continue
					}
					for _, ref := range *call.Referrers() {
						ex, ok := ref.(*ssa.Extract)
						if !ok {
							if _, dbg := ref.(*ssa.DebugRef); dbg {
								continue
							}
							return "results of " + FuncName(fn) + " used as a tuple in " + FuncName(g)
						}
						for _, i := range idxs {
							if ex.Index == i {
								if why := o.value(ex, depth+1); why != "" {
									return why
								}
							}
						}
					}
					continue
				}
				for _, op := range in.Operands(nil) {
					if op == nil || *op == nil {
						continue
					}
					if *op == ssa.Value(fn) {
						return FuncName(fn) + " is used as a value in " + FuncName(g)
					}
					// bound-method / thunk wrappers of fn
					if f2, ok := (*op).(*ssa.Function); ok && f2.Synthetic != "" && fn.Object() != nil && f2.Object() == fn.Object() {
						return FuncName(fn) + " is used as a method value in " + FuncName(g)
					}
				}
			}
		}
	}
	// a method can also be reached through an interface
	if recv := fn.Signature.Recv(); recv != nil {
		if why := o.viaInterface(fn, recv.Type()); why != "" {
			return why
		}
	}
	return ""
}

// viaInterface: the receiver type of fn is converted somewhere in the module to an interface that
// has a method of fn's name — then the result may be read by whoever holds the interface.  The
// methods the fmt verbs use (String, Error, Format, GoString) report only.
func (o *observed) viaInterface(fn *ssa.Function, recv types.Type) string {
	switch fn.Name() {
	case "String", "Error", "Format", "GoString":
		return ""
	}
	base := recv
	if p, ok := recv.Underlying().(*types.Pointer); ok {
		base = p.Elem()
	}
	for _, g := range o.e.r.P.ModFuncs {
		for _, b := range g.Blocks {
			for _, in := range b.Instrs {
				mi, ok := in.(*ssa.MakeInterface)
				if !ok {
					continue
				}
				xt := mi.X.Type()
				if p, ok := xt.Underlying().(*types.Pointer); ok {
					xt = p.Elem()
				}
				if !types.Identical(xt, base) {
					continue
				}
				if it, ok := mi.Type().Underlying().(*types.Interface); ok {
					for i := 0; i < it.NumMethods(); i++ {
						if it.Method(i).Name() == fn.Name() {
							return FuncName(fn) + " may be called through " + TypeName(mi.Type()) + " (conversion in " + FuncName(g) + ")"
						}
					}
				}
			}
		}
	}
	return ""
}
