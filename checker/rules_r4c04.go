package main

import (
	"fmt"
	"go/token"
	"sort"

	"golang.org/x/tools/go/ssa"
)

// C09.R10 (shared into C04 as C04.R9←C09.R10): the declared bounds gate EVERY accepting
// path, in both directions.
//
// The clause: a vector's length (an enum's value) is checked against the minlen..maxlen
// (maxval) of its own tag on every path on which the encoder accepts the value, and on every
// path on which the decoder accepts the bytes, so that the two sides agree on the set of
// values that have an encoding at all (RFC 5246 s4.3: "the length of an encoded vector must
// be ... within the specified bounds").
//
// The structural fact: "accepting" = a return whose error may be nil.  The only mechanisms
// that compare a number with the bounds of a tag are fieldInfo.check (R4a decides its table)
// and, on the decode side, readVarUint, which hands every number it reads to check.  So:
//
//   marshalField       with every info.check of this field's info answering "refused", the
//                      accepting returns that can still execute all lie in the cases of the
//                      shapes that carry no bound (fixed-width integers, structs, arrays);
//   parseField         likewise with every readVarUint on this field's info failing;
//   readVarUint        with check refusing, no accepting return at all;
//   MarshalWithParams, UnmarshalWithParams
//                      with marshalField / parseField failing, no accepting return at all, and
//                      what an accepting return hands back is the buffer that call filled /
//                      the input behind the offset that call returned;
//   Marshal, Unmarshal return exactly what the *WithParams form returned;
//   who may call       marshalField, parseField and readVarUint are called by the codec only.
//
// The walks start at the function ENTRY, not at the call: a path that was ADDED in front of or
// next to the check (a fast path, a cache hit, a second writer) is a path like any other.  R4's
// gates walk from the call's block and so only see what follows the call.
//
// Nothing here depends on where in a case the check stands relative to the writes (the byte
// vector path writes the prefix first and checks afterwards: an encoder that fails returns no
// bytes, see MarshalWithParams).

// certainErr: under the walk, v is a non-nil error: a constructed error value, the error
// result of one of the gate calls (assumed non-nil by the walk), or a merge of such values
// along the edges the walk takes.
func certainErr(v ssa.Value, at *ssa.BasicBlock, reach *Reach, gateErr map[ssa.Value]bool, busy map[ssa.Value]bool) bool {
	if gateErr[v] || testedNonNil(v, at) {
		return true
	}
	switch errKind(v) {
	case "non":
		return true
	case "nil":
		return false
	}
	ph, ok := v.(*ssa.Phi)
	if !ok || busy[v] {
		return false
	}
	busy[v] = true
	defer delete(busy, v)
	n := 0
	for i, e := range ph.Edges {
		if !reach.Edges[[2]int{ph.Block().Preds[i].Index, ph.Block().Index}] {
			continue
		}
		n++
		if !certainErr(e, ph.Block().Preds[i], reach, gateErr, busy) {
			return false
		}
	}
	return n > 0
}

// testedNonNil: block at executes only after a test of v against nil came out non-nil (the
// non-nil successor of the test is entered only through it and dominates at).
func testedNonNil(v ssa.Value, at *ssa.BasicBlock) bool {
	refs := v.Referrers()
	if refs == nil {
		return false
	}
	for _, ref := range *refs {
		bo, ok := ref.(*ssa.BinOp)
		if !ok || bo.Op != token.NEQ && bo.Op != token.EQL {
			continue
		}
		other := bo.Y
		if other == v {
			other = bo.X
		}
		if c, isC := other.(*ssa.Const); !isC || c.Value != nil {
			continue
		}
		for _, r2 := range *bo.Referrers() {
			ifi, ok := r2.(*ssa.If)
			if !ok {
				continue
			}
			s := ifi.Block().Succs[0]
			if bo.Op == token.EQL {
				s = ifi.Block().Succs[1]
			}
			if len(s.Preds) == 1 && (s == at || s.Dominates(at)) {
				return true
			}
		}
	}
	return false
}

// acceptingUnder: the returns of fn that may execute and may carry a nil error when every gate
// call has failed; gates == nil: all accepting returns of fn (positive control).
func acceptingUnder(r *Run, fn *ssa.Function, gates []*ssa.Call) (acc []*ssa.Return, sigma Sigma, undecided string) {
	sigma = Sigma{}
	gateErr := map[ssa.Value]bool{}
	for _, g := range gates {
		ev := CallResult(g, g.Call.Signature().Results().Len()-1)
		if ev == nil {
			return nil, sigma, "the error result of " + CalleeOf(g) + " at " + r.Where(g) + " is discarded"
		}
		gateErr[ev] = true
		sigma["nil?"+r.D.D(ev)] = "non"
		// the error may be merged through a φ before it is tested
		if !hasNilTest(ev) {
			for _, ref := range *ev.Referrers() {
				if ph, ok := ref.(*ssa.Phi); ok && hasNilTest(ph) {
					sigma["nil?"+r.D.D(ph)] = "non"
				}
			}
		}
	}
	reach := r.D.Walk(fn, sigma, nil, nil)
	r.Valuations++
	for _, ret := range reachableReturns(fn, reach) {
		if n := len(ret.Results); n == 0 || !certainErr(ret.Results[n-1], ret.Block(), reach, gateErr, map[ssa.Value]bool{}) {
			acc = append(acc, ret)
		}
	}
	return acc, sigma, ""
}

// sameInfo: v is the field-info parameter itself or its pointee.
func sameInfo(v ssa.Value, info *ssa.Parameter) bool {
	if v == ssa.Value(info) {
		return true
	}
	if u, ok := v.(*ssa.UnOp); ok && u.X == ssa.Value(info) {
		return true
	}
	return false
}

func gateCalls(fn *ssa.Function, callee string, argIdx int, info *ssa.Parameter) []*ssa.Call {
	var out []*ssa.Call
	for _, ci := range CallsTo(fn, callee) {
		c, ok := ci.(*ssa.Call)
		if !ok {
			continue
		}
		if info != nil && (argIdx >= len(c.Call.Args) || !sameInfo(c.Call.Args[argIdx], info)) {
			continue
		}
		out = append(out, c)
	}
	return out
}

// c09Unbounded: the cases whose shape has no declared bound (nothing to check).
func c09Unbounded(label string) bool {
	if _, fixed := fixedWidths[label]; fixed {
		return true
	}
	return label == structCase || label == arrayCase
}

func c09R10(r *Run, pf, mf, rv *c09fn) {
	// per-case form, for the two functions that dispatch on the shape
	perCase := func(c *c09fn, info *ssa.Parameter, callee string, argIdx int, what string) {
		fn := c.fn
		gates := gateCalls(fn, callee, argIdx, info)
		if len(gates) == 0 {
			r.Fail(c.name+":bound-gates", r.FnPos(fn), "undecided: "+c.name+" has no "+what+" on the info of the field it handles")
			return
		}
		all, _, _ := acceptingUnder(r, fn, nil)
		acc, sigma, why := acceptingUnder(r, fn, gates)
		if why != "" {
			r.Fail(c.name+":bound-gates", r.FnPos(fn), "undecided: "+why)
			return
		}
		byCase := func(rets []*ssa.Return) map[string][]*ssa.Return {
			m := map[string][]*ssa.Return{}
			for _, ret := range rets {
				l := regionLabel(c.regs, ret.Block())
				m[l] = append(m[l], ret)
			}
			return m
		}
		allBy, accBy := byCase(all), byCase(acc)
		for _, label := range []string{enumCase, sliceCase} {
			bad := accBy[label]
			ok := len(bad) == 0 && len(allBy[label]) > 0
			detail := fmt.Sprintf("%d accepting returns in the case; with every %s failing (%d calls) none of them can execute", len(allBy[label]), what, len(gates))
			where := r.FnPos(fn)
			if len(bad) > 0 {
				where = r.Where(bad[0])
				detail = fmt.Sprintf("the return at %s accepts although every %s failed (%s): a value / byte string outside the declared bounds is accepted on this path", r.Where(bad[0]), what, sigma)
			} else if len(allBy[label]) == 0 {
				detail = "undecided: the case has no accepting return (positive control)"
			}
			r.Check(c.name+"["+label+"]:accepts-only-within-bounds", ok, where, detail)
		}
		// anywhere else: only the shapes without bounds may accept without a check
		var bad []*ssa.Return
		for _, l := range keysOf(accBy) {
			if l != enumCase && l != sliceCase && !c09Unbounded(l) {
				bad = append(bad, accBy[l]...)
			}
		}
		sort.Slice(bad, func(i, j int) bool { return bad[i].Pos() < bad[j].Pos() })
		detail := "outside the enum and vector cases only the cases of fixed-width integers, structs and arrays have accepting returns when every " + what + " fails"
		where := r.FnPos(fn)
		if len(bad) > 0 {
			where = r.Where(bad[0])
			detail = fmt.Sprintf("the return at %s (%s) accepts without any %s and lies in no case of a shape without bounds", r.Where(bad[0]), regionLabel(c.regs, bad[0].Block()), what)
		}
		r.Check(c.name+":no-accept-beside-the-cases", len(bad) == 0, where, detail)
	}
	if mf != nil {
		perCase(mf, mf.fn.Params[2], "(tls.fieldInfo).check", 0, "info.check")
	}
	if pf != nil {
		perCase(pf, pf.fn.Params[3], "tls.readVarUint", 1, "readVarUint")
	}

	// whole-function form
	whole := func(name, callee string, argIdx int, infoParam int, what string) (*ssa.Function, []*ssa.Call, bool) {
		fn := r.Fn(name)
		if fn == nil {
			return nil, nil, false
		}
		var info *ssa.Parameter
		if infoParam >= 0 {
			info = fn.Params[infoParam]
		}
		k := short(name) + ":accepts-only-after-" + what
		gates := gateCalls(fn, callee, argIdx, info)
		if len(gates) == 0 {
			r.Fail(k, r.FnPos(fn), "undecided: no call of "+callee+" in "+name)
			return fn, nil, false
		}
		all, _, _ := acceptingUnder(r, fn, nil)
		acc, sigma, why := acceptingUnder(r, fn, gates)
		switch {
		case why != "":
			r.Fail(k, r.FnPos(fn), "undecided: "+why)
		case len(acc) > 0:
			r.Fail(k, r.Where(acc[0]), fmt.Sprintf("the return at %s accepts although %s failed (%s)", r.Where(acc[0]), what, sigma))
		case len(all) == 0:
			r.Fail(k, r.FnPos(fn), "undecided: no accepting return (positive control)")
		default:
			r.Pass(k, r.FnPos(fn), fmt.Sprintf("%d accepting returns; none can execute once %s (%d calls) has failed, from the entry of the function", len(all), what, len(gates)))
			return fn, gates, true
		}
		return fn, gates, false
	}
	whole("tls.readVarUint", "(tls.fieldInfo).check", 0, 1, "check")
	if fn, gates, ok := whole("tls.MarshalWithParams", "tls.marshalField", -1, -1, "marshalField"); ok {
		// what is handed back is the buffer the gate call wrote into
		all, _, _ := acceptingUnder(r, fn, nil)
		good := len(gates) == 1
		got := ""
		for _, ret := range all {
			got = r.D.D(ret.Results[0])
			good = good && len(gates) == 1 && got == "(*bytes.Buffer).Bytes("+r.D.D(gates[0].Call.Args[0])+")"
		}
		r.Check("MarshalWithParams:returns-what-marshalField-wrote", good, r.FnPos(fn), "every accepting return hands back the bytes of the buffer given to marshalField: "+got)
	}
	if fn, gates, ok := whole("tls.UnmarshalWithParams", "tls.parseField", -1, -1, "parseField"); ok {
		// what is handed back is the input behind the offset parseField returned
		all, _, _ := acceptingUnder(r, fn, nil)
		good := len(gates) == 1
		got := ""
		for _, ret := range all {
			got = r.D.D(ret.Results[0])
			if len(gates) == 1 {
				off := CallResult(gates[0], 0)
				good = good && off != nil && got == r.D.D(gates[0].Call.Args[1])+"["+r.D.D(off)+":]"
			}
		}
		r.Check("UnmarshalWithParams:rest-follows-parseField", good, r.FnPos(fn), "every accepting return hands back the input from the offset parseField returned: "+got)
	}
	// the plain forms forward
	for _, pr := range [][2]string{{"tls.Marshal", "tls.MarshalWithParams"}, {"tls.Unmarshal", "tls.UnmarshalWithParams"}} {
		fn := r.Fn(pr[0])
		if fn == nil {
			continue
		}
		k := short(pr[0]) + ":forwards"
		calls := gateCalls(fn, pr[1], -1, nil)
		rets := Returns(fn)
		ok := len(calls) == 1 && len(rets) > 0
		if ok {
			for _, ret := range rets {
				for i, res := range ret.Results {
					ok = ok && res == CallResult(calls[0], i)
				}
			}
			for i, a := range calls[0].Call.Args {
				if i < len(fn.Params) {
					ok = ok && a == ssa.Value(fn.Params[i])
				} else {
					ok = ok && r.D.D(a) == `""`
				}
			}
		}
		r.Check(k, ok, r.FnPos(fn), fmt.Sprintf("%s returns exactly the results of %s(its arguments, \"\") (%d calls, %d returns)", pr[0], pr[1], len(calls), len(rets)))
	}
	// who may call, said by what the callers hand over: wherever in the module a worker is
	// called, the bounds it applies are those the tag declares — the info argument is the result
	// of fieldTagToFieldInfo (or nil, for vector elements, whose shape must then carry no bound:
	// the enum and vector cases refuse a nil info, R4 missing-tag).  A new entry point is free to
	// exist; one that brings its own, hand-made bounds is not.
	for _, wk := range []struct {
		name string
		idx  int
	}{{"tls.marshalField", 2}, {"tls.parseField", 3}} {
		got := r.CallersOf(wk.name)
		n := 0
		for _, caller := range keysOf(got) {
			for _, ci := range got[caller] {
				args := ci.Common().Args
				if wk.idx >= len(args) {
					r.Fail("info-origin:"+short(wk.name)+"@"+caller, r.Where(ci), "undecided: the call has no field-info argument at position "+fmt.Sprint(wk.idx))
					continue
				}
				ok := true
				for _, leaf := range phiLeaves(args[wk.idx]) {
					if c, isC := leaf.(*ssa.Const); isC && c.Value == nil {
						continue
					}
					ex, isEx := leaf.(*ssa.Extract)
					if !isEx || ex.Index != 0 {
						ok = false
						continue
					}
					call, isCall := ex.Tuple.(*ssa.Call)
					ok = ok && isCall && CalleeOf(call) == "tls.fieldTagToFieldInfo"
				}
				n++
				r.Check("info-origin:"+short(wk.name)+"@"+caller, ok, r.Where(ci), "the field info handed to "+wk.name+" is what fieldTagToFieldInfo made of the tag, or nil: "+r.D.D(args[wk.idx]))
			}
		}
		r.Floor("call sites of "+wk.name+" (entry point, struct fields, vector elements)", n, 3)
	}
}
