package main

import (
	"fmt"
	"go/types"
	"strconv"
	"strings"

	"golang.org/x/tools/go/ssa"
)

// E7 NIL — optional message parts and constant indices.
//
// Source: a load X.f where X is a protobuf message and f has type *M with M a
// protobuf message (an optional sub-message: absent ⇒ nil).  Sink: a field
// selection / dereference through that pointer, or passing it to a callee
// (static, or any module implementation of an interface method) that
// dereferences the corresponding parameter without a nil test.  Rule: the
// sink must be unreachable under σ{nil?(X.f) = nil} — i.e. every path to it
// passes a nil test of the same access path with the non-nil outcome.

func isProtoMsgPtr(t types.Type) bool {
	pt, ok := t.Underlying().(*types.Pointer)
	if !ok {
		return false
	}
	if _, ok := pt.Elem().Underlying().(*types.Struct); !ok {
		return false
	}
	ms := types.NewMethodSet(t)
	return ms.Lookup(nil, "ProtoReflect") != nil
}

// optionalLoad reports whether v is a load of a pointer-to-message field of a message.
func optionalLoad(v ssa.Value) (*ssa.FieldAddr, bool) {
	u, ok := v.(*ssa.UnOp)
	if !ok {
		return nil, false
	}
	fa, ok := u.X.(*ssa.FieldAddr)
	if !ok {
		return nil, false
	}
	if !isProtoMsgPtr(v.Type()) || !isProtoMsgPtr(fa.X.Type()) {
		return nil, false
	}
	return fa, true
}

type nilEngine struct {
	r    *Run
	summ map[string]int // fn name + param -> 0 unknown/in progress, 1 safe, 2 derefs
	why  map[string]string
}

func newNilEngine(r *Run) *nilEngine {
	return &nilEngine{r: r, summ: map[string]int{}, why: map[string]string{}}
}

// implementations of an interface method within the module
func (e *nilEngine) impls(c *ssa.CallCommon) []*ssa.Function {
	var out []*ssa.Function
	iface, ok := c.Value.Type().Underlying().(*types.Interface)
	if !ok {
		return nil
	}
	for _, fn := range e.r.P.ModFuncs {
		recv := fn.Signature.Recv()
		if recv == nil || fn.Name() != c.Method.Name() || len(fn.Blocks) == 0 {
			continue
		}
		if types.Implements(recv.Type(), iface) {
			out = append(out, fn)
		}
	}
	return out
}

// derefsParam: does fn dereference parameter pi on some path where it is nil?
func (e *nilEngine) derefsParam(fn *ssa.Function, pi int, depth int) (bool, string) {
	key := FuncName(fn) + "#" + strconv.Itoa(pi)
	switch e.summ[key] {
	case 1:
		return false, ""
	case 2:
		return true, e.why[key]
	}
	if depth > 3 || len(fn.Blocks) == 0 || pi >= len(fn.Params) {
		return false, ""
	}
	e.summ[key] = 1 // optimistic for recursion
	p := fn.Params[pi]
	sigma := Sigma{"nil?" + e.r.D.D(p): "nil"}
	// callees that answer a nil argument with an error: their error is non-nil on this path
	for _, ref := range *p.Referrers() {
		call, ok := ref.(*ssa.Call)
		if !ok {
			continue
		}
		g := call.Call.StaticCallee()
		tup, isTup := call.Type().(*types.Tuple)
		if g == nil || !isTup || tup.Len() == 0 {
			continue
		}
		for j, a := range call.Call.Args {
			if a == ssa.Value(p) && e.rejectsNil(g, j, depth+1) {
				if ev := CallResult(call, tup.Len()-1); ev != nil {
					sigma["nil?"+e.r.D.D(ev)] = "non"
				}
			}
		}
	}
	reach := e.r.D.Walk(fn, sigma, nil, nil)
	e.r.Valuations++
	bad, why := false, ""
	for _, ref := range *p.Referrers() {
		if !reach.Has(ref) {
			continue
		}
		switch x := ref.(type) {
		case *ssa.FieldAddr:
			if x.X == p {
				bad, why = true, fmt.Sprintf("%s dereferences its parameter %d at %s", FuncName(fn), pi, e.r.Where(x))
			}
		case *ssa.UnOp:
			bad, why = true, fmt.Sprintf("%s dereferences its parameter %d at %s", FuncName(fn), pi, e.r.Where(x))
		case ssa.CallInstruction:
			if b, w := e.passesNilTo(x, p, depth+1); b {
				bad, why = true, w
			}
		}
		if bad {
			break
		}
	}
	if bad {
		e.summ[key] = 2
		e.why[key] = why
	}
	return bad, why
}

// rejectsNil: with parameter pi nil, every return of fn carries a non-nil error.
func (e *nilEngine) rejectsNil(fn *ssa.Function, pi int, depth int) bool {
	if depth > 3 || len(fn.Blocks) == 0 || pi >= len(fn.Params) {
		return false
	}
	res := fn.Signature.Results()
	if res.Len() == 0 || !types.Identical(res.At(res.Len()-1).Type(), types.Universe.Lookup("error").Type()) {
		return false
	}
	reach := e.r.D.Walk(fn, Sigma{"nil?" + e.r.D.D(fn.Params[pi]): "nil"}, nil, nil)
	e.r.Valuations++
	rets := reachableReturns(fn, reach)
	if len(rets) == 0 {
		return false
	}
	for _, ret := range rets {
		if errKind(ret.Results[len(ret.Results)-1]) != "non" {
			return false
		}
	}
	return true
}

// passesNilTo: call passes value v to a parameter that the callee dereferences unguarded.
func (e *nilEngine) passesNilTo(ci ssa.CallInstruction, v ssa.Value, depth int) (bool, string) {
	c := ci.Common()
	var callees []*ssa.Function
	off := 0
	if c.IsInvoke() {
		callees = e.impls(c)
		off = 1 // parameter 0 of the implementation is the receiver
		if c.Value == v {
			return false, "" // method call on a nil interface is not this rule's business
		}
	} else if f := c.StaticCallee(); f != nil {
		callees = []*ssa.Function{f}
	}
	for i, a := range c.Args {
		if a != v {
			continue
		}
		for _, f := range callees {
			if pk := fnPkg(f); pk == nil || !strings.HasPrefix(pk.Path(), ModPath) {
				// generated getters live outside the module: analyse them too when they have bodies
				if len(f.Blocks) == 0 {
					continue
				}
			}
			if b, w := e.derefsParam(f, i+off, depth); b {
				return true, w
			}
		}
	}
	return false, ""
}

// NilOptional checks all optional-part uses in the functions accepted by
// scope whose message type's package matches msgPkgGlob.
func (r *Run) NilOptional(scope func(fn *ssa.Function) bool, msgPkgGlob string) int {
	e := newNilEngine(r)
	n := 0
	for _, fn := range r.P.ModFuncs {
		if !scope(fn) || len(fn.Blocks) == 0 {
			continue
		}
		type sinkT struct {
			in   ssa.Instruction
			what string
		}
		sinks := map[string][]sinkT{} // access path -> sinks
		var order []string
		add := func(v ssa.Value, in ssa.Instruction, what string) {
			// the part is read by loading the field or through a nil-safe accessor of it (rules_t6c08.go)
			x, _, ok := e.optionalRead(v)
			if !ok {
				return
			}
			nt := msgNamed(x.Type())
			if nt == nil || nt.Obj().Pkg() == nil || !glob(msgPkgGlob, nt.Obj().Pkg().Path()) {
				return
			}
			path := r.D.D(v)
			if _, ok := sinks[path]; !ok {
				order = append(order, path)
			}
			sinks[path] = append(sinks[path], sinkT{in, what})
		}
		eachInstr(fn, func(in ssa.Instruction) {
			switch x := in.(type) {
			case *ssa.FieldAddr:
				add(x.X, in, "field selection through it")
			case ssa.CallInstruction:
				c := x.Common()
				vals := append([]ssa.Value{}, c.Args...)
				for _, a := range vals {
					if _, _, ok := e.optionalRead(a); !ok {
						continue
					}
					if b, w := e.passesNilTo(x, a, 0); b {
						add(a, in, "passed to a callee that dereferences it: "+w)
					}
				}
			}
		})
		for _, path := range order {
			reach := r.D.Walk(fn, Sigma{"nil?" + path: "nil"}, nil, nil)
			r.Valuations++
			ok := true
			detail := fmt.Sprintf("every use of optional part %s is behind a nil test", path)
			var at ssa.Instruction = sinks[path][0].in
			for _, s := range sinks[path] {
				if reach.Has(s.in) {
					ok = false
					at = s.in
					detail = fmt.Sprintf("optional message part %s may be nil here (%s) — no nil test of it guards this use", path, s.what)
					break
				}
			}
			n++
			r.Funcs[FuncName(fn)] = true
			r.Check("optional:"+short(FuncName(fn))+":"+path, ok, r.Where(at), detail)
		}
	}
	return n
}

// ConstIndexGuarded: every X[c] with constant c on a slice that is the result
// of a call must be unreachable for every length ≤ c of X, judged by the
// comparisons of len(X) with constants in the function.
func (r *Run) ConstIndexGuarded(scope func(fn *ssa.Function) bool) int {
	n := 0
	for _, fn := range r.P.ModFuncs {
		if !scope(fn) || len(fn.Blocks) == 0 {
			continue
		}
		eachInstr(fn, func(in ssa.Instruction) {
			ia, ok := in.(*ssa.IndexAddr)
			if !ok {
				return
			}
			c, ok := ia.Index.(*ssa.Const)
			if !ok || c.Value == nil {
				return
			}
			if _, isSlice := ia.X.Type().Underlying().(*types.Slice); !isSlice {
				return
			}
			var call *ssa.Call
			if cl, isCall := ia.X.(*ssa.Call); isCall {
				call = cl
			} else if ex, ok := ia.X.(*ssa.Extract); ok {
				call, _ = ex.Tuple.(*ssa.Call)
			}
			if call == nil {
				return
			}
			// only results of library calls: the length of such a result depends on
			// the input alone (module functions may guarantee a shape by contract)
			if cal := call.Call.StaticCallee(); cal == nil || fnPkg(cal) == nil || strings.HasPrefix(fnPkg(cal).Path(), ModPath) {
				return
			}
			idx := c.Int64()
			xd := r.D.D(ia.X)
			n++
			key := fmt.Sprintf("const-index:%s:%s[%d]", short(FuncName(fn)), xd, idx)
			// results that have a minimal length whatever the input: strings.Split / SplitAfter (and the N forms with
			// n ≠ 0) at a non-empty constant separator yield at least one element
			if min := libMinLen(call); idx < min {
				r.Funcs[FuncName(fn)] = true
				r.Pass(key, r.Where(in), fmt.Sprintf("%s[%d]: %s yields at least %d element(s) for every input", xd, idx, CalleeOf(call), min))
				return
			}
			cases, err := r.D.ConstTable(fn, "len("+xd+")", nil)
			if err != nil {
				r.Fail(key, r.Where(in), fmt.Sprintf("%s[%d]: the length of the call result is never tested (index out of range for short results)", xd, idx))
				return
			}
			// evaluate every length 0..idx: build σ from the comparison constants
			ok2 := true
			for L := int64(0); L <= idx; L++ {
				s := Sigma{}
				for _, cc := range cases {
					for k := range cc.Sigma {
						ci := r.D.AtomsOf(fn)[k]
						if ci == nil {
							continue
						}
						var konst int64
						xLeft := true
						if v, err := strconv.ParseInt(ci.B, 10, 64); err == nil && glob("len("+xd+")", ci.A) {
							konst = v
						} else if v, err := strconv.ParseInt(ci.A, 10, 64); err == nil {
							konst, xLeft = v, false
						}
						rel := "="
						if L < konst {
							rel = "<"
						} else if L > konst {
							rel = ">"
						}
						if !xLeft {
							if rel == "<" {
								rel = ">"
							} else if rel == ">" {
								rel = "<"
							}
						}
						s[k] = rel
					}
				}
				r.Valuations++
				if r.D.Walk(fn, s, nil, nil).Has(in) {
					ok2 = false
				}
			}
			r.Funcs[FuncName(fn)] = true
			r.Check(key, ok2, r.Where(in), fmt.Sprintf("%s[%d] unreachable for every len ≤ %d: %v", xd, idx, idx, ok2))
		})
	}
	return n
}

// libMinLen: the minimal length of the slice a library call returns, for every input (0 = unknown).
func libMinLen(call *ssa.Call) int64 {
	f := call.Call.StaticCallee()
	if f == nil || len(call.Call.Args) < 2 {
		return 0
	}
	sep, ok := call.Call.Args[1].(*ssa.Const)
	if !ok || sep.Value == nil || sep.Value.ExactString() == `""` || !strings.HasPrefix(sep.Value.ExactString(), `"`) {
		return 0
	}
	switch FuncName(f) {
	case "strings.Split", "strings.SplitAfter":
		return 1
	case "strings.SplitN", "strings.SplitAfterN":
		if len(call.Call.Args) == 3 {
			if n, ok := call.Call.Args[2].(*ssa.Const); ok && n.Value != nil && n.Int64() != 0 {
				return 1
			}
		}
	}
	return 0
}

// NilArgs: a nil pointer constant passed to a module function (or to any
// module implementation of an interface method) whose corresponding parameter
// is dereferenced on some path where it is nil.  One obligation per call site
// that passes a nil pointer constant.
func (r *Run) NilArgs(scope func(fn *ssa.Function) bool) int {
	e := newNilEngine(r)
	n := 0
	for _, fn := range r.P.ModFuncs {
		if !scope(fn) || len(fn.Blocks) == 0 {
			continue
		}
		eachInstr(fn, func(in ssa.Instruction) {
			ci, ok := in.(ssa.CallInstruction)
			if !ok {
				return
			}
			c := ci.Common()
			for i, a := range c.Args {
				k, isConst := a.(*ssa.Const)
				if !isConst || k.Value != nil {
					continue
				}
				if _, isPtr := k.Type().Underlying().(*types.Pointer); !isPtr {
					continue
				}
				var callees []*ssa.Function
				off := 0
				if c.IsInvoke() {
					callees = e.impls(c)
					off = 1
				} else if f := c.StaticCallee(); f != nil {
					callees = []*ssa.Function{f}
				}
				if len(callees) == 0 {
					continue
				}
				n++
				bad, why := false, ""
				for _, f := range callees {
					if pk := fnPkg(f); pk == nil || !strings.HasPrefix(pk.Path(), ModPath) {
						continue
					}
					if b, w := e.derefsParam(f, i+off, 0); b {
						bad, why = true, w
					}
				}
				r.Funcs[FuncName(fn)] = true
				r.Check(fmt.Sprintf("nil-arg:%s→%s#%d", short(FuncName(fn)), CalleeOf(ci), i), !bad, r.Where(in),
					fmt.Sprintf("nil passed as argument %d of %s: %s", i, CalleeOf(ci), map[bool]string{true: "the callee dereferences it on a path where it is nil — " + why, false: "every dereference in the callee is behind a nil test"}[bad]))
			}
		})
	}
	return n
}
