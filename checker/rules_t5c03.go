package main

import (
	"fmt"
	"go/token"
	"go/types"
	"sort"
	"strings"

	"golang.org/x/tools/go/ssa"
)

// Round 5 (twins), C03.R4: what a function-local struct value HOLDS when it is read.
//
// A struct local that is only ever built field by field (a composite literal, with or
// without some fields left at their zero value, or explicit field assignments) and only
// ever read (as a whole or field by field) — never aliased, never stored as a whole —
// holds, at a read that every such field store dominates, exactly: for each field the one
// value stored to it, and the zero value for a field never stored.  That is the fact the
// AKI rules want about the extension appended / the value put in place, wherever the
// literal is written (in the arm that uses it or hoisted and shared by several arms).

type c03Local struct {
	typ    *types.Struct
	fields map[int]ssa.Value // absent: never stored, zero value
}

func (l *c03Local) index(name string) int {
	for i := 0; i < l.typ.NumFields(); i++ {
		if l.typ.Field(i).Name() == name {
			return i
		}
	}
	return -1
}

// field returns the value held by the named field and whether it is the zero value
// (never stored).
func (l *c03Local) field(name string) (ssa.Value, bool) {
	i := l.index(name)
	if i < 0 {
		return nil, false
	}
	v, ok := l.fields[i]
	return v, !ok
}

func c03Before(a, b ssa.Instruction) bool {
	if a.Block() != b.Block() {
		return a.Block().Dominates(b.Block())
	}
	for _, in := range a.Block().Instrs {
		if in == a {
			return true
		}
		if in == b {
			return false
		}
	}
	return false
}

// c03LocalAt: the contents of the struct local a at the read `at`; "" or the reason why
// they are not known.
func c03LocalAt(a *ssa.Alloc, at ssa.Instruction) (*c03Local, string) {
	pt, ok := a.Type().Underlying().(*types.Pointer)
	if !ok {
		return nil, "not a variable"
	}
	st, ok := pt.Elem().Underlying().(*types.Struct)
	if !ok {
		return nil, "not a struct variable"
	}
	if a.Referrers() == nil {
		return nil, "no referrers"
	}
	l := &c03Local{typ: st, fields: map[int]ssa.Value{}}
	for _, ref := range *a.Referrers() {
		switch x := ref.(type) {
		case *ssa.DebugRef:
		case *ssa.UnOp:
			if x.Op != token.MUL {
				return nil, "used by " + x.String()
			}
		case *ssa.FieldAddr:
			if x.Referrers() == nil {
				return nil, "field address without referrers"
			}
			for _, fr := range *x.Referrers() {
				switch y := fr.(type) {
				case *ssa.DebugRef:
				case *ssa.UnOp:
					if y.Op != token.MUL {
						return nil, "field address used by " + y.String()
					}
				case *ssa.Store:
					if y.Addr != ssa.Value(x) {
						return nil, "field address stored away"
					}
					if _, dup := l.fields[x.Field]; dup {
						return nil, "field " + st.Field(x.Field).Name() + " is stored more than once"
					}
					if !c03Before(y, at) {
						return nil, "the store to field " + st.Field(x.Field).Name() + " does not come before every read"
					}
					l.fields[x.Field] = y.Val
				default:
					return nil, "field address escapes"
				}
			}
		default:
			// a whole-struct store, a call taking the address, a closure capture, …
			return nil, "the variable is written as a whole or its address escapes"
		}
	}
	return l, ""
}

// c03Held follows reads of fields of such locals to the value they hold: `lit.Value` where
// lit := T{Value: x} is x.  zero is true when the chain ends in a field never stored.
func c03Held(v ssa.Value) (out ssa.Value, zero bool) {
	for i := 0; i < 4; i++ {
		ld, ok := v.(*ssa.UnOp)
		if !ok || ld.Op != token.MUL {
			return v, false
		}
		fa, ok := ld.X.(*ssa.FieldAddr)
		if !ok {
			return v, false
		}
		a, ok := fa.X.(*ssa.Alloc)
		if !ok {
			return v, false
		}
		l, why := c03LocalAt(a, ld)
		if why != "" {
			return v, false
		}
		nv, has := l.fields[fa.Field]
		if !has {
			return v, true
		}
		v = nv
	}
	return v, false
}

// c03WholeRead: v is a read of a whole struct local whose contents are known there.
func c03WholeRead(v ssa.Value) (*c03Local, string) {
	ld, ok := v.(*ssa.UnOp)
	if !ok || ld.Op != token.MUL {
		return nil, "not a read of a local struct"
	}
	a, ok := ld.X.(*ssa.Alloc)
	if !ok {
		return nil, "not a read of a local struct"
	}
	return c03LocalAt(a, ld)
}

// c03ExtFields renders the three fields of a pkix.Extension local: origin terms of the
// values held ("zero" for a field never stored; a bool zero and an explicit false are the
// same value).
type c03Ext struct{ id, critical, value string }

func (e c03Ext) String() string {
	return fmt.Sprintf("{Id: %s, Critical: %s, Value: %s}", e.id, e.critical, e.value)
}

func c03ExtOf(r *Run, v ssa.Value) (c03Ext, string) {
	l, why := c03WholeRead(v)
	if why != "" {
		return c03Ext{}, why
	}
	if l.index("Id") < 0 || l.index("Critical") < 0 || l.index("Value") < 0 || l.typ.NumFields() != 3 {
		return c03Ext{}, "not an extension {Id, Critical, Value}"
	}
	term := func(name, zeroTerm string) string {
		fv, zero := l.field(name)
		if zero {
			return zeroTerm
		}
		hv, hz := c03Held(fv)
		if hz {
			return zeroTerm
		}
		return r.D.D(hv)
	}
	return c03Ext{id: term("Id", "nil"), critical: term("Critical", "false"), value: term("Value", "nil")}, ""
}

// c03ExtensionWrites: every store of fn INTO an element of the extension list `list`
// (whole element or one of its fields), sorted by position.
func c03ExtensionWrites(r *Run, fn *ssa.Function, list string) []*ssa.Store {
	var out []*ssa.Store
	eachInstr(fn, func(in ssa.Instruction) {
		if st, ok := in.(*ssa.Store); ok && strings.HasPrefix(r.D.D(st.Addr), "&("+list+"[") {
			out = append(out, st)
		}
	})
	sort.SliceStable(out, func(i, j int) bool { return out[i].Pos() < out[j].Pos() })
	return out
}

// c03InPlace judges one store into the element of `list` at position pos (the recorded
// position of the precertificate's own AKI extension): the replacement changes the VALUE
// only — the element's Id and Critical flag are the precertificate's own.  A store to the
// Value field does that by construction; a store of a whole element does it only when the
// element stored carries the old Id (or the AKI OID, which the position rule shows equal)
// and the old Critical flag over.  Returns the origin term of the new Value ("" when the
// store is not such a replacement) and a description.
func c03InPlace(r *Run, st *ssa.Store, list, pos, akiOID string) (newValue string, desc string, ok bool) {
	elem := list + "[" + pos + "]"
	d := r.D.D(st.Addr)
	switch d {
	case "&(" + elem + ".Value)":
		hv, zero := c03Held(st.Val)
		val := r.D.D(hv)
		if zero {
			val = "nil"
		}
		return val, "ext[keyAt].Value ← " + val, true
	case "&(" + elem + ")":
		e, why := c03ExtOf(r, st.Val)
		if why != "" {
			return "", "ext[keyAt] ← " + r.D.D(st.Val) + " (whole element; contents unknown: " + why + ")", false
		}
		var lost []string
		if e.id != elem+".Id" && e.id != akiOID {
			lost = append(lost, "Id")
		}
		if e.critical != elem+".Critical" {
			lost = append(lost, "Critical flag")
		}
		if len(lost) > 0 {
			return "", "ext[keyAt] ← whole element " + e.String() + ": the precertificate's own " + strings.Join(lost, " and ") + " not carried over", false
		}
		return e.value, "ext[keyAt] ← whole element " + e.String(), true
	}
	return "", strings.TrimSuffix(strings.TrimPrefix(d, "&("), ")") + " ← " + r.D.D(st.Val) + " (a write into the extension list other than the AKI value)", false
}
