package main

import (
	"fmt"
	"go/constant"
	"go/types"
	"math/big"
	"sort"
	"strconv"
	"strings"

	"golang.org/x/tools/go/ssa"
)

// C09 rules R3 (sibling dispatch / tags), R4 (bounds both ways), R6 (variants).
// R1, R2, R5 and the registration are in rules_c09.go.

var c09Labels = []string{"uint8Type", "uint16Type", "uint24Type", "uint32Type", "uint64Type", enumCase, structCase, arrayCase, sliceCase}

func c09R3(r *Run, pf, mf *c09fn) {
	want := strings.Join(sortedCopy(c09Labels), " ")
	for _, c := range []*c09fn{pf, mf} {
		if c == nil {
			continue
		}
		var got []string
		var conds []ssa.Value
		for _, cr := range c.regs {
			got = append(got, cr.label)
			conds = append(conds, cr.cond)
		}
		sort.Strings(got)
		r.Check(c.name+":dispatch-set", strings.Join(got, " ") == want, r.FnPos(c.fn), "handles {"+strings.Join(got, " ")+"}; the supported shapes are {"+want+"} in both directions")
		for _, l := range c09Labels {
			r.Check(c.name+":case-body["+l+"]", c.head(l) != nil, r.FnPos(c.fn), "case "+l+" has its own body, entered only through its own test")
		}
		// anything else ⇒ structuralError
		_, rets := walkReturns(r, c.fn, nil, sigmaFalse(r, conds), nil)
		ok := len(rets) > 0
		var seen []string
		for _, ret := range rets {
			t := errTypeOf(ret.Results[len(ret.Results)-1])
			seen = append(seen, t)
			ok = ok && t == "tls.structuralError"
		}
		r.Check(c.name+":default-is-structural-error", ok, r.FnPos(c.fn), fmt.Sprintf("a type outside the supported shapes reaches only returns with errors %v", seen))
	}
	// the type constants the dispatch compares with
	wantT := map[string][2]string{"uint8Type": {"uint8", "uint8"}, "uint16Type": {"uint16", "uint16"}, "uint24Type": {"tls.Uint24", "uint32"},
		"uint32Type": {"uint32", "uint32"}, "uint64Type": {"uint64", "uint64"}, "enumType": {"tls.Enum", "uint64"}}
	found := map[string]int{}
	var ini *ssa.Function
	if pk := r.P.SSA.ImportedPackage(ModPath + "/tls"); pk != nil {
		ini = pk.Func("init")
	}
	fns := append([]*ssa.Function{}, r.P.ModFuncs...)
	if ini != nil {
		fns = append(fns, ini)
	}
	for _, fn := range fns {
		eachInstr(fn, func(in ssa.Instruction) {
			st, ok := in.(*ssa.Store)
			if !ok {
				return
			}
			g, ok := st.Addr.(*ssa.Global)
			if !ok || g.Pkg == nil || g.Pkg.Pkg.Path() != ModPath+"/tls" {
				return
			}
			w, ok := wantT[g.Name()]
			if !ok {
				return
			}
			found[g.Name()]++
			good := false
			desc := r.D.D(st.Val)
			if call, ok := st.Val.(*ssa.Call); ok && fn == ini && CalleeOf(call) == "reflect.TypeOf" {
				if mi, ok := call.Call.Args[0].(*ssa.MakeInterface); ok {
					desc = "reflect.TypeOf(" + TypeName(mi.X.Type()) + ")"
					good = TypeName(mi.X.Type()) == w[0] && TypeName(mi.X.Type().Underlying()) == w[1]
				}
			}
			r.Check("type-constant["+g.Name()+"]", good, r.Where(st), g.Name()+" = "+desc+"; expected reflect.TypeOf of a "+w[0]+" (underlying "+w[1]+"), set once at initialisation")
		})
	}
	for _, n := range keysOf(wantT) {
		r.Check("type-constant-set-once["+n+"]", found[n] == 1, "-", fmt.Sprintf("%d assignments to %s in the module", found[n], n))
	}

	// both directions read the same tag of the same field, fields in declaration order
	for _, c := range []*c09fn{pf, mf} {
		if c == nil {
			continue
		}
		kp := c.name + "[" + structCase + "]:"
		ftis := callsIn(c, structCase, "tls.fieldTagToFieldInfo")
		if len(ftis) != 1 {
			r.Fail(kp+"tag-lookup", r.FnPos(c.fn), fmt.Sprintf("expected one fieldTagToFieldInfo call per field, found %d", len(ftis)))
			continue
		}
		fti := ftis[0]
		// (a field selected on a temporary holding Type.Field(i) reads as the field of that call: c.D / c.expectArg)
		c.expectArg(fti, kp+"tag-key", 0, "(reflect.StructTag).Get(iface(reflect.Type).Field(*).Tag, \"tls\")")
		c.expectArg(fti, kp+"tag-name", 1, "iface(reflect.Type).Field(*).Name")
		vp := c.fn.Params[0]
		if c == mf {
			vp = c.fn.Params[1]
		}
		// one loop counter indexes the type's fields and the value's fields
		idx := map[ssa.Value]bool{}
		nT, nV := 0, 0
		for _, call := range callsIn(c, structCase, "iface(reflect.Type).Field") {
			idx[call.Call.Args[0]] = true
			nT++
		}
		okV := true
		for _, call := range callsIn(c, structCase, "(reflect.Value).Field") {
			idx[call.Call.Args[1]] = true
			nV++
			okV = okV && call.Call.Args[0] == ssa.Value(vp)
		}
		r.Check(kp+"value-field-of-v", okV, r.Where(fti), fmt.Sprintf("all %d field values are taken from the value being coded", nV))
		okIdx := len(idx) == 1 && nT > 0 && nV > 0
		var iv ssa.Value
		for v := range idx {
			iv = v
		}
		if ph, isPhi := iv.(*ssa.Phi); okIdx && isPhi {
			nf := callsIn(c, structCase, "iface(reflect.Type).NumField")
			okIdx = len(nf) == 1 && c.counterCovers(ph, fti.Block(), c.e.lin(nf[0]))
		} else {
			okIdx = false
		}
		r.Check(kp+"fields-in-order", okIdx, r.Where(fti), "one counter i = 0,1,… < NumField (every field, none left out) selects Type.Field(i) (tag, name, kind) and v.Field(i)")
		// the per-field info is what the recursive call receives
		rec := "tls." + c.name
		for _, call := range callsIn(c, structCase, rec) {
			r.Check(kp+"info-forwarded", call.Call.Args[len(call.Call.Args)-1] == CallResult(fti, 0), r.Where(call), "the field is coded with the fieldInfo derived from its own tag")
		}
	}

	// tag grammar: six keys, each cut at its own length, each feeding its own fields
	if fn := r.Fn("tls.fieldTagToFieldInfo"); fn != nil {
		flag := c09SizeFlag(r)
		wantKeys := map[string]map[string]string{
			"maxval:":   {"count": "tls.byteCount(strconv.ParseUint(*)#0)", flag: "true"},
			"size:":     {"count": "strconv.ParseUint(*)#0", flag: "true"},
			"maxlen:":   {"count": "tls.byteCount(strconv.ParseUint(*)#0)", flag: "true", "maxlen": "strconv.ParseUint(*)#0"},
			"minlen:":   {"minlen": "strconv.ParseUint(*)#0"},
			"selector:": {"selector": "strings.Split(p0, \",\")[*][9:]"},
			"val:":      {"val": "strconv.ParseUint(*)#0"},
		}
		seen := map[string]bool{}
		var allKeys []string
		// a key test is strings.HasPrefix(part, K) with the value cut off by hand (part[len(K):]),
		// or strings.CutPrefix(part, K), whose first result IS part[len(K):] whenever its second
		// result (the one tested) is true
		keyTests := append(CallsTo(fn, "strings.HasPrefix"), CallsTo(fn, "strings.CutPrefix")...)
		for _, ci := range keyTests {
			call, isCall := ci.(*ssa.Call)
			if !isCall {
				r.Fail("tag-key[deferred]", r.Where(ci), "undecided: key test in a go/defer statement")
				continue
			}
			cutForm := CalleeOf(call) == "strings.CutPrefix"
			k, isC := call.Call.Args[1].(*ssa.Const)
			if !isC {
				r.Fail("tag-key[dynamic]", r.Where(call), "HasPrefix with a non-constant key")
				continue
			}
			key, _ := strconv.Unquote(constString(k))
			kk := "tag-key[" + key + "]"
			w, known := wantKeys[key]
			if !known {
				// a key beyond the documented six: compatible with the property exactly when nothing
				// observable depends on it (rules_t8c09.go: its influence is followed through the module)
				allKeys = append(allKeys, key)
				v := c09KeyVerdicts(r)[key]
				switch {
				case v == nil:
					r.Fail(kk+":wire-key-or-allocation-hint", r.Where(call), "undecided: tag key "+key+" is not one of the six documented keys and its influence could not be followed")
				case v.hint:
					r.Pass(kk+":wire-key-or-allocation-hint", r.Where(call), fmt.Sprintf("tag key %s is not one of the six documented keys, and nothing the codec accepts or emits depends on it: its value reaches only capacity operands of allocations (through field(s) %v of the field info)", key, v.fields))
				default:
					r.Fail(kk+":wire-key-or-allocation-hint", v.where, "tag key "+key+" is not one of the six documented keys (what the codec accepts and emits is a function of maxval / size / maxlen / minlen / selector / val alone, as the presentation language and the RFC 6962 structures have no other bounds) and it is not a mere allocation hint: "+v.why)
				}
				continue
			}
			allKeys = append(allKeys, key)
			if !r.Check(kk+":known", !seen[key], r.Where(call), "tag key "+key+" is one of the six documented keys, tested once") {
				continue
			}
			seen[key] = true
			// the boolean that is tested, and (CutPrefix) the value handed back
			var tested, cutVal ssa.Value = call, nil
			if cutForm {
				tested = CallResult(call, 1)
				cutVal = CallResult(call, 0)
				w = map[string]string{}
				for f, g := range wantKeys[key] {
					w[f] = strings.Replace(g, "strings.Split(p0, \",\")[*]["+strconv.Itoa(len(key))+":]", "strings.CutPrefix(strings.Split(p0, \",\")[*], "+constString(k)+")#0", 1)
				}
			}
			// region: the true edge of the If testing this call
			var head *ssa.BasicBlock
			if tested != nil && tested.Referrers() != nil {
				for _, ref := range *tested.Referrers() {
					if ifi, ok := ref.(*ssa.If); ok && len(ifi.Block().Succs[0].Preds) == 1 {
						head = ifi.Block().Succs[0]
					}
				}
			}
			if head == nil {
				r.Fail(kk+":body", r.Where(call), "undecided: no body guarded by this key test")
				continue
			}
			part := call.Call.Args[0]
			cuts, okCut := 0, true
			var handCut ssa.Value
			for _, ref := range *part.Referrers() {
				if sl, ok := ref.(*ssa.Slice); ok && head.Dominates(sl.Block()) {
					cuts++
					okCut = okCut && sl.High == nil && r.D.D(sl.Low) == strconv.Itoa(len(key))
					handCut = sl
				}
			}
			if cutForm {
				// nothing is cut by hand; the value used is the one CutPrefix hands back
				okCut = cuts == 0 && cutVal != nil
			} else {
				okCut = okCut && cuts == 1
				cutVal = handCut
			}
			// what is parsed as the number of this key is that value
			for _, pu := range CallsTo(fn, "strconv.ParseUint") {
				if head.Dominates(pu.Block()) {
					okCut = okCut && cutVal != nil && CallArgs(pu)[0] == cutVal
				}
			}
			r.Check(kk+":cut", okCut, r.Where(call), fmt.Sprintf("the value is the part after the %d characters of the key", len(key)))
			got := map[string]string{}
			okSt := true
			eachInstr(fn, func(in ssa.Instruction) {
				st, ok := in.(*ssa.Store)
				if !ok || !head.Dominates(st.Block()) {
					return
				}
				a := r.D.D(st.Addr)
				i := strings.LastIndex(a, ".")
				if i < 0 || !strings.HasSuffix(a, ")") {
					return
				}
				f := a[i+1 : len(a)-1]
				got[f] = r.D.D(st.Val)
				if !anyGlob(w[f], got[f]) {
					okSt = false
				}
			})
			r.Check(kk+":fields", okSt && len(got) == len(w), r.Where(call), fmt.Sprintf("sets %v; expected %v", got, w))
			for _, pu := range CallsTo(fn, "strconv.ParseUint") {
				if head.Dominates(pu.Block()) {
					r.ErrorsGateLocal(fn, kk+":unparsable-ignored", pu.(*ssa.Call), head)
				}
			}
		}
		r.Check("tag-keys", len(seen) == 6, r.FnPos(fn), fmt.Sprintf("%d of the six tag keys are recognised", len(seen)))
		// clauses are told apart by their prefix: no key may begin with another one
		amb := ""
		for _, k1 := range allKeys {
			for _, k2 := range allKeys {
				if k1 != k2 && strings.HasPrefix(k1, k2) {
					amb = fmt.Sprintf("a clause %q… also matches the test for %q", k1, k2)
				}
			}
		}
		r.Check("tag-keys-unambiguous", amb == "", r.FnPos(fn), "no tag key is a prefix of another one "+amb)
	}
}

func c09R4(r *Run, pf, mf, rv *c09fn) {
	// (a) decision table of fieldInfo.check
	if fn := r.Fn("(tls.fieldInfo).check"); fn != nil {
		atoms := []RuleAtom{
			{Name: "size", OrdA: "p1", OrdB: "(1 << (8 * p0.count))"},
			{Name: "bounded", OrdA: "p0.maxlen", OrdB: "0", Dom: []string{"=", ">"}},
			{Name: "min", OrdA: "p1", OrdB: "p0.minlen"},
			{Name: "max", OrdA: "p1", OrdB: "p0.maxlen"},
		}
		// an 8-byte field holds every uint64: 1 << (8·8) wraps to 0, so the size test
		// must not apply when count = 8 (the tag grammar allows sizes 1..8)
		full := false
		for _, ci := range r.D.AtomsOf(fn) {
			if ci.Kind == "ord" && (ci.A == "p0.count" && ci.B == "8" || ci.A == "8" && ci.B == "p0.count") {
				full = true
			}
		}
		r.Check("check:8-byte-fields-not-refused-by-size", full, r.FnPos(fn), "val >= 1<<(8*count) is evaluated only for count < 8 (for count = 8 the shift wraps to 0 and every value of an 8-byte enum or length would be refused, in both directions)")
		counts := []string{"?"}
		if full {
			atoms = append(atoms, RuleAtom{Name: "count", OrdA: "p0.count", OrdB: "8"})
			counts = []string{"<", "="}
		}
		for _, cnt := range counts {
			for _, size := range []string{"<", "=", ">"} {
				for _, row := range [][3]string{{"=", "?", "?"}, {">", "<", "<"}, {">", "=", "<"}, {">", ">", "<"}, {">", "=", "="}, {">", ">", "="}, {">", ">", ">"}} {
					as := append([]RuleAtom{}, atoms...)
					as[0].Dom, as[1].Dom, as[2].Dom, as[3].Dom = []string{size}, []string{row[0]}, []string{row[1]}, []string{row[2]}
					key := fmt.Sprintf("check[val%s2^(8·count),maxlen%s0,val%sminlen,val%smaxlen]", size, row[0], row[1], row[2])
					if full {
						as[4].Dom = []string{cnt}
						key = fmt.Sprintf("check[count%s8,val%s2^(8·count),maxlen%s0,val%sminlen,val%smaxlen]", cnt, size, row[0], row[1], row[2])
					}
					if cnt == "=" && size != "<" {
						continue // 2^64 is not a uint64: for count = 8 only val < 2^(8·count) exists
					}
					_, err := r.D.Table(fn, nil, nil, as, func(val map[string]string, reach *Reach, s Sigma) {
						r.Valuations++
						wantErr := (size != "<" && cnt != "=") || (row[0] == ">" && (row[1] == "<" || row[2] == ">"))
						rets := reachableReturns(fn, reach)
						ok := len(rets) > 0
						for _, ret := range rets {
							k := errKind(ret.Results[0])
							ok = ok && (wantErr && k == "non" || !wantErr && k == "nil")
						}
						r.Check(key, ok, r.FnPos(fn), fmt.Sprintf("refused=%v expected; %d returns reachable", wantErr, len(rets)))
					})
					if err != nil {
						r.Fail(key, r.FnPos(fn), "undecided: "+err.Error())
					}
				}
			}
		}
	}
	// (b) decode: the value read is checked with the field's own info before it is returned
	if rv != nil {
		fn := rv.fn
		r.ErrorsGate(fn, "readVarUint:check-gates", "(tls.fieldInfo).check", 1)
		if c := r.OneCall(fn, "readVarUint:check", "(tls.fieldInfo).check"); c != nil {
			r.ExpectArg(c, "readVarUint:check-info", 0, "*p1")
			okV := false
			for _, ret := range successReturns(fn) {
				okV = ret.(*ssa.Return).Results[0] == CallArgs(c)[1]
			}
			r.Check("readVarUint:check-value", okV, r.Where(c), "the value checked is the value returned")
		}
		r.FailEdge(fn, "readVarUint", EdgeSpec{Name: "no-size-info", Atom: nilAtom("p1"), Bad: "nil", Want: wantErr(true)})
		r.FailEdge(fn, "readVarUint", EdgeSpec{Name: "size-not-set", Atom: boolAtom("p1." + c09SizeFlag(r)), Bad: "F", Want: wantErr(true)})
	}
	if pf != nil {
		c09Gate(r, pf, "parseField:readVarUint-gates", "tls.readVarUint", 2)
		c09Gate(r, pf, "parseField:element-errors-gate", "tls.parseField", 2)
		c09Gate(r, pf, "parseField:tag-errors-gate", "tls.fieldTagToFieldInfo", 1)
	}
	// (c) encode
	if mf != nil {
		fn := mf.fn
		c09Gate(r, mf, "marshalField:check-gates", "(tls.fieldInfo).check", 3)
		c09Gate(r, mf, "marshalField:element-errors-gate", "tls.marshalField", 2)
		c09Gate(r, mf, "marshalField:tag-errors-gate", "tls.fieldTagToFieldInfo", 1)
		for _, label := range []string{enumCase, sliceCase} {
			kp := "marshalField[" + label + "]:"
			checks := callsIn(mf, label, "(tls.fieldInfo).check")
			ems := emitsIn(r, mf, label)
			want := 1
			if label == sliceCase {
				want = 2
			}
			r.Check(kp+"checks", len(checks) == want, r.FnPos(fn), fmt.Sprintf("%d bound checks in the case (one per completing path)", len(checks)))
			for _, c := range checks {
				okInfo := r.D.D(c.Call.Args[0]) == "*p2"
				// the checked number is the number encoded by the prefix / enum bytes that this path writes
				v := r.D.D(c.Call.Args[1])
				okVal := false
				for _, em := range ems {
					if em.val != "" && em.val == v && em.ok {
						okVal = true
					}
				}
				r.Check(kp+"check-operands["+keySafe(v)+"]", okInfo && okVal, r.Where(c), "check(info of this field, the number that is written: "+v+")")
			}
			// missing tag ⇒ error, nothing written
			for _, b := range r.blocksTesting(fn, func(ci *CondInfo) bool { return ci.Key == "nil?p2" }) {
				if !mf.in(label, b.Instrs[0]) {
					continue
				}
				reach, rets := walkReturns(r, fn, b, Sigma{"nil?p2": "nil"}, nil)
				wrote := false
				for _, em := range ems {
					wrote = wrote || reach.Has(em.call)
				}
				r.Check(kp+"missing-tag", allErr(rets) && !wrote, r.Where(b.Instrs[len(b.Instrs)-1]), "no field info ⇒ error and no output")
			}
		}
		// uint24 overflow
		{
			kp := "marshalField[uint24Type]:"
			var tested bool
			for _, b := range r.blocksTesting(fn, func(ci *CondInfo) bool {
				return ci.Kind == "ord" && ci.Key == "ord((reflect.Value).Uint(p1), 16777215)"
			}) {
				if !mf.in("uint24Type", b.Instrs[0]) {
					continue
				}
				tested = true
				for _, v := range []string{"<", "=", ">"} {
					reach, rets := walkReturns(r, fn, b, Sigma{"ord((reflect.Value).Uint(p1), 16777215)": v}, nil)
					wrote := false
					for _, em := range emitsIn(r, mf, "uint24Type") {
						wrote = wrote || reach.Has(em.call)
					}
					if v == ">" {
						r.Check(kp+"overflow", allErr(rets) && !wrote, r.FnPos(fn), "a Uint24 above 0xffffff is refused, nothing written")
					} else {
						r.Check(kp+"in-range["+v+"]", !allErr(rets) && wrote, r.FnPos(fn), "a Uint24 up to 0xffffff is written")
					}
				}
			}
			r.Check(kp+"overflow-test", tested, r.FnPos(fn), "the uint24 case compares the value with 0xffffff")
		}
	}
	// (d) tag validation and byteCount
	if fn := r.Fn("tls.fieldTagToFieldInfo"); fn != nil {
		r.failEdgeConst(fn, "fieldTagToFieldInfo", EdgeSpec{Name: "size-unknown", Atom: ordAtomR("*.count", "1"), Bad: "<", Want: wantErr(true)})
		r.failEdgeConst(fn, "fieldTagToFieldInfo", EdgeSpec{Name: "size-above-8", Atom: ordAtomR("*.count", "8"), Bad: ">", Want: wantErr(true)})
		r.failEdgeConst(fn, "fieldTagToFieldInfo", EdgeSpec{Name: "range-inverted", Atom: ordAtomR("*.minlen", "*.maxlen"), Bad: ">", Want: wantErr(true)})
	}
	if fn := r.Fn("tls.byteCount"); fn != nil {
		atoms := r.D.AtomsOf(fn)
		// the chain of thresholds: every comparison is x against a constant, each outcome of the
		// chain returns a constant
		table := func(x uint64) string {
			s := Sigma{}
			for k, ci := range atoms {
				if ci.Kind != "ord" {
					continue
				}
				var c uint64
				var err error
				xLeft := ci.A == "p0"
				if xLeft {
					c, err = strconv.ParseUint(ci.B, 10, 64)
				} else {
					c, err = strconv.ParseUint(ci.A, 10, 64)
				}
				if err != nil {
					return "undecided: comparison " + k
				}
				rel := "="
				if x < c {
					rel = "<"
				} else if x > c {
					rel = ">"
				}
				if !xLeft {
					rel = map[string]string{"<": ">", ">": "<", "=": "="}[rel]
				}
				s[k] = rel
			}
			_, rets := walkReturns(r, fn, nil, s, nil)
			if len(rets) != 1 {
				return fmt.Sprintf("%d returns", len(rets))
			}
			return r.D.D(rets[0].Results[0])
		}
		// Not a chain of thresholds (computed some other way, e.g. from math/bits.Len64): what the
		// obligation asks is the VALUE byteCount takes at x, and for an integer function without
		// loads and foreign calls that value is decided by running its SSA form on x (intRun;
		// anything it does not model leaves the answer undecided).
		ran := false
		eval := func(x uint64) string {
			got := table(x)
			if _, err := strconv.ParseUint(got, 10, 64); err == nil {
				return got
			}
			v, why := r.intRun(fn, []*big.Int{new(big.Int).SetUint64(x)})
			if v == nil {
				return got + " (" + why + ")"
			}
			ran = true
			return v.String()
		}
		for k := uint64(1); k <= 8; k++ {
			lo := uint64(1) << (8 * (k - 1))
			if k == 1 {
				lo = 0
			}
			hi := uint64(1)<<(8*k-1)*2 - 1 // 2^(8k) - 1 without overflowing at k = 8
			ran = false
			gl, gh := eval(lo), eval(hi)
			ok := gl == fmt.Sprint(k) && gh == fmt.Sprint(k)
			more := ""
			if ok && ran {
				// a computed result is sampled inside the range as well: at both ends of every
				// run of values of equal bit length (2^j and 2^(j+1)−1 for 8(k−1) ≤ j < 8k)
				more = "; likewise at 2^j and 2^(j+1)−1 for every j from " + fmt.Sprint(8*(k-1)) + " to " + fmt.Sprint(8*k-1)
			samples:
				for j := 8 * (k - 1); j < 8*k; j++ {
					for _, x := range []uint64{uint64(1) << j, uint64(1)<<j*2 - 1} {
						if g := eval(x); g != fmt.Sprint(k) {
							ok, more = false, fmt.Sprintf("; byteCount(%d)=%s", x, g)
							break samples
						}
					}
				}
			}
			r.Check(fmt.Sprintf("byteCount[%d]", k), ok, r.FnPos(fn), fmt.Sprintf("byteCount(%d)=%s, byteCount(%d)=%s%s; %d bytes hold exactly the values up to 2^%d−1", lo, gl, hi, gh, more, k, 8*k))
		}
	}
	// (e) the entry points hand errors up
	if fn := r.Fn("tls.UnmarshalWithParams"); fn != nil {
		r.ErrorsGate(fn, "UnmarshalWithParams:errors-gate", "tls.*", 2)
	}
	if fn := r.Fn("tls.MarshalWithParams"); fn != nil {
		c09MarshalTop(r, fn)
	}
}

// c09SizeFlag names the field of fieldInfo that says "count holds a size taken from the tag".
// It is identified by its role in the type, not by its name: fieldInfo has numeric fields
// (sizes, bounds, the selector value), string fields (names) and exactly ONE boolean field — the
// flag.  R3 demands that every tag key that writes count writes this field true, R4 that
// readVarUint refuses to read when it is false; together they are what makes a boolean field the
// size-known flag, whatever it is called.  No or several boolean fields: undecided (the name
// "countSet" is then used and the obligations that depend on it fail).
func c09SizeFlag(r *Run) string {
	var bools []string
	if n := r.P.LookupType("tls.fieldInfo"); n != nil {
		if st, ok := n.Underlying().(*types.Struct); ok {
			for k := 0; k < st.NumFields(); k++ {
				if b, isB := st.Field(k).Type().Underlying().(*types.Basic); isB && b.Kind() == types.Bool {
					bools = append(bools, st.Field(k).Name())
				}
			}
		}
	}
	if len(bools) == 1 {
		return bools[0]
	}
	r.Fail("fieldInfo:size-known-flag", "-", fmt.Sprintf("undecided: tls.fieldInfo has %d boolean fields %v; the size-known flag is identified as its only boolean field", len(bools), bools))
	return "countSet"
}

// MarshalWithParams returns `out.Bytes(), err` with the stale first err: the
// bytes are returned only on the path where both callees succeeded.
func c09MarshalTop(r *Run, fn *ssa.Function) {
	for _, g := range []string{"tls.fieldTagToFieldInfo(*)#1", "tls.marshalField(*)"} {
		blocks := r.blocksTesting(fn, func(ci *CondInfo) bool { return glob("nil?"+g, ci.Key) })
		ok := len(blocks) > 0
		for _, b := range blocks {
			ci := ""
			for k := range r.D.AtomsOf(fn) {
				if glob("nil?"+g, k) {
					ci = k
				}
			}
			_, rets := walkReturns(r, fn, b, Sigma{ci: "non"}, nil)
			for _, ret := range rets {
				ok = ok && r.D.D(ret.Results[0]) == "nil" && errKind(ret.Results[1]) != "nil"
			}
		}
		r.Check("MarshalWithParams:error["+g+"]", ok, r.FnPos(fn), "an error of "+g+" yields (nil, that error), never bytes")
	}
}

// ---- R6: variants -------------------------------------------------------------------------

func c09R6(r *Run, pf, mf *c09fn) {
	for _, c := range []*c09fn{pf, mf} {
		if c == nil {
			continue
		}
		fn := c.fn
		dec := c == pf
		kp := c.name + "[" + structCase + "]:"
		ftis := callsIn(c, structCase, "tls.fieldTagToFieldInfo")
		recs := callsIn(c, structCase, "tls."+c.name)
		if len(ftis) != 1 || len(recs) < 1 {
			r.Fail(kp+"variant-table", r.FnPos(fn), fmt.Sprintf("undecided: expected one tag lookup and at least one recursive call in the field loop, found %d and %d", len(ftis), len(recs)))
			continue
		}
		body := ftis[0].Block()
		head := loopHeadOf(ftis[0])
		// The field may be coded at one place whose operand merges the two forms (v.Field(i) for a
		// plain field, v.Field(i).Elem() for a chosen variant), or at a place of its own per form.
		// What the table demands is the same: in every row exactly ONE recursive call executes in
		// an iteration that codes the field (none in one that does not), and its operand is the
		// form that the row calls for.
		vpv := fn.Params[0]
		if !dec {
			vpv = fn.Params[1]
		}
		opnd := func(rec *ssa.Call) ssa.Value {
			if dec {
				return CallArgs(rec)[0]
			}
			return CallArgs(rec)[1]
		}
		// form of a call's operand: "plain" v.Field(i), "elem" v.Field(i).Elem(), "merge" a φ of the two, "" anything else
		form := func(rec *ssa.Call) string {
			d := opnd(rec)
			if fieldOfV(d, vpv) != nil {
				return "plain"
			}
			if ec, ok := d.(*ssa.Call); ok && CalleeOf(ec) == "(reflect.Value).Elem" && fieldOfV(ec.Call.Args[0], vpv) != nil {
				return "elem"
			}
			if _, ok := d.(*ssa.Phi); ok {
				return "merge" // (which of the forms arrives is decided per row, on the edges its walk takes: coded-operand)
			}
			return ""
		}
		idxTerm := c09FieldIndexTerm(c, ftis[0])
		ptrOps := c09PointerOnlyOps(c, vpv)
		// what the operand of the coding call is in the rows that code the field (coded-operand)
		opndOK, nElemRows, nPlainRows := idxTerm != "", 0, 0
		var opndBad []string
		okLoop := true
		for _, rec := range recs {
			okLoop = okLoop && loopHeadOf(rec) == head
		}
		if !okLoop {
			r.Fail(kp+"variant-table", r.FnPos(fn), "undecided: a recursive call of the struct case lies outside the loop that looks up the field's tag")
			continue
		}
		rec := recs[0] // (position for messages)
		stop := map[*ssa.BasicBlock]bool{head: true}
		// one iteration is walked from the tag lookup to the loop head; where the loop decides
		// about the next iteration at its end (`for i := range n`) the walk assumes that there is
		// a next field, so "continues" means: goes on to the next field if there is one
		lf := c.loopForm(head)
		// markers
		var zero, alloc, mark, unmark []ssa.Instruction
		eachInstr(fn, func(in ssa.Instruction) {
			if !c.in(structCase, in) {
				return
			}
			switch x := in.(type) {
			case *ssa.Call:
				if CalleeOf(x) == "(reflect.Value).Set" {
					switch d := r.D.D(x.Call.Args[1]); {
					case strings.HasPrefix(d, "reflect.Zero("):
						zero = append(zero, x)
					case strings.HasPrefix(d, "reflect.New("):
						alloc = append(alloc, x)
					}
				}
			case *ssa.MapUpdate:
				if glob("make:map[string]bool", r.D.D(x.Map)) && glob("*.selector", r.D.D(x.Key)) {
					if r.D.D(x.Value) == "true" {
						mark = append(mark, x)
					} else {
						unmark = append(unmark, x)
					}
				}
			}
		})
		any := func(reach *Reach, ms []ssa.Instruction) bool {
			for _, m := range ms {
				if reach.Has(m) {
					return true
				}
			}
			return false
		}
		atoms := []RuleAtom{
			{Name: "tagerr", Pat: "nil?tls.fieldTagToFieldInfo(*)#1", Dom: []string{"nil"}},
			{Name: "recerr", Pat: "nil?tls." + c.name + "(*fieldTagToFieldInfo*)*", Dom: []string{"nil"}},
			{Name: "sel", OrdA: "*#0.selector", OrdB: `""`},
			{Name: "known", Pat: "make:map[string]uint64[*.selector]#1"},
			{Name: "ptr", OrdA: "iface(reflect.Type).Kind(iface(reflect.Type).Field(*).Type)", OrdB: "22"},
			{Name: "first", Pat: "make:map[string]bool[*.selector]#1"},
			{Name: "choice", OrdA: "make:map[string]uint64[*.selector]#0", OrdB: "*#0.val"},
			{Name: "seen", Pat: "make:map[string]bool[*.selector]#0"},
		}
		if !dec {
			atoms = append(atoms, RuleAtom{Name: "nilptr", OrdA: "(reflect.Value).Pointer(*)", OrdB: "0"})
		}
		// rows of the decision table (atoms not named in a row are left open: both edges are followed)
		type row struct{ sel, known, ptr, first, choice, seen, nilptr, want string }
		var rows []row
		rows = append(rows, row{sel: "=", want: "plain"},
			row{sel: ">", known: "F", want: "error"},
			row{sel: ">", known: "T", ptr: ">", want: "error"},
			row{sel: ">", known: "T", ptr: "=", first: "T", choice: "=", seen: "T", want: "error"})
		for _, first := range []string{"T", "F"} {
			for _, ch := range []string{"<", ">"} {
				if dec {
					rows = append(rows, row{sel: ">", known: "T", ptr: "=", first: first, choice: ch, want: "skip"})
				} else {
					rows = append(rows, row{sel: ">", known: "T", ptr: "=", first: first, choice: ch, nilptr: "=", want: "skip"},
						row{sel: ">", known: "T", ptr: "=", first: first, choice: ch, nilptr: ">", want: "error"})
				}
			}
			if dec {
				rows = append(rows, row{sel: ">", known: "T", ptr: "=", first: first, choice: "=", seen: "F", want: "chosen"})
			} else {
				rows = append(rows, row{sel: ">", known: "T", ptr: "=", first: first, choice: "=", seen: "F", nilptr: ">", want: "chosen"},
					row{sel: ">", known: "T", ptr: "=", first: first, choice: "=", seen: "F", nilptr: "=", want: "error"})
			}
		}
		for _, rw := range rows {
			vals := map[string]string{"tagerr": "nil", "recerr": "nil", "sel": rw.sel, "known": rw.known, "ptr": rw.ptr, "first": rw.first, "choice": rw.choice, "seen": rw.seen, "nilptr": rw.nilptr}
			as := append([]RuleAtom{}, atoms...)
			var vs []string
			for i := range as {
				v := vals[as[i].Name]
				if v == "" {
					v = "?"
				} else if i >= 2 {
					vs = append(vs, as[i].Name+v)
				}
				as[i].Dom = []string{v}
			}
			key := kp + "variant[" + strings.Join(vs, ",") + "]"
			err := c.table(body, stop, lf.more, as, func(val map[string]string, reach *Reach, s Sigma) {
				r.Valuations++
				rets := reachableReturns(fn, reach)
				cont := false
				for _, p := range head.Preds {
					// (a walk that starts in the head itself: that block being reached says nothing, its back edge does)
					cont = cont || (reach.Blocks[p] && head.Dominates(p) && (p != head || body != head || reach.Edges[[2]int{p.Index, head.Index}]))
				}
				// exactly one coding call executes, and it takes the form the row calls for (a merged
				// operand is judged per incoming edge below: coded-operand)
				var ran []*ssa.Call
				for _, rc := range recs {
					if reach.Has(rc) {
						ran = append(ran, rc)
					}
				}
				coded := len(ran) == 1
				if coded {
					switch f := form(ran[0]); rw.want {
					case "plain":
						coded = f == "plain" || f == "merge"
					case "chosen":
						coded = f == "elem" || f == "merge"
					}
				}
				if len(ran) > 1 {
					coded = rw.want == "error" || rw.want == "skip" // (so that the row fails: the field would be coded more than once)
				}
				if len(ran) == 1 && (rw.want == "plain" || rw.want == "chosen") {
					// the value the one executing coding call receives, on the edges this row's walk takes
					fs := c09OperandForms(r, opnd(ran[0]), vpv, idxTerm, reach)
					wantForm := map[string]string{"plain": "plain", "chosen": "elem"}[rw.want]
					if len(fs) == 1 && fs[0] == wantForm {
						if rw.want == "plain" {
							nPlainRows++
						} else {
							nElemRows++ // (that the selector is marked served in this iteration is the row's own demand)
						}
					} else {
						opndOK = false
						opndBad = append(opndBad, fmt.Sprintf("row %s codes %v, expected %s", strings.Join(vs, ","), fs, map[string]string{"plain": "v.Field(i)", "elem": "v.Field(i).Elem()"}[wantForm]))
					}
				}
				var ok bool
				switch rw.want {
				case "plain":
					ok = coded && cont && len(rets) == 0 && !any(reach, zero) && !any(reach, alloc) && !any(reach, mark)
				case "error":
					ok = !coded && !cont && allErr(rets)
					if rw.ptr == ">" {
						// the field is not a pointer: nothing that is only defined on pointers may run
						ok = ok && !any(reach, ptrOps)
					}
				case "skip":
					ok = !coded && cont && len(rets) == 0 && !any(reach, mark) && !any(reach, alloc) && (!dec || any(reach, zero))
				case "chosen":
					ok = coded && cont && len(rets) == 0 && any(reach, mark) && !any(reach, zero) && (!dec || any(reach, alloc))
				}
				// the selector is entered as "not yet served" only on its first mention
				if rw.want == "skip" || rw.want == "chosen" {
					ok = ok && any(reach, unmark) == (rw.first == "F")
				}
				r.Check(key, ok, r.Where(ftis[0]),
					c09RowText(rw.want, rw.known, rw.ptr, rw.choice, rw.seen, rw.nilptr, dec)+fmt.Sprintf(": expected %s; pointer-only operations on the field run=%v coded(once, in the form of the row)=%v [%d coding calls run] continues=%v returns=%d setnil=%v alloc=%v marked=%v reset=%v", rw.want, any(reach, ptrOps), coded, len(ran), cont, len(rets), any(reach, zero), any(reach, alloc), any(reach, mark), any(reach, unmark)))
			})
			if err != nil {
				r.Fail(key, r.FnPos(fn), "undecided: "+err.Error())
			}
		}
		// what is coded when chosen: the pointed-to value; otherwise the field itself.  Decided per row
		// above, on the walk of the row (a fact of the paths that code the field, not of dominators:
		// the bookkeeping may sit in a helper whose "chosen" / "not chosen" answers meet before the
		// caller acts on them).  That the selector is marked served in the iteration that codes a
		// chosen variant is demanded by the "chosen" rows; the order of the mark and the coding call
		// inside that iteration is not part of the property (the map is local to this call and read
		// again only in later iterations and after the loop).
		okDst := opndOK && nElemRows >= 1 && nPlainRows >= 1
		detail := "a chosen variant codes v.Field(i).Elem() (and is marked served in that iteration); a plain field codes v.Field(i)"
		switch {
		case idxTerm == "":
			detail = "undecided: the index of the field whose tag is looked up is not of the form structType.Field(i).Name; " + detail
		case len(opndBad) > 0:
			detail += ": " + strings.Join(opndBad, "; ")
		case !okDst:
			detail += fmt.Sprintf(": exactly one coding call runs in %d of the rows that call for a plain field and in %d of the rows that call for a chosen variant (at least one each expected; see the rows)", nPlainRows, nElemRows)
		}
		r.Check(kp+"coded-operand", okDst, r.Where(rec), detail)
		if dec {
			okA := len(alloc) == 1
			if okA {
				a := alloc[0].(*ssa.Call)
				nw, isNew := a.Call.Args[1].(*ssa.Call)
				okA = fieldOfV(a.Call.Args[0], vpv) != nil && isNew && glob("iface(reflect.Type).Elem(iface(reflect.Type).Field(*).Type)", c.D(nw.Call.Args[0]))
			}
			r.Check(kp+"chosen-allocated", okA, r.Where(rec), "the chosen field v.Field(i) is set to a new value of the pointed-to type before decoding into it")
			okZ := len(zero) == 1
			if okZ {
				z := zero[0].(*ssa.Call)
				okZ = fieldOfV(z.Call.Args[0], vpv) != nil && glob("reflect.Zero(iface(reflect.Type).Field(*).Type)", c.D(z.Call.Args[1]))
			}
			r.Check(kp+"unchosen-set-nil", okZ, r.Where(rec), "an unchosen variant v.Field(i) is set to the zero value (nil) of its own type")
		}
		// selectors: every enum-kinded field is remembered under its own name with its own value
		nrec := 0
		eachInstr(fn, func(in ssa.Instruction) {
			mu, ok := in.(*ssa.MapUpdate)
			if !ok || !c.in(structCase, in) || !glob("make:map[string]uint64", r.D.D(mu.Map)) {
				return
			}
			nrec++
			okK := glob("iface(reflect.Type).Field(*, it@*).Name", c.D(mu.Key))
			okV := false
			if uc, isCall := mu.Value.(*ssa.Call); isCall && CalleeOf(uc) == "(reflect.Value).Uint" {
				okV = fieldOfV(uc.Call.Args[0], vpv) != nil
			}
			guard := false
			for _, b := range c.blocksTesting(func(ci *CondInfo) bool {
				return ci.Kind == "ord" && strings.Contains(ci.Key, "Kind(g:tls.enumType)") && glob("*iface(reflect.Type).Field(*).Type*", ci.Key)
			}) {
				// … after the call that codes the field.  Where plain fields and chosen variants are
				// coded at places of their own, that is the call for plain fields: a variant field has
				// pointer kind (row ptr> of the table refuses any other), never the kind of Enum.
				after := false
				for _, rc := range recs {
					if f := form(rc); f == "plain" || f == "merge" {
						after = after || rc.Block().Dominates(b)
					}
				}
				for _, rc := range recs {
					if form(rc) == "merge" && !rc.Block().Dominates(b) {
						after = false
					}
				}
				guard = guard || (b.Succs[0] == mu.Block() && len(mu.Block().Preds) == 1 && after)
			}
			r.Check(kp+"selector-recorded", okK && okV && guard, r.Where(mu), "after a field of Enum kind is coded, enums[field name] = its value: "+c.D(mu.Key)+" ← "+c.D(mu.Value))
		})
		r.Check(kp+"selector-recording", nrec == 1, r.FnPos(fn), fmt.Sprintf("%d writers of the selector-value map", nrec))
		// after the loop: a selector none of whose variants was chosen is an error
		r.FailEdge(fn, c.name+"["+structCase+"]", EdgeSpec{Name: "selector-unserved", Atom: boolAtom("rangeval(make:map[string]bool)"), Bad: "F", Want: wantErr(false)})
		for _, ret := range regionReturns(c, structCase) {
			okAfter := false
			for _, b := range r.blocksTesting(fn, func(ci *CondInfo) bool { return ci.Key == "rangeok(make:map[string]bool)" }) {
				okAfter = okAfter || (b.Dominates(ret.Block()) && c.head(structCase) != nil && lf.afterLoop(c.head(structCase), head, b))
			}
			r.Check(kp+"success-after-selector-check", okAfter, r.Where(ret), "the struct case succeeds only after all fields and the unserved-selector check")
		}
	}
}

// ---- R9: integer conversions in the codec keep their value ---------------------------------
//
// The window arithmetic treats integers as ideal.  That is only sound when
// every conversion between integer types in the codec functions keeps the
// value: the target type holds every source value, or dominating guards
// confine the operand (e.g. a length read from the input is compared with the
// remaining input *before* it becomes an int).  The only declared bound is
// fieldInfo.count ≤ 8, justified by two obligations of this rule: count is
// written only from byteCount(…) (whose returns are constants ≤ 8) or from a
// "size:" tag, and sizes above 8 are outside the documented tag grammar.
func c09R9(r *Run, fns ...*c09fn) {
	// byteCount returns constants ≤ 8
	if bc := r.Fn("tls.byteCount"); bc != nil {
		ok, n := true, 0
		eachInstr(bc, func(in ssa.Instruction) {
			if ret, isRet := in.(*ssa.Return); isRet && len(ret.Results) == 1 {
				for _, v := range phiLeaves(ret.Results[0]) {
					n++
					c, isC := v.(*ssa.Const)
					if !isC || c.Value == nil {
						ok = false
						continue
					}
					if i, exact := constant.Int64Val(c.Value); !exact || i < 0 || i > 8 {
						ok = false
					}
				}
			}
		})
		detail := fmt.Sprintf("%d returned constants, all in [0,8]: %v", n, ok)
		if !ok {
			// not constants: bound every returned value by its construction (intInterval: value
			// ranges of math/bits.Len*, constants and wrap-free arithmetic, no branch conditions)
			ok, n = true, 0
			detail = "returned values:"
			eight := big.NewInt(8)
			eachInstr(bc, func(in ssa.Instruction) {
				if ret, isRet := in.(*ssa.Return); isRet && len(ret.Results) == 1 {
					n++
					lo, hi, known := r.intInterval(ret.Results[0], map[ssa.Value]bool{})
					if !known || lo.Sign() < 0 || hi.Cmp(eight) > 0 {
						ok = false
					}
					if known {
						detail += fmt.Sprintf(" %s in [%s,%s]", r.D.D(ret.Results[0]), lo, hi)
					} else {
						detail += " " + r.D.D(ret.Results[0]) + " not an integer"
					}
				}
			})
			detail += "; all within [0,8]: " + fmt.Sprint(ok)
		}
		r.Check("count-source:byteCount-returns-at-most-8", ok && n > 0, r.FnPos(bc), detail)
	}
	// writers of fieldInfo.count
	ws := r.FieldWriters("tls.fieldInfo.count")
	nw := 0
	for fnName, sts := range ws {
		for _, in := range sts {
			st := in.(*ssa.Store)
			nw++
			d := r.D.D(st.Val)
			src := ""
			switch {
			case strings.HasPrefix(d, "tls.byteCount("):
				src = "byteCount"
			default:
				if cv, ok := st.Val.(*ssa.Convert); ok {
					if ex, ok := cv.X.(*ssa.Extract); ok && ex.Index == 0 {
						if call, ok := ex.Tuple.(*ssa.Call); ok && CalleeOf(call) == "strconv.ParseUint" {
							src = "size-tag"
						}
					}
				}
			}
			r.Check("count-source:"+short(fnName)+":"+d, src != "", r.Where(in),
				"fieldInfo.count is written from byteCount(…) or a parsed \"size:\" tag only (source: "+src+")")
		}
	}
	r.Floor("writers of fieldInfo.count", nw, 3)
	for _, c := range fns {
		if c == nil {
			continue
		}
		n := 0
		eachInstr(c.fn, func(in ssa.Instruction) {
			cv, ok := in.(*ssa.Convert)
			if !ok || !isIntType(cv.Type()) || !isIntType(cv.X.Type()) {
				return
			}
			n++
			// data values, not lengths: v.Uint() of a value whose Go type the dispatch fixed
			// to uintN holds an N-bit number (R2/R3 check the dispatch and the widths)
			if strings.HasPrefix(r.D.D(cv.X), "(reflect.Value).Uint(") && isUnsigned(cv.Type()) && len(c.regs) > 0 {
				bits := c.e.r.P.Sizes().Sizeof(cv.Type().Underlying()) * 8
				lab := regionLabel(c.regs, in.Block())
				if lab == fmt.Sprintf("uint%dType", bits) || (bits == 8 && (lab == arrayCase || lab == sliceCase)) {
					r.Pass("conv:"+c.name+"["+lab+"]:"+types.TypeString(cv.Type(), nil)+"("+r.D.D(cv.X)+")", r.Where(in),
						"data value of the dispatched Go type ("+lab+"): holds at most "+fmt.Sprint(bits)+" bits")
					return
				}
			}
			pres := c.e.convPreserves(cv)
			ci := c.e.convs[cv]
			r.Check("conv:"+c.name+":"+types.TypeString(cv.Type(), nil)+"("+r.D.D(cv.X)+")", pres, r.Where(in),
				"integer conversion keeps its value: "+ci.why+c09DebugFacts(c, cv))
		})
		r.Funcs[FuncName(c.fn)] = true
		_ = n
	}
}

// phiLeaves flattens φ-nodes into the values they merge.
func phiLeaves(v ssa.Value) []ssa.Value {
	seen := map[ssa.Value]bool{}
	var out []ssa.Value
	var walk func(ssa.Value)
	walk = func(v ssa.Value) {
		if seen[v] {
			return
		}
		seen[v] = true
		if p, ok := v.(*ssa.Phi); ok {
			for _, e := range p.Edges {
				walk(e)
			}
			return
		}
		out = append(out, v)
	}
	walk(v)
	return out
}

func c09DebugFacts(c *c09fn, cv *ssa.Convert) string {
	if c.e.convs[cv].ok {
		return ""
	}
	var fs []string
	for _, f := range c.e.factsAt(cv.Block()) {
		fs = append(fs, f.String()+" ≥ 0")
	}
	sort.Strings(fs)
	return "; facts at the conversion: " + strings.Join(fs, ", ")
}
