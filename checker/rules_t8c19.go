package main

import (
	"fmt"
	"go/token"
	"go/types"
	"sort"
	"strings"

	"golang.org/x/tools/go/ssa"
)

// ---- C19, round 8: facts that used to be counted or named ------------------------------------
//
//  1. WHO WRITES THE ROW.  "setSTH is called from Update at 2 sites" counted syntax.  What it
//     protected: the row is written only inside Update's decision procedure, and only when that
//     procedure accepted the candidate.  The first half is decided here (c19WhoStores: a caller of
//     setSTH is Update or a function literal of Update called where it is written — the form a
//     helper with a deferred call takes after normalisation); the second half is R2's table,
//     which judges EVERY store site under every class.
//
//  2. WHAT A NIL RESULT OF setSTH MEANS.  "setSTH returns tx.Commit()" froze an expression.  The
//     fact: a nil error of setSTH means Commit on the transaction it wrote through returned nil
//     (c19SetSTHResult) — bookkeeping between the commit and the return changes nothing.
//
//  3. THE DECISION IS MADE ON THE ROW AS IT IS IN THE WRITING TRANSACTION.  "the previous STH is
//     read through the transaction setSTH writes through" is one way to establish it.  The other:
//     the transaction is opened late, and inside it the row is read again and the write happens
//     only if that row is byte-for-byte what the decision was made on (no row ⇔ first use) — a
//     compare-and-set (c19StoreUnit).  A late transaction without that comparison lets a
//     concurrent update commit in between and be overwritten (the held STH can shrink or fork).
//
//  4. EQUAL SIZE, EQUAL ROOT.  The property demands "equal size implies equal root" and "never
//     shrinks"; a validly signed re-issue of the held tree head (same size, same root) may
//     replace it.  The class is judged accordingly: nothing written ⇒ (held, nil); written ⇒ the
//     returns after the write are those of an accepted update.
//
//  5. A TREE HEAD THAT WAS VERIFIED BEFORE.  parse may skip VerifySTHSignature for an STH that
//     is, in every field the log's signature check reads and in the signature itself, a tree
//     head that parse accepted earlier for the same log ID (c19Memo).  The remembered value must
//     cover every input of the check (read off the SSA of VerifySTHSignature), be filed under the
//     log ID it was verified for, and be built the same way where it is stored and compared.

// c19Up renders a term of a function literal called on the spot in its parent's frame (the
// describer marks substituted parameters and captures with ^).
func c19Up(s string) string {
	s = strings.ReplaceAll(s, "^", "")
	// a captured variable is read through its address: *&(x) is x
	for {
		i := strings.Index(s, "*&(")
		if i < 0 {
			return s
		}
		depth, j := 0, i+2
		for ; j < len(s); j++ {
			if s[j] == '(' {
				depth++
			} else if s[j] == ')' {
				depth--
				if depth == 0 {
					break
				}
			}
		}
		if j >= len(s) {
			return s
		}
		s = s[:i] + s[i+3:j] + s[j+1:]
	}
}

// c19OnTheSpotCall: f is a function literal whose only use is one plain call in the function
// that contains it; that call (nil otherwise).
func c19OnTheSpotCall(f *ssa.Function) *ssa.Call {
	par := f.Parent()
	if par == nil {
		return nil
	}
	var call *ssa.Call
	uses := 0
	var scan func(g *ssa.Function)
	scan = func(g *ssa.Function) {
		eachInstr(g, func(in ssa.Instruction) {
			if mc, ok := in.(*ssa.MakeClosure); ok && mc.Fn == ssa.Value(f) {
				if mc.Referrers() == nil {
					uses += 2
					return
				}
				for _, ref := range *mc.Referrers() {
					switch x := ref.(type) {
					case *ssa.DebugRef:
					case *ssa.Call:
						if x.Call.Value == ssa.Value(mc) && !x.Call.IsInvoke() {
							uses++
							call = x
						} else {
							uses += 2
						}
					default:
						uses += 2
					}
				}
				return
			}
			for _, op := range in.Operands(nil) {
				if *op != ssa.Value(f) {
					continue
				}
				if c, ok := in.(*ssa.Call); ok && c.Call.Value == ssa.Value(f) {
					uses++
					call = c
				} else {
					uses += 2
				}
			}
		})
		for _, af := range g.AnonFuncs {
			if af != f {
				scan(af)
			}
		}
	}
	scan(par)
	if uses != 1 || call == nil || call.Parent() != par {
		return nil
	}
	return call
}

// c19InFamily: f is root, or a function literal called on the spot inside a member of the family.
func c19InFamily(root, f *ssa.Function) bool {
	for i := 0; i < 6 && f != nil; i++ {
		if f == root {
			return true
		}
		if c19OnTheSpotCall(f) == nil {
			return false
		}
		f = f.Parent()
	}
	return false
}

// ---- R1: who writes the row ------------------------------------------------------------------

func c19WhoStores(r *Run) {
	up := r.P.Func(c19Wit + ".Update")
	callers := r.CallersOf(c19Set)
	n := 0
	where := "-"
	for _, name := range keysOf(callers) {
		cs := callers[name]
		if up != nil && c19InFamily(up, cs[0].Parent()) {
			if n == 0 {
				where = r.Where(cs[0])
			}
			n += len(cs)
			continue
		}
		r.Fail("who:setSTH@"+name, r.Where(cs[0]), name+" calls "+c19Set+"; only Update's decision procedure (Update itself, or a function literal of Update called where it is written) may write the row")
	}
	r.Check("who:setSTH@"+c19Wit+".Update", n >= 1, where, fmt.Sprintf("positive control: Update's decision procedure calls %s (%d site(s))", c19Set, n))
	r.Check("who:setSTH.sites", n >= 1, where, fmt.Sprintf("%d store site(s), all inside Update's decision procedure; when each may execute is decided per class by C19.R2", n))
}

// c19SetSTHResult: a nil error of setSTH means that Commit on the transaction it wrote through
// returned nil.  Every return is the Commit result itself, an error that is non-nil by
// construction, or is reachable only after a Commit whose result was tested nil.
func c19SetSTHResult(r *Run, fn *ssa.Function, commit []ssa.Instruction) {
	for _, c := range commit {
		r.ExpectArg(c.(ssa.CallInstruction), "setSTH:commit.tx", 0, "p1")
	}
	direct := false
	var guarded []ssa.Instruction
	for _, ret := range Returns(fn) {
		v := RetVals(ret)[0]
		switch {
		case r.D.D(v) == "(*sql.Tx).Commit(p1)":
			direct = true
		case errKind(v) == "non":
		default:
			guarded = append(guarded, ret)
		}
	}
	if len(guarded) > 0 {
		r.MustGuard(fn, "setSTH:returns", "nil?(*sql.Tx).Commit(p1)", "non", guarded, "return of a possibly nil error (it must be the Exec failure, Commit's result, or come after a Commit that returned nil)")
	} else {
		r.Pass("setSTH:returns", r.FnPos(fn), "every return is the Exec failure or Commit's result")
	}
	r.Check("setSTH:commit-result", len(commit) >= 1 && (direct || len(guarded) > 0), r.FnPos(fn), "a nil result of setSTH means tx.Commit() on the transaction it wrote through returned nil")
}

// ---- store sites of Update -------------------------------------------------------------------

// c19Site is a place in Update where the row may be written: a direct call of setSTH, or the
// call of a store unit — a function literal of Update, called where it is written, that
// contains the setSTH call (and the cosigning that follows it).
type c19Site struct {
	Call  ssa.CallInstruction
	Unit  *ssa.Function
	Mode  string // unit: what the write is conditional on — "nil" (there is still no row), "held" (the row still is the bytes the decision was made on), "" (undecided)
	Signs bool   // unit: it also cosigns
}

func c19StoreSites(r *Run, fn *ssa.Function) []*c19Site {
	var out []*c19Site
	for _, c := range CallsTo(fn, c19Set) {
		out = append(out, &c19Site{Call: c, Mode: "direct"})
	}
	for _, af := range fn.AnonFuncs {
		if len(CallsToDeep(af, c19Set)) == 0 {
			continue
		}
		call := c19OnTheSpotCall(af)
		if call == nil || len(CallsTo(af, c19Set)) == 0 {
			r.Rule("C19.R2")
			r.Fail("Update:store-unit", r.FnPos(af), "undecided: a function literal of Update that calls setSTH is not simply called where it is written (or calls setSTH from a literal nested in it)")
			continue
		}
		out = append(out, &c19Site{Call: call, Unit: af, Signs: len(CallsTo(af, c19Sign)) > 0})
	}
	sort.SliceStable(out, func(i, j int) bool { return out[i].Call.Pos() < out[j].Call.Pos() })
	return out
}

// c19RetPairs lists the (data, error) values a two-result return can deliver under a walk: φ
// nodes of the same block are resolved together, edge by edge (the pair that arrives over one
// edge), other φ separately.
func c19RetPairs(ret *ssa.Return, reach *Reach) [][2]ssa.Value {
	v := RetVals(ret)
	if len(v) != 2 {
		return nil
	}
	var out [][2]ssa.Value
	var pairs func(a, b ssa.Value, depth int)
	pairs = func(a, b ssa.Value, depth int) {
		pa, okA := a.(*ssa.Phi)
		pb, okB := b.(*ssa.Phi)
		if depth < 6 && okA && okB && pa.Block() == pb.Block() {
			blk := pa.Block()
			for i := range pa.Edges {
				if reach != nil && !reach.Edges[[2]int{blk.Preds[i].Index, blk.Index}] {
					continue
				}
				if pa.Edges[i] == a && pb.Edges[i] == b {
					continue
				}
				pairs(pa.Edges[i], pb.Edges[i], depth+1)
			}
			return
		}
		for _, x := range PhiLeaves(a, reach) {
			for _, y := range PhiLeaves(b, reach) {
				out = append(out, [2]ssa.Value{x, y})
			}
		}
	}
	pairs(v[0], v[1], 0)
	return out
}

// c19GlobalNonNil: v reads an unexported package-level variable that is initialised once, in its
// package's initialiser, with a value that is non-nil by construction (errors.New, fmt.Errorf)
// and that nothing else in the package writes or takes the address of — a sentinel error.
func c19GlobalNonNil(r *Run, v ssa.Value) bool {
	ld, ok := v.(*ssa.UnOp)
	if !ok || ld.Op != token.MUL {
		return false
	}
	g, ok := ld.X.(*ssa.Global)
	if !ok || g.Pkg == nil || token.IsExported(g.Name()) {
		return false
	}
	inits := 0
	bad := false
	seen := map[*ssa.Function]bool{}
	visit := func(fn *ssa.Function) {
		if seen[fn] {
			return
		}
		seen[fn] = true
		eachInstr(fn, func(in ssa.Instruction) {
			for _, op := range in.Operands(nil) {
				if *op != ssa.Value(g) {
					continue
				}
				switch x := in.(type) {
				case *ssa.UnOp:
					if x.Op != token.MUL {
						bad = true
					}
				case *ssa.Store:
					if x.Addr == ssa.Value(g) && fn.Name() == "init" && fn.Synthetic != "" && neverNil(x.Val) {
						inits++
					} else {
						bad = true
					}
				case *ssa.DebugRef:
				default:
					bad = true
				}
			}
		})
	}
	if init := g.Pkg.Func("init"); init != nil {
		visit(init)
	}
	for _, fn := range r.P.ModFuncs {
		if fn.Pkg == g.Pkg {
			visit(fn)
		}
	}
	return inits == 1 && !bad
}

// c19StoreUnit decides the contract of a store unit u (site.Unit) and sets site.Mode:
//
//	the unit opens the transaction, reads the row of the requested log through it and writes
//	(setSTH through that transaction) only when the row is unchanged with respect to what the
//	decision in Update was made on — still absent (Mode "nil": the argument bound to the
//	compared parameter is nil, or nothing is compared) or byte-equal to the held bytes (Mode
//	"held": the argument is the very bytes the held tree head was decoded from); after a write
//	it returns (signSTH(candidate), nil) only if storing and signing succeeded; every other
//	path returns (nil, non-nil error) and neither stores nor signs.
func c19StoreUnit(r *Run, site *c19Site, nextT, heldBytes string) {
	u := site.Unit
	key := "Update:store-unit"
	found := r.D.AtomsOf(u)
	setsU := asInstrs(CallsTo(u, c19Set))
	signsU := asInstrs(CallsTo(u, c19Sign))
	upArg := func(c ssa.CallInstruction, k string, i int, want string) {
		args := CallArgs(c)
		if i >= len(args) {
			r.Fail(k, r.Where(c), fmt.Sprintf("call %s has no argument %d", CalleeOf(c), i))
			return
		}
		got := c19Up(r.D.D(args[i]))
		r.Check(k, anyGlob(want, got), r.Where(c), fmt.Sprintf("arg %d of %s = %s (expected %s)", i, CalleeOf(c), got, want))
	}

	// ---- R3: the transaction written through is opened here, on the witness's database
	r.Rule("C19.R3")
	bts := CallsTo(u, "(*sql.DB).BeginTx")
	for _, bt := range bts {
		upArg(bt, "Update:BeginTx.db", 0, "p0.db")
		upArg(bt, "Update:BeginTx.ctx", 1, "p1")
	}
	var txID any
	for _, sc := range setsU {
		c := sc.(ssa.CallInstruction)
		id, okTx := c19TxID(r, CallArgs(c)[1])
		if txID == nil {
			txID = id
		}
		okTx = okTx && id == txID
		r.Check("Update:setSTH.tx", okTx, r.Where(c), "setSTH writes through the transaction opened by BeginTx in the same store unit: "+r.D.D(CallArgs(c)[1]))
		upArg(c, "Update:setSTH.logID", 2, "p2")
		upArg(c, "Update:setSTH.bytes", 3, "p3")
	}
	for _, sg := range signsU {
		upArg(sg.(ssa.CallInstruction), "Update:signSTH.sth", 1, nextT)
	}
	if !site.Signs {
		r.Rule("C19.R2")
		r.Fail(key, r.FnPos(u), "undecided: the store unit writes the row but does not cosign the candidate")
		return
	}

	// ---- the row as it is in this transaction
	gs := CallsTo(u, c19Wit+".getLatestSTH")
	if len(gs) == 0 {
		r.Fail("Update:read-in-tx", r.Where(setsU[0]), "the transaction that writes the row is opened after the held tree head was read and decided on, and the row is not read again inside it and compared with what the decision was made on: an update that commits in between is overwritten by a candidate that was never checked against it — the held STH can shrink or fork")
		return
	}
	if len(gs) != 1 {
		r.Fail("Update:read-in-tx", r.FnPos(u), fmt.Sprintf("undecided: %d reads of the row in one store unit", len(gs)))
		return
	}
	g := gs[0]
	m, recv := BoundMethod(CallArgs(g)[1])
	rid, okR := c19TxID(r, recv)
	inTx := m == "(*database/sql.Tx).QueryRow" && okR && txID != nil && rid == txID
	detail := "the row the write is conditional on is read with " + m + " bound to the transaction setSTH writes through"
	if !inTx {
		detail = "the row the write is conditional on is read with " + m + ", not through the transaction setSTH writes through: the comparison says nothing about the row at the time of the write — an update that commits in between is overwritten, the held STH can shrink or fork"
	}
	r.Check("Update:read-in-tx", inTx, r.Where(g), detail)
	upArg(g, "Update:getLatestSTH.logID", 2, "p2")

	// what the row is compared with
	c0 := CallResult(g, 0)
	var H ssa.Value
	eqKey := ""
	neq := 0
	for _, e := range CallsTo(u, "bytes.Equal") {
		a := CallArgs(e)
		if len(a) != 2 || c0 == nil {
			continue
		}
		switch {
		case a[0] == c0:
			H = a[1]
		case a[1] == c0:
			H = a[0]
		default:
			continue
		}
		neq++
		eqKey = r.D.Classify(e.Value()).Key
	}
	r.Rule("C19.R2")
	if neq > 1 {
		r.Fail(key, r.FnPos(u), "undecided: the row read in the transaction is compared more than once")
		return
	}
	hTerm := ""
	switch {
	case H == nil:
		site.Mode = "nil"
	default:
		hTerm = r.D.D(H)
		var arg ssa.Value
		if p, ok := H.(*ssa.Parameter); ok {
			arg = onTheSpotArg(p)
		}
		switch {
		case arg != nil && isNilConst(arg):
			site.Mode = "nil"
		case c19Up(hTerm) == heldBytes && heldBytes != "":
			site.Mode = "held"
			r.Assume("bytes that decode as a SignedTreeHead are not nil")
		default:
			r.Fail(key, r.Where(g), "undecided: the row read in the transaction is compared with "+c19Up(hTerm)+", which is neither nil (first use) nor the bytes the held tree head was decoded from ("+heldBytes+")")
			return
		}
	}

	// ---- R2: the table of the unit
	var dims []c19Dim
	var dimErr error
	add := func(a RuleAtom) {
		d, err := c19DimOfAtom(r, u, found, a)
		if err != nil && dimErr == nil {
			dimErr = err
		}
		dims = append(dims, d)
	}
	hasTx := len(bts) > 0
	if hasTx {
		add(RuleAtom{Name: "tx", Pat: "nil?(*sql.DB).BeginTx(*)#1"})
	}
	readAtoms, readState, _ := c19ReadDecision(r, u)
	for _, a := range readAtoms {
		add(a)
	}
	if hTerm != "" {
		if k := "nil?" + hTerm; found[k] != nil {
			val := map[string]string{"nil": "nil", "held": "non"}[site.Mode]
			dims = append(dims, c19Dim{Name: "hnil", Opts: []c19Opt{{Val: val, S: Sigma{k: val}}}})
		}
	}
	if eqKey != "" {
		add(RuleAtom{Name: "eq", Pat: eqKey})
	}
	add(RuleAtom{Name: "store", Pat: "nil?" + c19Set + "(*)"})
	add(RuleAtom{Name: "sign", Pat: "nil?" + c19Sign + "(*)#1"})
	if dimErr != nil {
		r.Fail(key, r.FnPos(u), "undecided: "+dimErr.Error())
		return
	}
	type shape struct{ data, err string }
	shapes := func(reach *Reach) []shape {
		var out []shape
		for _, ret := range reachableReturns(u, reach) {
			for _, p := range c19RetPairs(ret, reach) {
				d := c19Up(r.D.D(p[0]))
				if glob(c19Sign+"(p0, "+nextT+")#0", d) {
					d = "cosigned(next)"
				}
				e := errKind(p[1])
				if e == "dyn" && c19GlobalNonNil(r, p[1]) {
					e = "non"
				}
				out = append(out, shape{d, e})
			}
		}
		return out
	}
	refused := map[string]string{
		"no-transaction": "no transaction could be opened",
		"reread-failed":  "reading the row inside the transaction failed",
		"changed":        "the row in the writing transaction is no longer what the decision was made on — another update committed in between, and the candidate was never compared with what it stored",
	}
	classes := []string{"reread-failed", "changed", "unchanged"}
	if hasTx {
		classes = append([]string{"no-transaction"}, classes...)
	}
	r.c19DimTable(u, key, dims, classes,
		func(v map[string]string) string {
			read := readState(v)
			switch {
			case read == "":
				return ""
			case hasTx && v["tx"] == "non":
				return "no-transaction"
			case read == "failed":
				return "reread-failed"
			case read == "nothing-stored":
				if site.Mode == "nil" {
					return "unchanged"
				}
				return "changed"
			case site.Mode == "held" && v["eq"] == "T":
				return "unchanged"
			}
			return "changed"
		},
		func(class string, v map[string]string, reach *Reach, s Sigma) (string, bool) {
			wrote := len(reachableIns(setsU, reach)) > 0
			sh := shapes(reach)
			if len(sh) == 0 {
				return "no return reachable", false
			}
			if class == "unchanged" {
				if !wrote {
					return "the row is unchanged, yet the accepted STH is not stored (no setSTH call executes)", true
				}
				okSeen := false
				for _, x := range sh {
					switch {
					case x.data == "nil" && x.err == "non":
					case x.data == "cosigned(next)" && x.err == "nil":
						okSeen = true
						if v["store"] != "nil" || v["sign"] != "nil" {
							return "returns the cosigned STH although storing or signing failed", true
						}
					default:
						return fmt.Sprintf("may return (%s, error:%s) after the write", x.data, x.err), false
					}
				}
				if v["store"] == "nil" && v["sign"] == "nil" && !okSeen {
					return "no (cosigned(next), nil) return although store and sign succeeded", false
				}
				return "", false
			}
			why := " (" + refused[class] + ")"
			if wrote {
				return "setSTH may execute although the write must not happen" + why, true
			}
			if len(reachableIns(signsU, reach)) > 0 {
				return "signSTH may execute although nothing was stored" + why, true
			}
			for _, x := range sh {
				if x.data != "nil" || x.err != "non" {
					return fmt.Sprintf("may return (%s, error:%s); nothing was stored%s, so the unit returns (nil, error)", x.data, x.err, why), false
				}
			}
			return "", false
		})
}

// c19TxID identifies the transaction behind a *sql.Tx value: the local variable that only ever
// holds results of (*sql.DB).BeginTx, or the BeginTx result itself; ok=false when v is neither.
func c19TxID(r *Run, v ssa.Value) (any, bool) {
	if v == nil {
		return nil, false
	}
	if a := baseAlloc(v); a != nil {
		sts := WholeStores(a)
		ok := len(sts) > 0
		for _, st := range sts {
			ok = ok && glob("(*sql.DB).BeginTx(*)#0", r.D.D(st.Val))
		}
		return a, ok
	}
	if glob("(*sql.DB).BeginTx(*)#0", r.D.D(v)) {
		if _, isPhi := v.(*ssa.Phi); !isPhi {
			return v, true
		}
	}
	return nil, false
}

// c19ReadSource: the function value handed to getLatestSTH reads from the witness's database —
// a bound QueryRow of a transaction or of p0.db, or a function literal that returns
// p0.db.QueryRow[Context](…, query, args...) with its own parameters passed through.
func c19ReadSource(r *Run, q ssa.Value) (string, bool) {
	if m, recv := BoundMethod(q); m != "" {
		switch m {
		case "(*database/sql.Tx).QueryRow":
			return m, true
		case "(*database/sql.DB).QueryRow":
			return m + " of " + r.D.D(recv), r.D.D(recv) == "p0.db"
		}
		return m, false
	}
	for {
		ct, ok := q.(*ssa.ChangeType)
		if !ok {
			break
		}
		q = ct.X
	}
	var f *ssa.Function
	switch x := q.(type) {
	case *ssa.MakeClosure:
		f, _ = x.Fn.(*ssa.Function)
	case *ssa.Function:
		f = x
	}
	if f == nil || len(f.Blocks) == 0 || len(f.Params) != 2 {
		return r.D.D(q), false
	}
	rets := Returns(f)
	if len(rets) != 1 || len(rets[0].Results) != 1 {
		return FuncName(f), false
	}
	c, ok := rets[0].Results[0].(*ssa.Call)
	if !ok {
		return FuncName(f), false
	}
	name := CalleeOf(c)
	args := CallArgs(c)
	n := len(args)
	okCall := (name == "(*sql.DB).QueryRow" && n == 3 || name == "(*sql.DB).QueryRowContext" && n == 4) &&
		c19Up(r.D.D(args[0])) == "p0.db" && args[n-2] == ssa.Value(f.Params[0]) && args[n-1] == ssa.Value(f.Params[1])
	if okCall {
		// nothing else happens in the literal
		eachInstr(f, func(in ssa.Instruction) {
			if ci, isCall := in.(ssa.CallInstruction); isCall && ci != ssa.CallInstruction(c) {
				okCall = false
			}
		})
	}
	return FuncName(f) + " → " + name + "(" + c19Up(r.D.D(args[0])) + ", …)", okCall
}

var _ = types.Universe

// ---- R5: a tree head that was verified before (memo of verified tree heads) ---------------------
//
// parse may hand out an STH without calling VerifySTHSignature when a test establishes that this
// very signed content passed the check before, for the same log.  Decided as facts:
//
//	hit      every nil-error return of parse that can execute although the signature check
//	         refused lies behind tests that (on every way to it) establish: an entry of ONE map
//	         field of the witness is present, and its components equal components of the STH being
//	         parsed (whole-struct ==, field-wise ==, bytes.Equal, or the STH-derived struct is the
//	         key of a set) — through function literals called on the spot and && chains;
//	log      the entry is looked up under the requested log ID (map key, or a component);
//	covers   the compared components include every field of the STH that VerifySTHSignature reads
//	         (read off its SSA, through the functions the STH is handed to), each unchanged or
//	         under an injective conversion;
//	filled   every write of an entry builds each component the same way from a tree head that was
//	         verified for the log ID it is filed under: the STH parse just verified (the write
//	         cannot execute when the check refused), or a parameter that every caller binds to a
//	         verified tree head of Update together with that log ID;
//	field    the map field is assigned only by New and used only as a map;
//	lock     its accesses hold the witness's mutex (engine LOCK).

type c19Comp struct {
	Kind string // "field" (field path of an STH), "entry" (of a memo map), "struct", "val", "const", "param", "bad"
	Root ssa.Value
	Path string
	Conv string
	Term string
	Sub  map[string]*c19Comp
	Look *ssa.Lookup
	Par  *ssa.Parameter
}

func (c *c19Comp) String() string {
	switch c.Kind {
	case "field":
		s := "sth." + c.Path
		if c.Conv != "" {
			s = c.Conv + "(" + s + ")"
		}
		return s
	case "entry":
		return "entry." + c.Path
	case "param":
		return "parameter " + c.Par.Name()
	case "struct":
		var ks []string
		for _, k := range keysOf(c.Sub) {
			ks = append(ks, k+": "+c.Sub[k].String())
		}
		return "{" + strings.Join(ks, ", ") + "}"
	}
	return c.Term
}

type c19Env struct {
	m  map[*ssa.Parameter]ssa.Value
	up *c19Env
}

func (e *c19Env) lookup(p *ssa.Parameter) (ssa.Value, *c19Env, bool) {
	for x := e; x != nil; x = x.up {
		if v, ok := x.m[p]; ok {
			return v, x.up, true
		}
	}
	return nil, nil, false
}

func c19IsSTHType(t types.Type) bool {
	if p, ok := t.Underlying().(*types.Pointer); ok {
		t = p.Elem()
	}
	return TypeName(t) == "ct.SignedTreeHead"
}

func c19Join(a, b string) string {
	if a == "" {
		return b
	}
	return a + "." + b
}

func c19FreeVarBinding(fv *ssa.FreeVar) ssa.Value {
	fn := fv.Parent()
	idx := -1
	for i, x := range fn.FreeVars {
		if x == fv {
			idx = i
		}
	}
	par := fn.Parent()
	if par == nil || idx < 0 {
		return nil
	}
	var out ssa.Value
	eachInstr(par, func(in ssa.Instruction) {
		if mc, ok := in.(*ssa.MakeClosure); ok && mc.Fn == ssa.Value(fn) && idx < len(mc.Bindings) {
			out = mc.Bindings[idx]
		}
	})
	return out
}

// c19ResolveAddr follows a pointer to the variable (or tree head) it points into.
func c19ResolveAddr(v ssa.Value, env *c19Env, depth int) (ssa.Value, string, *c19Env, bool) {
	if depth > 12 || v == nil {
		return nil, "", nil, false
	}
	switch x := v.(type) {
	case *ssa.Alloc:
		return x, "", env, true
	case *ssa.FieldAddr:
		root, path, e, ok := c19ResolveAddr(x.X, env, depth+1)
		if !ok {
			return nil, "", nil, false
		}
		f := fieldOf(x)
		if f == nil {
			return nil, "", nil, false
		}
		return root, c19Join(path, f.Name()), e, true
	case *ssa.Parameter:
		if a := onTheSpotArg(x); a != nil {
			return c19ResolveAddr(a, env, depth+1)
		}
		if a, up, ok := env.lookup(x); ok {
			return c19ResolveAddr(a, up, depth+1)
		}
		return x, "", env, true
	case *ssa.FreeVar:
		if b := c19FreeVarBinding(x); b != nil {
			return c19ResolveAddr(b, env, depth+1)
		}
	case *ssa.UnOp:
		if x.Op == token.MUL {
			// a pointer held in a variable that is assigned once
			if root, path, e, ok := c19ResolveAddr(x.X, env, depth+1); ok && path == "" {
				if a, isAlloc := root.(*ssa.Alloc); isAlloc {
					if sv := uniqueStore(a); sv != nil {
						return c19ResolveAddr(sv, e, depth+1)
					}
					if p := paramSpill(a); p != nil {
						return c19ResolveAddr(p, e, depth+1)
					}
				}
			}
		}
	case *ssa.Call, *ssa.Extract:
		if c19IsSTHType(v.Type()) {
			return v, "", env, true
		}
	}
	return nil, "", nil, false
}

func c19StructOf(a *ssa.Alloc, env *c19Env, depth int) *c19Comp {
	st, ok := a.Type().Underlying().(*types.Pointer).Elem().Underlying().(*types.Struct)
	if !ok {
		return &c19Comp{Kind: "bad", Term: "not a struct local"}
	}
	if a.Referrers() == nil {
		return &c19Comp{Kind: "bad", Term: "no uses"}
	}
	out := &c19Comp{Kind: "struct", Sub: map[string]*c19Comp{}}
	var whole, zeroed, fieldSt []*ssa.Store
	for _, ref := range *a.Referrers() {
		switch x := ref.(type) {
		case *ssa.Store:
			if x.Addr != ssa.Value(a) {
				return &c19Comp{Kind: "bad", Term: "the local's address is stored"}
			}
			if c, isC := x.Val.(*ssa.Const); isC && c.Value == nil {
				zeroed = append(zeroed, x) // zeroed before its fields are assigned: a field not assigned is zero
				continue
			}
			whole = append(whole, x)
		case *ssa.FieldAddr:
			name := fieldOf(x).Name()
			if x.Referrers() == nil {
				continue
			}
			for _, r2 := range *x.Referrers() {
				switch y := r2.(type) {
				case *ssa.Store:
					if y.Addr != ssa.Value(x) {
						return &c19Comp{Kind: "bad", Term: "a field address is stored"}
					}
					if out.Sub[name] != nil {
						return &c19Comp{Kind: "bad", Term: "field " + name + " is assigned more than once"}
					}
					out.Sub[name] = c19Resolve(y.Val, env, depth+1)
					fieldSt = append(fieldSt, y)
				case *ssa.UnOp, *ssa.DebugRef:
				default:
					return &c19Comp{Kind: "bad", Term: "field " + name + " is used by address"}
				}
			}
		case *ssa.UnOp, *ssa.DebugRef:
		default:
			return &c19Comp{Kind: "bad", Term: "the local is used by address"}
		}
	}
	for _, z := range zeroed {
		for _, f := range fieldSt {
			if z.Block() != f.Block() || instrIndexOf(z) > instrIndexOf(f) {
				return &c19Comp{Kind: "bad", Term: "the local is zeroed after (or apart from) the assignment of its fields"}
			}
		}
	}
	if len(whole) == 1 && len(out.Sub) == 0 && len(zeroed) == 0 {
		return c19Resolve(whole[0].Val, env, depth+1)
	}
	if len(whole) > 0 {
		return &c19Comp{Kind: "bad", Term: "the local is assigned more than once"}
	}
	for i := 0; i < st.NumFields(); i++ {
		if n := st.Field(i).Name(); out.Sub[n] == nil {
			out.Sub[n] = &c19Comp{Kind: "const", Term: "zero"}
		}
	}
	return out
}

func c19Sel(c *c19Comp, path string) *c19Comp {
	if path == "" || c == nil {
		return c
	}
	head, rest := path, ""
	if i := strings.Index(path, "."); i >= 0 {
		head, rest = path[:i], path[i+1:]
	}
	switch c.Kind {
	case "struct":
		if s := c.Sub[head]; s != nil {
			return c19Sel(s, rest)
		}
		return &c19Comp{Kind: "bad", Term: "no field " + head}
	case "field", "entry":
		n := *c
		n.Path = c19Join(c.Path, path)
		return &n
	}
	return &c19Comp{Kind: "bad", Term: "field " + path + " of " + c.String()}
}

// c19Resolve: what a value is made of, in terms of fields of tree heads, entries of memo maps,
// parameters and other values.
func c19Resolve(v ssa.Value, env *c19Env, depth int) *c19Comp {
	if depth > 14 || v == nil {
		return &c19Comp{Kind: "bad", Term: "too deep"}
	}
	val := func() *c19Comp { return &c19Comp{Kind: "val", Term: c19Up(gD.D(v))} }
	switch x := v.(type) {
	case *ssa.Const:
		return &c19Comp{Kind: "const", Term: constString(x)}
	case *ssa.ChangeType:
		return c19Resolve(x.X, env, depth+1)
	case *ssa.Convert:
		from, to := x.X.Type().Underlying(), x.Type().Underlying()
		isBytes := func(t types.Type) bool {
			s, ok := t.(*types.Slice)
			if !ok {
				return false
			}
			b, ok := s.Elem().Underlying().(*types.Basic)
			return ok && b.Kind() == types.Byte
		}
		isStr := func(t types.Type) bool {
			b, ok := t.(*types.Basic)
			return ok && b.Info()&types.IsString != 0
		}
		if isBytes(from) && isStr(to) || isStr(from) && isBytes(to) {
			c := *c19Resolve(x.X, env, depth+1)
			if c.Kind == "field" {
				c.Conv = "string"
			}
			return &c
		}
		fb, ok1 := from.(*types.Basic)
		tb, ok2 := to.(*types.Basic)
		if ok1 && ok2 && fb.Info()&types.IsInteger != 0 && tb.Info()&types.IsInteger != 0 {
			sz := types.SizesFor("gc", "amd64")
			if sz.Sizeof(tb) >= sz.Sizeof(fb) {
				return c19Resolve(x.X, env, depth+1)
			}
		}
		return &c19Comp{Kind: "bad", Term: "a conversion that can lose information: " + c19Up(gD.D(v))}
	case *ssa.Parameter:
		if a := onTheSpotArg(x); a != nil {
			return c19Resolve(a, env, depth+1)
		}
		if a, up, ok := env.lookup(x); ok {
			return c19Resolve(a, up, depth+1)
		}
		return &c19Comp{Kind: "param", Par: x}
	case *ssa.Extract:
		if lk, ok := x.Tuple.(*ssa.Lookup); ok && lk.CommaOk && x.Index == 0 {
			return &c19Comp{Kind: "entry", Look: lk}
		}
		return val()
	case *ssa.Lookup:
		if !x.CommaOk {
			if _, isMap := x.X.Type().Underlying().(*types.Map); isMap {
				return &c19Comp{Kind: "entry", Look: x}
			}
		}
		return val()
	case *ssa.Field:
		f := fieldOfVal(x)
		if f == nil {
			return val()
		}
		return c19Sel(c19Resolve(x.X, env, depth+1), f.Name())
	case *ssa.Slice:
		// a[:] over a whole array: the array
		if x.Low == nil && x.High == nil && x.Max == nil {
			if pt, ok := x.X.Type().Underlying().(*types.Pointer); ok {
				if _, isArr := pt.Elem().Underlying().(*types.Array); isArr {
					return c19Load(x.X, env, depth+1, val)
				}
			}
		}
		return val()
	case *ssa.UnOp:
		if x.Op != token.MUL {
			return val()
		}
		return c19Load(x.X, env, depth+1, val)
	case *ssa.Call:
		f := x.Call.StaticCallee()
		if f == nil || len(f.Blocks) == 0 || x.Call.IsInvoke() {
			return val()
		}
		if _, isStruct := x.Type().Underlying().(*types.Struct); !isStruct {
			return val()
		}
		var rets []*ssa.Return
		for _, ret := range Returns(f) {
			if ret.Block() == f.Blocks[0] || len(ret.Block().Preds) > 0 {
				rets = append(rets, ret)
			}
		}
		if len(rets) != 1 || len(rets[0].Results) != 1 {
			return val()
		}
		ne := &c19Env{m: map[*ssa.Parameter]ssa.Value{}, up: env}
		for i, p := range f.Params {
			if i < len(x.Call.Args) {
				ne.m[p] = x.Call.Args[i]
			}
		}
		return c19Resolve(RetVals(rets[0])[0], ne, depth+1)
	}
	return val()
}

// c19Load: the value read through an address.
func c19Load(addr ssa.Value, env *c19Env, depth int, val func() *c19Comp) *c19Comp {
	root, path, e, ok := c19ResolveAddr(addr, env, depth)
	if !ok {
		return val()
	}
	if c19IsSTHType(root.Type()) {
		return &c19Comp{Kind: "field", Root: root, Path: path}
	}
	a, isAlloc := root.(*ssa.Alloc)
	if !isAlloc {
		if p, isPar := root.(*ssa.Parameter); isPar && path == "" {
			return &c19Comp{Kind: "param", Par: p}
		}
		return val()
	}
	if _, isStruct := a.Type().Underlying().(*types.Pointer).Elem().Underlying().(*types.Struct); isStruct {
		return c19Sel(c19StructOf(a, e, depth+1), path)
	}
	if path == "" {
		if sv := uniqueStore(a); sv != nil {
			return c19Resolve(sv, e, depth+1)
		}
		if p := paramSpill(a); p != nil {
			return c19Resolve(p, e, depth+1)
		}
	}
	return val()
}

// c19Fact: something that holds whenever a boolean value is true — two values are equal, or a
// map lookup found its key (comma-ok true, or the value of a map to bool is true).
type c19Fact struct {
	A, B    ssa.Value
	Present *ssa.Lookup
	Env     *c19Env // the frame the values are to be read in (calls of named helpers)
}

func c19FactKey(f c19Fact) string {
	return fmt.Sprintf("%p|%p|%p|%p", f.A, f.B, f.Present, f.Env)
}

func c19Intersect(sets [][]c19Fact) []c19Fact {
	if len(sets) == 0 {
		return nil
	}
	out := sets[0]
	for _, s := range sets[1:] {
		in := map[string]bool{}
		for _, f := range s {
			in[c19FactKey(f)] = true
		}
		var keep []c19Fact
		for _, f := range out {
			if in[c19FactKey(f)] {
				keep = append(keep, f)
			}
		}
		out = keep
	}
	return out
}

// c19TrueFacts: facts that hold whenever v is true.  Opaque values contribute nothing.
func c19TrueFacts(v ssa.Value, env *c19Env, depth int) []c19Fact {
	if depth > 10 || v == nil {
		return nil
	}
	switch x := v.(type) {
	case *ssa.BinOp:
		if x.Op == token.EQL {
			return []c19Fact{{A: x.X, B: x.Y, Env: env}}
		}
	case *ssa.Extract:
		if lk, ok := x.Tuple.(*ssa.Lookup); ok && lk.CommaOk && x.Index == 1 {
			return []c19Fact{{Present: lk, Env: env}}
		}
	case *ssa.Lookup:
		if !x.CommaOk {
			if _, isMap := x.X.Type().Underlying().(*types.Map); isMap {
				return []c19Fact{{Present: x, Env: env}}
			}
		}
	case *ssa.UnOp:
		if x.Op == token.MUL {
			// a result variable of a function with a deferred call is read where it was last stored
			if a, ok := x.X.(*ssa.Alloc); ok {
				var last ssa.Value
				for _, in := range x.Block().Instrs {
					if in == ssa.Instruction(x) {
						break
					}
					if st, ok := in.(*ssa.Store); ok && st.Addr == ssa.Value(a) {
						last = st.Val
					}
				}
				if last != nil {
					return c19TrueFacts(last, env, depth+1)
				}
			}
		}
	case *ssa.Phi:
		var sets [][]c19Fact
		for i, e := range x.Edges {
			if b, ok := isBoolConst(e); ok && !b {
				continue
			}
			sets = append(sets, append(c19TrueFacts(e, env, depth+1), c19EdgeFacts(x.Block().Preds[i], x.Block(), env, depth+1)...))
		}
		return c19Intersect(sets)
	case *ssa.Call:
		if f := x.Call.StaticCallee(); f != nil {
			if FuncName(f) == "bytes.Equal" && len(x.Call.Args) == 2 {
				return []c19Fact{{A: x.Call.Args[0], B: x.Call.Args[1], Env: env}}
			}
			onSpot := f.Parent() != nil && c19OnTheSpotCall(f) == x
			if onSpot || len(f.Blocks) > 0 && !x.Call.IsInvoke() && f.Signature.Results().Len() == 1 {
				if !onSpot {
					// a named helper: its parameters are the arguments of this call
					ne := &c19Env{m: map[*ssa.Parameter]ssa.Value{}, up: env}
					for i, p := range f.Params {
						if i < len(x.Call.Args) {
							ne.m[p] = x.Call.Args[i]
						}
					}
					env = ne
				}
				var sets [][]c19Fact
				for _, ret := range Returns(f) {
					if ret.Block() != f.Blocks[0] && len(ret.Block().Preds) == 0 {
						continue // the recover block
					}
					rv := RetVals(ret)
					if len(rv) != 1 {
						return nil
					}
					if b, ok := isBoolConst(rv[0]); ok && !b {
						continue
					}
					sets = append(sets, append(c19TrueFacts(rv[0], env, depth+1), c19DomFacts(ret.Block(), env, depth+1)...))
				}
				return c19Intersect(sets)
			}
		}
	}
	return nil
}

// c19DomFacts: the facts established by the branch conditions whose true edge dominates b.
func c19DomFacts(b *ssa.BasicBlock, env *c19Env, depth int) []c19Fact {
	var out []c19Fact
	for d := b.Idom(); d != nil; d = d.Idom() {
		if len(d.Instrs) == 0 {
			continue
		}
		if ifi, ok := d.Instrs[len(d.Instrs)-1].(*ssa.If); ok && edgeDominates(d, 0, b) {
			out = append(out, c19TrueFacts(ifi.Cond, env, depth+1)...)
		}
	}
	return out
}

// c19EdgeFacts: the facts that hold when control goes from pred to blk.
func c19EdgeFacts(pred, blk *ssa.BasicBlock, env *c19Env, depth int) []c19Fact {
	out := c19DomFacts(pred, env, depth)
	if len(pred.Instrs) > 0 {
		if ifi, ok := pred.Instrs[len(pred.Instrs)-1].(*ssa.If); ok && pred.Succs[0] == blk && pred.Succs[1] != blk {
			out = append(out, c19TrueFacts(ifi.Cond, env, depth+1)...)
		}
	}
	return out
}

// c19FieldReads: the fields of the struct parameter p that fn reads (dotted paths; a path
// stands for everything below it), following the value into the functions it is handed to.
func c19FieldReads(fn *ssa.Function, p *ssa.Parameter, depth int) []string {
	var out []string
	seen := map[string]bool{}
	add := func(path string) {
		if !seen[path] {
			seen[path] = true
			out = append(out, path)
		}
	}
	if depth > 4 || p.Referrers() == nil {
		return []string{""}
	}
	var valUses func(v ssa.Value, path string)
	var addrUses func(v ssa.Value, path string)
	valUses = func(v ssa.Value, path string) {
		if v.Referrers() == nil {
			return
		}
		for _, ref := range *v.Referrers() {
			switch x := ref.(type) {
			case *ssa.DebugRef:
			case *ssa.Field:
				if x.X == v {
					valUses(x, c19Join(path, fieldOfVal(x).Name()))
				}
			case *ssa.Store:
				if x.Val == v {
					if a, ok := x.Addr.(*ssa.Alloc); ok {
						addrUses(a, path)
						continue
					}
				}
				add(path)
			case *ssa.Call:
				f := x.Call.StaticCallee()
				handled := false
				if f != nil && len(f.Blocks) > 0 && !x.Call.IsInvoke() {
					handled = true
					for i, a := range x.Call.Args {
						if a != v {
							continue
						}
						if i >= len(f.Params) || !types.Identical(f.Params[i].Type(), v.Type()) {
							handled = false
							break
						}
						for _, sub := range c19FieldReads(f, f.Params[i], depth+1) {
							add(c19Join(path, sub))
						}
					}
				}
				if !handled {
					add(path)
				}
			default:
				add(path)
			}
		}
	}
	addrUses = func(v ssa.Value, path string) {
		if v.Referrers() == nil {
			return
		}
		for _, ref := range *v.Referrers() {
			switch x := ref.(type) {
			case *ssa.DebugRef:
			case *ssa.FieldAddr:
				addrUses(x, c19Join(path, fieldOf(x).Name()))
			case *ssa.UnOp:
				if x.Op == token.MUL {
					valUses(x, path)
				} else {
					add(path)
				}
			case *ssa.Store:
				if x.Addr == v {
					continue // the function's own copy is (re)written
				}
				add(path)
			default:
				add(path)
			}
		}
	}
	valUses(p, "")
	sort.Strings(out)
	return out
}

// c19Leaves expands a path of a struct type to the leaf fields below it.
func c19Leaves(t types.Type, path, prefix string) []string {
	if path != "" {
		head, rest := path, ""
		if i := strings.Index(path, "."); i >= 0 {
			head, rest = path[:i], path[i+1:]
		}
		if st, ok := t.Underlying().(*types.Struct); ok {
			for i := 0; i < st.NumFields(); i++ {
				if st.Field(i).Name() == head {
					return c19Leaves(st.Field(i).Type(), rest, c19Join(prefix, head))
				}
			}
		}
		return []string{c19Join(prefix, path)}
	}
	st, ok := t.Underlying().(*types.Struct)
	if !ok {
		return []string{prefix}
	}
	var out []string
	for i := 0; i < st.NumFields(); i++ {
		out = append(out, c19Leaves(st.Field(i).Type(), "", c19Join(prefix, st.Field(i).Name()))...)
	}
	return out
}

// c19VerifiedHeads: the terms (in Update's frame) of the tree heads Update binds as verified for
// the requested log ID p2; set by c19Update for the memo rule.
var c19VerifiedHeads []string

// c19MemoUse is what the tests in front of a memo return of parse establish.
type c19MemoUse struct {
	Field   *types.Var          // the map field of the witness
	Look    *ssa.Lookup         // the lookup
	Entry   map[string]*c19Comp // component of the entry ↦ what it was found equal to
	Present bool
	Set     bool // the STH-derived struct is the key of a set (map to bool) — else the entry is the map's value
	Log     *c19Comp
	Env     *c19Env // the frame of the lookup
}

func c19MapField(v ssa.Value, env *c19Env) (*types.Var, ssa.Value) {
	ld, ok := v.(*ssa.UnOp)
	if !ok || ld.Op != token.MUL {
		return nil, nil
	}
	fa, ok := ld.X.(*ssa.FieldAddr)
	if !ok {
		return nil, nil
	}
	root, path, _, ok := c19ResolveAddr(fa.X, env, 0)
	if !ok || path != "" {
		return fieldOf(fa), nil
	}
	return fieldOf(fa), root
}

// c19Memo decides the memo clause on parse; succ are its nil-error returns, cell the STH it
// decodes into, verify the VerifySTHSignature calls on it.
func c19Memo(r *Run, fn *ssa.Function, succ []ssa.Instruction, cell *ssa.Alloc, verify []ssa.CallInstruction) {
	r.Rule("C19.R5")
	bad := Sigma{}
	for _, c := range verify {
		bad["nil?"+r.D.D(c.Value())] = "non"
	}
	reach := r.D.Walk(fn, bad, nil, nil)
	memoRets := reachableIns(succ, reach)
	if len(memoRets) == 0 {
		r.Pass("parse:verified-or-remembered", r.FnPos(fn), "no nil-error return of parse can execute once VerifySTHSignature refused")
		return
	}
	var use *c19MemoUse
	for _, ret := range memoRets {
		facts := c19DomFacts(ret.Block(), nil, 0)
		u := &c19MemoUse{Entry: map[string]*c19Comp{}}
		okAll := true
		note := func(lk *ssa.Lookup, env *c19Env) {
			if u.Look == nil {
				u.Look, u.Env = lk, env
			} else if u.Look != lk {
				okAll = false
			}
		}
		for _, f := range facts {
			if f.Present != nil {
				continue
			}
			ca, cb := c19Resolve(f.A, f.Env, 0), c19Resolve(f.B, f.Env, 0)
			if cb.Kind == "entry" {
				ca, cb = cb, ca
			}
			if ca.Kind != "entry" || cb.Kind == "entry" {
				continue
			}
			note(ca.Look, f.Env)
			switch {
			case ca.Path == "" && cb.Kind == "struct":
				for k, c := range cb.Sub {
					u.Entry[k] = c
				}
			case ca.Path != "":
				u.Entry[ca.Path] = cb
			}
		}
		for _, f := range facts {
			if f.Present == nil {
				continue
			}
			if u.Look == nil {
				// a set: the key itself is the remembered value
				if kc := c19Resolve(f.Present.Index, f.Env, 0); kc.Kind == "struct" {
					u.Look, u.Env, u.Set, u.Present = f.Present, f.Env, true, true
					for k, c := range kc.Sub {
						u.Entry[k] = c
					}
				}
			} else if f.Present == u.Look {
				u.Present = true
			}
		}
		if u.Look == nil || !okAll || !u.Present || len(u.Entry) == 0 {
			r.Fail("parse:verified-or-remembered", r.Where(ret), "a nil-error return of parse can execute although VerifySTHSignature refused (or was not called), and the tests in front of it do not establish that an entry of one memo map is present and equal to this signed tree head: the witness accepts a tree head whose log signature was not checked")
			return
		}
		fv, base := c19MapField(u.Look.X, u.Env)
		if bp, isPar := base.(*ssa.Parameter); fv == nil || !isPar || bp.Parent() != fn || paramIndex(bp) != 0 {
			r.Fail("parse:verified-or-remembered", r.Where(ret), "undecided: the remembered entry is not looked up in a map field of the witness")
			return
		}
		u.Field = fv
		if !u.Set {
			u.Log = c19Resolve(u.Look.Index, u.Env, 0)
		}
		if use != nil && (use.Field != u.Field || use.Set != u.Set) {
			r.Fail("parse:verified-or-remembered", r.Where(ret), "undecided: nil-error returns of parse behind different memo maps")
			return
		}
		if use == nil {
			use = u
		} else {
			// several returns behind the same memo: what all of them establish
			for k, c := range use.Entry {
				if o := u.Entry[k]; o == nil || o.String() != c.String() {
					delete(use.Entry, k)
				}
			}
		}
	}
	r.Pass("parse:verified-or-remembered", r.Where(memoRets[0]), fmt.Sprintf("%d nil-error return(s) of parse without the signature check lie behind a hit in the witness's map %s", len(memoRets), use.Field.Name()))

	// log: looked up under the requested log ID
	isLog := func(c *c19Comp) bool {
		return c != nil && (c.Kind == "val" && c.Term == "p2" || c.Kind == "param" && c.Par.Parent() == fn && paramIndex(c.Par) == 2)
	}
	logOK := isLog(use.Log)
	for _, c := range use.Entry {
		logOK = logOK || isLog(c)
	}
	r.Check("parse:memo.log", logOK, r.Where(use.Look), "the remembered tree head is looked up under the requested log ID (the one whose verifier w.Logs[logID] would check the signature)")

	// covers: every input of VerifySTHSignature
	var deps []string
	if vf := r.Fn("(ct.SignatureVerifier).VerifySTHSignature"); vf != nil && len(vf.Params) == 2 {
		for _, p := range c19FieldReads(vf, vf.Params[1], 0) {
			deps = append(deps, c19Leaves(vf.Params[1].Type(), p, "")...)
		}
	}
	sort.Strings(deps)
	if len(deps) == 0 {
		r.Fail("parse:memo.covers", r.FnPos(fn), "undecided: no field of the STH is read by VerifySTHSignature")
	}
	covered := func(leaf string) bool {
		for _, c := range use.Entry {
			if c.Kind == "field" && c.Root == ssa.Value(cell) && (c.Path == leaf || c.Path == "" || strings.HasPrefix(leaf, c.Path+".")) {
				return true
			}
		}
		return false
	}
	var missing []string
	seenLeaf := map[string]bool{}
	for _, d := range deps {
		if !seenLeaf[d] && !covered(d) {
			missing = append(missing, d)
		}
		seenLeaf[d] = true
	}
	r.Floor("fields of the STH that VerifySTHSignature reads", len(seenLeaf), 5)
	r.Check("parse:memo.covers", len(missing) == 0 && len(deps) > 0, r.Where(use.Look),
		fmt.Sprintf("the remembered value is compared in %s; VerifySTHSignature reads %s", (&c19Comp{Kind: "struct", Sub: use.Entry}).String(), strings.Join(keysOfSet(seenLeaf), ", "))+
			map[bool]string{true: "", false: " — NOT compared: " + strings.Join(missing, ", ") + ": an STH that differs from a verified one only there (a forged timestamp or signature on the held size and root) is accepted without its signature being checked, stored and cosigned"}[len(missing) == 0])

	// filled: every write of an entry
	up := r.P.Func(c19Wit + ".Update")
	nw := 0
	for _, g := range r.P.ModFuncs {
		eachInstr(g, func(in ssa.Instruction) {
			mu, ok := in.(*ssa.MapUpdate)
			if !ok {
				return
			}
			if fv, _ := c19MapField(mu.Map, nil); fv != use.Field {
				return
			}
			nw++
			key := "parse:memo.filled@" + FuncName(c19Top(g))
			var entry map[string]*c19Comp
			var logC *c19Comp
			if use.Set {
				kc := c19Resolve(mu.Key, nil, 0)
				if b, isB := isBoolConst(mu.Value); kc.Kind != "struct" || !isB || !b {
					r.Fail(key, r.Where(mu), "undecided: a write to the memo set whose key is not a struct built here, or whose value is not true")
					return
				}
				entry = kc.Sub
			} else {
				vc := c19Resolve(mu.Value, nil, 0)
				if vc.Kind != "struct" {
					r.Fail(key, r.Where(mu), "undecided: the remembered value is not a struct built from a tree head: "+vc.String())
					return
				}
				entry = vc.Sub
				logC = c19Resolve(mu.Key, nil, 0)
			}
			// one tree head behind all components
			var root ssa.Value
			for _, k := range keysOf(entry) {
				c := entry[k]
				if c.Kind == "field" {
					if root != nil && root != c.Root {
						r.Fail(key, r.Where(mu), "the components of the remembered value come from different tree heads")
						return
					}
					root = c.Root
				}
			}
			// component by component the same function of the tree head as in the comparison
			var diffs []string
			for _, k := range keysOf(use.Entry) {
				c, w := use.Entry[k], entry[k]
				switch {
				case w == nil:
					diffs = append(diffs, k+" is not written")
				case c.Kind == "field":
					if w.Kind != "field" || w.Path != c.Path || w.Conv != c.Conv {
						diffs = append(diffs, fmt.Sprintf("%s is written as %s but compared with %s", k, w, c))
					}
				case isLog(c):
					if logC == nil {
						logC = w
					}
				default:
					if w.String() != c.String() {
						diffs = append(diffs, fmt.Sprintf("%s is written as %s but compared with %s", k, w, c))
					}
				}
			}
			if len(diffs) > 0 {
				r.Fail(key, r.Where(mu), "the remembered value is not built the way it is compared: "+strings.Join(diffs, "; ")+" — a hit no longer means that this signed content was verified")
				return
			}
			top := c19Top(g)
			switch {
			case root == nil:
				r.Fail(key, r.Where(mu), "undecided: the remembered value has no component of a tree head")
			case top == fn:
				// the STH parse just verified, under the requested log ID, and only after the check accepted
				marker := ssa.Instruction(mu)
				for f := g; f != fn; f = f.Parent() {
					marker = c19OnTheSpotCall(f)
				}
				ok := root == ssa.Value(cell) && isLog(logC) && !reach.Has(marker)
				r.Check(key, ok, r.Where(mu), "parse remembers the tree head it decoded, under the requested log ID, and only where VerifySTHSignature accepted it"+
					map[bool]string{true: "", false: " — violated: the write can execute although the check refused (or was not made), or files another tree head / log ID"}[ok])
			default:
				rp, isPar := root.(*ssa.Parameter)
				if !isPar || rp.Parent() != top || logC == nil || logC.Kind != "param" || logC.Par.Parent() != top {
					r.Fail(key, r.Where(mu), "undecided: the remembered tree head and its log ID are not parameters of "+FuncName(top))
					return
				}
				ri, li := paramIndex(rp), paramIndex(logC.Par)
				sites := 0
				okAll := true
				detail := ""
				for _, cname := range keysOf(r.CallersOf(FuncName(top))) {
					for _, c := range r.CallersOf(FuncName(top))[cname] {
						sites++
						args := CallArgs(c)
						if up == nil || !c19InFamily(up, c.Parent()) || ri >= len(args) || li >= len(args) {
							okAll, detail = false, cname+" is not part of Update's decision procedure"
							continue
						}
						head, lid := c19Up(r.D.D(args[ri])), c19Up(r.D.D(args[li]))
						isHead := false
						for _, h := range c19VerifiedHeads {
							isHead = isHead || glob(h, head)
						}
						if !isHead || lid != "p2" {
							okAll, detail = false, fmt.Sprintf("%s hands over %s for log ID %s, which is not a tree head Update verified for the requested log ID", cname, head, lid)
						}
					}
				}
				r.Check(key, okAll && sites > 0, r.Where(mu), FuncName(top)+" remembers its parameter "+rp.Name()+" under its parameter "+logC.Par.Name()+"; every caller binds them to a tree head that Update verified (parse accepted it) for the requested log ID"+
					map[bool]string{true: "", false: " — violated: " + detail}[okAll && sites > 0])
			}
		})
	}
	r.Floor("writes of remembered tree heads", nw, 1)

	// field: assigned only by New, used only as a map
	fq := c19W + ".Witness." + use.Field.Name()
	ws := r.FieldWriters(fq)
	okW := ws != nil
	for _, w := range keysOf(ws) {
		okW = okW && w == c19W+".New"
	}
	var odd []string
	for _, g := range r.P.ModFuncs {
		eachInstr(g, func(in ssa.Instruction) {
			fa, ok := in.(*ssa.FieldAddr)
			if !ok || fieldOf(fa) != use.Field || fa.Referrers() == nil {
				return
			}
			for _, ref := range *fa.Referrers() {
				ld, isLoad := ref.(*ssa.UnOp)
				if !isLoad || ld.Referrers() == nil {
					continue // stores: FieldWriters
				}
				for _, u := range *ld.Referrers() {
					switch x := u.(type) {
					case *ssa.Lookup, *ssa.MapUpdate, *ssa.Range, *ssa.DebugRef:
					case *ssa.Call:
						if b, isB := x.Call.Value.(*ssa.Builtin); isB && (b.Name() == "len" || b.Name() == "delete" || b.Name() == "clear") {
							continue
						}
						odd = append(odd, r.Where(x))
					default:
						odd = append(odd, r.Where(u))
					}
				}
			}
		})
	}
	r.Check("parse:memo.field", okW && len(odd) == 0, "-", fmt.Sprintf("the memo map %s is assigned only by New and used only as a map (other uses: %v)", use.Field.Name(), odd))

	// lock: the accesses hold the witness's mutex
	mutex := ""
	if named := r.P.LookupType(c19W + ".Witness"); named != nil {
		if st, ok := named.Underlying().(*types.Struct); ok {
			for i := 0; i < st.NumFields(); i++ {
				if t := TypeName(st.Field(i).Type()); t == "sync.Mutex" || t == "sync.RWMutex" {
					if mutex != "" {
						mutex = "?"
					} else {
						mutex = st.Field(i).Name()
					}
				}
			}
		}
	}
	if mutex == "" || mutex == "?" {
		r.Fail("parse:memo.lock", "-", "undecided: the witness has no single mutex that could guard the memo map "+use.Field.Name())
	} else {
		r.LockCheck(LockSpec{Struct: c19W + ".Witness", Mutex: mutex, Fields: []string{use.Field.Name()}, Init: []string{c19W + ".New"}})
	}
}

// c19Top: the function a function literal called on the spot belongs to.
func c19Top(f *ssa.Function) *ssa.Function {
	for i := 0; i < 6 && f.Parent() != nil && c19OnTheSpotCall(f) != nil; i++ {
		f = f.Parent()
	}
	return f
}

func keysOfSet(m map[string]bool) []string {
	var ks []string
	for k := range m {
		ks = append(ks, k)
	}
	sort.Strings(ks)
	return ks
}

// c19ReadsOnly: the function only reads through its pointer parameter i (field loads, and calls
// of functions that only read through it): handing it the address of the verified STH cannot
// change the STH.
func c19ReadsOnly(f *ssa.Function, i int, depth int) bool {
	if depth > 3 || f == nil || len(f.Blocks) == 0 || i >= len(f.Params) {
		return false
	}
	ok := true
	var visit func(v ssa.Value, d int)
	visit = func(v ssa.Value, d int) {
		if v.Referrers() == nil || d > 6 {
			return
		}
		for _, ref := range *v.Referrers() {
			switch x := ref.(type) {
			case *ssa.DebugRef:
			case *ssa.FieldAddr:
				visit(x, d+1)
			case *ssa.IndexAddr:
				visit(x, d+1)
			case *ssa.Slice:
				// a slice of an array field may be written through: only as an argument of bytes.Equal
				if x.Referrers() != nil {
					for _, u := range *x.Referrers() {
						if c, isCall := u.(*ssa.Call); isCall && CalleeOf(c) == "bytes.Equal" {
							continue
						}
						if _, isDbg := u.(*ssa.DebugRef); isDbg {
							continue
						}
						ok = false
					}
				}
			case *ssa.UnOp:
				if x.Op != token.MUL {
					ok = false
					continue
				}
				switch x.Type().Underlying().(type) {
				case *types.Pointer:
					visit(x, d+1) // the pointer read back from its variable
				case *types.Slice, *types.Map:
					// a reference into the STH: only looked at
					if x.Referrers() != nil {
						for _, u := range *x.Referrers() {
							switch y := u.(type) {
							case *ssa.DebugRef, *ssa.Convert:
							case *ssa.Call:
								if b, isB := y.Call.Value.(*ssa.Builtin); isB && b.Name() == "len" {
									continue
								}
								if CalleeOf(y) == "bytes.Equal" {
									continue
								}
								ok = false
							default:
								ok = false
							}
						}
					}
				}
			case *ssa.Store:
				// the parameter's own spill slot
				if a, isAlloc := x.Addr.(*ssa.Alloc); isAlloc && paramSpill(a) != nil {
					if x.Val == v {
						visit(a, d+1)
					}
					continue
				}
				ok = false
			case *ssa.Call:
				g := x.Call.StaticCallee()
				found := false
				for k, a := range x.Call.Args {
					if a == v {
						found = true
						if g == nil || x.Call.IsInvoke() || !c19ReadsOnly(g, k, depth+1) {
							ok = false
						}
					}
				}
				if !found {
					ok = false
				}
			default:
				ok = false
			}
		}
	}
	visit(f.Params[i], 0)
	return ok
}
