package main

import (
	"fmt"
	"go/token"
	"go/types"
	"sort"
	"strings"

	"golang.org/x/tools/go/ssa"
)

// C10.R3, round 8 — part 2: a package-level table that remembers what a pure function computed.
//
// "Strict ≡ encoding/asn1" reads every function as a map from its arguments to its results; that
// is the whole truth only if no call leaves anything behind for the next one (rules_r4c10.go: every
// package-level variable is written by its declaration only, or is write-only for the decoder).  A
// table in which the decoder keeps a result it has computed before is state the decoder READS — and
// still leaves nothing behind that a later call could tell from computing afresh, when these facts
// hold (decided here on the SSA of the whole package; anything that cannot be decided fails):
//
//   (table)    the variable is a sync.Map (safe for concurrent use without further locking) and every
//              reference to it is the receiver of a Load, LoadOrStore or Store call;
//   (function) every value put into it — Store(k, v), LoadOrStore(k, v) — is, with all the memory
//              reachable from it, computed from k alone: following the operands of v and of every
//              store into the memory v refers to, one arrives only at k itself, constants, loop
//              counters, memory allocated for v, results of pure functions of the package (no store
//              outside their own locals and allocations, no read of a package-level variable that is
//              ever written, calls of such functions and of side-effect-free library functions only)
//              and of methods of reflect.Type / reflect.StructField / reflect.StructTag (a type
//              descriptor is immutable).  So the entry under k is F(k) whoever made it, whenever;
//   (filled-before) no store into the memory of v can execute after the call that publishes it
//              (for the same allocation);
//   (read-only) nothing is ever written through a value read from the table or through a published
//              value: no store, append, copy-into or map update through anything derived from it by
//              conversion, type assertion, slicing, indexing, field selection, φ, a local variable,
//              a return to the callers or a parameter of a callee of the package; it reaches no other
//              call, no other memory and no function value; parts copied out of it that are pointers
//              are never stored through anywhere in the package.
//
// Then Load(k) yields F(k) on a hit and the miss path computes F(k): the comparison with
// encoding/asn1 reads a lookup as a miss (engine: `ok` is false, the result of LoadOrStore is its
// argument), i.e. it compares what the function computes — and what it computes does not depend on
// earlier calls, because the stored values are never written (what the seed C10-j breaks: it stores the
// laxness of the current call into the cached parameters of a struct type).
//
// Assumed (recorded): sync.Map, reflect.Type, strings, strconv and unicode behave per their
// documentation.

type c10Memo struct {
	r      *Run
	fns    []*ssa.Function
	pure   map[*ssa.Function]int // 1 pure, 2 impure, 3 in progress
	why    map[*ssa.Function]string
	consts map[*ssa.Global]bool // written by the package initialiser only
}

var c10PureStd = map[string]bool{"strings": true, "strconv": true, "unicode": true, "unicode/utf8": true, "unicode/utf16": true, "math": true, "math/bits": true, "errors": true, "fmt": true}

// pureStdCallee: a library function or method without side effects on anything the package can see.
func c10PureStdCallee(fn *ssa.Function) bool {
	if fn == nil {
		return false
	}
	if recv := fn.Signature.Recv(); recv != nil {
		t := recv.Type()
		if p, ok := t.(*types.Pointer); ok {
			t = p.Elem()
		}
		if n, ok := t.(*types.Named); ok && n.Obj().Pkg() != nil && n.Obj().Pkg().Path() == "reflect" {
			switch n.Obj().Name() {
			case "StructTag", "StructField", "Kind":
				return true
			case "Value":
				switch fn.Name() {
				case "Type", "Kind", "Len", "NumField", "IsNil", "IsValid":
					return true // reads the descriptor / header of the value only
				}
			}
		}
		return false
	}
	if fn.Pkg == nil || fn.Pkg.Pkg == nil {
		return false
	}
	path := fn.Pkg.Pkg.Path()
	if path == "fmt" {
		return fn.Name() == "Sprintf" || fn.Name() == "Errorf" || fn.Name() == "Sprint"
	}
	return c10PureStd[path]
}

// reflectTypeMethod: a call of a method of the interface reflect.Type.
func c10ReflectTypeMethod(c *ssa.CallCommon) bool {
	if !c.IsInvoke() {
		return false
	}
	n, ok := c.Value.Type().(*types.Named)
	return ok && n.Obj().Pkg() != nil && n.Obj().Pkg().Path() == "reflect" && n.Obj().Name() == "Type"
}

// localRoot: the address is (a part of) memory this function allocated itself.
func c10LocalRoot(v ssa.Value, depth int) bool {
	if depth > 12 {
		return false
	}
	switch x := v.(type) {
	case *ssa.Alloc:
		return true
	case *ssa.FieldAddr:
		return c10LocalRoot(x.X, depth+1)
	case *ssa.IndexAddr:
		return c10LocalRoot(x.X, depth+1)
	case *ssa.MakeSlice, *ssa.MakeMap:
		return true
	case *ssa.Slice:
		return c10LocalRoot(x.X, depth+1)
	case *ssa.Phi:
		for _, e := range x.Edges {
			if !c10LocalRoot(e, depth+1) {
				return false
			}
		}
		return true
	case *ssa.Call:
		// append to a local slice yields a local slice
		if b, ok := x.Call.Value.(*ssa.Builtin); ok && b.Name() == "append" && len(x.Call.Args) > 0 {
			return c10LocalRoot(x.Call.Args[0], depth+1)
		}
	case *ssa.Const:
		return true // nil slice to append to
	case *ssa.UnOp:
		return x.Op == token.MUL && c10FreshPointerLoad(x)
	}
	return false
}

// c10FreshPointerLoad: ld loads a pointer from a field of a local variable of its function, and every
// store into that field of that variable (there is no store of the whole variable) puts a pointer to
// memory freshly allocated by the function there: what ld yields is the function's own memory.
func c10FreshPointerLoad(ld *ssa.UnOp) bool {
	fa, ok := ld.X.(*ssa.FieldAddr)
	if !ok {
		return false
	}
	base, ok := fa.X.(*ssa.Alloc)
	if !ok || !c14Private(base) {
		return false
	}
	n := 0
	for _, ref := range *base.Referrers() {
		switch x := ref.(type) {
		case *ssa.Store:
			if x.Addr == ssa.Value(base) {
				if c, isConst := x.Val.(*ssa.Const); !isConst || !c.IsNil() && c.Value != nil {
					return false // the whole variable is overwritten with something
				}
			}
		case *ssa.FieldAddr:
			if x.Field != fa.Field {
				continue
			}
			for _, r2 := range *x.Referrers() {
				if st, ok := r2.(*ssa.Store); ok && st.Addr == ssa.Value(x) {
					if _, fresh := st.Val.(*ssa.Alloc); !fresh {
						if c, isConst := st.Val.(*ssa.Const); !isConst || !c.IsNil() {
							return false
						}
					}
					n++
				}
			}
		}
	}
	return n > 0
}

func (m *c10Memo) globalConst(g *ssa.Global) bool {
	if v, ok := m.consts[g]; ok {
		return v
	}
	ok := true
	check := func(fn *ssa.Function, isInit bool) {
		eachInstr(fn, func(in ssa.Instruction) {
			for _, op := range in.Operands(nil) {
				if op == nil || *op != ssa.Value(g) {
					continue
				}
				switch x := in.(type) {
				case *ssa.UnOp:
					if x.Op != token.MUL {
						ok = false
					}
				case *ssa.Store:
					if x.Addr != ssa.Value(g) || !isInit {
						ok = false
					}
				default:
					ok = false
				}
			}
		})
	}
	for _, fn := range m.fns {
		check(fn, false)
	}
	if g.Pkg != nil {
		if init, _ := g.Pkg.Members["init"].(*ssa.Function); init != nil {
			check(init, true)
		}
	}
	m.consts[g] = ok
	return ok
}

// pureFn: calling fn has no effect outside its own locals and allocations and its result is a
// function of its arguments (see (function) above).
func (m *c10Memo) pureFn(fn *ssa.Function) bool {
	switch m.pure[fn] {
	case 1, 3: // (a cycle is pure if everything else on it is)
		return true
	case 2:
		return false
	}
	if len(fn.Blocks) == 0 || fnPkg(fn) == nil || ShortPkg(fnPkg(fn).Path()) != "asn1" {
		m.pure[fn] = 2
		m.why[fn] = "has no body in the package"
		return false
	}
	m.pure[fn] = 3
	bad := ""
	eachInstr(fn, func(in ssa.Instruction) {
		if bad != "" {
			return
		}
		switch x := in.(type) {
		case *ssa.Store:
			if !c10LocalRoot(x.Addr, 0) {
				bad = "stores through " + m.r.D.D(x.Addr) + " at " + m.r.Where(x)
			}
		case *ssa.MapUpdate:
			if !c10LocalRoot(x.Map, 0) {
				bad = "updates a map that is not its own at " + m.r.Where(x)
			}
		case *ssa.Go, *ssa.Defer, *ssa.Send, *ssa.Select, *ssa.RunDefers:
			bad = "starts / defers / communicates at " + m.r.Where(in)
		case *ssa.MakeClosure:
			bad = "makes a closure at " + m.r.Where(in)
		case *ssa.UnOp:
			if g, ok := x.X.(*ssa.Global); ok && x.Op == token.MUL && !m.globalConst(g) {
				bad = "reads the package-level variable " + g.Name() + ", which is written outside its declaration, at " + m.r.Where(x)
			}
			if x.Op == token.ARROW {
				bad = "receives from a channel at " + m.r.Where(x)
			}
		case *ssa.Call:
			c := x.Common()
			if _, ok := c.Value.(*ssa.Builtin); ok {
				switch c.Value.Name() {
				case "len", "cap", "append", "min", "max":
				case "copy":
					if !c10LocalRoot(c.Args[0], 0) {
						bad = "copies into memory that is not its own at " + m.r.Where(x)
					}
				default:
					bad = "calls " + c.Value.Name() + " at " + m.r.Where(x)
				}
				return
			}
			if c10ReflectTypeMethod(c) {
				return
			}
			cal := c.StaticCallee()
			if cal == nil {
				bad = "makes a dynamic call at " + m.r.Where(x)
				return
			}
			if c10PureStdCallee(cal) {
				return
			}
			if !m.pureFn(cal) {
				bad = "calls " + FuncName(cal) + " (" + m.why[cal] + ")"
			}
		}
	})
	if len(fn.AnonFuncs) > 0 {
		bad = "has function literals"
	}
	if bad != "" {
		m.pure[fn] = 2
		m.why[fn] = bad
		return false
	}
	m.pure[fn] = 1
	return true
}

// memoRead / memoWrite classification of a call on the table
func c10MapMethod(ci ssa.CallInstruction) string {
	cal := ci.Common().StaticCallee()
	if cal == nil || cal.Signature.Recv() == nil {
		return ""
	}
	t := cal.Signature.Recv().Type()
	if p, ok := t.(*types.Pointer); ok {
		t = p.Elem()
	}
	if n, ok := t.(*types.Named); ok && n.Obj().Pkg() != nil && n.Obj().Pkg().Path() == "sync" && n.Obj().Name() == "Map" {
		return cal.Name()
	}
	return ""
}

func c10IsSyncMap(t types.Type) bool {
	n, ok := t.(*types.Named)
	return ok && n.Obj().Pkg() != nil && n.Obj().Pkg().Path() == "sync" && n.Obj().Name() == "Map"
}

// c10MemoTables decides, for every package-level sync.Map of the fork, whether it is a memo table
// of a pure function (see the head of this file).  It records one obligation per table and returns
// the tables for which the facts hold (the engine then reads a lookup as a miss).
func c10MemoTables(r *Run) (memo, pure map[types.Object]bool) {
	out, pure := map[types.Object]bool{}, map[types.Object]bool{}
	pk := r.P.Pkg("asn1")
	if pk == nil || r.P.SSA == nil {
		return out, pure
	}
	sp := r.P.SSA.Package(pk.Types)
	if sp == nil {
		return out, pure
	}
	m := &c10Memo{r: r, fns: c10Asn1Funcs(r), pure: map[*ssa.Function]int{}, why: map[*ssa.Function]string{}, consts: map[*ssa.Global]bool{}}
	var names []string
	for n, mem := range sp.Members {
		if g, ok := mem.(*ssa.Global); ok {
			if pt, ok := g.Type().(*types.Pointer); ok && c10IsSyncMap(pt.Elem()) {
				names = append(names, n)
			}
		}
	}
	sort.Strings(names)
	for _, n := range names {
		g := sp.Members[n].(*ssa.Global)
		ok, where, detail := m.table(g)
		r.Check("memo:"+n, ok, where, detail)
		if ok {
			r.Assume("sync.Map is safe for concurrent use; a reflect.Type is an immutable descriptor whose methods (and those of reflect.StructField / StructTag) are functions of it; strings, strconv, unicode are side-effect free")
			out[g.Object()] = true
		}
	}
	for _, fn := range m.fns {
		if o := fn.Object(); o != nil && fn.Signature.Recv() == nil && m.pureFn(fn) {
			pure[o] = true
		}
	}
	return out, pure
}

func (m *c10Memo) table(g *ssa.Global) (ok bool, where, detail string) {
	r := m.r
	where = r.P.Pos(g.Pos())
	type acc struct {
		call *ssa.Call
		kind string
	}
	var accs []acc
	fns := append([]*ssa.Function{}, m.fns...)
	if init, _ := g.Pkg.Members["init"].(*ssa.Function); init != nil {
		fns = append(fns, init)
	}
	bad := ""
	for _, fn := range fns {
		eachInstr(fn, func(in ssa.Instruction) {
			for _, op := range in.Operands(nil) {
				if op == nil || *op != ssa.Value(g) || bad != "" {
					continue
				}
				c, isCall := in.(*ssa.Call)
				if !isCall || len(c.Call.Args) == 0 || c.Call.Args[0] != ssa.Value(g) {
					bad = "the table is referred to other than as the receiver of a call, at " + r.Where(in)
					continue
				}
				switch k := c10MapMethod(c); k {
				case "Load", "LoadOrStore", "Store":
					accs = append(accs, acc{c, k})
				default:
					bad = "the table is used through " + CalleeOf(c) + " at " + r.Where(in) + " (only Load, LoadOrStore and Store are understood)"
				}
			}
		})
	}
	if bad != "" {
		return false, where, "undecided: " + bad
	}
	nw, nr := 0, 0
	shared := &c10Shared{m: m, g: g, seen: map[ssa.Value]bool{}, params: map[*ssa.Parameter]bool{}, rets: map[*ssa.Function]bool{}}
	for _, a := range accs {
		if a.kind != "Load" {
			nw++
			if why := m.functionOfKey(a.call); why != "" {
				return false, r.Where(a.call), "the value put into the table " + g.Name() + " by " + CalleeOf(a.call) + " is not decided to be a function of its key alone: " + why + " — an entry could then differ from what a later call would compute for the same key"
			}
			// the published value: written only before it is published
			if why := m.filledBefore(a.call); why != "" {
				return false, r.Where(a.call), why
			}
			shared.add(a.call.Call.Args[2], "the value published by "+CalleeOf(a.call))
		}
		if a.kind != "Store" {
			nr++
			for _, ref := range *a.call.Referrers() {
				if ex, ok := ref.(*ssa.Extract); ok && ex.Index == 0 {
					shared.add(ex, "the value read by "+CalleeOf(a.call))
				}
			}
		}
	}
	if nw == 0 || nr == 0 {
		return false, where, fmt.Sprintf("undecided: the table %s has %d writing and %d reading call(s): not a memo table", g.Name(), nw, nr)
	}
	if why, at := shared.run(); why != "" {
		return false, at, why
	}
	if why, at := m.pointerParts(shared); why != "" {
		return false, at, why
	}
	return true, where, fmt.Sprintf("%s is a sync.Map used through Load / LoadOrStore / Store only (%d call(s)); every value put into it is computed from its key alone (pure functions of the package, reflect.Type queries, constants), is filled before it is published, and nothing is ever written through a value read from it or published to it (%d derived value(s) followed through locals, φ, returns and parameters): a lookup yields what the miss path computes, whatever calls came before", g.Name(), len(accs), len(shared.seen))
}

// functionOfKey: "" when the value argument of the writing call is computed from the key alone.
func (m *c10Memo) functionOfKey(c *ssa.Call) string {
	r := m.r
	key := c.Call.Args[1]
	// the key as the values it is made of (an interface conversion of the same value is the same key)
	keys := map[ssa.Value]bool{}
	for v := key; v != nil; {
		keys[v] = true
		switch x := v.(type) {
		case *ssa.MakeInterface:
			v = x.X
		case *ssa.ChangeInterface:
			v = x.X
		case *ssa.ChangeType:
			v = x.X
		default:
			v = nil
		}
	}
	seen := map[ssa.Value]bool{}
	fn := c.Parent()
	var visit func(v ssa.Value, depth int) string
	// stores into memory that v refers to (allocated in this function)
	memOf := func(root ssa.Value) []*ssa.Store {
		var out []*ssa.Store
		eachInstr(fn, func(in ssa.Instruction) {
			if st, ok := in.(*ssa.Store); ok && c10DerivedFrom(st.Addr, root, 0) {
				out = append(out, st)
			}
		})
		return out
	}
	visit = func(v ssa.Value, depth int) string {
		if v == nil || seen[v] || keys[v] {
			return ""
		}
		seen[v] = true
		if depth > 40 {
			return "the computation is too deep to follow"
		}
		switch x := v.(type) {
		case *ssa.Const:
			return ""
		case *ssa.MakeInterface:
			return visit(x.X, depth+1)
		case *ssa.ChangeInterface:
			return visit(x.X, depth+1)
		case *ssa.ChangeType:
			return visit(x.X, depth+1)
		case *ssa.Convert:
			return visit(x.X, depth+1)
		case *ssa.BinOp:
			if w := visit(x.X, depth+1); w != "" {
				return w
			}
			return visit(x.Y, depth+1)
		case *ssa.UnOp:
			if x.Op == token.MUL {
				// a load: from memory allocated here (then what was stored there), or from a constant global
				if g, ok := x.X.(*ssa.Global); ok {
					if m.globalConst(g) {
						return ""
					}
					return "it reads the package-level variable " + g.Name() + ", which is written outside its declaration"
				}
				return visit(x.X, depth+1)
			}
			if x.Op == token.ARROW {
				return "it receives from a channel"
			}
			return visit(x.X, depth+1)
		case *ssa.Phi:
			for _, e := range x.Edges {
				if w := visit(e, depth+1); w != "" {
					return w
				}
			}
			return ""
		case *ssa.Extract:
			return visit(x.Tuple, depth+1)
		case *ssa.Field:
			return visit(x.X, depth+1)
		case *ssa.FieldAddr:
			return visit(x.X, depth+1)
		case *ssa.IndexAddr:
			if w := visit(x.X, depth+1); w != "" {
				return w
			}
			return visit(x.Index, depth+1)
		case *ssa.Index:
			if w := visit(x.X, depth+1); w != "" {
				return w
			}
			return visit(x.Index, depth+1)
		case *ssa.Slice:
			for _, o := range []ssa.Value{x.X, x.Low, x.High, x.Max} {
				if o != nil {
					if w := visit(o, depth+1); w != "" {
						return w
					}
				}
			}
			return ""
		case *ssa.Alloc, *ssa.MakeSlice:
			if ms, ok := x.(*ssa.MakeSlice); ok {
				if w := visit(ms.Len, depth+1); w != "" {
					return w
				}
				if w := visit(ms.Cap, depth+1); w != "" {
					return w
				}
			}
			for _, st := range memOf(v) {
				if w := visit(st.Val, depth+1); w != "" {
					return w
				}
				if w := visit(st.Addr, depth+1); w != "" {
					return w
				}
			}
			// the memory must not be handed to anything that could fill it otherwise
			if w := c10EscapesBefore(r, v, c); w != "" {
				return w
			}
			return ""
		case *ssa.Call:
			cc := x.Common()
			if b, ok := cc.Value.(*ssa.Builtin); ok {
				switch b.Name() {
				case "len", "cap", "append", "min", "max":
					for _, a := range cc.Args {
						if w := visit(a, depth+1); w != "" {
							return w
						}
					}
					return ""
				}
				return "it calls " + b.Name()
			}
			if c10ReflectTypeMethod(cc) {
				if w := visit(cc.Value, depth+1); w != "" {
					return w
				}
			} else {
				cal := cc.StaticCallee()
				switch {
				case cal == nil:
					return "it depends on a dynamic call at " + r.Where(x)
				case c10PureStdCallee(cal):
				case m.pureFn(cal):
				default:
					return "it depends on " + FuncName(cal) + ", which is not a pure function (" + m.why[cal] + ")"
				}
			}
			for _, a := range cc.Args {
				if w := visit(a, depth+1); w != "" {
					return w
				}
			}
			return ""
		case *ssa.Parameter:
			return fmt.Sprintf("it depends on parameter %d of %s (%s), which the key %s does not determine", paramIndex(x), FuncName(x.Parent()), x.Name(), r.D.D(key))
		case *ssa.Global:
			return "it depends on the address of the package-level variable " + x.Name()
		case *ssa.FreeVar:
			return "it depends on a captured variable"
		}
		return "it depends on " + r.D.D(v) + ", which is not followed"
	}
	if w := visit(c.Call.Args[2], 0); w != "" {
		return w
	}
	return ""
}

// c10DerivedFrom: addr points into the memory root refers to (root itself, an element, a field).
func c10DerivedFrom(addr, root ssa.Value, depth int) bool {
	if depth > 12 {
		return false
	}
	if addr == root {
		return true
	}
	switch x := addr.(type) {
	case *ssa.FieldAddr:
		return c10DerivedFrom(x.X, root, depth+1)
	case *ssa.IndexAddr:
		return c10DerivedFrom(x.X, root, depth+1)
	case *ssa.Slice:
		return c10DerivedFrom(x.X, root, depth+1)
	}
	return false
}

// c10EscapesBefore: the memory v refers to is used, in the function, for anything but being
// filled, read, measured and handed to the publishing call.
func c10EscapesBefore(r *Run, v ssa.Value, pub *ssa.Call) string {
	refs := v.Referrers()
	if refs == nil {
		return ""
	}
	for _, ref := range *refs {
		switch x := ref.(type) {
		case *ssa.Store:
			if x.Val == v {
				if _, local := x.Addr.(*ssa.Alloc); !local {
					return "its memory is stored away at " + r.Where(x)
				}
			}
		case *ssa.IndexAddr, *ssa.FieldAddr, *ssa.Slice, *ssa.UnOp, *ssa.DebugRef, *ssa.Phi, *ssa.Range, *ssa.Index, *ssa.Field, *ssa.Extract:
		case *ssa.MakeInterface:
			for _, r2 := range *x.Referrers() {
				if r2 != ssa.Instruction(pub) {
					if _, dbg := r2.(*ssa.DebugRef); !dbg {
						return "its memory is handed on (as an interface value) at " + r.Where(r2)
					}
				}
			}
		case *ssa.Call:
			if b, ok := x.Call.Value.(*ssa.Builtin); ok && (b.Name() == "len" || b.Name() == "cap") {
				continue
			}
			if x == pub {
				continue
			}
			return "its memory is handed to " + CalleeOf(x) + " at " + r.Where(x)
		default:
			return "its memory is used at " + r.Where(ref) + " in a way that is not followed"
		}
	}
	return ""
}

// filledBefore: every store into the memory of the published value precedes the publishing call.
func (m *c10Memo) filledBefore(pub *ssa.Call) string {
	v := pub.Call.Args[2]
	for {
		mi, ok := v.(*ssa.MakeInterface)
		if !ok {
			break
		}
		v = mi.X
	}
	root, ok := v.(ssa.Instruction)
	if !ok {
		return ""
	}
	why := ""
	eachInstr(pub.Parent(), func(in ssa.Instruction) {
		st, ok := in.(*ssa.Store)
		if !ok || why != "" || !c10DerivedFrom(st.Addr, v, 0) {
			return
		}
		// never after the publication (unless the value is allocated anew first)
		if k := c10FirstKillBetween(pub, root, map[ssa.Instruction]bool{st: true}); k != nil {
			why = "the store at " + m.r.Where(st) + " can execute after the value has been published at " + m.r.Where(pub) + " (same allocation): another call can read the entry before it is complete, or see it change"
		}
	})
	return why
}

// ---- (read-only): nothing is written through what the table holds --------------------------------

type c10Shared struct {
	m      *c10Memo
	g      *ssa.Global
	seen   map[ssa.Value]bool
	work   []ssa.Value
	origin map[ssa.Value]string
	params map[*ssa.Parameter]bool
	rets   map[*ssa.Function]bool
}

func (s *c10Shared) add(v ssa.Value, origin string) {
	if v == nil || s.seen[v] {
		return
	}
	s.seen[v] = true
	if s.origin == nil {
		s.origin = map[ssa.Value]string{}
	}
	s.origin[v] = origin
	s.work = append(s.work, v)
}

// refType: values of the type give access to memory other than their own (a copy shares it).
func c10RefType(t types.Type, depth int) bool {
	if depth > 6 {
		return true
	}
	switch u := t.Underlying().(type) {
	case *types.Basic:
		return u.Kind() == types.UnsafePointer
	case *types.Struct:
		for i := 0; i < u.NumFields(); i++ {
			if c10RefType(u.Field(i).Type(), depth+1) {
				return true
			}
		}
		return false
	case *types.Array:
		return c10RefType(u.Elem(), depth+1)
	}
	return true
}

func (s *c10Shared) run() (why, at string) {
	r := s.m.r
	for len(s.work) > 0 {
		v := s.work[len(s.work)-1]
		s.work = s.work[:len(s.work)-1]
		org := s.origin[v]
		refs := v.Referrers()
		if refs == nil {
			continue
		}
		_, isPtr := v.Type().Underlying().(*types.Pointer)
		for _, ref := range *refs {
			switch x := ref.(type) {
			case *ssa.DebugRef:
			case *ssa.Store:
				if x.Addr == v {
					return fmt.Sprintf("%s is written through: the store at %s changes memory that the table %s holds (%s) — what this call stores there is what every later lookup of the entry yields, in strict mode too, so the result of a call depends on the calls before it; encoding/asn1 has no such state", org, r.Where(x), s.g.Name(), r.D.D(x.Addr)), r.Where(x)
				}
				// the value itself is stored: followed when the target is a local variable
				al, local := x.Addr.(*ssa.Alloc)
				if !local || !c14Private(al) {
					return fmt.Sprintf("undecided: %s is stored into %s at %s, where it is not followed", org, r.D.D(x.Addr), r.Where(x)), r.Where(x)
				}
				for _, lr := range *al.Referrers() {
					if ld, ok := lr.(*ssa.UnOp); ok && ld.Op == token.MUL {
						s.add(ld, org)
					}
				}
			case *ssa.UnOp:
				if x.Op == token.MUL && isPtr {
					// a copy of (a part of) the shared memory: shares what it refers to
					if c10RefType(x.Type(), 0) {
						switch x.Type().Underlying().(type) {
						case *types.Struct, *types.Array:
							// pointer-typed parts: decided for the whole package by pointerParts
						default:
							s.add(x, org)
						}
					}
				}
			case *ssa.MakeInterface, *ssa.ChangeInterface, *ssa.ChangeType, *ssa.TypeAssert, *ssa.Extract, *ssa.Phi, *ssa.Slice:
				s.add(x.(ssa.Value), org)
			case *ssa.IndexAddr:
				if x.X == v {
					s.add(x, org)
				}
			case *ssa.FieldAddr:
				s.add(x, org)
			case *ssa.Index, *ssa.Field:
				if c10RefType(x.(ssa.Value).Type(), 0) {
					switch x.(ssa.Value).Type().Underlying().(type) {
					case *types.Struct, *types.Array:
					default:
						s.add(x.(ssa.Value), org)
					}
				}
			case *ssa.Range, *ssa.Next, *ssa.BinOp, *ssa.If:
				// (iteration, comparison with nil)
			case *ssa.Return:
				fn := x.Parent()
				if !s.rets[fn] {
					s.rets[fn] = true
					idx := -1
					for i, res := range x.Results {
						if res == v {
							idx = i
						}
					}
					sites, all := c10StaticCallSites(s.m.fns, fn)
					if !all {
						return fmt.Sprintf("undecided: %s is returned by %s, which is used as a function value: its callers are not known", org, FuncName(fn)), r.Where(x)
					}
					for _, site := range sites {
						val := site.Value()
						if val == nil {
							continue
						}
						if len(x.Results) == 1 {
							s.add(val, org)
							continue
						}
						for _, sr := range *val.Referrers() {
							if ex, ok := sr.(*ssa.Extract); ok && ex.Index == idx {
								s.add(ex, org)
							}
						}
					}
				}
			case *ssa.Call:
				c := x.Common()
				if b, ok := c.Value.(*ssa.Builtin); ok {
					switch b.Name() {
					case "len", "cap":
						continue
					case "copy":
						if len(c.Args) == 2 && c.Args[1] == v && c.Args[0] != v {
							continue
						}
						return fmt.Sprintf("%s is copied into at %s: memory that the table %s holds changes", org, r.Where(x), s.g.Name()), r.Where(x)
					case "append":
						if len(c.Args) > 0 && c.Args[0] == v {
							return fmt.Sprintf("%s is appended to at %s: spare capacity of memory that the table %s holds can be written", org, r.Where(x), s.g.Name()), r.Where(x)
						}
						// appended as elements: the elements are copied
						if c10RefType(v.Type(), 0) {
							if _, isSlice := v.Type().Underlying().(*types.Slice); !isSlice {
								return fmt.Sprintf("undecided: %s is appended to another slice at %s", org, r.Where(x)), r.Where(x)
							}
						}
						continue
					}
					return fmt.Sprintf("undecided: %s is handed to %s at %s", org, b.Name(), r.Where(x)), r.Where(x)
				}
				if k := c10MapMethod(x); k != "" && len(c.Args) > 0 && c.Args[0] == ssa.Value(s.g) {
					continue // the publishing call itself
				}
				cal := c.StaticCallee()
				if cal == nil || len(cal.Blocks) == 0 || fnPkg(cal) == nil || ShortPkg(fnPkg(cal).Path()) != "asn1" {
					return fmt.Sprintf("undecided: %s is handed to %s at %s, which may write through it", org, CalleeOf(x), r.Where(x)), r.Where(x)
				}
				for i, a := range c.Args {
					if a == v && i < len(cal.Params) && !s.params[cal.Params[i]] {
						s.params[cal.Params[i]] = true
						s.add(cal.Params[i], org+" (passed to "+FuncName(cal)+")")
					}
				}
			case *ssa.MapUpdate:
				if x.Map == v {
					return fmt.Sprintf("%s is updated at %s: memory that the table %s holds changes", org, r.Where(x), s.g.Name()), r.Where(x)
				}
				return fmt.Sprintf("undecided: %s is put into a map at %s", org, r.Where(x)), r.Where(x)
			case *ssa.Lookup:
			default:
				return fmt.Sprintf("undecided: %s is used at %s (%T) in a way that is not followed", org, r.Where(ref), ref), r.Where(ref)
			}
		}
	}
	return "", ""
}

// c10StaticCallSites: the call sites of fn in fns; all = fn is never used as a value.
func c10StaticCallSites(fns []*ssa.Function, fn *ssa.Function) (sites []ssa.CallInstruction, all bool) {
	all = true
	for _, f := range fns {
		eachInstr(f, func(in ssa.Instruction) {
			if ci, ok := in.(ssa.CallInstruction); ok && ci.Common().StaticCallee() == fn {
				sites = append(sites, ci)
				for _, a := range ci.Common().Args {
					if a == ssa.Value(fn) {
						all = false
					}
				}
				return
			}
			for _, op := range in.Operands(nil) {
				if op != nil && *op == ssa.Value(fn) {
					all = false
				}
			}
		})
	}
	return sites, all
}

// pointerParts: the element type of what the table holds has pointer-typed parts (copied out with
// every element): nothing in the package stores through a pointer loaded from such a field.
func (m *c10Memo) pointerParts(s *c10Shared) (why, at string) {
	r := m.r
	fields := map[*types.Var]bool{}
	var collect func(t types.Type, depth int) string
	collect = func(t types.Type, depth int) string {
		if depth > 6 {
			return "nested too deeply"
		}
		switch u := t.Underlying().(type) {
		case *types.Basic:
			return ""
		case *types.Struct:
			for i := 0; i < u.NumFields(); i++ {
				f := u.Field(i)
				switch ft := f.Type().Underlying().(type) {
				case *types.Pointer:
					if c10RefType(ft.Elem(), 0) {
						return "field " + f.Name() + " points to a type that refers on"
					}
					fields[f] = true
				case *types.Basic, *types.Struct, *types.Array:
					if w := collect(f.Type(), depth+1); w != "" {
						return w
					}
				default:
					return "field " + f.Name() + " of type " + f.Type().String() + " shares memory with its copies"
				}
			}
			return ""
		case *types.Array:
			return collect(u.Elem(), depth+1)
		case *types.Slice:
			return collect(u.Elem(), depth+1)
		case *types.Pointer:
			return collect(u.Elem(), depth+1)
		}
		return "type " + t.String() + " is not followed"
	}
	for v := range s.seen {
		if _, isSlice := v.Type().Underlying().(*types.Slice); isSlice {
			if w := collect(v.Type(), 0); w != "" {
				return "undecided: elements of the table " + s.g.Name() + " are copied out and share memory with the entry: " + w, r.P.Pos(s.g.Pos())
			}
		}
	}
	if len(fields) == 0 {
		return "", ""
	}
	var names []string
	for f := range fields {
		names = append(names, f.Name())
	}
	sort.Strings(names)
	for _, fn := range m.fns {
		var bad ssa.Instruction
		eachInstr(fn, func(in ssa.Instruction) {
			st, ok := in.(*ssa.Store)
			if !ok || bad != nil {
				return
			}
			// address = a pointer loaded from one of the fields
			switch a := st.Addr.(type) {
			case *ssa.UnOp:
				if fa, ok := a.X.(*ssa.FieldAddr); ok && a.Op == token.MUL && fields[fieldOf(fa)] && !c10FreshPointerLoad(a) {
					bad = st
				}
			case *ssa.Field:
				if fields[fieldOfVal(a)] {
					bad = st
				}
			}
		})
		if bad != nil {
			return fmt.Sprintf("the store at %s writes through a pointer held in a field (%s) of the element type of the table %s: elements copied out of the table share that memory with the entry", r.Where(bad), strings.Join(names, ", "), s.g.Name()), r.Where(bad)
		}
	}
	return "", ""
}
