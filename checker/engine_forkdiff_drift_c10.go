package main

import (
	"fmt"
	"go/ast"
	"go/token"
	"go/types"
	"os"
	"regexp"
	"sort"
	"strings"
)

// C10.R3 — the frozen drift table of the fork against encoding/asn1 and the
// driver that applies it to the result of ForkDiff (engine_forkdiff_c10.go).

type c10Rewrite struct {
	Name, Fn string         // Fn "" = every function
	Re       *regexp.Regexp // textual replacement …
	Repl     string
	Drop     string // … or a chain part to remove (the guard of a check the fork lacks)
	Class    string // equivalent | diagnostic | ACCEPTANCE | marshal | api-misuse
	Reason   string
}

type c10Allow struct {
	Name, Fn, Side string // Side: "upstream" | "fork"
	Glob           string
	Class, Reason  string
}

func c10Lit(s string) *regexp.Regexp { return regexp.MustCompile(regexp.QuoteMeta(s)) }

// The frozen drift table: every documented difference between the strict
// residual of the fork and encoding/asn1 (go1.23 sources).  Rewrites are
// applied to the *upstream* normal form; what then still has no partner must
// match an allowance.  Class ACCEPTANCE marks the entries that change which
// inputs strict mode accepts.
var c10Rewrites = func() []c10Rewrite {
	out := []c10Rewrite{
		{"IsExported", "", regexp.MustCompile(`!\(([^;]*?)\.IsExported\(\)\)`), `(${1}.PkgPath != "")`, "", "equivalent", "reflect.StructField.IsExported() is PkgPath == \"\" (go1.17 API)"},
		{"base128-leading-0x80:guard", "parseBase128Int", nil, "", `!(((L1 == 0) && (P0[R1] == 128)))`, "ACCEPTANCE", "the fork predates the upstream check that a base-128 integer must not start with 0x80 (go1.19); the fork accepts such OIDs/tags"},
		{"nil-target:guard", "UnmarshalWithParams", nil, "", `!((reflect.ValueOf(P1).Kind() != 22))`, "api-misuse", "upstream returns invalidUnmarshalError for a nil / non-pointer target (`if v.Kind() != Pointer || v.IsNil()`, one guard per disjunct in normal form), the fork panics in reflect; independent of the input bytes"},
		{"nil-target:guard", "UnmarshalWithParams", nil, "", `!(reflect.ValueOf(P1).IsNil())`, "api-misuse", "second disjunct of the same guard"},
		{"tag-parts-loop", "parseFieldParameters", c10Lit(`for((len(P0) != 0))`), `range(strings.Split(P0, ","))`, "", "equivalent", "strings.Cut loop (go1.20) and strings.Split visit the same parts; the empty string yields one empty part that matches no case"},
		{"generalizedtime-fraction", "parseGeneralizedTime", c10Lit(`"20060102150405.999999999Z0700"`), `"20060102150405Z0700"`, "", "ACCEPTANCE", "the fork predates upstream's acceptance of fractional seconds in GeneralizedTime (go1.15); the fork rejects them"},
		{"sequence-tag-mismatch-text", "parseSequenceOf", c10Lit(`StructuralError{"sequence tag mismatch"}`), `StructuralError{fmt.Sprintf("sequence tag mismatch (got:%+v, want:0/%d/%t)", L4, L6, L5)}`, "", "diagnostic", "richer message, same condition"},
		{"set-of-sorting:guard", "makeBody", nil, "", `!(P1.set)`, "marshal", "upstream sorts SET OF elements on marshal (go1.15 setEncoder), the fork keeps the given order"},
	}
	for _, p := range [][2]string{{"*RawValue", "rawValueType"}, {"*ObjectIdentifier", "objectIdentifierType"}, {"*BitString", "bitStringType"},
		{"*time.Time", "timeType"}, {"*Enumerated", "enumeratedType"}, {"*Flag", "flagType"}, {"**big.Int", "bigIntType"}} {
		out = append(out, c10Rewrite{"type-dispatch:" + p[1], "parseField", c10Lit("tsw(P0.Addr().Interface().(type))∈{" + p[0] + "}"), "sw(P0.Type())∈{" + p[1] + "}", "", "equivalent",
			"upstream (go1.20) dispatches on the pointer type of the target, the fork on its reflect.Type; " + p[1] + " is checked to be reflect.TypeOf of that type"})
	}
	return out
}()

var c10Allows = []c10Allow{
	{"base128-leading-0x80", "parseBase128Int", "upstream", `err SyntaxError{"integer is not minimally encoded"}*`, "ACCEPTANCE", "see base128-leading-0x80:guard"},
	{"base128-leading-0x80", "parseBase128Int", "upstream", `ret ·  WHEN  *(L1 == 0) ; (P0[R1] == 128) ;*`, "ACCEPTANCE", "see base128-leading-0x80:guard"},
	{"time-case-returns", "parseField", "upstream", `ret ·  WHEN  *(L8 == 23)*`, "equivalent", "time.Time case: upstream returns inside each branch (UTCTime / GeneralizedTime), the fork assigns in both branches and returns once; the two parse calls are matched under their conditions"},
	{"time-case-returns", "parseField", "fork", `ret ·  WHEN  *sw(P0.Type())∈{timeType}*`, "equivalent", "same"},
	{"nil-target", "UnmarshalWithParams", "upstream", `err invalidUnmarshalError{*`, "api-misuse", "see nil-target:guard"},
	{"nil-target", "UnmarshalWithParams", "upstream", `ret nil, &(invalidUnmarshalError{*`, "api-misuse", "see nil-target:guard"},
	{"set-of-sorting", "makeBody", "upstream", `ret setEncoder(*`, "marshal", "see set-of-sorting:guard"},
	{"error-text", "(StructuralError).Error", "upstream", `ret ("asn1: structure error: " + RCV.Msg)*`, "diagnostic", "the fork prefixes the field name"},
	{"error-text", "(StructuralError).Error", "fork", `ret (("asn1: structure error: " + L1) + RCV.Msg)*`, "diagnostic", "the fork prefixes the field name"},
	{"error-text", "(SyntaxError).Error", "upstream", `ret ("asn1: syntax error: " + RCV.Msg)*`, "diagnostic", "the fork prefixes the field name"},
	{"error-text", "(SyntaxError).Error", "fork", `ret (("asn1: syntax error: " + L1) + RCV.Msg)*`, "diagnostic", "the fork prefixes the field name"},
	{"oid-string", "(ObjectIdentifier).String", "upstream", `call *.WriteByte(46)*`, "equivalent", "strings.Builder formatting (go1.13) vs string concatenation; same text"},
	{"oid-string", "(ObjectIdentifier).String", "upstream", `call *.WriteString(strconv.FormatInt(*`, "equivalent", "same (upstream's Write(strconv.AppendInt(buf, …)) in the engine's one form of decimal formatting)"},
	{"oid-string", "(ObjectIdentifier).String", "upstream", `ret *.String()*`, "equivalent", "same"},
	{"oid-string", "(ObjectIdentifier).String", "fork", `ret ·  WHEN  `, "equivalent", "same"},
	{"four-digits", "appendFourDigits", "upstream", `ret append(P0, byte(*`, "equivalent", "unrolled digit formatting (go1.20) vs loop; marshal only"},
	{"four-digits", "appendFourDigits", "fork", `ret append(P0, L1[:])*`, "equivalent", "same"},
}

var c10FuncsOnly = map[string]string{
	"fork:couldBeISO8859_1":                  "lax-only helper (a use in the strict residual would be reported as a site)",
	"fork:couldBeT61":                        "lax-only helper",
	"fork:iso8859_1ToUTF8":                   "lax-only helper",
	"upstream:(invalidUnmarshalError).Error": "see nil-target",
	"upstream:(setEncoder).Encode":           "see set-of-sorting",
	"upstream:(setEncoder).Len":              "see set-of-sorting",
}

// Conditional drift (round 8): entries that apply only when a fact has been decided in this run.
//
// element-check: encoding/asn1's counting pass tests the header of every element against the element
// type before it decodes any (`sequence tag mismatch`).  When C10.R3:element:typed holds — every
// element the fork's element decoding accepts, with the parameters the fork really passes, has a header
// that this test lets through — the test is implied by what follows it, and a fork without it accepts
// the same inputs with the same values (it may report another element's error first).  Then, and only
// then, the test may be absent from the fork: its two sites, its three conditions, and its negation in
// the chains of the sites that follow it.  The texts are upstream's (go1.23) normal form; a toolchain
// whose counting pass reads differently matches none of them and the difference is reported.
var (
	c10ElemGuardNeg   = regexp.MustCompile(`!\(\(!\(L\d+\) && \(\(\(L\d+\.class != 0\) \|\| \(L\d+\.isCompound != L\d+\)\) \|\| \(L\d+\.tag != L\d+\)\)\)\) ; `)
	c10ElemGuardSite  = regexp.MustCompile(`^(err StructuralError\{.*sequence tag mismatch.*\}|ret ·)  WHEN  (.* ; )?!\(L\d+\) ; \(\(\(L\d+\.class != 0\) \|\| \(L\d+\.isCompound != L\d+\)\) \|\| \(L\d+\.tag != L\d+\)\) ; `)
	c10ElemGuardItems = map[string]bool{
		"cond sw(L1.tag)∈{22,27,20,12,18,30}":                                           true,
		"cond sw(L1.tag)∈{24,23}":                                                       true,
		"cond (!(L1) ∧ (((0 != L2.class) || (L3 != L2.isCompound)) || (L4 != L2.tag)))": true,
	}
)

const c10ElemCheckReason = "encoding/asn1's counting-pass test of the element headers is implied by the element decoding that follows it (decided: element:typed) — a fork that leaves the test to the element decoding accepts the same inputs"

func c10R3(r *Run, li *c10LaxInfo) {
	r.Rule("C10.R3")
	fork, up := r.P.Pkg("asn1"), r.P.ByPath["encoding/asn1"]
	if fork == nil || up == nil || len(up.Syntax) == 0 || up.TypesInfo == nil {
		r.Fail("anchor:encoding/asn1", "-", "undecided: the fork or the toolchain's encoding/asn1 was not loaded with syntax and types")
		return
	}
	lax := map[types.Object]bool{li.field: true}
	for p := range li.params {
		if o := p.Object(); o != nil {
			lax[o] = true
		}
	}
	// both sides are collected from the whole package, whatever file a declaration lives in
	// package-level tables that remember what a pure function computed (rules_t8c10_memo.go)
	memo, pure := c10MemoTables(r)
	// the elements of a SEQUENCE OF are type-checked with the parameters they are decoded with (rules_t8c10_elem.go)
	elem := c10ElementTyping(r, li)
	res := ForkDiff(fork, up, nil, lax, memo, pure, elem)
	r.Pass("upstream", "-", "compared against "+res.UpstreamDir)
	r.Floor("same-named functions compared", res.Functions, 70)
	for _, k := range res.SigMismatch {
		r.Fail("signature:"+k, "-", "the fork's parameter list of "+k+" is not upstream's plus added parameters")
	}
	for _, k := range res.Derived {
		r.Pass("signature:"+k, "-", "the fork's parameter list of "+k+" is upstream's without the parameter(s) that every upstream call derives from another argument by a reflect.Type method (read as that derivation inside upstream's function), plus added parameters")
	}
	for _, k := range res.Lifted {
		r.Pass("signature:"+k, "-", "the fork's parameter list of "+k+" is upstream's with a parameter replaced by the value of a pure niladic method (time.Time / reflect.Type) of it, which every fork call applies to an argument of upstream's type (read as that method applied inside the function), plus added parameters")
	}
	for _, k := range res.Transparent {
		r.Pass("transparent:"+k, "-", "unexported one-expression function on one side only, never used as a value: read as its expression at each call")
	}
	for _, side := range []string{"fork", "upstream"} {
		list := res.FuncsOnlyFork
		if side == "upstream" {
			list = res.FuncsOnlyUp
		}
		for _, k := range list {
			why, ok := c10FuncsOnly[side+":"+k]
			if !ok && side == "fork" && res.NotOutside[k] != "" {
				why = "it is not in the drift table and does not lie outside the decoder: it " + res.NotOutside[k]
			}
			r.Check("only-"+side+":"+k, ok, "-", "function exists on the "+side+" side only: "+why)
		}
	}
	for _, k := range res.Updaters {
		r.Pass("updater:"+k, "-", "function on the fork side only that takes one value of a struct type of the package and gives it back with some fields set to constants (`p.f = c` … `return p`): no effect and no site of its own; what it does to the value is followed field by field where the value is used (element:typed / element:params)")
	}
	for _, k := range res.FuncsPure {
		r.Pass("pure-helper:"+k, "-", "function on one side only without receiver whose body only tests its integer / boolean parameters and locals for equality, copies them and returns one: it has no effect of its own; each call is evaluated as part of the decision table it stands in (compared with encoding/asn1 as a function), and a call anywhere else is a site the other side does not have")
	}
	for _, k := range res.FuncsOutside {
		r.Pass("outside:"+k, "-", "function exists on the fork side only and lies outside the decoder: nothing but such functions refers to it (reachable from nothing compared), its receiver type — if any — occurs nowhere in decoder code, and it refers to no package-level function or variable of the fork other than such functions and write-only variables (it cannot call into the decoder, write what the decoder reads, or read anything but write-only variables)")
	}
	// package-level state: written by the declarations only, or write-only for the decoder
	for _, v := range res.PkgVars {
		r.Check("pkgvar:"+v.Name, v.OK, r.P.Pos(v.Pos), v.Detail)
	}
	r.Floor("package-level variables of the fork classified", len(res.PkgVars), 10)
	for _, k := range res.FuncsUnreferenced {
		r.Pass("unreferenced:"+k, "-", "unexported function on the fork side only that nothing refers to (dead code, not part of the strict residual)")
	}
	// apply the rewrites to the unmatched upstream sites, then re-match
	used := map[string]int{}
	for i := range res.OnlyUp {
		s := &res.OnlyUp[i]
		drop := map[string]bool{}
		for _, rw := range c10Rewrites {
			if rw.Fn != "" && rw.Fn != s.Fn {
				continue
			}
			if rw.Drop != "" {
				if strings.Contains(s.Text, rw.Drop) {
					drop[rw.Drop] = true
					used[rw.Name]++
				}
				continue
			}
			if t := rw.Re.ReplaceAllString(s.Text, rw.Repl); t != s.Text {
				s.Text = t
				used[rw.Name]++
			}
		}
		s.Text = fdResort(s.Text, drop)
		if elem.typed && s.Fn == elem.holder && !c10ElemGuardSite.MatchString(s.Text) {
			if t := c10ElemGuardNeg.ReplaceAllString(s.Text, ""); t != s.Text {
				s.Text = fdRenumberLocals(t)
				used["element-check:guard"]++
			}
		}
	}
	matchedAfter := 0
	for i := range res.OnlyUp {
		for j := range res.OnlyFork {
			u, f := &res.OnlyUp[i], &res.OnlyFork[j]
			if !u.match && !f.match && u.Fn == f.Fn && u.Text == f.Text {
				u.match, f.match = true, true
				matchedAfter++
				break
			}
		}
	}
	// what is still unmatched: the same site under X and under !(X) is the site without
	// that conjunct (rules_t5c10.go), then matched once more
	{
		var nu, nf int
		res.OnlyUp, nu = fdMergeComplementary(res.OnlyUp)
		res.OnlyFork, nf = fdMergeComplementary(res.OnlyFork)
		if nu+nf > 0 {
			for i := range res.OnlyUp {
				for j := range res.OnlyFork {
					u, f := &res.OnlyUp[i], &res.OnlyFork[j]
					if !u.match && !f.match && u.Fn == f.Fn && u.Text == f.Text {
						u.match, f.match = true, true
						matchedAfter++
						break
					}
				}
			}
			r.Pass("complementary-sites", "-", fmt.Sprintf("%d pair(s) of unmatched sites with the same head under X and under !(X) read as the one site under the common conditions (upstream %d, fork %d)", nu+nf, nu, nf))
		}
	}
	allowed := 0
	type diff struct {
		where string
		items []string
	}
	diffs := map[string]*diff{}
	report := func(s fdSite, side, where string) {
		if s.match {
			return
		}
		if elem.typed && side == "upstream" && s.Fn == elem.holder && c10ElemGuardSite.MatchString(s.Text) {
			used["element-check"]++
			allowed++
			return
		}
		for _, a := range c10Allows {
			if a.Fn == s.Fn && a.Side == side && glob(a.Glob, s.Text) {
				used[a.Name]++
				allowed++
				return
			}
		}
		d := diffs[s.Fn]
		if d == nil {
			d = &diff{where: where}
			diffs[s.Fn] = d
		}
		if side == "fork" && !strings.HasPrefix(d.where, "asn1/") {
			d.where = where // prefer a position in the repository
		}
		d.items = append(d.items, side+" only: `"+s.Text+"`")
	}
	for _, s := range res.OnlyUp {
		report(s, "upstream", up.Fset.Position(s.Pos).String())
	}
	for _, s := range res.OnlyFork {
		report(s, "fork", r.P.Pos(s.Pos))
	}
	emitSites := func() {
		for _, k := range res.Compared {
			d := diffs[k]
			if d == nil {
				r.Pass("sites:"+k, "-", "strict residual of "+k+" has the same rejection sites, error-propagating calls and returns under the same conditions as encoding/asn1 (modulo the drift table)")
				continue
			}
			n := len(d.items)
			if n > 4 {
				d.items = append(d.items[:4], fmt.Sprintf("… and %d more", n-4))
			}
			r.Fail("sites:"+k, d.where, fmt.Sprintf("the strict residual of the fork's %s and encoding/asn1 differ in %d site(s) that the drift table does not list: %s", k, n, strings.Join(d.items, " || ")))
		}
	}
	r.Floor("sites identical after normalisation", res.Matched, 200)
	// the drift entries in use are part of the evidence
	names := map[string][2]string{}
	for _, rw := range c10Rewrites {
		names[rw.Name] = [2]string{rw.Class, rw.Reason}
	}
	for _, a := range c10Allows {
		if _, ok := names[a.Name]; !ok {
			names[a.Name] = [2]string{a.Class, a.Reason}
		}
	}
	names["element-check"] = [2]string{"equivalent (decided)", c10ElemCheckReason}
	names["element-check:guard"] = names["element-check"]
	var ks []string
	for k := range used {
		ks = append(ks, k)
	}
	sort.Strings(ks)
	for _, k := range ks {
		r.Pass("drift:"+k, "-", fmt.Sprintf("documented difference [%s] used %d×: %s", names[k][0], used[k], names[k][1]))
	}
	r.Pass("summary", "-", fmt.Sprintf("%d functions; %d sites identical, %d identical after drift rewrites, %d covered by drift allowances", res.Functions, res.Matched, matchedAfter, allowed))
	// the type variables the fork dispatches on are what the rewrites claim
	c10TypeVars(r, res.Renamed)
	lone, emitItems := c10R3Items(r, res, up.Fset, elem)
	// findings of the walk stated in their own words (rules_t8c10.go): a guard that only one side
	// has (its condition found no partner) and that is decided to change the outcome
	for _, n := range res.Notes {
		where, side := up.Fset.Position(n.Pos).String(), "upstream"
		if n.Fork {
			where, side = r.P.Pos(n.Pos), "fork"
		}
		if lone[side][n.Pos] {
			r.Fail(n.Kind+":"+n.Fn, where, n.Text)
		}
	}
	emitSites()
	emitItems()
	if os.Getenv("CTVERIF_C10_DEBUG") != "" {
		fmt.Println("outside:", res.FuncsOutside, "not outside:", res.NotOutside, "sink statements:", res.SinkStmts)
		for _, v := range res.PkgVars {
			fmt.Printf("PKGVAR %s ok=%v sink=%v\n", v.Name, v.OK, v.Sink)
		}
		for _, s := range res.OnlyUp {
			fmt.Printf("UP   %v %s: %s\n", s.match, s.Fn, s.Text)
		}
		for _, s := range res.OnlyFork {
			fmt.Printf("FORK %v %s: %s\n", s.match, s.Fn, s.Text)
		}
		fmt.Println("items matched:", res.ItemsMatched)
		for _, s := range res.ItemsOnlyUp {
			fmt.Printf("IUP   %s: %s\n", s.Fn, s.Text)
		}
		for _, s := range res.ItemsOnlyFork {
			fmt.Printf("IFORK %s: %s\n", s.Fn, s.Text)
		}
	}
}

// c10TypeVars: xType = reflect.TypeOf(<value of type X>) for the dispatch variables.
// A variable is found under upstream's name, or under the name ForkDiff matched to
// it by definition (renamed: fork name -> upstream name).
func c10TypeVars(r *Run, renamed map[string]string) {
	want := map[string]string{"rawValueType": "asn1.RawValue", "objectIdentifierType": "asn1.ObjectIdentifier", "bitStringType": "asn1.BitString",
		"timeType": "time.Time", "enumeratedType": "asn1.Enumerated", "flagType": "asn1.Flag", "rawContentsType": "asn1.RawContent", "bigIntType": "*big.Int"}
	pk := r.P.Pkg("asn1")
	seen := map[string]bool{}
	// what the declaration says holds for good only if no function writes the variable
	written := map[types.Object]token.Pos{}
	for _, f := range pk.Syntax {
		for _, d := range f.Decls {
			if fd, ok := d.(*ast.FuncDecl); ok && fd.Body != nil {
				w := fdWrittenIn(fd.Body, pk.TypesInfo)
				for _, m := range []map[types.Object]bool{w.asg, w.addr} {
					for o := range m {
						if o != nil && o.Parent() == pk.Types.Scope() {
							written[o] = fd.Pos()
						}
					}
				}
			}
		}
	}
	for _, f := range pk.Syntax {
		ast.Inspect(f, func(n ast.Node) bool {
			vs, ok := n.(*ast.ValueSpec)
			if !ok || len(vs.Names) != len(vs.Values) {
				return true
			}
			for i, id := range vs.Names {
				name := id.Name
				if n, ok := renamed[name]; ok {
					name = n
				}
				w, ok := want[name]
				if !ok || pk.Types.Scope().Lookup(id.Name) != pk.TypesInfo.Defs[id] {
					continue
				}
				seen[name] = true
				got := "?"
				if call, ok := vs.Values[i].(*ast.CallExpr); ok && len(call.Args) == 1 && types.ExprString(call.Fun) == "reflect.TypeOf" {
					if tv, ok := pk.TypesInfo.Types[call.Args[0]]; ok {
						got = TypeName(tv.Type)
					}
				}
				r.Check("typevar:"+name, got == w, r.P.Pos(id.Pos()), id.Name+" = reflect.TypeOf(value of type "+got+"), want "+w)
				if pos, isWritten := written[pk.TypesInfo.Defs[id]]; isWritten {
					r.Fail("typevar:"+name+":constant", r.P.Pos(pos), id.Name+" is assigned or has its address taken in a function: it need not hold the type of its declaration when the parser dispatches on it")
				} else {
					r.Pass("typevar:"+name+":constant", r.P.Pos(id.Pos()), id.Name+" is written by its declaration only")
				}
			}
			return true
		})
	}
	for _, k := range keysOf(want) {
		if !seen[k] {
			r.Fail("typevar:"+k, "-", "undecided: package variable "+k+" not found")
		}
	}
}

// ---- whole-function items: branch conditions and tracked assignments ----------
//
// Sites only see the conditions that enclose or precede a rejection / return.
// A slip in a *value computation* (`ret.Year() >= 2050` → `> 2050` before
// `ret = ret.AddDate(-100, 0, 0)`) leaves every site unchanged.  Therefore the
// multiset of all branch conditions of a function (if / for / range / switch
// and type-switch clauses; comparison orientation canonical) and the multiset of
// assignments to named results and to variables that flow into returned values
// must also agree with encoding/asn1, after the same partial evaluation to
// strict mode, the site rewrites above, the item rewrites below, and up to the
// counted allowances below.

type c10ItemAllow struct {
	Name, Fn, Side string
	Text           string // exact normal form of the item
	Alt            string // the same item with the value held elsewhere (shares the entry's budget)
	Max            int    // at most this many items of the function may use the entry
	Class, Reason  string
}

// applied to upstream items (after the textual rewrites of c10Rewrites)
var c10ItemRewrites = []c10Rewrite{
	{"IsExported", "", regexp.MustCompile(`!\((.*)\.IsExported\(\)\)`), `("" != ${1}.PkgPath)`, "", "equivalent", "reflect.StructField.IsExported() is PkgPath == \"\" (go1.17 API)"},
	{"tag-parts-loop", "parseFieldParameters", c10Lit(`for((0 != len(P0)))`), `range(strings.Split(P0, ","))`, "", "equivalent", "strings.Cut loop (go1.20) and strings.Split visit the same parts"},
}

var c10ItemAllows = []c10ItemAllow{
	{"base128-leading-0x80", "parseBase128Int", "upstream", `cond ((0 == L1) ∧ (128 == P0[R1]))`, "", 1, "ACCEPTANCE", "condition of the minimality check the fork lacks (see drift:base128-leading-0x80:guard)"},
	{"nil-target", "UnmarshalWithParams", "upstream", `cond (22 != reflect.ValueOf(P1).Kind())`, "", 1, "api-misuse", "condition of upstream's invalidUnmarshalError (see drift:nil-target:guard; one item per disjunct of a leaving `if a || b`)"},
	{"nil-target", "UnmarshalWithParams", "upstream", `cond reflect.ValueOf(P1).IsNil()`, "", 1, "api-misuse", "same, second disjunct"},
	{"set-of-sorting", "makeBody", "upstream", `cond P1.set`, "", 1, "marshal", "upstream chooses the sorting setEncoder for SET OF (see drift:set-of-sorting:guard)"},
	{"set-type-name", "makeField", "upstream", `cond (!(P1.set) ∧ (17 == L1))`, "", 1, "marshal", "upstream (go1.15) turns on params.set for slice types named …SET so that they are sorted on marshal; the fork has no sorting, so nothing to turn on"},
	{"set-type-name", "makeField", "upstream", `asgn P1.set = true`, "", 1, "marshal", "same"},
	{"tag-parts-loop", "parseFieldParameters", "upstream", `asgn L1, P0, _ = strings.Cut(P0, ",")`, "", 1, "equivalent", "upstream advances through the tag string with strings.Cut, the fork ranges over strings.Split"},
	{"lax-tag", "parseFieldParameters", "fork", `cond ("lax" == L1)`, "", 1, "documented", "the fork's \"lax\" tag part (C10.R1:tag-lax checks what it does)"},
	{"err1-style", "parseField", "fork", `cond (R1 == nil)`, `cond (L1 == nil)`, 3, "equivalent", "the fork stores through reflect only when the parse succeeded (OID, BIT STRING, time: `if err1 == nil { v.Set(…) }; err = err1`) where upstream assigns value and error in one statement; the error is returned either way (sites match, and a call whose error value reaches nothing would carry a note). R1: the error is held in the named result, directly or through a temporary copied to it (rules_t5c10.go); L1: in a temporary of another shape — the same three tests either way, one budget"},
	{"error-text", "(StructuralError).Error", "fork", `cond ("" != RCV.Field)`, "", 1, "diagnostic", "the fork prefixes the field name"},
	{"error-text", "(StructuralError).Error", "fork", `asgn L1 = (RCV.Field + ": ")`, "", 1, "diagnostic", "same"},
	{"error-text", "(SyntaxError).Error", "fork", `cond ("" != RCV.Field)`, "", 1, "diagnostic", "same"},
	{"error-text", "(SyntaxError).Error", "fork", `asgn L1 = (RCV.Field + ": ")`, "", 1, "diagnostic", "same"},
	{"oid-string", "(ObjectIdentifier).String", "fork", `asgn R0 = (R0 + ".")`, "", 1, "equivalent", "string concatenation where upstream uses strings.Builder (its WriteByte/Write calls are allowed as sites)"},
	{"oid-string", "(ObjectIdentifier).String", "fork", `asgn R0 = (R0 + strconv.FormatInt(int64(L1), 10))`, "", 1, "equivalent", "same (strconv.Itoa in the engine's one form of decimal formatting)"},
	{"four-digits", "appendFourDigits", "fork", `cond range(L1)`, "", 1, "equivalent", "digit loop where upstream is unrolled (go1.20); marshal only"},
	{"four-digits", "appendFourDigits", "fork", `asgn L1[(3 - L2)] = (48 + byte((P1 % 10)))`, "", 1, "equivalent", "same"},
	{"four-digits", "appendFourDigits", "fork", `asgn P1 = (P1 / 10)`, "", 1, "equivalent", "same"},
}

func c10R3Items(r *Run, res *fdResult, upFset *token.FileSet, elem *c10Elem) (map[string]map[token.Pos]bool, func()) {
	lone := map[string]map[token.Pos]bool{"fork": {}, "upstream": {}}
	used := map[string]int{}
	names := map[string][2]string{}
	override := map[string]bool{} // item rewrites replace the site rewrite of the same name (canonical orientation)
	for _, rw := range c10ItemRewrites {
		override[rw.Name] = true
	}
	for i := range res.ItemsOnlyUp {
		s := &res.ItemsOnlyUp[i]
		for li, list := range [][]c10Rewrite{c10Rewrites, c10ItemRewrites} {
			for _, rw := range list {
				if rw.Re == nil || (rw.Fn != "" && rw.Fn != s.Fn) || (li == 0 && override[rw.Name]) {
					continue
				}
				if t := rw.Re.ReplaceAllString(s.Text, rw.Repl); t != s.Text {
					s.Text = t
					used[rw.Name]++
					names[rw.Name] = [2]string{rw.Class, rw.Reason}
				}
			}
		}
	}
	after := 0
	for i := range res.ItemsOnlyUp {
		for j := range res.ItemsOnlyFork {
			u, f := &res.ItemsOnlyUp[i], &res.ItemsOnlyFork[j]
			if !u.match && !f.match && u.Fn == f.Fn && u.Text == f.Text {
				u.match, f.match = true, true
				after++
				break
			}
		}
	}
	type diff struct {
		where string
		items []string
	}
	diffs := map[string]*diff{} // kind:fn
	budget := make([]int, len(c10ItemAllows))
	elemBudget := map[string]int{}
	allowed := 0
	report := func(s fdSite, side, where string) {
		if s.match {
			return
		}
		if elem != nil && elem.typed && side == "upstream" && s.Fn == elem.holder && c10ElemGuardItems[s.Text] && elemBudget[s.Text] < 1 {
			elemBudget[s.Text]++
			used["element-check"]++
			names["element-check"] = [2]string{"equivalent (decided)", c10ElemCheckReason}
			allowed++
			return
		}
		for i, a := range c10ItemAllows {
			if a.Fn == s.Fn && a.Side == side && (a.Text == s.Text || (a.Alt != "" && a.Alt == s.Text)) && budget[i] < a.Max {
				budget[i]++
				used[a.Name]++
				names[a.Name] = [2]string{a.Class, a.Reason}
				allowed++
				return
			}
		}
		lone[side][s.Pos] = true
		k := "conditions:" + s.Fn
		if strings.HasPrefix(s.Text, "asgn ") {
			k = "assignments:" + s.Fn
		}
		if s.tab != nil {
			k = "decisions:" + s.Fn
		}
		d := diffs[k]
		if d == nil {
			d = &diff{where: where}
			diffs[k] = d
		}
		if side == "fork" {
			d.where = where
		}
		if s.tab != nil && side == "fork" {
			d.items = append([]string{side + " only: `" + s.Text + "`"}, d.items...) // the one that names the input
			return
		}
		d.items = append(d.items, side+" only: `"+s.Text+"`")
	}
	for _, s := range res.ItemsOnlyUp {
		report(s, "upstream", upFset.Position(s.Pos).String())
	}
	for _, s := range res.ItemsOnlyFork {
		report(s, "fork", r.P.Pos(s.Pos))
	}
	emit := func() {
		for _, fn := range res.Compared {
			for _, kind := range [][2]string{{"decisions", "decision tables (runs of equality tests and copies over integer variables, compared with encoding/asn1 as the functions they compute: strict mode must accept what encoding/asn1 accepts, with an equal value)"},
				{"conditions", "branch conditions (if / for / range / switch clauses)"}, {"assignments", "assignments to named results and to variables that flow into returned values"}} {
				d := diffs[kind[0]+":"+fn]
				if d == nil && kind[0] == "decisions" {
					if n, ok := res.Tables[fn]; ok {
						r.Pass(kind[0]+":"+fn, "-", fmt.Sprintf("%d run(s) of equality tests and copies over integer variables in the strict residual of %s compute the same function as their counterpart in encoding/asn1 (decided on every abstract input)", n[0], fn))
					}
					continue
				}
				if d == nil {
					r.Pass(kind[0]+":"+fn, "-", "the strict residual of "+fn+" has the same multiset of "+kind[1]+" as encoding/asn1 (modulo the drift table)")
					continue
				}
				n := len(d.items)
				if n > 4 {
					d.items = append(d.items[:4], fmt.Sprintf("… and %d more", n-4))
				}
				r.Fail(kind[0]+":"+fn, d.where, fmt.Sprintf("the %s of the fork's %s (strict residual) and of encoding/asn1 differ in %d item(s) that the drift table does not list: %s", kind[1], fn, n, strings.Join(d.items, " || ")))
			}
		}
		r.Floor("conditions and assignments identical after normalisation", res.ItemsMatched, 400)
		var ks []string
		for k := range used {
			ks = append(ks, k)
		}
		sort.Strings(ks)
		for _, k := range ks {
			r.Pass("drift-items:"+k, "-", fmt.Sprintf("documented difference [%s] used for %d condition/assignment item(s): %s", names[k][0], used[k], names[k][1]))
		}
		r.Pass("summary-items", "-", fmt.Sprintf("%d conditions/assignments identical, %d identical after drift rewrites, %d covered by counted drift allowances", res.ItemsMatched, after, allowed))
	}
	return lone, emit
}
