package main

// C14.R9 — who may write the issuance-chain cache, and with what (round 4, seed C14-h).
//
// Clause: "storing chains outside the backend is invisible to readers … for every cache kind,
// size, expiry and eviction state".  The write path (add) skips the storage write when the
// cache already holds the hash, so the whole mechanism rests on the invariant
//
//	every (hash, chain) pair in the cache is a row of the storage.
//
// Structural fact decided here, over the whole module (no function is named):
//
//	(W1) every call that puts a pair into an issuance-chain cache — an invocation of Set on the
//	     cache interface (or on any interface the cache implementations satisfy), or a static call
//	     of an implementation's Set — passes a (key, chain) pair that, in the function where the
//	     pair's values are produced, is
//	       read:    chain = result of IssuanceChainStorage.FindByKey(key) for that same key, and the write
//	                cannot execute once the comparison SHA-256(chain) == key came out unequal, or
//	       written: (key, chain) = the arguments of IssuanceChainStorage.Add(key, chain),
//	     the storage call comes before the write on every path (strict dominance) and the write
//	     cannot execute once the storage call reported an error.  When key and chain are parameters
//	     (or captures) of the function that holds the call — a detached goroutine, a helper, a
//	     forwarding wrapper — the obligation moves to every call site of that function (go, call,
//	     defer, interface invocation); a function whose callers cannot all be enumerated (exported
//	     without callers, used as a value) leaves the obligation undecided = failed;
//	(W2) Set is never taken as a function value (method value / method expression), so (W1) sees
//	     every writer;
//	(W3) inside the cache implementations the underlying store is inserted into only by Set, with
//	     the pair Set was given.
//
// The provenance of the two known writers (add, getByHash) is also decided by C14.R5 with their
// anchors; this rule establishes that there is no other writer, wherever it is put.

import (
	"fmt"
	"go/types"
	"regexp"
	"sort"
	"strings"

	"golang.org/x/tools/go/ssa"
)

// a read of a captured local of the enclosing function, as rendered inside the closure
var c14CapturedLocal = regexp.MustCompile(`^\*\^new:[^#^*&(]*#[0-9]+$`)

const (
	c14CacheIface   = "trillian/ctfe/cache.IssuanceChainCache"
	c14StorageIface = "trillian/ctfe/storage.IssuanceChainStorage"
)

type c14Writers struct {
	r       *Run
	cache   *types.Interface
	storage *types.Interface
	cImpls  []types.Type // pointer types of the named types implementing the cache interface
	sImpls  []types.Type
	setSig  *types.Signature
}

func c14CacheWriters(r *Run) {
	w := &c14Writers{r: r}
	if nt := r.P.LookupType(c14CacheIface); nt != nil {
		w.cache, _ = nt.Underlying().(*types.Interface)
	}
	if nt := r.P.LookupType(c14StorageIface); nt != nil {
		w.storage, _ = nt.Underlying().(*types.Interface)
	}
	if w.cache == nil || w.storage == nil {
		r.Fail("cache-writers:anchors", "-", "undecided: the cache / storage interfaces of the issuance chain service were not found")
		return
	}
	for i := 0; i < w.cache.NumMethods(); i++ {
		if m := w.cache.Method(i); m.Name() == "Set" {
			w.setSig, _ = m.Type().(*types.Signature)
		}
	}
	if w.setSig == nil {
		r.Fail("cache-writers:anchors", "-", "undecided: the cache interface has no Set method")
		return
	}
	w.cImpls = w.implementations(w.cache)
	w.sImpls = w.implementations(w.storage)
	r.Floor("implementations of the issuance chain cache", len(w.cImpls), 2)
	r.Floor("implementations of the issuance chain storage", len(w.sImpls), 2)

	// (W1) every writer
	n := 0
	for _, fn := range r.P.ModFuncs {
		eachInstr(fn, func(in ssa.Instruction) {
			ci, ok := in.(ssa.CallInstruction)
			if !ok || !w.isCacheSet(ci.Common()) {
				return
			}
			n++
			a := CallArgs(ci)
			key := "cache-writer@" + FuncName(outermost(fn))
			if len(a) != 4 {
				r.Fail(key, r.Where(in), "undecided: unexpected signature of the cache's Set")
				return
			}
			ok2, why := w.decide(fn, in, r.D.D(a[2]), r.D.D(a[3]), 0)
			r.Check(key, ok2, r.Where(in), "the cache only receives (hash, chain) pairs that are rows of the storage: "+why)
		})
	}
	r.Floor("writers of the issuance chain cache", n, 1)

	// (W2) Set is not used as a value
	for _, fn := range r.P.ModFuncs {
		eachInstr(fn, func(in ssa.Instruction) {
			var call *ssa.CallCommon
			if ci, ok := in.(ssa.CallInstruction); ok {
				call = ci.Common()
			}
			for _, op := range in.Operands(nil) {
				f, ok := (*op).(*ssa.Function)
				if !ok || f == nil {
					continue
				}
				if call != nil && !call.IsInvoke() && call.Value == ssa.Value(f) {
					continue // called on the spot: seen by (W1)
				}
				if w.isSetFunc(f) {
					r.Fail("cache-writer:as-value@"+FuncName(outermost(fn)), r.Where(in), "the cache's Set is taken as a function value ("+f.Name()+"): its callers cannot be enumerated")
				}
			}
		})
	}

	// (W3) the store behind an implementation is inserted into only by its Set, with Set's own pair
	raw := 0
	for _, fn := range r.P.ModFuncs {
		pk := fnPkg(fn)
		if pk == nil || !strings.HasPrefix(ShortPkg(pk.Path()), "trillian/ctfe/cache") {
			continue
		}
		for _, c := range CallsTo(fn, "(*expirable.LRU[*]).Add*") {
			raw++
			a := CallArgs(c)
			key := "cache-store-insert@" + FuncName(outermost(fn))
			ok := w.isSetMethod(fn) && len(a) == 3 && r.D.D(a[1]) == "conv:string(p2)" && r.D.D(a[2]) == "p3"
			d := "?"
			if len(a) == 3 {
				d = r.D.D(a[1]) + ", " + r.D.D(a[2])
			}
			r.Check(key, ok, r.Where(c), "the LRU behind the cache is inserted into only by Set, with the (key, chain) Set was given: "+FuncName(fn)+" inserts ("+d+")")
		}
	}
	r.Floor("insertions into the LRU behind the cache", raw, 1)
}

func outermost(fn *ssa.Function) *ssa.Function {
	for fn.Parent() != nil {
		fn = fn.Parent()
	}
	return fn
}

// implementations: *T for every named non-interface type T of the module with T or *T implementing the interface.
func (w *c14Writers) implementations(it *types.Interface) []types.Type {
	var out []types.Type
	for _, pk := range w.r.P.Pkgs {
		if pk.Types == nil {
			continue
		}
		sc := pk.Types.Scope()
		for _, name := range sc.Names() {
			tn, ok := sc.Lookup(name).(*types.TypeName)
			if !ok || tn.IsAlias() {
				continue
			}
			nt, ok := tn.Type().(*types.Named)
			if !ok || types.IsInterface(nt) || nt.TypeParams().Len() > 0 {
				continue
			}
			if types.Implements(nt, it) || types.Implements(types.NewPointer(nt), it) {
				out = append(out, types.NewPointer(nt))
			}
		}
	}
	return out
}

func implementsEither(t types.Type, it *types.Interface) bool {
	if types.IsInterface(t) {
		return false
	}
	if types.Implements(t, it) {
		return true
	}
	if _, isPtr := t.(*types.Pointer); !isPtr {
		return types.Implements(types.NewPointer(t), it)
	}
	return false
}

// sameShape: two signatures agree on parameters and results (receivers ignored).
func sameShape(a, b *types.Signature) bool {
	return a != nil && b != nil && types.Identical(a.Params(), b.Params()) && types.Identical(a.Results(), b.Results()) && a.Variadic() == b.Variadic()
}

// isCacheSet: the call writes an issuance-chain cache.
func (w *c14Writers) isCacheSet(c *ssa.CallCommon) bool {
	if c.IsInvoke() {
		if c.Method.Name() != "Set" {
			return false
		}
		sig, _ := c.Method.Type().(*types.Signature)
		if !sameShape(sig, w.setSig) {
			return false
		}
		it, ok := c.Value.Type().Underlying().(*types.Interface)
		if !ok {
			return false
		}
		if types.Identical(it, w.cache) {
			return true
		}
		for _, t := range w.cImpls {
			if types.Implements(t, it) {
				return true
			}
		}
		return false
	}
	f := c.StaticCallee()
	return f != nil && w.isSetFunc(f)
}

// isSetMethod: fn is the Set method of a cache implementation.
func (w *c14Writers) isSetMethod(fn *ssa.Function) bool {
	if fn == nil || fn.Name() != "Set" || fn.Signature.Recv() == nil {
		return false
	}
	return implementsEither(fn.Signature.Recv().Type(), w.cache) && sameShape(fn.Signature, w.setSig)
}

// isSetFunc: f is a cache implementation's Set, or a synthetic wrapper (bound method, thunk, promoted
// method) around a Set of the cache interface / an implementation.
func (w *c14Writers) isSetFunc(f *ssa.Function) bool {
	if w.isSetMethod(f) {
		return true
	}
	if f.Synthetic == "" {
		return false
	}
	base := f.Name()
	if i := strings.Index(base, "$"); i >= 0 {
		base = base[:i]
	}
	if base != "Set" {
		return false
	}
	// bound method wrappers carry the receiver as a free variable, thunks as their first parameter
	var recv types.Type
	switch {
	case len(f.FreeVars) == 1:
		recv = f.FreeVars[0].Type()
	case f.Signature.Recv() != nil:
		recv = f.Signature.Recv().Type()
	case len(f.Params) > 0:
		recv = f.Params[0].Type()
	}
	if recv == nil {
		return false
	}
	if it, ok := recv.Underlying().(*types.Interface); ok {
		if types.Identical(it, w.cache) {
			return true
		}
		for _, t := range w.cImpls {
			if types.Implements(t, it) {
				return true
			}
		}
		return false
	}
	return implementsEither(recv, w.cache)
}

// storageCall classifies a call as a storage read ("find") or write ("add") of the issuance chain storage.
func (w *c14Writers) storageCall(c *ssa.CallCommon) string {
	name := ""
	if c.IsInvoke() {
		it, ok := c.Value.Type().Underlying().(*types.Interface)
		if !ok {
			return ""
		}
		okI := types.Identical(it, w.storage)
		for _, t := range w.sImpls {
			if !okI && types.Implements(t, it) {
				okI = true
			}
		}
		if !okI {
			return ""
		}
		name = c.Method.Name()
	} else if f := c.StaticCallee(); f != nil && f.Signature.Recv() != nil && implementsEither(f.Signature.Recv().Type(), w.storage) {
		name = f.Name()
	}
	for i := 0; i < w.storage.NumMethods(); i++ {
		m := w.storage.Method(i)
		if m.Name() != name {
			continue
		}
		var sig *types.Signature
		if c.IsInvoke() {
			sig, _ = c.Method.Type().(*types.Signature)
		} else {
			sig = c.StaticCallee().Signature
		}
		if !sameShape(sig, m.Type().(*types.Signature)) {
			return ""
		}
		switch name {
		case "FindByKey":
			return "find"
		case "Add":
			return "add"
		}
	}
	return ""
}

// provAt: at the instruction `at` of fn, (kd, vd) — origin terms in fn's frame — is a row of the
// storage: read under that key or written as that pair by a storage call that strictly dominates
// `at` and whose failure makes `at` unreachable.  A row that was READ is a row only in so far as it
// still is what was written: the storage is content-addressed, and a cache hit is served without a
// check, so a chain read is handed to the cache only after its hash has been compared with the key
// it was read under — `at` is unreachable once that comparison came out unequal.  Terms are compared
// after c14Norm (a single-assignment local captured by a literal reads as the value assigned).
func (w *c14Writers) provAt(fn *ssa.Function, at ssa.Instruction, kd, vd string) (bool, string) {
	r := w.r
	found, why := false, ""
	kd, vd = c14Norm(r, fn, kd), c14Norm(r, fn, vd)
	eachInstr(fn, func(in ssa.Instruction) {
		ci, ok := in.(ssa.CallInstruction)
		if !ok || found {
			return
		}
		if _, isCall := in.(*ssa.Call); !isCall {
			return // a go / defer'd storage call has not happened yet
		}
		kind := w.storageCall(ci.Common())
		if kind == "" {
			return
		}
		a := CallArgs(ci)
		var errv ssa.Value
		switch kind {
		case "find":
			res := CallResult(ci, 0)
			errv = CallResult(ci, 1)
			if len(a) != 3 || res == nil || errv == nil || c14D(r, fn, a[2]) != kd || c14D(r, fn, res) != vd {
				return
			}
		case "add":
			errv = CallResult(ci, 0)
			if len(a) != 4 || errv == nil || c14D(r, fn, a[2]) != kd || c14D(r, fn, a[3]) != vd {
				return
			}
		}
		what := map[string]string{"find": "read from storage under this key", "add": "written to storage as this pair"}[kind]
		cb := in.Block()
		if cb == at.Block() || !cb.Dominates(at.Block()) {
			why = "the pair is " + what + " at " + r.Where(in) + ", but not before the cache write on every path"
			return
		}
		atom := "nil?" + r.D.D(errv)
		if _, tested := r.D.AtomsOf(fn)[atom]; !tested {
			why = "the pair is " + what + " at " + r.Where(in) + ", but the error of that call is not tested"
			return
		}
		r.Valuations++
		if r.D.Walk(fn, Sigma{atom: "non"}, cb, nil).Has(at) {
			why = "the pair is " + what + " at " + r.Where(in) + ", but the cache write is reachable after that call failed"
			return
		}
		if kind == "find" {
			cmp := c14ContentCheck(r, fn, kd, vd)
			if cmp == "" {
				why = "the chain read from storage at " + r.Where(in) + " is handed to the cache without its SHA-256 ever being compared with the key it was read under"
				return
			}
			r.Valuations++
			if r.D.Walk(fn, Sigma{cmp: "F"}, cb, nil).Has(at) {
				why = "the chain read from storage at " + r.Where(in) + " is handed to the cache before its SHA-256 has been compared with the key it was read under (the cache write is reachable with the comparison unequal): a damaged row is rejected on this read but served, unchecked, from the cache on the following ones"
				return
			}
		}
		found, why = true, "("+kd+", "+vd+") "+what+" in "+FuncName(fn)+" ("+r.Where(in)+"), the cache write only follows its success"
	})
	return found, why
}

// c14ContentCheck: the key of the branch condition of fn that compares the content address of the
// chain vd (SHA-256, directly or through issuanceChainHash, which C14.R5 decides to be SHA-256) with
// the key kd; "" when fn has none.
func c14ContentCheck(r *Run, fn *ssa.Function, kd, vd string) string {
	isHashOf := func(h ssa.Value) bool {
		if c, ok := h.(*ssa.Call); ok && CalleeOf(c) == "trillian/ctfe.issuanceChainHash" && len(c.Call.Args) == 1 {
			return c14D(r, fn, c.Call.Args[0]) == vd
		}
		return c14D(r, fn, h) == "sha256.Sum256("+vd+")[:]"
	}
	atoms := r.D.AtomsOf(fn)
	out := ""
	eachInstr(fn, func(in ssa.Instruction) {
		c, ok := in.(*ssa.Call)
		if !ok || CalleeOf(c) != "bytes.Equal" || len(c.Call.Args) != 2 {
			return
		}
		x, y := c.Call.Args[0], c.Call.Args[1]
		if !(isHashOf(x) && c14D(r, fn, y) == kd) && !(isHashOf(y) && c14D(r, fn, x) == kd) {
			return
		}
		if ci := r.D.Classify(c); ci != nil {
			// the comparison is a branch condition, and its key means this comparison wherever it is tested
			if _, tested := atoms[ci.Key]; tested && c14AtomUnambiguous(r, fn, ci.Key) {
				out = ci.Key
			}
		}
	})
	return out
}

// decide: the obligation (kd, vd) at instruction `at` of fn.
func (w *c14Writers) decide(fn *ssa.Function, at ssa.Instruction, kd, vd string, depth int) (bool, string) {
	r := w.r
	kd, vd = c14Norm(r, fn, kd), c14Norm(r, fn, vd)
	if ok, why := w.provAt(fn, at, kd, vd); ok {
		return true, why
	} else if why != "" {
		return false, why
	}
	if w.isSetMethod(fn) && kd == "p2" && vd == "p3" {
		return true, FuncName(fn) + " forwards the pair it was given (its callers are writers themselves)"
	}
	if depth >= 4 {
		return false, "undecided: the pair (" + kd + ", " + vd + ") is handed down through more than 4 functions"
	}
	if !c14FromOutside(kd) || !c14FromOutside(vd) {
		return false, "(" + kd + ", " + vd + ") in " + FuncName(fn) + " is neither the chain read from storage under that key nor a pair written to storage"
	}
	sites, escape := w.callersOf(fn)
	if escape != "" {
		return false, "undecided: " + FuncName(fn) + " receives the pair from its callers, and " + escape
	}
	if len(sites) == 0 {
		return false, "undecided: " + FuncName(fn) + " receives the pair (" + kd + ", " + vd + ") from its callers, none of which is in the module"
	}
	var whys []string
	for _, cs := range sites {
		caller := cs.Parent()
		args := CallArgs(cs)
		terms := make([]string, len(args))
		for i, a := range args {
			terms[i] = r.D.D(a)
		}
		k2, okK := w.lift(kd, terms, fn, cs)
		v2, okV := w.lift(vd, terms, fn, cs)
		if !okK || !okV {
			return false, "undecided: (" + kd + ", " + vd + ") of " + FuncName(fn) + " cannot be expressed at its call site " + r.Where(cs)
		}
		ok, why := w.decide(caller, cs, k2, v2, depth+1)
		if !ok {
			return false, "via " + FuncName(fn) + " called at " + r.Where(cs) + ": " + why
		}
		whys = append(whys, why)
	}
	sort.Strings(whys)
	return true, strings.Join(uniqStrings(whys), "; ")
}

func uniqStrings(xs []string) []string {
	var out []string
	for i, x := range xs {
		if i == 0 || x != xs[i-1] {
			out = append(out, x)
		}
	}
	return out
}

// callersOf: every call site of fn in the module (static call / go / defer, calls of the closure
// made from fn, interface invocations that can dispatch to fn); escape != "" when fn is also used
// in a way whose calls cannot be enumerated.
func (w *c14Writers) callersOf(fn *ssa.Function) (sites []ssa.CallInstruction, escape string) {
	r := w.r
	isMethod := fn.Signature.Recv() != nil
	if fn.Parent() == nil && fn.Object() != nil && fn.Object().Exported() && (!isMethod || exportedRecv(fn)) {
		pk := fnPkg(fn)
		if pk != nil && !strings.Contains(pk.Path(), "/internal/") && pk.Name() != "main" {
			escape = "it is exported: callers outside the module are unknown"
		}
	}
	scan := func(g *ssa.Function) {
		eachInstr(g, func(in ssa.Instruction) {
			var call *ssa.CallCommon
			if ci, ok := in.(ssa.CallInstruction); ok {
				call = ci.Common()
				if !call.IsInvoke() && call.StaticCallee() == fn {
					sites = append(sites, ci)
				} else if call.IsInvoke() && isMethod && call.Method.Name() == fn.Name() {
					if sig, _ := call.Method.Type().(*types.Signature); sameShape(sig, fn.Signature) {
						sites = append(sites, ci)
					}
				}
			}
			for _, op := range in.Operands(nil) {
				switch x := (*op).(type) {
				case *ssa.Function:
					if x != fn {
						continue
					}
					if call != nil && !call.IsInvoke() && call.Value == ssa.Value(x) {
						continue
					}
					if mc, ok := in.(*ssa.MakeClosure); ok && mc.Fn == ssa.Value(fn) {
						for _, ref := range *mc.Referrers() {
							rc, ok := ref.(ssa.CallInstruction)
							if !ok || rc.Common().IsInvoke() || rc.Common().Value != ssa.Value(mc) {
								escape = "its closure is used as a value at " + r.Where(ref)
								continue
							}
							for _, a := range rc.Common().Args {
								if a == ssa.Value(mc) {
									escape = "its closure is passed on at " + r.Where(ref)
								}
							}
						}
						continue
					}
					escape = "it is used as a value at " + r.Where(in)
				}
			}
		})
	}
	for _, g := range r.P.ModFuncs {
		scan(g)
	}
	if fn.Parent() == nil {
		// method values / expressions / promoted methods reach fn through synthetic wrappers
		for g := range r.P.AllFuncs {
			if g.Synthetic == "" || len(g.Blocks) == 0 {
				continue
			}
			for _, b := range g.Blocks {
				for _, in := range b.Instrs {
					if ci, ok := in.(ssa.CallInstruction); ok && !ci.Common().IsInvoke() && ci.Common().StaticCallee() == fn {
						if strings.HasPrefix(g.Synthetic, "bound method wrapper") || strings.HasPrefix(g.Synthetic, "thunk") {
							if wrapperUsed(r, g) {
								escape = "it is used as a method value (" + g.Synthetic + ")"
							}
						}
					}
				}
			}
		}
	}
	return sites, escape
}

func exportedRecv(fn *ssa.Function) bool {
	t := fn.Signature.Recv().Type()
	if p, ok := t.(*types.Pointer); ok {
		t = p.Elem()
	}
	if n, ok := t.(*types.Named); ok {
		return n.Obj().Exported()
	}
	return true
}

// wrapperUsed: some module function refers to the synthetic wrapper g.
func wrapperUsed(r *Run, g *ssa.Function) bool {
	used := false
	for _, f := range r.P.ModFuncs {
		eachInstr(f, func(in ssa.Instruction) {
			for _, op := range in.Operands(nil) {
				if x, ok := (*op).(*ssa.Function); ok && x == g {
					used = true
				}
			}
		})
	}
	return used
}

// lift restates a term of fn's frame at the call site cs (see c14Lift).  A captured local that is
// not a parameter copy reads `*^new:T#n` inside the closure: at a call site in the enclosing
// function it is the content `*new:T#n` of that local, provided the local is assigned exactly once
// and that assignment comes before the call site on every path (so every reader sees that value).
func (w *c14Writers) lift(t string, args []string, fn *ssa.Function, cs ssa.CallInstruction) (string, bool) {
	caller := cs.Parent()
	if c14CapturedLocal.MatchString(t) {
		if caller != fn.Parent() {
			return "", false
		}
		var loc *ssa.Alloc
		eachInstr(caller, func(in ssa.Instruction) {
			if a, ok := in.(*ssa.Alloc); ok && w.r.D.allocName(a) == t[2:] {
				loc = a
			}
		})
		if loc == nil {
			return "", false
		}
		var stores []*ssa.Store
		var scan func(f *ssa.Function)
		scan = func(f *ssa.Function) {
			eachInstr(f, func(in ssa.Instruction) {
				if st, ok := in.(*ssa.Store); ok && st.Addr == ssa.Value(loc) {
					stores = append(stores, st)
				}
			})
			for _, af := range f.AnonFuncs {
				scan(af)
			}
		}
		scan(caller)
		if len(stores) > 1 {
			// assigned more than once: what the literal reads is the assignment that reaches this
			// call site on every path, provided none may follow it (rules_t8c14.go)
			if v := c14CellAt(loc, cs); v != nil {
				return c14D(w.r, caller, v), true
			}
			return "", false
		}
		if len(stores) != 1 || stores[0].Parent() != caller {
			return "", false
		}
		sb, cb := stores[0].Block(), cs.Block()
		if sb == cb {
			for _, in := range cb.Instrs {
				if in == ssa.Instruction(stores[0]) {
					break
				}
				if in == ssa.Instruction(cs) {
					return "", false
				}
			}
		} else if !sb.Dominates(cb) {
			return "", false
		}
		return "*" + t[2:], true
	}
	return c14Lift(t, args, caller == fn.Parent())
}

// c14FromOutside: the term is built only from the function's own parameters / captures and pure
// operations on them (conversions, slicing, static calls), i.e. it can be restated at a call site.
func c14FromOutside(t string) bool {
	if c14Captured(t) != "" || (c14CapturedLocal.MatchString(t)) {
		return true
	}
	for _, bad := range []string{"new:", "phi(", "φ", "it@", "g:", "fv:", "…", "opaque", "(~", "dyn(", "iface(", "*", "^", "&"} {
		if strings.Contains(t, bad) {
			return false
		}
	}
	return len(c14ParamTokens(t)) > 0
}

// c14Captured: for a term that is wholly a value of the enclosing function's frame (a captured
// variable read `*^&(T)`, or the argument of a literal called where it is written `^T`) the term T.
func c14Captured(t string) string {
	inner := ""
	switch {
	case strings.HasPrefix(t, "*^&(") && strings.HasSuffix(t, ")") && closesAtEnd(t, 3):
		inner = t[4 : len(t)-1]
	case strings.HasPrefix(t, "^"):
		inner = t[1:]
	default:
		return ""
	}
	if strings.Contains(inner, "^") {
		return ""
	}
	return inner
}

// closesAtEnd: the parenthesis opened at t[i] is closed by the last byte of t.
func closesAtEnd(t string, i int) bool {
	depth := 0
	for j := i; j < len(t); j++ {
		switch t[j] {
		case '(':
			depth++
		case ')':
			depth--
			if depth == 0 {
				return j == len(t)-1
			}
		}
	}
	return false
}

// c14ParamTokens: the positions [start, end) of parameter tokens pN in an origin term.
func c14ParamTokens(t string) [][2]int {
	var out [][2]int
	isWord := func(c byte) bool {
		return c == '_' || c == '$' || c == '#' || c == '.' || c == ':' || c == '/' || c == '"' || (c >= '0' && c <= '9') || (c >= 'a' && c <= 'z') || (c >= 'A' && c <= 'Z') || c >= 0x80
	}
	inStr := false
	for i := 0; i < len(t); i++ {
		if t[i] == '"' && (i == 0 || t[i-1] != '\\') {
			inStr = !inStr
			continue
		}
		if inStr || t[i] != 'p' || (i > 0 && isWord(t[i-1])) {
			continue
		}
		j := i + 1
		for j < len(t) && t[j] >= '0' && t[j] <= '9' {
			j++
		}
		if j == i+1 {
			continue
		}
		if j < len(t) && isWord(t[j]) && t[j] != '.' {
			continue
		}
		out = append(out, [2]int{i, j})
		i = j - 1
	}
	return out
}

// c14Lift restates a callee-frame term at a call site: parameters become the call's arguments;
// a captured value keeps its term when the call site is in the enclosing function.
func c14Lift(t string, args []string, callerIsParent bool) (string, bool) {
	if inner := c14Captured(t); inner != "" {
		return inner, callerIsParent
	}
	toks := c14ParamTokens(t)
	var sb strings.Builder
	last := 0
	for _, tk := range toks {
		n := 0
		fmt.Sscanf(t[tk[0]+1:tk[1]], "%d", &n)
		if n >= len(args) {
			return "", false
		}
		sb.WriteString(t[last:tk[0]])
		sb.WriteString(args[n])
		last = tk[1]
	}
	sb.WriteString(t[last:])
	return sb.String(), true
}
